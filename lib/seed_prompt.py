#!/usr/bin/env python3
"""Print the prompt for a fresh bug-seeding sub-agent: only the property text + its scratch worktree."""
import json, sys
pid, wt, hint = sys.argv[1], sys.argv[2], (sys.argv[3] if len(sys.argv) > 3 else "")
p = next(json.loads(l) for l in open('/verif/properties.jsonl') if json.loads(l)['id'] == pid)
anch = p['anchors']
print(f"""You are helping to evaluate a verification tool by acting as a careful "bug seeder". You have your own scratch git worktree of the Go repository dominikh/go-tools (Staticcheck) at {wt}. Work ONLY inside {wt} (do not read or touch /verif or /repo; the sandbox is offline; use the default `go` with env GOFLAGS=-mod=mod GOPROXY=off, and do not set GOSUMDB or GOTOOLCHAIN; the machine is shared and busy: use `go build -p 4`, `go test -p 4`, and run only the test packages you need).

The following semantic property of the code base is supposed to hold:

  {pid} "{p['title']}": {p['statement']}
  Quantifier: {p['quantifier']['text']}
  Anchors: files {', '.join(anch.get('files', []))}; mechanisms: {'; '.join(m['name'] + ' (' + m['where'] + ')' for m in anch.get('mechanism', []))}. Observable at: {'; '.join(anch.get('observe_at', []))}.

TASK: write ONE realistic change to the repository's production code (the kind of regression a plausible refactoring, optimisation or "cleanup" could introduce) that BREAKS this property while the code still compiles (`go build ./...`) and the existing test suite still passes (run at least the tests of every package you touched and of the packages that directly exercise it, e.g. `go test -vet=off -count=1 -p 4 <pkgs>`; do not edit or delete existing tests or testdata; files guarded by the build tag `verif` are instrumentation — do not touch them). The breakage must need something specific to manifest — a particular interleaving, a crash or fault at a particular point, a multi-step sequence of operations, an unusual input, or two cooperating sites that each look fine alone — not something ordinary use would expose at once. Prefer a subtle semantic slip over crude sabotage. {hint}

Then write a DEMONSTRATION: a Go test file (name it `seed_demo_test.go`, test function names starting with `TestSeed`, placed in the package it tests) or a small program + `demo.sh` script that FAILS with your change and PASSES on the original code — verify both (`git diff > {wt}/_seed/patch.diff; git checkout -- <files>; run; git apply {wt}/_seed/patch.diff; run`).

Leave in {wt}/_seed/ : `patch.diff` (`git diff` of the production-code change only, applicable with `git apply` at the repo root), a copy of the demonstration file(s), and `meta.json` = {{"property":"{pid}","summary":"<what the change does>","needs":"<what it needs in order to manifest>","demo":"<how to run the demo>","demo_dir":"<package directory the *_test.go demo belongs in, relative to the repo root, or empty if demo.sh>","tests_run":"<exact commands you ran and their result>"}}. Leave the worktree with your change applied. Reply with a 5-line summary.""")
