#!/usr/bin/env python3
"""Regenerates /verif/MANIFEST.json from lib/registry.json (claimed checks) and the fixed
property list: every property that has no registered check is listed under not_applicable
with the reason recorded in the registry (or 'not yet built')."""
import json
import os
import subprocess

V = os.path.dirname(os.path.dirname(os.path.abspath(__file__)))
reg = json.load(open(os.path.join(V, "lib", "registry.json")))
props = [json.loads(l)["id"] for l in open(os.path.join(V, "properties.jsonl"))]
# per-property fragments checks/<ID>.registry.json (written last by whoever builds the check)
import glob
for f in sorted(glob.glob(os.path.join(V, "checks", "C*.registry.json"))):
    pid = os.path.basename(f).split(".")[0]
    frag = json.load(open(f))
    if "not_applicable" in frag:
        reg["not_applicable"][pid] = frag["not_applicable"]
        reg["checks"].pop(pid, None)
    else:
        reg["checks"][pid] = frag
for e in reg["engines"]:
    e["serves_properties"] = sorted(reg["checks"])

checks = []
for pid in props:
    c = reg["checks"].get(pid)
    if not c:
        continue
    checks.append({
        "property_id": pid,
        "quick_cmd": "bin/check %s --tier quick" % pid,
        "thorough_cmd": "bin/check %s --tier thorough" % pid,
        "evidence_file": "evidence/%s.json" % pid,
        "replay_cmd_template": "bin/check %s --replay {path}" % pid,
        "engine": c["engine"],
        "level_claimed": {"category": c["level"], "text": c["text"], "design_ref": c["design_ref"]},
        "level_note": c["note"],
        "technique": c["technique"],
    })
na = []
for pid in props:
    if pid in reg["checks"]:
        continue
    na.append({"property_id": pid, "reason": reg["not_applicable"].get(pid, "no check registered yet: the TLA+ module and its conformance binding for this property are still being built (see DESIGN.md section 4)")})

hooks = reg["hooks"]
try:
    out = subprocess.run(["git", "-C", "/repo", "log", "--format=%H %s"], capture_output=True, text=True).stdout
    hooks["source_commits"] = [l.split()[0] for l in out.splitlines() if l.split(" ", 1)[1].startswith("verif:")]
except Exception:
    pass
m = {"version": 1, "setup_cmd": reg["setup_cmd"], "hooks": hooks, "engines": reg["engines"], "checks": checks,
     "notes": reg["notes"], "not_applicable": na}
json.dump(m, open(os.path.join(V, "MANIFEST.json"), "w"), indent=1)
print("MANIFEST.json: %d checks, %d not_applicable" % (len(checks), len(na)))
