#!/bin/bash
# lib/run_tiers.sh <tier> <ID>... : run the given checks sequentially, one summary line each (for vp run / background use)
T=$1; shift
for id in "$@"; do
  s=$(date +%s)
  out=$(bin/check $id --tier $T 2>&1)
  rc=$?
  echo "$id tier=$T rc=$rc wall=$(( $(date +%s) - s ))s :: $(echo "$out" | grep -E '^(VIOLATION|INCONCLUSIVE|KNOWN-FINDING)' | head -5 | cut -c1-300 | tr '\n' '|')"
done
