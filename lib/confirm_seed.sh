#!/bin/bash
# lib/confirm_seed.sh <seeded/ID dir> [test packages...]
# Confirms a seeded change in a fresh scratch worktree of /repo: the patch applies, the tree builds, the named
# test packages pass with the change, the demonstration (a *_test.go named in meta.json "demo_test"/copied next to
# the package it names, or demo.sh) fails WITH the change and passes WITHOUT it. Appends the outcome to
# <dir>/confirm.log. The worktree is removed afterwards.
set -u
D=$(realpath "$1"); shift
PKGS="$@"
WT=$(mktemp -d /tmp/confirm-seed-XXXXXX); rmdir "$WT"
export GOFLAGS=-mod=mod GOPROXY=off
git -C /repo worktree add --detach "$WT" HEAD -q || exit 2
log() { echo "$@" | tee -a "$D/confirm.log"; }
log "== $(date -u +%FT%TZ) confirm $(basename $D) at $(git -C /repo rev-parse --short HEAD)"
cd "$WT"
place_demo() { # copy demo test files into the package dir named by their 'package' clause heuristics: meta.json demo_dir
  local dir; dir=$(python3 -c "import json;print(json.load(open('$D/meta.json')).get('demo_dir',''))")
  for f in "$D"/*_test.go; do [ -f "$f" ] && [ -n "$dir" ] && cp "$f" "$WT/$dir/"; done
  echo "$dir"
}
DEMODIR=$(place_demo)
run_demo() {
  if [ -n "$DEMODIR" ]; then (cd "$WT" && go test -vet=off -count=1 -run 'Seed' "./$DEMODIR/" >/tmp/$$.demo 2>&1); rc=$?
  elif [ -f "$D/demo.sh" ]; then (cd "$WT" && bash "$D/demo.sh" >/tmp/$$.demo 2>&1); rc=$?
  else rc=99; fi
  tail -3 /tmp/$$.demo | sed 's/^/    /' >> "$D/confirm.log"; rm -f /tmp/$$.demo; return $rc
}
run_demo; log "demo on original tree: rc=$? (expect 0)"
git apply "$D/patch.diff" || { log "PATCH DOES NOT APPLY"; cd /; git -C /repo worktree remove --force "$WT"; exit 1; }
go build ./... >/dev/null 2>&1; log "go build ./... with change: rc=$? (expect 0)"
if [ -n "$PKGS" ]; then
  # existing tests only: move the demo away while they run
  for f in "$D"/*_test.go; do [ -f "$f" ] && [ -n "$DEMODIR" ] && rm -f "$WT/$DEMODIR/$(basename $f)"; done
  go test -vet=off -count=1 $PKGS >/tmp/$$.t 2>&1; log "existing tests ($PKGS) with change: rc=$? (expect 0)"; grep -E "^(FAIL|---)" /tmp/$$.t | head -5 >> "$D/confirm.log"; rm -f /tmp/$$.t
  place_demo >/dev/null
fi
run_demo; log "demo with change: rc=$? (expect non-zero)"
cd /; git -C /repo worktree remove --force "$WT"
