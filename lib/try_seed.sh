#!/bin/bash
# lib/try_seed.sh <PROPERTY> <seed name> <worktree with the change applied> : store the seed under seeded/<name>/ and
# run the property's quick check against the worktree; the verdict is appended to seeded/<name>/check.log
P=$1; N=$2; WT=$3
mkdir -p /verif/seeded/$N && cp -r $WT/_seed/* /verif/seeded/$N/ 2>/dev/null
V=${VERIF_SNAP:-/verif}; cd $V
OUT=$(VERIF_REPO=$WT bin/check $P 2>&1 | grep -E "^(VIOLATION|KNOWN-FINDING|INCONCLUSIVE|RESULT|  what)" | head -12)
{ echo "== $(date -u +%FT%TZ) VERIF_REPO=$WT bin/check $P (verif $(git rev-parse --short HEAD))"; echo "$OUT"; } >> /verif/seeded/$N/check.log
rm -rf $V/replays/$P
git checkout -- evidence/$P.json 2>/dev/null
echo "$N: $(echo "$OUT" | grep RESULT)"
