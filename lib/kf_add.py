#!/usr/bin/env python3
"""Append one entry to /verif/known_findings.json under a file lock (several builders may run).
usage: kf_add.py '<json object>'   e.g. {"property":"C05","key":"...","match":{...},"what":"..."}
       or {"fixed":true,"property":"C09","commit":"<sha>","what":"fixed: property=C09 <sha> ..."}"""
import fcntl, json, os, sys
p = os.path.join(os.path.dirname(os.path.dirname(os.path.abspath(__file__))), "known_findings.json")
e = json.loads(sys.argv[1])
assert "property" in e and "what" in e
with open(p, "r+") as f:
    fcntl.flock(f, fcntl.LOCK_EX)
    cur = json.load(f)
    cur.append(e)
    f.seek(0); f.truncate()
    json.dump(cur, f, indent=1); f.write("\n")
print("added; %d entries" % len(cur))
