#!/bin/bash
# lib/run_seed.sh <seed name> [tier] : apply seeded/<name>/patch.diff in a fresh scratch worktree of /repo, run the
# property's check against it (VERIF_REPO), append the verdict to seeded/<name>/check.log, remove the worktree.
N=$1; T=${2:-quick}
D=/verif/seeded/$N
P=$(python3 -c "import json;print(json.load(open('$D/meta.json'))['property'])")
WT=$(mktemp -d /tmp/runseed-XXXXXX); rmdir $WT
git -C /repo worktree add --detach $WT HEAD -q || exit 2
git -C $WT apply $D/patch.diff || { echo "$N: PATCH DOES NOT APPLY"; git -C /repo worktree remove --force $WT; exit 2; }
cd /verif
cp evidence/$P.json /tmp/ev-$$-$P.json 2>/dev/null
OUT=$(VERIF_REPO=$WT bin/check $P --tier $T 2>&1 | grep -E "^(VIOLATION|KNOWN-FINDING|INCONCLUSIVE|RESULT|  what)" | head -12)
{ echo "== $(date -u +%FT%TZ) VERIF_REPO=<worktree with patch> bin/check $P --tier $T (verif $(git rev-parse --short HEAD), repo $(git -C /repo rev-parse --short HEAD))"; echo "$OUT" | cut -c1-400; } >> $D/check.log
cp /tmp/ev-$$-$P.json evidence/$P.json 2>/dev/null; rm -f /tmp/ev-$$-$P.json
rm -rf /verif/replays/$P; git -C /repo worktree remove --force $WT
echo "$N: $(echo "$OUT" | grep RESULT)"
