"""Shared orchestration library for the /verif checks.

Every check is a Python module /verif/checks/<ID>.py exposing `run(ctx)`; `bin/check <ID>`
dispatches to it through checks/run.py.  This library provides:

  * Ctx            tier / seed / scratch dir / evidence + replay + verdict bookkeeping
  * run_tlc        run TLC on a scratch copy of /verif/specs under `timeout`, parse stats and
                   `CASE <json>` lines printed by PrintT from an invariant
  * go_build_*     rebuild helpers / repo commands from /repo's *current working tree*
  * known findings handling (known_findings.json is read-only at run time)

Verdict policy (DESIGN.md 1.2):
  exit 0  property held on everything explored
  exit 1  `VIOLATION property=<id> replay=<path>` (only from real-code behaviour)
  exit 2  `INCONCLUSIVE ...` (infrastructure: TLC failure, build failure, timeout, dead driver)
"""
import hashlib
import json
import os
import random
import re
import shutil
import subprocess
import sys
import tempfile
import time

VERIF = os.path.dirname(os.path.dirname(os.path.abspath(__file__)))
REPO = os.environ.get("VERIF_REPO", "/repo")
SPECS = os.path.join(VERIF, "specs")
HARNESS = os.path.join(VERIF, "harness")
TLA_JAR = "/opt/veriftools/tla/tla2tools.jar"
NCPU = os.cpu_count() or 4


class Inconclusive(Exception):
    pass


def go_env(extra=None):
    env = dict(os.environ)
    env["GOFLAGS"] = "-mod=mod"
    env["GOPROXY"] = "off"
    # GOSUMDB=off / GOTOOLCHAIN=local break the offline switch to the cached go1.26.0 toolchain
    env.pop("GOSUMDB", None)
    if env.get("GOTOOLCHAIN") == "local":
        env.pop("GOTOOLCHAIN")
    env.setdefault("GOCACHE", os.path.expanduser("~/.cache/go-build"))
    if extra:
        env.update(extra)
    return env


def sh(cmd, cwd=None, env=None, timeout=None, input=None, check=False):
    """Run a command, return (rc, stdout, stderr) as text."""
    p = subprocess.run(cmd, cwd=cwd, env=env, timeout=timeout, input=input,
                       stdout=subprocess.PIPE, stderr=subprocess.PIPE, text=True,
                       shell=isinstance(cmd, str))
    if check and p.returncode != 0:
        raise Inconclusive("command failed (%d): %s\n%s\n%s" % (p.returncode, cmd, p.stdout[-2000:], p.stderr[-4000:]))
    return p.returncode, p.stdout, p.stderr


def canon_key(obj):
    """Canonical key of an abstract case: sha1 of its sorted-key JSON."""
    return hashlib.sha1(json.dumps(obj, sort_keys=True, separators=(",", ":")).encode()).hexdigest()[:16]


class Ctx:
    def __init__(self, pid, tier, seed, replay=None):
        self.pid = pid
        self.tier = tier
        self.seed = seed
        self.replay = replay
        self.rng = random.Random(seed)
        self.t0 = time.time()
        self.scratch = tempfile.mkdtemp(prefix="verif-%s-" % pid)
        self.violations = []      # list of replay paths
        self.known_hits = {}      # key -> what
        self.coverage = {}
        self.assumptions = []
        self.level = "model_checking"
        self.notes = []
        self._known = load_known_findings(pid)

    # --- scratch -----------------------------------------------------------------------
    def tmp(self, name):
        p = os.path.join(self.scratch, name)
        os.makedirs(p, exist_ok=True)
        return p

    def cleanup(self):
        shutil.rmtree(self.scratch, ignore_errors=True)

    @property
    def quick(self):
        return self.tier == "quick"

    # --- verdicts ----------------------------------------------------------------------
    def violation(self, key, what, case):
        """Report a property-level failure observed on real code.

        key   canonical key of the abstract failing case (matched against known_findings.json)
        what  one-line description
        case  JSON-able dict with everything needed to replay (`bin/check <id> --replay f`)
        Returns True if it is a new violation, False if it is a listed known finding.
        """
        for kf in self._known:
            if kf.get("fixed"):
                continue
            if kf_matches(kf, key, case):
                if kf["key"] not in self.known_hits:
                    self.known_hits[kf["key"]] = kf.get("what", what)
                    print("KNOWN-FINDING: property=%s %s" % (self.pid, kf.get("what", what)), flush=True)
                return False
        d = os.path.join(VERIF, "replays", self.pid)
        os.makedirs(d, exist_ok=True)
        path = os.path.join(d, "%s.json" % key)
        doc = {"property": self.pid, "tier": self.tier, "seed": self.seed, "key": key, "what": what, "case": case}
        with open(path, "w") as f:
            json.dump(doc, f, indent=1, sort_keys=True)
        if path not in self.violations:
            self.violations.append(path)
            print("VIOLATION property=%s replay=%s" % (self.pid, path), flush=True)
            print("  what: %s" % what, flush=True)
        return True

    def note(self, s):
        self.notes.append(s)
        print("note: " + s, flush=True)

    def write_evidence(self):
        cov = dict(self.coverage)
        if self.notes:
            cov["notes"] = self.notes[:50]
        if self.known_hits:
            cov["known_findings_hit"] = sorted(self.known_hits)
        doc = {
            "property_id": self.pid,
            "tier": self.tier,
            "seed": self.seed,
            "level": self.level,
            "coverage": cov,
            "assumptions": self.assumptions,
            "wall_s": round(time.time() - self.t0, 2),
            "violations": len(self.violations),
        }
        os.makedirs(os.path.join(VERIF, "evidence"), exist_ok=True)
        with open(os.path.join(VERIF, "evidence", "%s.json" % self.pid), "w") as f:
            json.dump(doc, f, indent=1, sort_keys=True)
            f.write("\n")


# --- known findings ---------------------------------------------------------------------

def load_known_findings(pid):
    p = os.path.join(VERIF, "known_findings.json")
    if not os.path.exists(p):
        return []
    with open(p) as f:
        allk = json.load(f)
    return [k for k in allk if k.get("property") == pid]


def kf_matches(kf, key, case):
    """A known finding matches by exact canonical key, or by a `match` dict whose every
    (field -> value) pair equals the corresponding field of the failing case (used to name a
    specific input / call site / schedule shape rather than one hash)."""
    if kf.get("key") == key:
        return True
    m = kf.get("match")
    if m and isinstance(case, dict):
        return all(case.get(k) == v for k, v in m.items())
    return False


# --- TLC ---------------------------------------------------------------------------------

_GEN_RE = re.compile(r"(\d+) states generated, (\d+) distinct states found")


class TLCResult:
    def __init__(self):
        self.rc = None
        self.generated = 0
        self.distinct = 0
        self.cases = []
        self.out = ""
        self.violated = None       # name of violated invariant / property, if any
        self.error = None
        self.wall = 0.0
        self.coverage_zero = []
        self.dir = None


def decode_case_line(line):
    """`"CASE {json}"` as printed by PrintT(...) -> python object (or None)."""
    line = line.strip()
    if not line.startswith('"CASE '):
        return None
    try:
        inner = json.loads(line)
    except Exception:
        return None
    return json.loads(inner[len("CASE "):])


def run_tlc(ctx, module, cfg=None, workers=None, timeout=600, simulate=None, depth=None,
            extra_files=None, coverage=False, heap=None, dfs=False, keep_cases=True,
            extra_args=None, case_prefix="CASE ", seed=None, deadlock=None):
    """Run TLC on a scratch copy of /verif/specs.

    module       module name (file specs/<module>.tla)
    cfg          config file name within specs/ (default <module>.cfg)
    simulate     None or "num=N" style argument for -simulate
    extra_files  {name: text} written next to the specs (e.g. recorded traces, MC constants)
    Returns TLCResult. Raises Inconclusive on JVM / parse / timeout problems.
    """
    r = TLCResult()
    d = tempfile.mkdtemp(prefix="tlc-", dir=ctx.scratch)
    r.dir = d
    for f in os.listdir(SPECS):
        if f.endswith((".tla", ".cfg")):
            shutil.copy(os.path.join(SPECS, f), d)
    for name, text in (extra_files or {}).items():
        mode = "wb" if isinstance(text, bytes) else "w"
        with open(os.path.join(d, name), mode) as f:
            f.write(text)
    cfg = cfg or (module + ".cfg")
    w = workers or min(NCPU, 12)
    cmd = ["timeout", str(timeout), "java"]
    cmd.append("-Xmx" + (heap or "6g"))
    cmd += ["-Xss512m", "-XX:+UseParallelGC"]
    if dfs:
        cmd.append("-Dtlc2.tool.queue.IStateQueue=StateDeque")
    cmd += ["-cp", TLA_JAR + ":" + os.path.join(os.path.dirname(TLA_JAR), "CommunityModules-deps.jar"),
            "tlc2.TLC", "-metadir", os.path.join(d, "meta"), "-workers", str(w), "-config", cfg]
    if simulate:
        cmd += ["-simulate", simulate]
    if depth:
        cmd += ["-depth", str(depth)]
    if coverage:
        cmd += ["-coverage", "1"]
    if seed is not None:
        cmd += ["-seed", str(seed)]
    if deadlock is False:
        cmd += ["-deadlock"]
    if extra_args:
        cmd += list(extra_args)
    cmd.append(module + ".tla")
    t0 = time.time()
    outpath = os.path.join(d, "tlc.out")
    with open(outpath, "w") as fo:
        p = subprocess.run(cmd, cwd=d, stdout=fo, stderr=subprocess.STDOUT)
    r.wall = time.time() - t0
    r.rc = p.returncode
    cases = []
    tail = []
    with open(outpath, errors="replace") as f:
        for line in f:
            if line.startswith('"' + case_prefix):
                if keep_cases:
                    try:
                        inner = json.loads(line.strip())
                        cases.append(json.loads(inner[len(case_prefix):]))
                    except Exception as e:  # malformed line: infrastructure
                        raise Inconclusive("cannot decode TLC case line: %r (%s)" % (line[:200], e))
                continue
            tail.append(line)
            if len(tail) > 4000:
                del tail[:2000]
            m = _GEN_RE.search(line)
            if m:
                r.generated, r.distinct = int(m.group(1)), int(m.group(2))
            m2 = re.search(r"Invariant (\S+) is violated", line)
            if m2:
                r.violated = m2.group(1)
            m3 = re.search(r"(Temporal properties were violated|Deadlock reached|Action property (\S+) is violated|Postcondition.*violated|Non-trivial POSTCONDITION.*false)", line)
            if m3 and not r.violated:
                r.violated = m3.group(1)
            if coverage:
                m4 = re.match(r"\s*<(\w+) line .*>: (\d+):(\d+)", line)
                if m4 and m4.group(2) == "0" and m4.group(3) == "0":
                    r.coverage_zero.append(m4.group(1))
    r.cases = cases
    r.out = "".join(tail)
    if r.rc == 124:
        raise Inconclusive("TLC timed out after %ss on %s/%s" % (timeout, module, cfg))
    if r.rc not in (0, 12, 13, 10, 11, 14) and not r.violated:
        # 12 = safety violation, 13 = liveness violation, 10 = assumption, 11 = deadlock
        raise Inconclusive("TLC failed rc=%s on %s/%s:\n%s" % (r.rc, module, cfg, r.out[-3000:]))
    if r.rc != 0 and not r.violated:
        r.violated = "rc=%d" % r.rc
    return r


def tlc_require_ok(r, what):
    """A violated invariant on the *model* is never a VIOLATION by itself (DESIGN 1.2)."""
    if r.violated:
        raise Inconclusive("TLC reports %s on the model (%s); model-level counterexample, not a verdict:\n%s"
                           % (r.violated, what, r.out[-3000:]))


# --- building from /repo's working tree ---------------------------------------------------

def go_build_harness(ctx, pkg, name=None, tags="verif", race=False, test=False):
    """Build /verif/harness/<pkg> (linked against /repo via replace) into scratch."""
    name = name or os.path.basename(pkg)
    out = os.path.join(ctx.tmp("bin"), name)
    if test:
        cmd = ["go", "test", "-c", "-vet=off"]
    else:
        cmd = ["go", "build"]
    if tags:
        cmd += ["-tags", tags]
    if race:
        cmd.append("-race")
    cmd += ["-o", out, "./" + pkg]
    hdir = HARNESS
    if os.path.realpath(REPO) != "/repo":
        # scratch-worktree mode (VERIF_REPO=<dir>): private copy of the harness with the replace redirected
        hdir = os.path.join(ctx.scratch, "harness-copy")
        if not os.path.exists(hdir):
            shutil.copytree(HARNESS, hdir)
            gm = open(os.path.join(hdir, "go.mod")).read().replace("=> /repo", "=> " + os.path.realpath(REPO))
            open(os.path.join(hdir, "go.mod"), "w").write(gm)
    rc, so, se = sh(cmd, cwd=hdir, env=go_env(), timeout=1500)
    if rc != 0:
        raise Inconclusive("harness build failed: %s\n%s" % (" ".join(cmd), (so + se)[-6000:]))
    return out


def go_build_repo(ctx, pkg, name=None, tags="verif", race=False):
    """Build a command of /repo (e.g. ./cmd/staticcheck) from the current working tree."""
    name = name or os.path.basename(pkg)
    out = os.path.join(ctx.tmp("bin"), name + ("-race" if race else ""))
    cmd = ["go", "build"]
    if tags:
        cmd += ["-tags", tags]
    if race:
        cmd.append("-race")
    cmd += ["-o", out, pkg]
    rc, so, se = sh(cmd, cwd=REPO, env=go_env(), timeout=1500)
    if rc != 0:
        raise Inconclusive("repo build failed: %s\n%s" % (" ".join(cmd), (so + se)[-6000:]))
    return out


def repo_head():
    rc, so, _ = sh(["git", "-C", REPO, "rev-parse", "--short", "HEAD"])
    return so.strip()


def pmap(fn, items, workers=None):
    """Thread-pool map (children are processes, so threads suffice)."""
    from concurrent.futures import ThreadPoolExecutor
    with ThreadPoolExecutor(max_workers=workers or NCPU) as ex:
        return list(ex.map(fn, items))


def sample(ctx, items, n):
    """Seeded sample of at most n items (stable order)."""
    items = list(items)
    if len(items) <= n:
        return items
    idx = sorted(ctx.rng.sample(range(len(items)), n))
    return [items[i] for i in idx]
