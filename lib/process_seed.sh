#!/bin/bash
# lib/process_seed.sh <PROPERTY> <seed name> <worktree left by the seeding agent> [test packages...]
# 1. store the seed under seeded/<name>/, 2. confirm it independently in a fresh worktree (lib/confirm_seed.sh),
# 3. run the property's quick check against the agent's worktree (lib/try_seed.sh). Output: one summary per step.
P=$1; N=$2; WT=$3; shift 3
mkdir -p /verif/seeded/$N && cp -r $WT/_seed/* /verif/seeded/$N/
find $WT -name 'seed_demo*_test.go' -not -path '*/_seed/*' -delete
/verif/lib/confirm_seed.sh /verif/seeded/$N "$@" | tail -5
/verif/lib/try_seed.sh $P $N $WT
