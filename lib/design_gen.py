#!/usr/bin/env python3
"""Rebuilds section 11 ("As built") of DESIGN.md between the AS-BUILT markers from
lib/asbuilt_head.md (summary, hand-written) + checks/<ID>.notes.md (one subsection per property,
written by whoever built the check) + seeded/*/meta.json (table of seeded changes and which check caught them)."""
import glob, json, os, re
V = os.path.dirname(os.path.dirname(os.path.abspath(__file__)))
d = open(os.path.join(V, "DESIGN.md")).read()
B, E = "<!-- BEGIN AS-BUILT -->", "<!-- END AS-BUILT -->"
head = open(os.path.join(V, "lib", "asbuilt_head.md")).read()
parts = [head]
# seeded changes table
rows = []
for m in sorted(glob.glob(os.path.join(V, "seeded", "*", "meta.json"))):
    name = os.path.basename(os.path.dirname(m))
    j = json.load(open(m))
    log = os.path.join(os.path.dirname(m), "check.log")
    verdicts = []
    if os.path.exists(log):
        # one block per run of the check against the change ("== <date> ..." header, then VIOLATION / RESULT lines)
        blocks = re.split(r"^== ", open(log).read(), flags=re.M)
        for b in blocks:
            if not b.strip():
                continue
            if "MISSED" in b or re.search(r"RESULT .*rc=0", b):
                verdicts.append("missed")
            elif "VIOLATION" in b or re.search(r"RESULT .*rc=1", b):
                verdicts.append("caught")
            elif re.search(r"RESULT .*rc=2", b) or "INCONCLUSIVE" in b:
                verdicts.append("inconclusive")
    if not verdicts:
        outcome = "not yet run"
    elif verdicts[-1] == "caught":
        outcome = "caught" + (" after strengthening the check (first %s)" % verdicts[0] if verdicts[0] != "caught" else "")
    else:
        outcome = "**%s**" % verdicts[-1] + (" (%d runs)" % len(verdicts) if len(verdicts) > 1 else "")
    rows.append("| %s | %s | %s | %s | %s |" % (name, j.get("property", ""), j.get("summary", "").replace("|", "/").replace("\n", " ")[:300],
                                          j.get("needs", "").replace("|", "/").replace("\n", " ")[:200], j.get("caught", outcome)))
parts.append("\n### 11.1 Seeded property-breaking changes (written by fresh sub-agents that saw only the property text)\n\n"
             "Each is stored under `seeded/<name>/` (patch.diff, demonstration, meta.json, confirm.log = independent confirmation that it "
             "compiles, passes the existing tests and that the demonstration fails with / passes without the change, check.log = verdicts of our check).\n\n"
             "| seed | property | change | needs | outcome |\n|---|---|---|---|---|\n" + "\n".join(rows) + "\n")
for f in sorted(glob.glob(os.path.join(V, "checks", "C*.notes.md"))):
    pid = os.path.basename(f).split(".")[0]
    body = open(f).read().strip()
    body = re.sub(r"^# .*\n", "", body, count=1)            # drop the file's own H1
    body = re.sub(r"^(#+) ", lambda m: "#" * (len(m.group(1)) + 2) + " ", body, flags=re.M)  # demote headings
    parts.append("\n### 11.%s (from checks/%s.notes.md)\n\n%s\n" % (pid, pid, body))
new = B + "\n" + "\n".join(parts) + "\n" + E
if B in d:
    d = d[:d.index(B)] + new + d[d.index(E) + len(E):]
else:
    i = d.index("## 11. As built")
    d = d[:i] + "## 11. As built\n\n" + new + "\n"
open(os.path.join(V, "DESIGN.md"), "w").write(d)
print("DESIGN.md section 11 rebuilt: %d notes, %d seeds" % (len(parts) - 2, len(rows)))
