---- MODULE MCIR ----
EXTENDS IRBuild
\* two package builders that instantiate the same generic g1; g1's body needs wrapper g2, which b2 also needs directly;
\* b3 is an on-demand MethodValue caller needing g2. Mutual waits arise when b1 creates g1 and b2 creates g2.
MCBuilders == {"b1","b2","b3"}
MCShared == {"g1","g2"}
MCRoot == [b \in MCBuilders |-> "root_" \o b]
MCRefs == [f \in {"root_b1","root_b2","root_b3","g1","g2"} |->
            CASE f = "root_b1" -> <<"g1">>
              [] f = "root_b2" -> <<"g2","g1">>
              [] f = "root_b3" -> <<"g2">>
              [] f = "g1" -> <<"g2">>
              [] f = "g2" -> <<"g1">> ]
====
