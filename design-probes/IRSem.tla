------------------------------- MODULE IRSem -------------------------------
(* Feasibility probe: small-step meaning of a go/ir fragment, executed by TLC *)
(* on IR exported from the real builder.                                      *)
EXTENDS Integers, Sequences, FiniteSets, TLC, Json

Prog == JsonDeserialize("prog.json").fns
IntDom == 0..3
BoolDom == {0, 1}

VARIABLES fi, args, blk, idx, prev, regs, heap, out, status, ret
vars == <<fi, args, blk, idx, prev, regs, heap, out, status, ret>>

F == Prog[fi]
ParamTypes(f) == IF f.name = "g" THEN <<IntDom, BoolDom>> ELSE <<IntDom, IntDom>>   \* probe only

IntV(i) == [t |-> "int", i |-> i, a |-> 0]
BoolV(b) == [t |-> "bool", i |-> IF b THEN 1 ELSE 0, a |-> 0]
PtrV(a) == [t |-> "ptr", i |-> 0, a |-> a]
Undef == [t |-> "undef", i |-> 0, a |-> 0]

Init ==
  /\ fi \in 1..Len(Prog)
  /\ args \in [1..2 -> 0..3]
  /\ \A j \in 1..2 : args[j] \in ParamTypes(Prog[fi])[j]
  /\ blk = 1 /\ idx = 1 /\ prev = 0
  /\ regs = [n \in {Prog[fi].vals[j] : j \in 1..Len(Prog[fi].vals)} |->
               IF \E j \in 1..Len(Prog[fi].params) : Prog[fi].params[j] = n
                 THEN LET j == CHOOSE j \in 1..Len(Prog[fi].params) : Prog[fi].params[j] = n IN
                      IF Prog[fi].name = "g" /\ j = 2 THEN BoolV(args[j] = 1) ELSE IntV(args[j])
                 ELSE Undef]
  /\ heap = <<>> /\ out = <<>> /\ status = "run" /\ ret = <<>>

Val(r) == CASE r.k = "v" -> regs[r.n]
            [] r.k = "i" -> IntV(r.i)
            [] r.k = "b" -> BoolV(r.i = 1)
            [] OTHER -> Undef

Cur == F.blocks[blk].instrs[idx]

BinOp(op, x, y) ==
  CASE op = "+" -> IntV(x.i + y.i)
    [] op = "-" -> IntV(x.i - y.i)
    [] op = "*" -> IntV(x.i * y.i)
    [] op = "%" -> IntV(x.i % y.i)
    [] op = "<" -> BoolV(x.i < y.i)
    [] op = "==" -> BoolV(x.i = y.i)
    [] op = "!=" -> BoolV(x.i # y.i)
    [] OTHER -> Undef

Goto(b) == blk' = b /\ idx' = 1 /\ prev' = blk
Adv == idx' = idx + 1 /\ UNCHANGED <<blk, prev>>
PredIndex == CHOOSE j \in 1..Len(F.blocks[blk].preds) : F.blocks[blk].preds[j] = prev

Step ==
  /\ status = "run"
  /\ LET I == Cur IN
     CASE I.op = "alloc" ->
            /\ heap' = Append(heap, IntV(0))
            /\ regs' = [regs EXCEPT ![I.id] = PtrV(Len(heap) + 1)]
            /\ Adv /\ UNCHANGED <<out, status, ret>>
       [] I.op = "store" ->
            /\ heap' = [heap EXCEPT ![Val(I.args[1]).a] = Val(I.args[2])]
            /\ Adv /\ UNCHANGED <<regs, out, status, ret>>
       [] I.op = "load" ->
            /\ regs' = [regs EXCEPT ![I.id] = heap[Val(I.args[1]).a]]
            /\ Adv /\ UNCHANGED <<heap, out, status, ret>>
       [] I.op = "binop" ->
            /\ regs' = [regs EXCEPT ![I.id] = BinOp(I.sub, Val(I.args[1]), Val(I.args[2]))]
            /\ Adv /\ UNCHANGED <<heap, out, status, ret>>
       [] I.op = "phi" ->
            /\ regs' = [regs EXCEPT ![I.id] = Val(I.args[PredIndex])]
            /\ Adv /\ UNCHANGED <<heap, out, status, ret>>
       [] I.op = "if" ->
            /\ Goto(IF Val(I.args[1]).i = 1 THEN F.blocks[blk].succs[1] ELSE F.blocks[blk].succs[2])
            /\ UNCHANGED <<regs, heap, out, status, ret>>
       [] I.op = "jump" ->
            /\ Goto(F.blocks[blk].succs[1]) /\ UNCHANGED <<regs, heap, out, status, ret>>
       [] I.op = "rundefers" -> Adv /\ UNCHANGED <<regs, heap, out, status, ret>>
       [] I.op = "call" ->
            /\ IF I.sub = "emit" THEN out' = Append(out, Val(I.args[1]).i) /\ UNCHANGED heap
               ELSE IF I.sub = "esc" THEN out' = Append(out, 1000 + heap[Val(I.args[1]).a].i) /\ UNCHANGED heap
               ELSE UNCHANGED <<out, heap>>
            /\ (IF I.id # "" THEN regs' = [regs EXCEPT ![I.id] = Undef] ELSE UNCHANGED regs)
            /\ Adv /\ UNCHANGED <<status, ret>>
       [] I.op = "return" ->
            /\ ret' = [j \in 1..Len(I.args) |-> Val(I.args[j]).i]
            /\ status' = "done" /\ UNCHANGED <<blk, idx, prev, regs, heap, out>>
  /\ UNCHANGED <<fi, args>>

Next == Step
Spec == Init /\ [][Next]_vars

\* Emit the I/O table: one line per (function, mode, input) at termination
Emit == status = "done" =>
  PrintT("IO " \o ToJson([fn |-> F.name, mode |-> F.mode, args |-> args, out |-> out, ret |-> ret]))
=============================================================================
