SPECIFICATION Spec
CONSTANTS
  Procs = {p1, p2}
  Keys = {k1}
  Vals <- MCVals
  MaxOps = 2
  Faults <- MCFaultsAll
INVARIANT LookupSound
INVARIANT SizeImpliesComplete
VIEW View
CHECK_DEADLOCK FALSE
