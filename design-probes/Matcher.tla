------------------------------ MODULE Matcher ------------------------------
(* Prototype: pattern/match.go binding discipline.                          *)
(* Den  = declarative meaning (what doc.go promises).                       *)
(* Op   = the implementation's mechanism: State map + stack of per-frame    *)
(*        name sets (setBindings), push/pop/merge, as in match.go.          *)
EXTENDS Integers, Sequences, FiniteSets, TLC

CONSTANTS Names, Idents, MergeMode, NotMode   \* MergeMode \in {"union","drop"}; NotMode \in {"frame","bare"}

\* ---------- trees (Go AST fragment): ident | bin(x, y)
T0 == {[k |-> "id", n |-> i] : i \in Idents}
Bin(S) == {[k |-> "bin", x |-> a, y |-> b] : a \in S, b \in S}
T1 == T0 \cup Bin(T0)
T2 == T0 \cup Bin(T1)

\* ---------- patterns
\* any | id(n) | bind(name, sub) | ref(name)   (x@sub, x)  | or(a,b) | not(a) | bin(a,b)
P0 == {[k |-> "any"]} \cup {[k |-> "id", n |-> i] : i \in Idents} \cup {[k |-> "ref", name |-> n] : n \in Names}
Grow(S) == S \cup {[k |-> "bind", name |-> n, sub |-> s] : n \in Names, s \in S}
             \cup {[k |-> "or", a |-> a, b |-> b] : a \in S, b \in S}
             \cup {[k |-> "not", a |-> a] : a \in S}
             \cup {[k |-> "bin", a |-> a, b |-> b] : a \in S, b \in S}
P1 == Grow(P0)

Unbound == [k |-> "unbound"]
Env0 == [n \in Names |-> Unbound]
Fail == [ok |-> FALSE, env |-> Env0, err |-> FALSE]
Err  == [ok |-> FALSE, env |-> Env0, err |-> TRUE]      \* "binding already created"
Ok(e) == [ok |-> TRUE, env |-> e, err |-> FALSE]

\* ---------- declarative semantics
RECURSIVE Den(_, _, _)
Den(p, t, env) ==
  CASE p.k = "any" -> Ok(env)
    [] p.k = "id"  -> IF t.k = "id" /\ t.n = p.n THEN Ok(env) ELSE Fail
    [] p.k = "ref" -> IF env[p.name] = Unbound THEN Ok([env EXCEPT ![p.name] = t])
                      ELSE IF env[p.name] = t THEN Ok(env) ELSE Fail
    [] p.k = "bind" -> IF env[p.name] # Unbound THEN Err
                       ELSE LET r == Den(p.sub, t, env) IN
                            IF r.err THEN r ELSE IF ~r.ok THEN Fail
                            ELSE IF r.env[p.name] # Unbound THEN Err      \* sub bound the same name
                            ELSE Ok([r.env EXCEPT ![p.name] = t])
    [] p.k = "or"  -> LET r == Den(p.a, t, env) IN
                      IF r.err \/ r.ok THEN r ELSE Den(p.b, t, env)
    [] p.k = "not" -> LET r == Den(p.a, t, env) IN
                      IF r.err THEN r ELSE IF r.ok THEN Fail ELSE Ok(env)
    [] p.k = "bin" -> IF t.k # "bin" THEN Fail
                      ELSE LET r == Den(p.a, t.x, env) IN
                           IF r.err \/ ~r.ok THEN r ELSE Den(p.b, t.y, r.env)

\* ---------- operational semantics: st = [env, fr] with fr a sequence of name sets
Push(st) == [st EXCEPT !.fr = Append(@, {})]
Pop(st)  == LET top == st.fr[Len(st.fr)] IN
            [env |-> [n \in Names |-> IF n \in top THEN Unbound ELSE st.env[n]],
             fr  |-> SubSeq(st.fr, 1, Len(st.fr) - 1)]
Merge(st) == LET top == st.fr[Len(st.fr)]
                 rest == SubSeq(st.fr, 1, Len(st.fr) - 1) IN
             [st EXCEPT !.fr = IF MergeMode = "union" /\ Len(rest) > 0
                                 THEN [rest EXCEPT ![Len(rest)] = @ \cup top] ELSE rest]
Set(st, n, v) == [env |-> [st.env EXCEPT ![n] = v],
                  fr  |-> [st.fr EXCEPT ![Len(st.fr)] = @ \cup {n}]]

ROk(st) == [ok |-> TRUE, st |-> st, err |-> FALSE]
RFail(st) == [ok |-> FALSE, st |-> st, err |-> FALSE]     \* note: state keeps partial bindings, as in the code
RErr(st) == [ok |-> FALSE, st |-> st, err |-> TRUE]

RECURSIVE Op(_, _, _)
Op(p, t, st) ==
  CASE p.k = "any" -> ROk(st)
    [] p.k = "id"  -> IF t.k = "id" /\ t.n = p.n THEN ROk(st) ELSE RFail(st)
    [] p.k = "ref" -> IF st.env[p.name] = Unbound THEN ROk(Set(st, p.name, t))
                      ELSE IF st.env[p.name] = t THEN ROk(st) ELSE RFail(st)
    [] p.k = "bind" -> IF st.env[p.name] # Unbound THEN RErr(st)
                       ELSE LET r == Op(p.sub, t, st) IN
                            IF r.err \/ ~r.ok THEN r
                            ELSE IF r.st.env[p.name] # Unbound THEN RErr(r.st)
                            ELSE ROk(Set(r.st, p.name, t))
    [] p.k = "or"  -> LET r1 == Op(p.a, t, Push(st)) IN
                      IF r1.err THEN r1
                      ELSE IF r1.ok THEN ROk(Merge(r1.st))
                      ELSE LET r2 == Op(p.b, t, Push(Pop(r1.st))) IN
                           IF r2.err THEN r2
                           ELSE IF r2.ok THEN ROk(Merge(r2.st)) ELSE RFail(Pop(r2.st))
    [] p.k = "not" -> IF NotMode = "frame"
                        THEN LET r == Op(p.a, t, Push(st)) IN
                             IF r.err THEN r ELSE IF r.ok THEN RFail(Pop(r.st)) ELSE ROk(Pop(r.st))
                        ELSE LET r == Op(p.a, t, st) IN
                             IF r.err THEN r ELSE IF r.ok THEN RFail(r.st) ELSE ROk(r.st)
    [] p.k = "bin" -> IF t.k # "bin" THEN RFail(st)
                      ELSE LET r == Op(p.a, t.x, st) IN
                           IF r.err \/ ~r.ok THEN r ELSE Op(p.b, t.y, r.st)

Run(p, t) == LET r == Op(p, t, [env |-> Env0, fr |-> <<{}>>]) IN r

\* ---------- check: one (pattern, tree) pair per initial state
VARIABLES p, t
InitAll == p \in Grow(P1) /\ t \in T2
Init == p \in {[k |-> "or", a |-> [k |-> "bin", a |-> q, b |-> r], b |-> s] : q \in P1, r \in P0, s \in P1} /\ t \in T2
Next == UNCHANGED <<p, t>>

Agree ==
  LET d == Den(p, t, Env0)  o == Run(p, t) IN
  IF d.err THEN TRUE                            \* ill-formed on this path: excluded from the claim
  ELSE /\ ~o.err
       /\ o.ok = d.ok
       /\ d.ok => o.st.env = d.env
=============================================================================
