---- MODULE DomObs ----
EXTENDS Integers, Sequences, FiniteSets, TLC, Json
Obs == JsonDeserialize("cfgs.json").fns
N == Len(Obs)

Succs(F, u) == {F.succs[u][i] : i \in 1..Len(F.succs[u])}
\* nodes reachable from the roots without passing through 'avoid' (0 = avoid nothing)
RECURSIVE ReachFrom(_, _, _, _)
ReachFrom(F, frontier, seen, avoid) ==
  IF frontier = {} THEN seen
  ELSE LET nxt == (UNION {Succs(F, u) : u \in frontier}) \ (seen \cup {avoid})
       IN ReachFrom(F, nxt, seen \cup nxt, avoid)
Reach(F, avoid) == LET r == {F.roots[i] : i \in 1..Len(F.roots)} \ {avoid} IN ReachFrom(F, r, r, avoid)

PathDom(F, a, b) == a = b \/ (b \in Reach(F, 0) /\ b \notin Reach(F, a))
Claimed(F) == {<<F.dom[i][1], F.dom[i][2]>> : i \in 1..Len(F.dom)}

DomOK(F) ==
  LET all == Reach(F, 0)
      cl == Claimed(F)
      without == [a \in 1..F.n |-> Reach(F, a)]
  IN \A a \in 1..F.n, b \in 1..F.n :
        (<<a, b>> \in cl) <=> (a = b \/ (b \in all /\ b \notin without[a]))

VARIABLE i
Init == i = 1
Next == i < N /\ i' = i + 1
Inv == DomOK(Obs[i])
====
