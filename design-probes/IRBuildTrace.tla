---- MODULE IRBuildTrace ----
(* trace validation probe: many logs in one file, separated by "reset"; unlogged WaitVisit steps are silent *)
EXTENDS IRBuild, Json, TLCExt
MCBuilders == {"b1","b2","b3"}
MCShared == {"g1","g2"}
MCRoot == [b \in MCBuilders |-> "root_" \o b]
MCRefs == [f \in {"root_b1","root_b2","root_b3","g1","g2"} |->
            CASE f = "root_b1" -> <<"g1">> [] f = "root_b2" -> <<"g2","g1">> [] f = "root_b3" -> <<"g2">>
              [] f = "g1" -> <<"g2">> [] f = "g2" -> <<"g1">> ]
Log == ndJsonDeserialize("trace.ndjson")
VARIABLE l
TInit == TLCSet(1, 0) /\ Init /\ l = 1
IsEvent(e) == l <= Len(Log) /\ Log[l].ev = e /\ l' = l + 1
B == Log[l].b
TRef == IsEvent("ref") /\ Reference(B) /\ Refs[Cur(B)][ri[B] + 1] = Log[l].x     \* logged argument must be the one the spec takes
TFin == IsEvent("fin") /\ FinishFn(B) /\ Cur(B) = Log[l].x
TMark == IsEvent("markdone") /\ MarkDone(B)
TRet == IsEvent("waitreturn") /\ WaitReturn(B)
TSilent == \E b \in Builders : WaitVisit(b) /\ UNCHANGED l
TReset == /\ IsEvent("reset")
          /\ \A b \in Builders : pc[b] = "returned"       \* a complete log ends with every builder returned
          /\ memo' = [f \in Shared |-> None] /\ built' = [f \in Fns |-> FALSE]
          /\ queue' = [b \in Builders |-> <<Root[b]>>] /\ fin' = [b \in Builders |-> 0] /\ ri' = [b \in Builders |-> 0]
          /\ done' = [b \in Builders |-> FALSE] /\ edges' = [b \in Builders |-> {}] /\ trans' = [b \in Builders |-> FALSE]
          /\ pc' = [b \in Builders |-> "build"] /\ work' = [b \in Builders |-> <<>>] /\ wi' = [b \in Builders |-> 0]
TNext == TRef \/ TFin \/ TMark \/ TRet \/ TSilent \/ TReset
TSpec == TInit /\ [][TNext]_<<vars, l>>
HighWater == TLCSet(1, IF TLCGet(1) < l THEN l ELSE TLCGet(1))
Accepted == TLCGet(1) = Len(Log) + 1
====
