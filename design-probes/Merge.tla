------------------------------- MODULE Merge -------------------------------
(* Probe: functional oracle for staticcheck -merge (lintcmd/cmd.go mergeRuns + printDiagnostics) *)
EXTENDS Integers, Sequences, FiniteSets, TLC, Json

Files == {"a.go", "b.go"}
D == { [id |-> 1, file |-> "a.go", line |-> 1, cat |-> "SA4000", msg |-> "m", all |-> FALSE],
       [id |-> 2, file |-> "a.go", line |-> 1, cat |-> "S1000",  msg |-> "m", all |-> FALSE],
       [id |-> 3, file |-> "a.go", line |-> 2, cat |-> "U1000",  msg |-> "u", all |-> TRUE],
       [id |-> 4, file |-> "b.go", line |-> 1, cat |-> "S1002",  msg |-> "b", all |-> TRUE] }
Builds == <<"b1", "b2", "b3">>

RunBodies == { [checked |-> c, diags |-> ds] :
                 c \in (SUBSET Files) \ {{}}, ds \in SUBSET {d \in D : TRUE} }
Realistic(rb) == \A d \in rb.diags : d.file \in rb.checked

VARIABLES runs
Init == \E n \in 1..2 : runs \in [1..n -> {rb \in RunBodies : Realistic(rb)}]
Next == UNCHANGED runs

N == Len(runs)
Has(i, d) == d \in runs[i].diags
Kept(d) == /\ \E i \in 1..N : Has(i, d)
           /\ d.all => \A i \in 1..N : d.file \in runs[i].checked => Has(i, d)
Names(d) == {Builds[i] : i \in {j \in 1..N : Has(j, d)}}
Merged == {[id |-> d.id, names |-> Names(d)] : d \in {e \in D : Kept(e)}}

\* laws on the oracle (cheap, evaluated in every state)
Swap == IF N = 2 THEN <<runs[2], runs[1]>> ELSE runs
LawAnyMonotone == \A d \in D : (~d.all /\ \E i \in 1..N : Has(i, d)) => Kept(d)
Emit == PrintT("CASE " \o ToJson([runs |-> [i \in 1..N |-> [build |-> Builds[i],
                                    checked |-> runs[i].checked,
                                    diags |-> {d.id : d \in runs[i].diags}]],
                                  merged |-> Merged]))
=============================================================================
