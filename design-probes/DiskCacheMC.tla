---- MODULE DiskCacheMC ----
EXTENDS DiskCache
MCVals == {<<1,2>>, <<1,3>>}
MCFaults == {"crash"}
MCFaultsAll == {"crash","trunc","delete"}
====
