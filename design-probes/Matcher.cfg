INIT Init
NEXT Next
CONSTANTS
  Names = {"x","y"}
  Idents = {"a","b"}
  MergeMode = "union"
  NotMode = "frame"
INVARIANT Agree
CHECK_DEADLOCK FALSE
