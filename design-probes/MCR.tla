---- MODULE MCR ----
EXTENDS Runner
MCPkgs == {"a","b","c","d"}
MCDeps == [p \in MCPkgs |-> CASE p = "a" -> {"b","c"} [] p = "b" -> {"d"} [] p = "c" -> {"d"} [] p = "d" -> {}]
MCInitial == {"a","c"}
====
