INIT Init
NEXT Next
INVARIANT LawAnyMonotone
INVARIANT Emit
CHECK_DEADLOCK FALSE
