------------------------------- MODULE Runner -------------------------------
(* Prototype: lintcmd/runner package-level scheduling (Runner.Run +          *)
(* genericHandle), unbuffered queue, semaphore, atomic pending counters.     *)
(* The analyzer level (runAnalyzers) is the same handler over a buffered     *)
(* queue with AcquireMaybe/inline execution; it will be a second instance.   *)
EXTENDS Integers, Sequences, FiniteSets, TLC

CONSTANTS Pkgs, Deps, Initial, Cap, Broken   \* Deps: [Pkgs -> SUBSET Pkgs] (acyclic); Broken \subseteq Pkgs fail in exec
Root == "root"
Acts == Pkgs \cup {Root}
DepsOf(a) == IF a = Root THEN Initial ELSE Deps[a]
Triggers(a) == {t \in Acts : a \in DepsOf(t)}
Leaves == {a \in Pkgs : Deps[a] = {}}

VARIABLES
  pending,   \* [Acts -> Nat]  atomic counter
  failed,    \* [Acts -> BOOLEAN]
  result,    \* [Pkgs -> value]  "none" or the set of dependency results it was computed from
  feeder,    \* set of leaves the feeder goroutine has still to send
  sendq,     \* set of actions some goroutine is blocked sending on the unbuffered queue
  mainpc, mainitem,      \* main loop: "recv" | "acquire" | "closed"
  sem,       \* tokens in use
  h,         \* handler goroutines: [Acts -> "none","start","exec","release","trigger","done"]
  trig,      \* [Acts -> SUBSET Acts] triggers a handler still has to decrement
  execcount  \* [Acts -> Nat]
vars == <<pending, failed, result, feeder, sendq, mainpc, mainitem, sem, h, trig, execcount>>

Init ==
  /\ pending = [a \in Acts |-> Cardinality(DepsOf(a))]
  /\ failed = [a \in Acts |-> FALSE]
  /\ result = [p \in Pkgs |-> {}]
  /\ feeder = Leaves /\ sendq = {}
  /\ mainpc = "recv" /\ mainitem = Root
  /\ sem = 0
  /\ h = [a \in Acts |-> "none"] /\ trig = [a \in Acts |-> {}]
  /\ execcount = [a \in Acts |-> 0]

\* `go func() { for leaves: queue <- a }()`  and handlers doing `queue <- t`: rendezvous with the main loop's receive
MainRecv ==
  /\ mainpc = "recv"
  /\ \/ \E a \in feeder : feeder' = feeder \ {a} /\ mainitem' = a /\ UNCHANGED sendq
     \/ \E a \in sendq  : sendq' = sendq \ {a} /\ mainitem' = a /\ UNCHANGED feeder
  /\ mainpc' = "acquire"
  /\ UNCHANGED <<pending, failed, result, sem, h, trig, execcount>>

MainAcquireSpawn ==   \* r.semaphore.Acquire(); go genericHandle(item, ...)
  /\ mainpc = "acquire" /\ sem < Cap
  /\ sem' = sem + 1
  /\ h' = [h EXCEPT ![mainitem] = "start"]
  /\ mainpc' = "recv"
  /\ UNCHANGED <<pending, failed, result, feeder, sendq, mainitem, trig, execcount>>

HStart(a) ==   \* a == root: close(queue), release.  else: propagate dependency failure
  /\ h[a] = "start"
  /\ IF a = Root
       THEN /\ mainpc' = "closed" /\ h' = [h EXCEPT ![a] = "release"] /\ UNCHANGED failed
       ELSE /\ failed' = [failed EXCEPT ![a] = @ \/ \E d \in DepsOf(a) : failed[d]]
            /\ h' = [h EXCEPT ![a] = "exec"] /\ UNCHANGED mainpc
  /\ UNCHANGED <<pending, result, feeder, sendq, mainitem, sem, trig, execcount>>

HExec(a) ==
  /\ h[a] = "exec"
  /\ IF failed[a] THEN UNCHANGED <<result, failed, execcount>>
     ELSE /\ execcount' = [execcount EXCEPT ![a] = @ + 1]
          /\ IF a \in Broken THEN failed' = [failed EXCEPT ![a] = TRUE] /\ UNCHANGED result
             ELSE result' = [result EXCEPT ![a] = {a} \cup UNION {result[d] : d \in DepsOf(a)}] /\ UNCHANGED failed
  /\ h' = [h EXCEPT ![a] = "release"]
  /\ UNCHANGED <<pending, feeder, sendq, mainpc, mainitem, sem, trig>>

HRelease(a) ==
  /\ h[a] = "release"
  /\ sem' = sem - 1
  /\ h' = [h EXCEPT ![a] = IF a = Root THEN "done" ELSE "trigger"]
  /\ trig' = [trig EXCEPT ![a] = IF a = Root THEN {} ELSE Triggers(a)]
  /\ UNCHANGED <<pending, failed, result, feeder, sendq, mainpc, mainitem, execcount>>

HTrigger(a) ==   \* for t in triggers: if t.DecrementPending() { queue <- t }   (send blocks the handler)
  /\ h[a] = "trigger" /\ a \notin sendq
  /\ IF trig[a] = {} THEN h' = [h EXCEPT ![a] = "done"] /\ UNCHANGED <<pending, sendq, trig>>
     ELSE \E t \in trig[a] :
            /\ pending' = [pending EXCEPT ![t] = @ - 1]
            /\ trig' = [trig EXCEPT ![a] = @ \ {t}]
            /\ sendq' = IF pending[t] = 1 THEN sendq \cup {t} ELSE sendq
            /\ UNCHANGED h
  /\ UNCHANGED <<failed, result, feeder, mainpc, mainitem, sem, execcount>>
\* NB: sendq is keyed by the item sent; a handler blocked sending t is represented by t \in sendq. A handler
\* sends at most one item at a time; we approximate "blocked" by not letting it decrement further while any of
\* its own sends is outstanding (tracked below through blockedOn).

Next == MainRecv \/ MainAcquireSpawn \/ \E a \in Acts : HStart(a) \/ HExec(a) \/ HRelease(a) \/ HTrigger(a)
Spec == Init /\ [][Next]_vars /\ WF_vars(Next)

\* ---------------- properties
Expected(p) == TRUE
ExecAfterDeps == \A a \in Pkgs : h[a] \in {"exec","release","trigger","done"} => \A d \in DepsOf(a) : h[d] \in {"trigger","done"} /\ pending[a] = 0
AtMostOnce == \A a \in Acts : execcount[a] <= 1
SemBound == sem <= Cap /\ sem >= 0
FailureOnlyFromBroken == \A a \in Pkgs : failed[a] => \E d \in Pkgs : d \in Broken
RECURSIVE Want(_)
Want(p) == {p} \cup UNION {Want(d) : d \in Deps[p]}
ResultsDeterministic == (mainpc = "closed") => \A p \in Pkgs : (~failed[p]) => result[p] = Want(p)
Terminates == <>(mainpc = "closed")
NoDeadlock == mainpc = "closed" \/ ENABLED Next
=============================================================================
