SPECIFICATION Spec
CONSTANTS
  Builders <- MCBuilders
  Shared <- MCShared
  Root <- MCRoot
  Refs <- MCRefs
INVARIANT BuiltAtReturn
INVARIANT NoDeadlock
PROPERTY CreatedOnce
PROPERTY NoEdgeAfterDone
PROPERTY AllReturn
CHECK_DEADLOCK FALSE
