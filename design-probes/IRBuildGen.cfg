SPECIFICATION GSpec
CONSTANTS
  Builders <- MCBuilders
  Shared <- MCShared
  Root <- MCRoot
  Refs <- MCRefs
INVARIANT Emit
CHECK_DEADLOCK FALSE
