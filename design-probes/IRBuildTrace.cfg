SPECIFICATION TSpec
CONSTANTS
  Builders <- MCBuilders
  Shared <- MCShared
  Root <- MCRoot
  Refs <- MCRefs
INVARIANT BuiltAtReturn
CONSTRAINT HighWater
POSTCONDITION Accepted
CHECK_DEADLOCK FALSE
