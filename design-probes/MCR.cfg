SPECIFICATION Spec
CONSTANTS
  Pkgs <- MCPkgs
  Deps <- MCDeps
  Initial <- MCInitial
  Cap = 1
  Broken = {}
INVARIANT ExecAfterDeps
INVARIANT AtMostOnce
INVARIANT SemBound
INVARIANT ResultsDeterministic
INVARIANT NoDeadlock
PROPERTY Terminates
CHECK_DEADLOCK FALSE
