---- MODULE IRBuildGen ----
(* generate event logs from the IRBuild model itself (stand-in for the instrumented implementation) *)
EXTENDS IRBuild, Json
VARIABLE hist
MCBuilders == {"b1","b2","b3"}
MCShared == {"g1","g2"}
MCRoot == [b \in MCBuilders |-> "root_" \o b]
MCRefs == [f \in {"root_b1","root_b2","root_b3","g1","g2"} |->
            CASE f = "root_b1" -> <<"g1">> [] f = "root_b2" -> <<"g2","g1">> [] f = "root_b3" -> <<"g2">>
              [] f = "g1" -> <<"g2">> [] f = "g2" -> <<"g1">> ]
GInit == Init /\ hist = <<>>
Ev(e, b, x) == hist' = Append(hist, [ev |-> e, b |-> b, x |-> x])
GNext == \E b \in Builders :
   \/ Reference(b) /\ Ev("ref", b, Refs[Cur(b)][ri[b] + 1])
   \/ FinishFn(b) /\ Ev("fin", b, Cur(b))
   \/ MarkDone(b) /\ Ev("markdone", b, "")
   \/ WaitVisit(b) /\ UNCHANGED hist            \* unlogged internal step
   \/ WaitReturn(b) /\ Ev("waitreturn", b, "")
GSpec == GInit /\ [][GNext]_<<vars, hist>>
Done == \A b \in Builders : pc[b] = "returned"
Emit == Done => PrintT("TRACE " \o ToJson(hist))
====
