---------------------------- MODULE DiskCache ----------------------------
(* Prototype: lintcmd/cache/cache.go as a step-level state machine.        *)
(* One action per file-system operation of put/copyFile/putIndexEntry,     *)
(* get/GetFile (+ the client's later read of the returned file name),      *)
(* Trim/trimSubdir; faults: process crash, truncation, deletion.           *)
EXTENDS Integers, Sequences, FiniteSets, TLC

CONSTANTS Procs, Keys, Vals,      \* Vals: set of byte sequences; OutputID(v) == v (content addressed)
          MaxOps,                 \* operations per process
          Faults                  \* subset of {"crash","trunc","delete"}

NoFile  == [ex |-> FALSE, b |-> <<>>]
File(b) == [ex |-> TRUE, b |-> b]
NoEnt   == [ex |-> FALSE, out |-> <<>>, size |-> 0]
R(k)    == [kind |-> k, b |-> <<>>]

VARIABLES
  data,     \* [Vals -> file]                 <out>-d, named by content hash
  dgen,     \* [Vals -> Nat] inode generation, bumped on create-after-delete
  dmtime,   \* [Vals -> {"old","fresh"}]
  index,    \* [Keys -> entry]                <id>-a, written by one write() of the fixed-width record
  pc, key, val, pos, fd, ent, res, nops,      \* per process
  todel,    \* per process: data files the trimmer has decided (by stat) to delete
  stored    \* history: [Keys -> SUBSET Vals] values whose Put under that key was started

fs    == <<data, dgen, dmtime, index>>
procs == <<pc, key, val, pos, fd, ent, res, nops, todel>>
vars  == <<data, dgen, dmtime, index, pc, key, val, pos, fd, ent, res, nops, todel, stored>>

Init ==
  /\ data = [v \in Vals |-> NoFile] /\ dgen = [v \in Vals |-> 0]
  /\ dmtime = [v \in Vals |-> "fresh"]
  /\ index = [k \in Keys |-> NoEnt]
  /\ pc = [p \in Procs |-> "idle"]
  /\ key = [p \in Procs |-> CHOOSE k \in Keys : TRUE]
  /\ val = [p \in Procs |-> CHOOSE v \in Vals : TRUE]
  /\ pos = [p \in Procs |-> 0] /\ fd = [p \in Procs |-> 0]
  /\ ent = [p \in Procs |-> NoEnt]
  /\ res = [p \in Procs |-> R("none")]
  /\ nops = [p \in Procs |-> 0]
  /\ todel = [p \in Procs |-> {}]
  /\ stored = [k \in Keys |-> {}]

Begin(p, newpc) ==
  /\ pc[p] = "idle" /\ nops[p] < MaxOps
  /\ pc' = [pc EXCEPT ![p] = newpc]
  /\ nops' = [nops EXCEPT ![p] = @ + 1]
  /\ res' = [res EXCEPT ![p] = R("none")]

StartPut(p, k, v) ==
  /\ Begin(p, "put_stat")
  /\ key' = [key EXCEPT ![p] = k] /\ val' = [val EXCEPT ![p] = v]
  /\ stored' = [stored EXCEPT ![k] = @ \cup {v}]
  /\ UNCHANGED <<fs, pos, fd, ent, todel>>

StartGet(p, k) ==
  /\ Begin(p, "get_index")
  /\ key' = [key EXCEPT ![p] = k]
  /\ UNCHANGED <<fs, val, pos, fd, ent, todel, stored>>

StartTrim(p) ==
  /\ Begin(p, "trim_stat")
  /\ UNCHANGED <<fs, key, val, pos, fd, ent, todel, stored>>

\* ---------------- Put -> copyFile -> putIndexEntry
PutStat(p) ==  \* Stat; same size => verify hash => skip; else open O_RDWR|O_CREATE (O_TRUNC only if longer)
  /\ pc[p] = "put_stat"
  /\ LET v == val[p] IN
     IF data[v].ex /\ data[v].b = v
       THEN /\ pc' = [pc EXCEPT ![p] = "put_index"]
            /\ UNCHANGED <<data, dgen, pos, fd>>
       ELSE /\ pc' = [pc EXCEPT ![p] = IF Len(v) = 0 THEN "put_index" ELSE "put_write"]
            /\ pos' = [pos EXCEPT ![p] = 0]
            /\ IF data[v].ex
                 THEN /\ data' = [data EXCEPT ![v] = IF Len(@.b) > Len(v) THEN File(<<>>) ELSE @]
                      /\ UNCHANGED dgen
                 ELSE /\ data' = [data EXCEPT ![v] = File(<<>>)]
                      /\ dgen' = [dgen EXCEPT ![v] = @ + 1]
            /\ fd' = [fd EXCEPT ![p] = dgen'[v]]
  /\ UNCHANGED <<dmtime, index, key, val, ent, res, nops, todel, stored>>

WriteAt(f, i, b) ==  \* write one byte at 1-based position i; a gap becomes a hole of zeros
  IF i <= Len(f) THEN [f EXCEPT ![i] = b]
  ELSE f \o [j \in 1..(i - Len(f) - 1) |-> 0] \o <<b>>

PutWrite(p) ==  \* bytes 1..size-1 (io.CopyN) and then the last byte, each a separate step
  /\ pc[p] = "put_write"
  /\ LET v == val[p]
         i == pos[p] + 1
         live == data[v].ex /\ dgen[v] = fd[p]     \* else: our fd is an unlinked inode
     IN /\ data' = IF live THEN [data EXCEPT ![v] = File(WriteAt(@.b, i, v[i]))] ELSE data
        /\ pos' = [pos EXCEPT ![p] = i]
        /\ pc' = [pc EXCEPT ![p] = IF i = Len(v) THEN "put_chtimes" ELSE "put_write"]
  /\ UNCHANGED <<dgen, dmtime, index, key, val, fd, ent, res, nops, todel, stored>>

PutChtimes(p) ==  \* close + os.Chtimes(name): by name, so it hits whatever file is there now
  /\ pc[p] = "put_chtimes"
  /\ dmtime' = [dmtime EXCEPT ![val[p]] = "fresh"]
  /\ pc' = [pc EXCEPT ![p] = "put_index"]
  /\ UNCHANGED <<data, dgen, index, key, val, pos, fd, ent, res, nops, todel, stored>>

PutIndex(p) ==
  /\ pc[p] = "put_index"
  /\ index' = [index EXCEPT ![key[p]] = [ex |-> TRUE, out |-> val[p], size |-> Len(val[p])]]
  /\ pc' = [pc EXCEPT ![p] = "idle"] /\ res' = [res EXCEPT ![p] = R("putdone")]
  /\ UNCHANGED <<data, dgen, dmtime, key, val, pos, fd, ent, nops, todel, stored>>

\* ---------------- GetFile, then the caller opens the returned name
GetIndex(p) ==
  /\ pc[p] = "get_index"
  /\ IF ~index[key[p]].ex
       THEN /\ pc' = [pc EXCEPT ![p] = "idle"] /\ res' = [res EXCEPT ![p] = R("miss")]
            /\ UNCHANGED ent
       ELSE /\ ent' = [ent EXCEPT ![p] = index[key[p]]]
            /\ pc' = [pc EXCEPT ![p] = "get_used"] /\ UNCHANGED res
  /\ UNCHANGED <<fs, key, val, pos, fd, nops, todel, stored>>

GetUsed(p) ==  \* OutputFile -> used(): stat; chtimes(now) when older than an hour
  /\ pc[p] = "get_used"
  /\ dmtime' = [dmtime EXCEPT ![ent[p].out] = "fresh"]
  /\ pc' = [pc EXCEPT ![p] = "get_stat"]
  /\ UNCHANGED <<data, dgen, index, key, val, pos, fd, ent, res, nops, todel, stored>>

GetStat(p) ==  \* os.Stat + size comparison
  /\ pc[p] = "get_stat"
  /\ LET f == data[ent[p].out] IN
     IF ~f.ex \/ Len(f.b) # ent[p].size
       THEN pc' = [pc EXCEPT ![p] = "idle"] /\ res' = [res EXCEPT ![p] = R("miss")]
       ELSE pc' = [pc EXCEPT ![p] = "client_read"] /\ UNCHANGED res
  /\ UNCHANGED <<fs, key, val, pos, fd, ent, nops, todel, stored>>

ClientRead(p) ==  \* runner: os.Open(result path) + read, some time after the hit
  /\ pc[p] = "client_read"
  /\ LET f == data[ent[p].out] IN
     res' = [res EXCEPT ![p] = IF ~f.ex THEN R("enoent") ELSE [kind |-> "bytes", b |-> f.b]]
  /\ pc' = [pc EXCEPT ![p] = "idle"]
  /\ UNCHANGED <<fs, key, val, pos, fd, ent, nops, todel, stored>>

\* ---------------- Trim: stat every entry, then remove those found old
TrimStat(p) ==
  /\ pc[p] = "trim_stat"
  /\ todel' = [todel EXCEPT ![p] = {v \in Vals : data[v].ex /\ dmtime[v] = "old"}]
  /\ pc' = [pc EXCEPT ![p] = "trim_rm"]
  /\ UNCHANGED <<fs, key, val, pos, fd, ent, res, nops, stored>>

TrimRemove(p) ==
  /\ pc[p] = "trim_rm"
  /\ IF todel[p] = {}
       THEN pc' = [pc EXCEPT ![p] = "idle"] /\ UNCHANGED <<data, todel>>
       ELSE \E v \in todel[p] :
              /\ data' = [data EXCEPT ![v] = NoFile]
              /\ todel' = [todel EXCEPT ![p] = @ \ {v}]
              /\ UNCHANGED pc
  /\ UNCHANGED <<dgen, dmtime, index, key, val, pos, fd, ent, res, nops, stored>>

\* ---------------- environment
Age ==  \* five days pass for a file nobody is writing
  /\ \E v \in Vals :
        /\ dmtime[v] = "fresh" /\ data[v].ex
        /\ \A p \in Procs : pc[p] = "idle"     \* days pass only between operations
        /\ dmtime' = [dmtime EXCEPT ![v] = "old"]
  /\ UNCHANGED <<data, dgen, index, procs, stored>>

Crash(p) ==
  /\ "crash" \in Faults /\ pc[p] # "idle"
  /\ pc' = [pc EXCEPT ![p] = "idle"] /\ res' = [res EXCEPT ![p] = R("crashed")]
  /\ UNCHANGED <<fs, key, val, pos, fd, ent, nops, todel, stored>>

AtRest == \A p \in Procs : pc[p] = "idle"
Truncate ==
  /\ "trunc" \in Faults /\ AtRest
  /\ \E v \in Vals : data[v].ex /\ \E n \in 0..(Len(data[v].b) - 1) :
        data' = [data EXCEPT ![v] = File(SubSeq(@.b, 1, n))]
  /\ UNCHANGED <<dgen, dmtime, index, procs, stored>>

Delete ==
  /\ "delete" \in Faults /\ AtRest
  /\ \/ \E v \in Vals : data[v].ex /\ data' = [data EXCEPT ![v] = NoFile] /\ UNCHANGED index
     \/ \E k \in Keys : index[k].ex /\ index' = [index EXCEPT ![k] = NoEnt] /\ UNCHANGED data
  /\ UNCHANGED <<dgen, dmtime, procs, stored>>

Next ==
  \/ \E p \in Procs :
       \/ \E k \in Keys, v \in Vals : StartPut(p, k, v)
       \/ \E k \in Keys : StartGet(p, k)
       \/ StartTrim(p)
       \/ PutStat(p) \/ PutWrite(p) \/ PutChtimes(p) \/ PutIndex(p)
       \/ GetIndex(p) \/ GetUsed(p) \/ GetStat(p) \/ ClientRead(p)
       \/ TrimStat(p) \/ TrimRemove(p)
       \/ Crash(p)
  \/ Age \/ Truncate \/ Delete

Spec == Init /\ [][Next]_vars

\* ---------------- properties
LookupSound == \A p \in Procs : res[p].kind = "bytes" => res[p].b \in stored[key[p]]
HitThenReadable == \A p \in Procs : res[p].kind # "enoent"
SizeImpliesComplete == \A v \in Vals : (data[v].ex /\ Len(data[v].b) = Len(v)) => data[v].b = v

View == <<data, dgen, dmtime, index, pc, key, val, pos, fd, ent, res, nops, todel>>
=============================================================================
