------------------------------ MODULE IRBuild ------------------------------
(* Prototype: go/ir parallel building with shared on-demand functions.      *)
(* builder.iterate / buildFunction / shared() / waitForSharedFunction,      *)
(* task.addEdge / markDone / wait, and the mutex-guarded memo tables in     *)
(* methods.go (MethodValue, objectMethod) and instantiate.go (instance).    *)
EXTENDS Integers, Sequences, FiniteSets, TLC, SequencesExt

CONSTANTS Builders, Shared,     \* shared functions: generic instances, wrappers, thunks
          Root,                 \* [Builders -> function id] the builder's own package body
          Refs                  \* [function id -> sequence of Shared] looked up, in order, while building it

None == "none"
Fns == {Root[b] : b \in Builders} \cup Shared

VARIABLES
  memo,      \* [Shared -> None or creating builder]          (under methodsMu / instancesMu)
  built,     \* [Fns -> BOOLEAN]                               fn.build == nil
  queue,     \* [Builders -> Seq(Fns)]   b.fns
  fin,       \* [Builders -> Nat]        b.finished
  ri,        \* [Builders -> Nat]        index into Refs of the function being built
  done,      \* [Builders -> BOOLEAN]    task.done closed
  edges,     \* [Builders -> SUBSET Builders]
  trans,     \* [Builders -> BOOLEAN]    task.transitive
  pc,        \* "build" | "wait" | "returned"
  work, wi   \* wait(): BFS list and cursor
vars == <<memo, built, queue, fin, ri, done, edges, trans, pc, work, wi>>

Init ==
  /\ memo = [f \in Shared |-> None]
  /\ built = [f \in Fns |-> FALSE]
  /\ queue = [b \in Builders |-> <<Root[b]>>]
  /\ fin = [b \in Builders |-> 0] /\ ri = [b \in Builders |-> 0]
  /\ done = [b \in Builders |-> FALSE]
  /\ edges = [b \in Builders |-> {}]
  /\ trans = [b \in Builders |-> FALSE]
  /\ pc = [b \in Builders |-> "build"]
  /\ work = [b \in Builders |-> <<>>] /\ wi = [b \in Builders |-> 0]

Cur(b) == queue[b][fin[b] + 1]

\* one lookup of a shared function while building Cur(b): atomic, it runs under the table's mutex
Reference(b) ==
  /\ pc[b] = "build" /\ fin[b] < Len(queue[b]) /\ ri[b] < Len(Refs[Cur(b)])
  /\ LET g == Refs[Cur(b)][ri[b] + 1] IN
     IF memo[g] = None
       THEN /\ memo' = [memo EXCEPT ![g] = b]                       \* create; fn.buildshared = b.shared(); b.enqueue
            /\ queue' = [queue EXCEPT ![b] = Append(@, g)]
            /\ UNCHANGED edges
       ELSE /\ LET c == memo[g] IN                                   \* hit; b.waitForSharedFunction(fn)
               edges' = IF c # b /\ ~trans[c] THEN [edges EXCEPT ![b] = @ \cup {c}] ELSE edges
            /\ UNCHANGED <<memo, queue>>
  /\ ri' = [ri EXCEPT ![b] = @ + 1]
  /\ UNCHANGED <<built, fin, done, trans, pc, work, wi>>

FinishFn(b) ==   \* fn.build(b, fn); fn.done()
  /\ pc[b] = "build" /\ fin[b] < Len(queue[b]) /\ ri[b] = Len(Refs[Cur(b)])
  /\ built' = [built EXCEPT ![Cur(b)] = TRUE]
  /\ fin' = [fin EXCEPT ![b] = @ + 1] /\ ri' = [ri EXCEPT ![b] = 0]
  /\ UNCHANGED <<memo, queue, done, edges, trans, pc, work, wi>>

MarkDone(b) ==   \* end of the iterate loop: buildshared.markDone(); then wait()
  /\ pc[b] = "build" /\ fin[b] = Len(queue[b])
  /\ done' = [done EXCEPT ![b] = TRUE]
  /\ pc' = [pc EXCEPT ![b] = "wait"]
  /\ work' = [work EXCEPT ![b] = <<b>>] /\ wi' = [wi EXCEPT ![b] = 1]
  /\ UNCHANGED <<memo, built, queue, fin, ri, edges, trans>>

WaitVisit(b) ==  \* one iteration of the BFS in task.wait: skip if transitive, else block on u.done, then enqueue u.edges
  /\ pc[b] = "wait" /\ wi[b] <= Len(work[b])
  /\ LET u == work[b][wi[b]] IN
     \/ /\ trans[u] /\ UNCHANGED work
     \/ /\ ~trans[u] /\ done[u]
        /\ work' = [work EXCEPT ![b] = @ \o
              SetToSeq({v \in edges[u] : \A j \in 1..Len(@) : @[j] # v})]
  /\ wi' = [wi EXCEPT ![b] = @ + 1]
  /\ UNCHANGED <<memo, built, queue, fin, ri, done, edges, trans, pc>>

WaitReturn(b) ==
  /\ pc[b] = "wait" /\ wi[b] > Len(work[b])
  /\ trans' = [trans EXCEPT ![b] = TRUE]
  /\ pc' = [pc EXCEPT ![b] = "returned"]
  /\ UNCHANGED <<memo, built, queue, fin, ri, done, edges, work, wi>>

Next == \E b \in Builders : Reference(b) \/ FinishFn(b) \/ MarkDone(b) \/ WaitVisit(b) \/ WaitReturn(b)
Spec == Init /\ [][Next]_vars /\ WF_vars(Next)

\* ---------------- properties
RECURSIVE Closure(_, _)
Closure(S, n) == IF n = 0 THEN S ELSE Closure(S \cup UNION {{Refs[f][i] : i \in 1..Len(Refs[f])} : f \in S}, n - 1)
Needs(b) == Closure({Root[b]}, Cardinality(Fns))

CreatedOnce == [][\A g \in Shared : memo[g] # None => memo'[g] = memo[g]]_vars
BuiltAtReturn == \A b \in Builders : pc[b] = "returned" => \A f \in Needs(b) : built[f]
NoEdgeAfterDone == [][\A b \in Builders : done[b] => edges'[b] = edges[b]]_vars
AllReturn == <>(\A b \in Builders : pc[b] = "returned")
NoDeadlock == (\A b \in Builders : pc[b] = "returned") \/ ENABLED Next
=============================================================================
