package main

// Seeded generator of type-correct Go packages for C02.  Programs are well-typed by
// construction (every name that is used is declared by the fixed prelude or by the function
// frame; every declared local is used; labels are only emitted together with a jump to them).
// They are never executed, only built into IR, so run-time behaviour (index out of range, nil
// dereference, blocking forever) is irrelevant.  Shapes aimed at: goto-built irreducible CFGs,
// loops with escaping locals, defer/recover with named results, closures mutating captured
// variables, generics (functions, types, methods, constraints with core types), range over
// func / int / string / map / chan, type switches, select, fallthrough, labelled break/continue,
// method values / expressions / promoted methods (wrappers, thunks, bound methods), conversions.

import (
	"fmt"
	"math/rand"
	"strings"
)

const genPrelude = `package p

import "unsafe"

type S struct {
	x, y int
	next *S
	f    func(int) int
	arr  [4]int
	sl   []int
	m    map[string]int
}
type E struct {
	S
	tag string ` + "`json:\"tag\"`" + `
}
type E2 struct {
	S
	tag string ` + "`json:\"other\"`" + `
}
type PE struct {
	*S
	n int
}
type I interface {
	M(int) int
	N()
}
type J interface {
	I
	String() string
}
type MyInt int
type MyStr string
type MySl []int
type Fn func(int) int
type RO <-chan int

func (s S) M(a int) int    { return s.x + a }
func (s *S) N()            { s.y++ }
func (s *S) String() string { return "S" }
func (m MyInt) M(a int) int { return int(m) + a }
func (m MyInt) N()          {}
func (m *MyInt) Inc()       { *m++ }

type G[T any] struct {
	v    T
	next *G[T]
}

func (g *G[T]) Get() T  { return g.v }
func (g *G[T]) Set(v T) { g.v = v }

type Num interface {
	~int | ~int64 | ~float64
}
type Sl[T any] interface{ ~[]T }

func Sum[T Num](xs []T) T {
	var s T
	for _, x := range xs {
		s += x
	}
	return s
}
func Map[T, U any](xs []T, f func(T) U) []U {
	var out []U
	for _, x := range xs {
		out = append(out, f(x))
	}
	return out
}
func Idx[L ~[]X, X comparable](s L, e X) int {
	for i, v := range s {
		if v == e {
			return i
		}
	}
	return -1
}
func First[L Sl[X], X any](s L) (X, bool) {
	if len(s) == 0 {
		var z X
		return z, false
	}
	return s[0], true
}
func Seq(n int) func(yield func(int) bool) {
	return func(yield func(int) bool) {
		for i := 0; i < n; i++ {
			if !yield(i) {
				return
			}
		}
	}
}
func Seq2[K comparable, V any](m map[K]V) func(yield func(K, V) bool) {
	return func(yield func(K, V) bool) {
		for k, v := range m {
			if !yield(k, v) {
				return
			}
		}
	}
}
func esc(p *int)        {}
func esc2(p, q *int)    {}
func escS(p *S)         {}
func sink(xs ...any)    {}
func cond() bool        { return G1 > 0 }
func two() (int, error) { return G1, nil }
func up(p unsafe.Pointer) uintptr { return uintptr(p) }

func mkS() S { return GS }

// rareKinds pins the instruction kinds that random statements hit only occasionally.
func rareKinds[T ~[]byte | ~string](t T, s []int, c chan int, st S) (int, string) {
	a := [2]int(s)          // SliceToArray
	p := (*[2]int)(s)       // SliceToArrayPointer
	bs := []byte(t)         // MultiConvert
	ch := make(chan int, 2) // MakeChan
	ms := make([]int, len(s), 2+len(s)) // MakeSlice
	ch <- mkS().arr[1]      // Field, Index, Send
	m := map[string]int{}   // MakeMap
	m[string(bs)] = <-ch    // MapUpdate, Recv
	for k, v := range m {   // Range, Next
		ms = append(ms, len(k)+v)
	}
	var i any = st
	if j, ok := i.(J); ok { // TypeAssert
		i = I(j) // ChangeInterface
	}
	if a[0] > p[1] {
		select {} // Unreachable
	}
	go esc(&ms[0])
	defer func() { recover() }()
	return a[0] + p[1] + ms[0] + -len(m), string(bs)
}

func useRare(s []int, c chan int) {
	sink(rareKinds("x", s, c, GS))
	sink(rareKinds([]byte("y"), s, c, GS))
}

var G1 int
var GS S
var GI I = MyInt(3)
`

type gen struct {
	r  *rand.Rand
	sb strings.Builder
	n  int // fresh names
}

type gctx struct {
	depth   int
	brk     bool     // unlabelled break allowed
	cont    bool     // unlabelled continue allowed
	loops   []string // labels of enclosing loops
	gotos   []string // labels of the enclosing goto soup (function top level)
	closure bool     // inside a func literal (no goto / outer labels; different return)
	ret     string   // a return statement valid here
	generic bool     // inside a generic function over T
}

func (g *gen) fresh(p string) string    { g.n++; return fmt.Sprintf("%s%d", p, g.n) }
func (g *gen) pick(xs ...string) string { return xs[g.r.Intn(len(xs))] }
func (g *gen) chance(p int) bool        { return g.r.Intn(100) < p }

// ---- expressions (non-generic frame) -------------------------------------------------------

func (g *gen) intE(d int) string {
	if d <= 0 {
		return g.pick("a", "b", "x", "y", "z", "1", "2", "7", "G1", "len(s)", "p.x", "*q", "arr[1]", "e.x")
	}
	switch g.r.Intn(24) {
	case 0, 1:
		return fmt.Sprintf("(%s %s %s)", g.intE(d-1), g.pick("+", "-", "*", "&", "|", "^", "&^"), g.intE(d-1))
	case 2:
		return fmt.Sprintf("(%s / (%s | 1))", g.intE(d-1), g.intE(d-1))
	case 3:
		return fmt.Sprintf("(int(%s) %s uint(%s&3))", g.intE(d-1), g.pick("<<", ">>"), g.intE(d-1))
	case 4:
		return fmt.Sprintf("(int(%s) << %s)", g.intE(d-1), g.pick("1", "b", "uint8(2)", "MyInt(1)"))
	case 5:
		return fmt.Sprintf("s[%s&1]", g.intE(d-1))
	case 6:
		return fmt.Sprintf("m[%s]", g.strE(d-1))
	case 7:
		return fmt.Sprintf("i.M(%s)", g.intE(d-1))
	case 8:
		return fmt.Sprintf("f(%s)", g.intE(d-1))
	case 9:
		return fmt.Sprintf("int(MyInt(%s))", g.intE(d-1))
	case 10:
		return fmt.Sprintf("min(%s, %s)", g.intE(d-1), g.intE(d-1))
	case 11:
		return fmt.Sprintf("int(%s[%s&1])", g.pick("str", "bs"), g.intE(d-1))
	case 12:
		return "Sum(s)"
	case 13:
		return fmt.Sprintf("p.arr[%s&3]", g.intE(d-1))
	case 14:
		return fmt.Sprintf("e.M(%s)", g.intE(d-1))
	case 15:
		return "gp.Get()"
	case 16:
		return fmt.Sprintf("int(fl * float64(%s))", g.intE(d-1))
	case 17:
		return fmt.Sprintf("(-%s)", g.intE(d-1))
	case 18:
		return fmt.Sprintf("(^%s)", g.intE(d-1))
	case 19:
		return fmt.Sprintf("func(k int) int { return k + %s }(%s)", g.pick("x", "a", "1"), g.intE(d-1))
	case 20:
		return fmt.Sprintf("Idx(s, %s)", g.intE(d-1))
	case 21:
		return fmt.Sprintf("cap(s[%s&1:])", g.intE(d-1))
	case 22:
		return "p.next.x"
	default:
		return fmt.Sprintf("(S{x: %s}).M(1)", g.intE(d-1))
	}
}

func (g *gen) strE(d int) string {
	if d <= 0 {
		return g.pick(`"k"`, "str", `"ab"`, "e.tag", "string(ms)")
	}
	switch g.r.Intn(6) {
	case 0:
		return fmt.Sprintf("(%s + %s)", g.strE(d-1), g.strE(d-1))
	case 1:
		return fmt.Sprintf("str[%s&1:]", g.intE(d-1))
	case 2:
		return "string(bs)"
	case 3:
		return fmt.Sprintf("string(rune(%s))", g.intE(d-1))
	case 4:
		return "p.String()"
	default:
		return g.strE(0)
	}
}

func (g *gen) boolE(d int) string {
	if d <= 0 {
		return g.pick("ok", "cond()", "(a < b)", "(x == y)", "(p != nil)", "(i != nil)", "(err == nil)", "(str == \"k\")", "(any1 == nil)")
	}
	switch g.r.Intn(9) {
	case 0:
		return fmt.Sprintf("(%s %s %s)", g.intE(d-1), g.pick("<", "<=", ">", ">=", "==", "!="), g.intE(d-1))
	case 1:
		return fmt.Sprintf("(%s && %s)", g.boolE(d-1), g.boolE(d-1))
	case 2:
		return fmt.Sprintf("(%s || %s)", g.boolE(d-1), g.boolE(d-1))
	case 3:
		return fmt.Sprintf("!%s", g.boolE(d-1))
	case 4:
		return fmt.Sprintf("(%s == %s)", g.strE(d-1), g.strE(d-1))
	case 5:
		return g.pick("(i == GI)", "(any1 == any(x))", "(c == nil)", "(p == &GS)", "(arr == [4]int{})", "(RO(c) == ro)", "(MyInt(x) == 3)", "(fl < 1.5)")
	case 6:
		return fmt.Sprintf("((%s < %s) == %s)", g.intE(d-1), g.intE(d-1), g.boolE(d-1))
	default:
		return g.boolE(0)
	}
}

// ---- statements ---------------------------------------------------------------------------

func (g *gen) block(c gctx, n int) string {
	var sb strings.Builder
	for k := 0; k < n; k++ {
		sb.WriteString(g.stmt(c))
	}
	return sb.String()
}

func (g *gen) body(c gctx) string {
	c.depth--
	return g.block(c, 1+g.r.Intn(3))
}

// simple returns one simple statement; anything that declares a name is wrapped in a block so
// that it can stand at the top level of a goto soup (no jump over a declaration).
func (g *gen) simple() string {
	s := g.simple0()
	if (strings.Contains(s, ":=") || strings.HasPrefix(s, "var ")) && !strings.HasPrefix(s, "{") {
		return "{\n" + s + "}\n"
	}
	return s
}

func (g *gen) simple0() string {
	switch g.r.Intn(30) {
	case 0:
		return fmt.Sprintf("x = %s\n", g.intE(2))
	case 1:
		if g.chance(20) {
			return fmt.Sprintf("y %s uint(%s&3)\n", g.pick("<<=", ">>="), g.intE(1))
		}
		return fmt.Sprintf("y %s %s\n", g.pick("+=", "-=", "*=", "|=", "&^="), g.intE(1))
	case 2:
		return g.pick("x++\n", "z--\n", "p.x++\n", "*q++\n", "arr[2]++\n", "m[\"k\"]++\n")
	case 3:
		return fmt.Sprintf("p.x = %s\n", g.intE(1))
	case 4:
		return fmt.Sprintf("s[%s&1] = %s\n", g.intE(1), g.intE(1))
	case 5:
		return fmt.Sprintf("m[%s] = %s\n", g.strE(1), g.intE(1))
	case 6:
		return fmt.Sprintf("*q = %s\n", g.intE(1))
	case 7:
		return "a, b = b, a\n"
	case 8:
		return "x, ok = m[str]\n"
	case 9:
		return "esc(&x)\n"
	case 10:
		return g.pick("esc2(&x, &x)\n", "esc2(&y, &z)\n", "esc2(q, &y)\n")
	case 11:
		return fmt.Sprintf("sink(%s, %s, p, i)\n", g.intE(1), g.strE(1))
	case 12:
		return g.pick("s = append(s, x, y)\n", "s = append(s, s...)\n", "bs = append(bs, str...)\n", "copy(s, s[1:])\n", "delete(m, str)\n", "clear(m)\n", "s = s[:0:1]\n", "s = arr[1:3]\n", "s = (&arr)[:2]\n")
	case 13:
		return g.pick("bs = []byte(str)\n", "str = string(bs)\n", "ms = MyStr(str)\n", "fl = float64(x)\n", "any1 = x\n", "any1 = p\n", "any1 = i\n", "i = p\n", "i = MyInt(x)\n", "i = &e\n", "i = PE{p, 1}\n", "err = nil\n")
	case 14:
		return g.pick("p = &S{x: x, arr: [4]int{1: y}}\n", "p = new(S)\n", "e = E{S: *p, tag: str}\n", "e = E(E2{})\n", "m = map[string]int{\"a\": x, str: y}\n", "s = []int{x, 2: y}\n", "arr = [4]int{x, y}\n", "gp = &G[int]{v: x}\n", "p.next = &S{next: p}\n", "s = make([]int, x, 10)\n", "m = make(map[string]int)\n", "c = make(chan int, 1)\n", "q = new(int)\n", "q = &p.x\n", "q = &arr[1]\n", "q = &s[0]\n")
	case 15:
		return g.pick("p.N()\n", "e.N()\n", "i.N()\n", "gp.Set(x)\n", "mi.Inc()\n", "(*S).N(p)\n", "_ = S.M(*p, 1)\n", "f = p.M\n", "f = i.M\n", "f = e.M\n", "f = Fn(f)\n", "fm := I.M; x = fm(i, 1)\n")
	case 16:
		return g.pick("x, err = two()\n", "x, _ = two()\n", "_, ok = <-c\n", "x, ok = <-c\n", "x = <-c\n", "c <- x\n", "_, ok = any1.(int)\n", "p, ok = any1.(*S)\n", "i, ok = any1.(I)\n", "x = any1.(int)\n", "_, ok = i.(J)\n", "_ = i.(interface{ N() })\n")
	case 17:
		return g.pick("a2 := [2]int(s); x = a2[0]\n", "p2 := (*[2]int)(s); x = p2[1]\n", "x = int(up(unsafe.Pointer(p)))\n", "p = (*S)(unsafe.Pointer(&e))\n", "ro = c\n", "ro = RO(c)\n", "ms = MyStr(rune(x))\n", "cx := complex(fl, 1); fl = real(cx) + imag(cx)\n", "x = int(uint8(x)) + int(int64(y)>>3)\n", "fl = float64(float32(fl))\n")
	case 18:
		return g.pick("sink(Map(s, func(v int) string { return str }))\n", "sink(First(s))\n", "sink(First(MySl(s)))\n", "sink(Sum([]float64{fl}))\n", "sink(Idx([]string{str}, str))\n", "sink(Map([]*S{p}, (*S).String))\n", "var gs G[string]; gs.Set(str); sink(gs.Get())\n")
	case 19:
		return g.pick("go p.N()\n", "go func() { x++ }()\n", "go esc(&y)\n", "go i.N()\n", "go sink(x, y)\n")
	case 20:
		return g.pick("defer p.N()\n", "defer i.N()\n", "defer esc(&x)\n", "defer func() { y = x }()\n", "defer sink(x)\n", "defer close(c)\n")
	case 21:
		return g.pick("println(x, str)\n", "print(fl)\n", "if cond() {\nselect {}\n}\n", "x = len(m) + len(str) + len(arr) + cap(c) + len(c)\n", "x = max(x, y, 3)\n")
	case 22:
		return fmt.Sprintf("{\n\tloc := %s\n\tesc(&loc)\n\tx = loc\n}\n", g.intE(1))
	case 23:
		return fmt.Sprintf("{\n\tloc := %s\n\tf = func(k int) int { loc += k; return loc }\n}\n", g.intE(1))
	case 24:
		return "GS.x, G1 = x, GS.y\n"
	case 25:
		return "r = x\n"
	default:
		return fmt.Sprintf("z = %s\n", g.intE(2))
	}
}

func (g *gen) stmt(c gctx) string {
	if c.depth <= 0 {
		return g.simple()
	}
	k := g.r.Intn(40)
	switch {
	case k < 10:
		return g.simple()
	case k < 14:
		s := fmt.Sprintf("if %s {\n%s}", g.boolE(2), g.body(c))
		if g.chance(50) {
			s += fmt.Sprintf(" else {\n%s}", g.body(c))
		} else if g.chance(30) {
			s += fmt.Sprintf(" else if %s {\n%s} else {\n%s}", g.boolE(1), g.body(c), g.body(c))
		}
		return s + "\n"
	case k < 15:
		v := g.fresh("v")
		return fmt.Sprintf("if %s := %s; %s > 0 {\n%s} else {\nx = %s\n}\n", v, g.intE(1), v, g.body(c), v)
	case k < 19:
		return g.loop(c)
	case k < 22:
		return g.rangeLoop(c)
	case k < 24:
		return g.rangeFunc(c)
	case k < 27:
		return g.switchStmt(c)
	case k < 29:
		return g.typeSwitch(c)
	case k < 31:
		return g.selectStmt(c)
	case k < 33:
		return g.closure(c)
	case k < 34:
		return c.ret
	case k < 35:
		if c.brk {
			return "break\n"
		}
		return g.simple()
	case k < 36:
		if c.cont {
			return "continue\n"
		}
		return g.simple()
	case k < 37:
		if len(c.loops) > 0 && !c.closure {
			l := c.loops[g.r.Intn(len(c.loops))]
			return g.pick("break ", "continue ") + l + "\n"
		}
		return g.simple()
	case k < 38:
		if len(c.gotos) > 0 && !c.closure {
			return fmt.Sprintf("if %s {\ngoto %s\n}\n", g.boolE(1), c.gotos[g.r.Intn(len(c.gotos))])
		}
		return g.simple()
	case k < 39:
		return fmt.Sprintf("if %s {\npanic(%s)\n}\n", g.boolE(1), g.pick("\"boom\"", "x", "err", "any1", "p"))
	default:
		return g.deferRecover(c)
	}
}

func (g *gen) loop(c gctx) string {
	c2 := c
	c2.brk, c2.cont = true, true
	lbl := ""
	if g.chance(40) && !c.closure {
		lbl = g.fresh("L")
		c2.loops = append(append([]string{}, c.loops...), lbl)
	}
	var s string
	switch g.r.Intn(5) {
	case 4:
		// go1.22 per-iteration variable captured by a closure in a loop whose post statement is unreachable
		// (the body always leaves the loop): the builder creates the post block with its phis and then
		// removes predecessors again
		iv := g.fresh("i")
		leave := g.pick("break\n", c.ret, "panic(\"out\")\n", "if cond() {\nbreak\n}\n"+c.ret)
		if lbl != "" && g.chance(50) {
			leave = "break " + lbl + "\n"
		}
		s = fmt.Sprintf("for %s := %s; %s < 9; %s++ {\nf = func(k int) int { return k + %s }\nx += f(%s)\n%s%s}\n", iv, g.intE(1), iv, iv, iv, iv, g.body(c2), leave)
	case 0:
		iv := g.fresh("i")
		s = fmt.Sprintf("for %s := 0; %s < %s; %s++ {\nx += %s\n%s}\n", iv, iv, g.intE(1), iv, iv, g.body(c2))
	case 1:
		s = fmt.Sprintf("for %s {\n%s}\n", g.boolE(1), g.body(c2))
	case 2:
		s = fmt.Sprintf("for {\n%sif %s {\nbreak\n}\n}\n", g.body(c2), g.boolE(1))
	default:
		// go1.22 per-iteration variable captured by a closure and escaping by address
		iv := g.fresh("i")
		s = fmt.Sprintf("for %s := 0; %s < 3; %s++ {\nf = func(k int) int { return k + %s }\nesc(&%s)\n%s}\n", iv, iv, iv, iv, iv, g.body(c2))
	}
	if lbl != "" {
		// make sure the label is used
		return lbl + ":\n" + strings.Replace(s, "{\n", "{\nif cond() {\ncontinue "+lbl+"\n}\n", 1)
	}
	return s
}

func (g *gen) rangeLoop(c gctx) string {
	c2 := c
	c2.brk, c2.cont = true, true
	k, v := g.fresh("k"), g.fresh("v")
	switch g.r.Intn(8) {
	case 0:
		return fmt.Sprintf("for %s, %s := range s {\nx += %s + %s\n%s}\n", k, v, k, v, g.body(c2))
	case 1:
		return fmt.Sprintf("for %s, %s := range m {\nx += len(%s) + %s\n%s}\n", k, v, k, v, g.body(c2))
	case 2:
		return fmt.Sprintf("for %s, %s := range str {\nx += %s + int(%s)\n%s}\n", k, v, k, v, g.body(c2))
	case 3:
		return fmt.Sprintf("for %s := range %s {\nx += %s\n%s}\n", k, g.pick("10", "a", "x"), k, g.body(c2))
	case 4:
		return fmt.Sprintf("for %s := range c {\nx += %s\n%s}\n", v, v, g.body(c2))
	case 5:
		return fmt.Sprintf("for %s := range arr {\narr[%s]++\n%s}\n", k, k, g.body(c2))
	case 6:
		return fmt.Sprintf("for _, %s := range &arr {\nesc(&%s)\n%s}\n", v, v, g.body(c2))
	default:
		return fmt.Sprintf("for x, y = range s {\n%s}\nfor range m {\nz++\n}\nfor range str {\n}\n", g.body(c2))
	}
}

func (g *gen) rangeFunc(c gctx) string {
	c2 := c
	c2.brk, c2.cont = true, true
	lbl := ""
	if g.chance(40) && !c.closure {
		lbl = g.fresh("R")
		c2.loops = append(append([]string{}, c.loops...), lbl)
	}
	v := g.fresh("v")
	var s string
	switch g.r.Intn(3) {
	case 0:
		s = fmt.Sprintf("for %s := range Seq(%s) {\nx += %s\n%s}\n", v, g.intE(1), v, g.body(c2))
	case 1:
		k := g.fresh("k")
		s = fmt.Sprintf("for %s, %s := range Seq2(m) {\nx += len(%s) + %s\n%s}\n", k, v, k, v, g.body(c2))
	default:
		s = fmt.Sprintf("for %s := range Seq(3) {\ndefer esc(&x)\nif %s > x {\n%s}\n%s}\n", v, v, c.ret, g.body(c2))
	}
	if lbl != "" {
		return lbl + ":\n" + strings.Replace(s, "{\n", "{\nif cond() {\nbreak "+lbl+"\n}\n", 1)
	}
	return s
}

func (g *gen) switchStmt(c gctx) string {
	c2 := c
	c2.brk = true
	var sb strings.Builder
	if g.chance(12) {
		// constant cases over a boolean tag whose evaluation needs control flow of its own
		// (&&, ||): the ConstantSwitch belongs at the end of the tag's last block
		fmt.Fprintf(&sb, "switch %s {\n", g.pick(g.boolE(2)+" && "+g.boolE(1), g.boolE(1)+" || "+g.boolE(2), "!("+g.boolE(2)+")", "b1 := "+g.boolE(1)+"; b1 && "+g.boolE(1)))
		hasFalse, hasDflt := g.chance(60), g.chance(40)
		fmt.Fprintf(&sb, "case true:\n%s", g.body(c2))
		if (hasFalse || hasDflt) && g.chance(30) {
			sb.WriteString("fallthrough\n")
		}
		if hasFalse {
			fmt.Fprintf(&sb, "case false:\n%s", g.body(c2))
		}
		if hasDflt {
			fmt.Fprintf(&sb, "default:\n%s", g.body(c2))
		}
	} else if g.chance(50) {
		// constant cases -> ConstantSwitch
		fmt.Fprintf(&sb, "switch %s {\n", g.pick("x", "a&3", "len(s)", "v := x + 1; v"))
		n := 1 + g.r.Intn(3)
		for k := 0; k < n; k++ {
			fmt.Fprintf(&sb, "case %d, %d:\n%s", 2*k, 2*k+1, g.body(c2))
			if g.chance(30) {
				sb.WriteString("fallthrough\n")
			}
		}
		if g.chance(60) {
			fmt.Fprintf(&sb, "default:\n%s", g.body(c2))
		} else {
			fmt.Fprintf(&sb, "case 100:\n%s", g.body(c2))
		}
	} else if g.chance(50) {
		sb.WriteString("switch {\n")
		n := 1 + g.r.Intn(3)
		for k := 0; k < n; k++ {
			fmt.Fprintf(&sb, "case %s:\n%s", g.boolE(1), g.body(c2))
			if g.chance(25) {
				sb.WriteString("fallthrough\n")
			}
		}
		fmt.Fprintf(&sb, "default:\n%s", g.body(c2))
	} else {
		// dynamic tag, interface-typed and string-typed comparisons
		tag := g.pick("any1", "i", "str", "x")
		fmt.Fprintf(&sb, "switch %s {\n", tag)
		switch tag {
		case "any1":
			fmt.Fprintf(&sb, "case x, str:\n%scase p, nil:\n%s", g.body(c2), g.body(c2))
		case "i":
			fmt.Fprintf(&sb, "case GI:\n%scase p:\n%s", g.body(c2), g.body(c2))
		case "str":
			fmt.Fprintf(&sb, "case \"a\", string(ms):\n%sdefault:\n%s", g.body(c2), g.body(c2))
		default:
			fmt.Fprintf(&sb, "case y, z+1:\n%scase 3:\n%s", g.body(c2), g.body(c2))
		}
	}
	sb.WriteString("}\n")
	return sb.String()
}

func (g *gen) typeSwitch(c gctx) string {
	c2 := c
	c2.brk = true
	v := g.fresh("t")
	var sb strings.Builder
	if g.chance(70) {
		fmt.Fprintf(&sb, "switch %s := %s.(type) {\n", v, g.pick("any1", "any(x)", "any(i)", "any(err)"))
		fmt.Fprintf(&sb, "case interface{ N() }:\n%s.N()\n%s", v, g.body(c2))
		fmt.Fprintf(&sb, "case int:\nx += %s\n%s", v, g.body(c2))
		if g.chance(50) {
			fmt.Fprintf(&sb, "case string, []byte:\nsink(%s)\n%s", v, g.body(c2))
		}
		if g.chance(50) {
			fmt.Fprintf(&sb, "case nil:\nsink(%s)\n", v)
		}
		if g.chance(60) {
			fmt.Fprintf(&sb, "default:\nsink(%s)\n%s", v, g.body(c2))
		}
	} else {
		fmt.Fprintf(&sb, "switch %s.(type) {\ncase *S, S:\n%scase nil:\n%s", g.pick("any1", "any(i)"), g.body(c2), g.body(c2))
		if g.chance(50) {
			fmt.Fprintf(&sb, "default:\n%s", g.body(c2))
		}
	}
	sb.WriteString("}\n")
	return sb.String()
}

func (g *gen) selectStmt(c gctx) string {
	c2 := c
	c2.brk = true
	v := g.fresh("r")
	switch g.r.Intn(5) {
	case 0:
		return fmt.Sprintf("select {\ncase %s := <-c:\nx += %s\n%scase c <- %s:\n%sdefault:\n%s}\n", v, v, g.body(c2), g.intE(1), g.body(c2), g.body(c2))
	case 1:
		return fmt.Sprintf("select {\ncase %s, ok2 := <-c:\nsink(%s, ok2)\n%scase x = <-ro:\n%scase <-c:\n}\n", v, v, g.body(c2), g.body(c2))
	case 2:
		return fmt.Sprintf("select {\ncase c <- x:\n%s}\n", g.body(c2))
	case 3:
		return fmt.Sprintf("select {\ncase x, ok = <-c:\n%scase arr[x&3] = <-c:\ndefault:\n}\n", g.body(c2))
	default:
		return fmt.Sprintf("select {\ncase %s := <-c:\nesc(&%s)\ncase <-ro:\n%s}\n", v, v, g.body(c2))
	}
}

func (g *gen) closure(c gctx) string {
	return "{\n" + g.closure0(c) + "}\n"
}

func (g *gen) closure0(c gctx) string {
	c2 := c
	c2.closure = true
	c2.brk, c2.cont = false, false
	c2.loops, c2.gotos = nil, nil
	h := g.fresh("h")
	switch g.r.Intn(4) {
	case 0:
		c2.ret = "return x\n"
		return fmt.Sprintf("%s := func(k int) int {\nx += k\n%sreturn x + k\n}\nx = %s(%s)\n", h, g.body(c2), h, g.intE(1))
	case 1:
		c2.ret = "return\n"
		return fmt.Sprintf("func() {\ny++\n%s}()\n", g.body(c2))
	case 2:
		c2.ret = "return 0, nil\n"
		return fmt.Sprintf("%s := func(vs ...int) (n int, e2 error) {\nfor _, v := range vs {\nn += v\n}\n%sreturn n, err\n}\nx, err = %s(s...)\nx, _ = %s(a, b)\n", h, g.body(c2), h, h)
	default:
		// closure returning a closure, both capturing
		c2.ret = "return nil\n"
		return fmt.Sprintf("%s := func() func() int {\nw := x\n%sreturn func() int { w++; y++; return w }\n}\nx = %s()()\n", h, g.body(c2), h)
	}
}

func (g *gen) deferRecover(c gctx) string {
	if c.closure {
		return "defer func() {\nif rec := recover(); rec != nil {\nx = -1\n}\n}()\n"
	}
	return g.pick(
		"defer func() {\nif rec := recover(); rec != nil {\nr = -1\nerr, _ = rec.(error)\n}\n}()\n",
		"defer func() {\nr += x\nrecover()\n}()\n",
		"defer func(k int) {\nif recover() != nil {\nr = k\n}\n}(x)\n")
}

// gotoSoup builds a function body out of labelled segments at the top level with conditional
// jumps between arbitrary segments: loops with several entries (irreducible CFGs).
func (g *gen) gotoSoup(c gctx) string {
	n := 3 + g.r.Intn(3)
	labels := make([]string, n)
	for k := range labels {
		labels[k] = g.fresh("B")
	}
	used := map[string]bool{}
	var segs []string
	c2 := c
	c2.gotos = labels
	c2.depth = 2
	for k := 0; k < n; k++ {
		var sb strings.Builder
		sb.WriteString(g.block(c2, 1+g.r.Intn(2)))
		// one or two explicit jumps
		for j := 0; j < 1+g.r.Intn(2); j++ {
			t := labels[g.r.Intn(n)]
			used[t] = true
			fmt.Fprintf(&sb, "if %s {\ngoto %s\n}\n", g.boolE(1), t)
		}
		segs = append(segs, sb.String())
	}
	// an entry jump into the middle makes the natural loops multi-entry
	t := labels[1+g.r.Intn(n-1)]
	used[t] = true
	var out strings.Builder
	fmt.Fprintf(&out, "if %s {\ngoto %s\n}\n", g.boolE(1), t)
	for k := 0; k < n; k++ {
		// labels referenced from nested statements count as used too
		if used[labels[k]] || strings.Contains(strings.Join(segs, ""), "goto "+labels[k]+"\n") {
			fmt.Fprintf(&out, "%s:\n", labels[k])
		}
		out.WriteString(segs[k])
	}
	return out.String()
}

const frameDecl = `	var x, y, z int
	var ok bool
	var q *int = &y
	var f func(int) int = func(k int) int { return k }
	var e E
	var gp *G[int] = &G[int]{}
	var bs []byte
	var fl float64
	var arr [4]int
	var any1 any
	var ms MyStr
	var mi MyInt
	var ro RO
	_, _, _, _, _, _, _, _, _, _, _, _, _, _, _ = x, z, ok, q, f, e, gp, bs, fl, arr, any1, ms, mi, ro, err
`

func (g *gen) function(name string) {
	kind := g.r.Intn(10)
	recv := ""
	if kind == 0 {
		recv = "(p *S) "
	}
	params := "a, b int, s []int, m map[string]int, p *S, i I, c chan int, str string"
	if recv != "" {
		params = "a, b int, s []int, m map[string]int, i I, c chan int, str string"
	}
	fmt.Fprintf(&g.sb, "func %s%s(%s) (r int, err error) {\n%s", recv, name, params, frameDecl)
	c := gctx{depth: 3, ret: "return x, err\n"}
	if g.chance(15) {
		c.ret = "return\n"
	}
	if kind <= 3 {
		g.sb.WriteString(g.gotoSoup(c))
	} else {
		g.sb.WriteString(g.block(c, 2+g.r.Intn(4)))
	}
	g.sb.WriteString("return x + r, err\n}\n\n")
}

// ---- generic frame -------------------------------------------------------------------------

func (g *gen) tE(d int) string {
	if d <= 0 {
		return g.pick("ta", "tb", "tx", "ts[0]", "T(1)", "gt.v", "Sum(ts)")
	}
	switch g.r.Intn(6) {
	case 0, 1:
		return fmt.Sprintf("(%s %s %s)", g.tE(d-1), g.pick("+", "-", "*"), g.tE(d-1))
	case 2:
		return "gt.Get()"
	case 3:
		return fmt.Sprintf("T(float64(%s) * 2)", g.tE(d-1))
	case 4:
		return fmt.Sprintf("ts[int(%s)&1]", g.tE(d-1))
	default:
		return fmt.Sprintf("fn(%s)", g.tE(d-1))
	}
}

func (g *gen) tStmt(d int) string {
	if d <= 0 {
		return g.pick("tx = "+g.tE(1)+"\n", "tx += ta\n", "ts = append(ts, tx)\n", "gt.Set(tx)\n", "esc(&n)\n", "n++\n", "sink(tx, any(ta))\n", "gt = &G[T]{v: tx, next: gt}\n", "tp = &tx\n", "*tp = tb\n")
	}
	switch g.r.Intn(10) {
	case 0, 1:
		return fmt.Sprintf("if %s %s %s {\n%s} else {\n%s}\n", g.tE(1), g.pick("<", "==", ">="), g.tE(1), g.tStmt(d-1), g.tStmt(d-1))
	case 2:
		return fmt.Sprintf("for _, v := range ts {\ntx += v\n%s}\n", g.tStmt(d-1))
	case 3:
		return fmt.Sprintf("for n < 10 {\nn++\n%sif tx > ta {\nbreak\n}\n}\n", g.tStmt(d-1))
	case 4:
		return fmt.Sprintf("switch v := any(tx).(type) {\ncase int:\nn += v\ncase T:\ntx = v\ndefault:\n%s}\n", g.tStmt(d-1))
	case 5:
		return fmt.Sprintf("fn = func(v T) T {\ntx += v\n%sreturn tx\n}\n", g.tStmt(d-1))
	case 6:
		return "sink(Map(ts, func(v T) float64 { return float64(v) }), Idx(ts, tx))\n"
	case 7:
		return fmt.Sprintf("for v := range Seq(n) {\ntx += T(v)\n%s}\n", g.tStmt(d-1))
	case 8:
		return "if w, ok := First(ts); ok {\ntx = w\n}\n"
	default:
		return g.tStmt(0) + g.tStmt(0)
	}
}

func (g *gen) genericFunction(name string) {
	fmt.Fprintf(&g.sb, "func %s[T Num](ta, tb T, ts []T) (res T) {\n\tvar tx T\n\tvar n int\n\tvar tp *T = &tx\n\tgt := &G[T]{v: ta}\n\tfn := func(v T) T { return v + tb }\n\t_, _, _, _ = tp, gt, fn, n\n", name)
	for k := 0; k < 2+g.r.Intn(4); k++ {
		g.sb.WriteString(g.tStmt(2))
	}
	g.sb.WriteString("return tx + res\n}\n\n")
	// instantiate it from ordinary code
	fmt.Fprintf(&g.sb, "func use_%s(s []int, fs []float64) {\n\tsink(%s(1, 2, s), %s(1.5, 2, fs), %s[MyInt](1, 2, nil))\n}\n\n", name, name, name, name)
}

func (g *gen) genericMethod(name string) {
	fmt.Fprintf(&g.sb, "func (g *G[T]) %s(v T, n int) (out []T) {\n", name)
	g.sb.WriteString(g.pick(
		"for cur := g; cur != nil; cur = cur.next {\nout = append(out, cur.v)\nif n--; n < 0 {\nbreak\n}\n}\n",
		"defer func() { recover(); out = append(out, v) }()\nfor k := range n {\nesc(&k)\ng.Set(v)\n}\n",
		"f := func() T { return g.v }\nif n > 0 {\nout = append(out, f(), v)\n} else {\nout = []T{g.Get()}\n}\n"))
	g.sb.WriteString("return out\n}\n\n")
	fmt.Fprintf(&g.sb, "func use_%s() {\n\tvar a G[int]\n\tvar b G[string]\n\tsink(a.%s(1, 2), b.%s(\"x\", 3), (*G[int]).%s)\n}\n\n", name, name, name, name)
}

func genProgram(seed int64) string {
	g := &gen{r: rand.New(rand.NewSource(seed))}
	g.sb.WriteString(genPrelude)
	g.sb.WriteString("\n")
	nf := 3 + g.r.Intn(4)
	for k := 0; k < nf; k++ {
		g.function(fmt.Sprintf("F%d", k))
	}
	g.genericFunction("GF0")
	if g.chance(60) {
		g.genericMethod("GM0")
	}
	return g.sb.String()
}
