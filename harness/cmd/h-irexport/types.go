package main

// Type interning: every types.Type becomes an id into a per-document table of terms of the small
// type language of DESIGN.md 8.3.  Interning is bottom-up hash-consing, so two types get the same
// id iff they are identical in the sense of the Go specification (named types by declaration +
// type arguments, type parameters by identity, everything else structurally; struct tags and the
// package of unexported names are significant; parameter names and receivers are not).  The
// interner uses go/types accessors only; it shares no code with go/ir.

import (
	"fmt"
	"go/types"
	"sort"
	"strings"

	"golang.org/x/exp/typeparams"
)

type Field struct {
	N   string `json:"n"`
	T   int    `json:"t"`
	Emb bool   `json:"emb"`
}

type Method struct {
	N string `json:"n"`
	T int    `json:"t"`
}

type TTerm struct {
	K        string   `json:"k"` // basic ptr slice array struct iface sig map chan named tuple tparam opaque
	Name     string   `json:"name"`
	Elem     int      `json:"elem"`
	Key      int      `json:"key"`
	Len      int      `json:"len"`
	Dir      int      `json:"dir"` // chan: 0 both, 1 send-only, 2 recv-only
	Fields   []Field  `json:"fields"`
	Params   []int    `json:"params"`
	Results  []int    `json:"results"`
	Variadic bool     `json:"variadic"`
	Elems    []int    `json:"elems"`
	Under    int      `json:"under"` // underlying type (self unless named / tparam)
	Core     int      `json:"core"`  // core type, 0 = none
	Methods  []Method `json:"methods"`
	HasMSet  bool     `json:"hasmset"`
	MSet     []Method `json:"mset"`
	// basic-type predicates (false elsewhere)
	Int     bool `json:"int"`
	Uns     bool `json:"uns"`
	Bool    bool `json:"bool"`
	Str     bool `json:"str"`
	Num     bool `json:"num"`
	Flt     bool `json:"flt"`
	Cplx    bool `json:"cplx"`
	Untyped bool `json:"untyped"`
	UPtr    bool `json:"uptr"` // unsafe.Pointer
	TP      bool `json:"tp"`   // the type mentions a type parameter
}

type interner struct {
	noTags bool // struct tags are not significant (conversion identity, "IdenticalIgnoreTags")
	terms  []*TTerm
	byPtr  map[types.Type]int
	byKey  map[string]int
	objIDs map[any]int
	types  []types.Type // representative per id
	ntI    *interner
}

// nt returns the companion interner in which struct tags are insignificant.
func (ti *interner) nt() *interner {
	if ti.ntI == nil {
		ti.ntI = newInterner()
		ti.ntI.noTags = true
	}
	return ti.ntI
}

func newInterner() *interner {
	return &interner{byPtr: map[types.Type]int{}, byKey: map[string]int{}, objIDs: map[any]int{}, terms: []*TTerm{}, types: []types.Type{}}
}

func newTerm(k string) *TTerm {
	return &TTerm{K: k, Fields: []Field{}, Params: []int{}, Results: []int{}, Elems: []int{}, Methods: []Method{}, MSet: []Method{}}
}

func (ti *interner) objID(o any) int {
	if id, ok := ti.objIDs[o]; ok {
		return id
	}
	id := len(ti.objIDs) + 1
	ti.objIDs[o] = id
	return id
}

// hasTP reports whether t mentions a type parameter (named types: through their type arguments).
func hasTP(t types.Type) bool {
	switch t := types.Unalias(t).(type) {
	case *types.TypeParam:
		return true
	case *types.Pointer:
		return hasTP(t.Elem())
	case *types.Slice:
		return hasTP(t.Elem())
	case *types.Array:
		return hasTP(t.Elem())
	case *types.Chan:
		return hasTP(t.Elem())
	case *types.Map:
		return hasTP(t.Key()) || hasTP(t.Elem())
	case *types.Tuple:
		for i := 0; i < t.Len(); i++ {
			if hasTP(t.At(i).Type()) {
				return true
			}
		}
	case *types.Signature:
		return hasTP(t.Params()) || hasTP(t.Results()) || t.TypeParams().Len() > 0
	case *types.Struct:
		for i := 0; i < t.NumFields(); i++ {
			if hasTP(t.Field(i).Type()) {
				return true
			}
		}
	case *types.Interface:
		for i := 0; i < t.NumMethods(); i++ {
			if hasTP(t.Method(i).Type()) {
				return true
			}
		}
		for i := 0; i < t.NumEmbeddeds(); i++ {
			if u, ok := types.Unalias(t.EmbeddedType(i)).(*types.Union); ok {
				for j := 0; j < u.Len(); j++ {
					if hasTP(u.Term(j).Type()) {
						return true
					}
				}
			}
		}
	case *types.Named:
		if ta := t.TypeArgs(); ta != nil {
			for i := 0; i < ta.Len(); i++ {
				if hasTP(ta.At(i)) {
					return true
				}
			}
		}
		// a local type declared inside a generic function may mention its type parameters
		// without type arguments; its underlying type decides (guarded against recursion)
		if t.TypeParams().Len() > 0 && t.TypeArgs().Len() == 0 {
			return true // uninstantiated generic type
		}
	}
	return false
}

func (ti *interner) alloc(key string, t types.Type, term *TTerm) int {
	term.TP = hasTP(t)
	ti.terms = append(ti.terms, term)
	ti.types = append(ti.types, t)
	id := len(ti.terms)
	ti.byKey[key] = id
	return id
}

// id returns the 1-based id of t (0 for a nil type).
func (ti *interner) id(t types.Type) int {
	if t == nil {
		return 0
	}
	t = types.Unalias(t)
	if id, ok := ti.byPtr[t]; ok {
		return id
	}
	id := ti.intern(t)
	ti.byPtr[t] = id
	return id
}

func ids(xs []int) string {
	var sb strings.Builder
	for _, x := range xs {
		fmt.Fprintf(&sb, "%d,", x)
	}
	return sb.String()
}

func (ti *interner) tupleIDs(tu *types.Tuple) []int {
	out := []int{}
	if tu == nil {
		return out
	}
	for i := 0; i < tu.Len(); i++ {
		out = append(out, ti.id(tu.At(i).Type()))
	}
	return out
}

func clampInt(n int64) int {
	if n > 1<<30 {
		return 1 << 30
	}
	if n < 0 {
		return -1
	}
	return int(n)
}

func (ti *interner) intern(t types.Type) int {
	switch t := t.(type) {
	case *types.Basic:
		key := "basic:" + fmt.Sprint(t.Kind()) // byte/uint8 and rune/int32 are identical
		if id, ok := ti.byKey[key]; ok {
			return id
		}
		term := newTerm("basic")
		term.Name = types.Typ[t.Kind()].Name()
		inf := t.Info()
		term.Int = inf&types.IsInteger != 0
		term.Uns = inf&types.IsUnsigned != 0
		term.Bool = inf&types.IsBoolean != 0
		term.Str = inf&types.IsString != 0
		term.Num = inf&types.IsNumeric != 0
		term.Flt = inf&types.IsFloat != 0
		term.Cplx = inf&types.IsComplex != 0
		term.Untyped = inf&types.IsUntyped != 0
		term.UPtr = t.Kind() == types.UnsafePointer
		id := ti.alloc(key, t, term)
		term.Under, term.Core = id, id
		return id
	case *types.Pointer:
		e := ti.id(t.Elem())
		key := fmt.Sprintf("ptr:%d", e)
		if id, ok := ti.byKey[key]; ok {
			return id
		}
		term := newTerm("ptr")
		term.Elem = e
		id := ti.alloc(key, t, term)
		term.Under, term.Core = id, id
		return id
	case *types.Slice:
		e := ti.id(t.Elem())
		key := fmt.Sprintf("slice:%d", e)
		if id, ok := ti.byKey[key]; ok {
			return id
		}
		term := newTerm("slice")
		term.Elem = e
		id := ti.alloc(key, t, term)
		term.Under, term.Core = id, id
		return id
	case *types.Array:
		e := ti.id(t.Elem())
		key := fmt.Sprintf("array:%d:%d", t.Len(), e)
		if id, ok := ti.byKey[key]; ok {
			return id
		}
		term := newTerm("array")
		term.Elem = e
		term.Len = clampInt(t.Len())
		id := ti.alloc(key, t, term)
		term.Under, term.Core = id, id
		return id
	case *types.Map:
		k, e := ti.id(t.Key()), ti.id(t.Elem())
		key := fmt.Sprintf("map:%d:%d", k, e)
		if id, ok := ti.byKey[key]; ok {
			return id
		}
		term := newTerm("map")
		term.Key, term.Elem = k, e
		id := ti.alloc(key, t, term)
		term.Under, term.Core = id, id
		return id
	case *types.Chan:
		e := ti.id(t.Elem())
		dir := 0
		switch t.Dir() {
		case types.SendOnly:
			dir = 1
		case types.RecvOnly:
			dir = 2
		}
		key := fmt.Sprintf("chan:%d:%d", dir, e)
		if id, ok := ti.byKey[key]; ok {
			return id
		}
		term := newTerm("chan")
		term.Elem, term.Dir = e, dir
		id := ti.alloc(key, t, term)
		term.Under, term.Core = id, id
		return id
	case *types.Tuple:
		es := ti.tupleIDs(t)
		key := "tuple:" + ids(es)
		if id, ok := ti.byKey[key]; ok {
			return id
		}
		term := newTerm("tuple")
		term.Elems = es
		id := ti.alloc(key, t, term)
		term.Under, term.Core = id, id
		return id
	case *types.Signature:
		ps, rs := ti.tupleIDs(t.Params()), ti.tupleIDs(t.Results())
		key := fmt.Sprintf("sig:%s|%s|%v", ids(ps), ids(rs), t.Variadic())
		if tp := t.TypeParams(); tp != nil && tp.Len() > 0 {
			// generic signatures: identical only up to renaming of type parameters; keyed by the
			// parameters' identity (never compared by a rule)
			for i := 0; i < tp.Len(); i++ {
				key += fmt.Sprintf("|tp%d", ti.objID(tp.At(i)))
			}
		}
		if id, ok := ti.byKey[key]; ok {
			return id
		}
		term := newTerm("sig")
		term.Params, term.Results, term.Variadic = ps, rs, t.Variadic()
		id := ti.alloc(key, t, term)
		term.Under, term.Core = id, id
		return id
	case *types.Struct:
		fs := []Field{}
		var sb strings.Builder
		sb.WriteString("struct:")
		for i := 0; i < t.NumFields(); i++ {
			f := t.Field(i)
			ft := ti.id(f.Type())
			fs = append(fs, Field{N: f.Name(), T: ft, Emb: f.Embedded()})
			tag := t.Tag(i)
			if ti.noTags {
				tag = ""
			}
			fmt.Fprintf(&sb, "%s %d %v %q;", f.Id(), ft, f.Embedded(), tag)
		}
		key := sb.String()
		if id, ok := ti.byKey[key]; ok {
			return id
		}
		term := newTerm("struct")
		term.Fields = fs
		id := ti.alloc(key, t, term)
		term.Under, term.Core = id, id
		return id
	case *types.Interface:
		ms := []Method{}
		for i := 0; i < t.NumMethods(); i++ {
			m := t.Method(i)
			ms = append(ms, Method{N: m.Id(), T: ti.id(m.Type())})
		}
		sort.Slice(ms, func(i, j int) bool { return ms[i].N < ms[j].N })
		var sb strings.Builder
		sb.WriteString("iface:")
		for _, m := range ms {
			fmt.Fprintf(&sb, "%s %d;", m.N, m.T)
		}
		// type-set part (constraint interfaces): normalised terms, order-insensitive
		var tkeys []string
		if terms, err := typeparams.NormalTerms(t); err == nil {
			for _, tm := range terms {
				tkeys = append(tkeys, fmt.Sprintf("%v%d", tm.Tilde(), ti.id(tm.Type())))
			}
		} else {
			tkeys = append(tkeys, fmt.Sprintf("err%d", ti.objID(t)))
		}
		sort.Strings(tkeys)
		sb.WriteString("|" + strings.Join(tkeys, ","))
		if t.IsComparable() && len(tkeys) == 0 && !t.IsMethodSet() {
			sb.WriteString("|comparable")
		}
		key := sb.String()
		if id, ok := ti.byKey[key]; ok {
			return id
		}
		term := newTerm("iface")
		term.Methods = ms
		id := ti.alloc(key, t, term)
		term.Under = id
		term.Core = ti.coreOf(t, id)
		return id
	case *types.Named:
		targs := []int{}
		if ta := t.TypeArgs(); ta != nil {
			for i := 0; i < ta.Len(); i++ {
				targs = append(targs, ti.id(ta.At(i)))
			}
		}
		key := fmt.Sprintf("named:%d[%s]", ti.objID(t.Origin().Obj()), ids(targs))
		if id, ok := ti.byKey[key]; ok {
			return id
		}
		term := newTerm("named")
		term.Name = t.String()
		id := ti.alloc(key, t, term)
		ti.byPtr[t] = id // recursion through the underlying type
		term.Under = ti.id(t.Underlying())
		term.Core = ti.terms[term.Under-1].Core
		term.Methods = ti.terms[term.Under-1].Methods
		return id
	case *types.TypeParam:
		key := fmt.Sprintf("tparam:%d", ti.objID(t))
		if id, ok := ti.byKey[key]; ok {
			return id
		}
		term := newTerm("tparam")
		term.Name = t.String()
		id := ti.alloc(key, t, term)
		ti.byPtr[t] = id
		term.Under = ti.id(t.Underlying()) // the constraint's interface
		term.Core = ti.terms[term.Under-1].Core
		term.Methods = ti.terms[term.Under-1].Methods
		return id
	default:
		// go/ir's opaque pseudo-types (range iterator, defer stack)
		key := "opaque:" + t.String()
		if id, ok := ti.byKey[key]; ok {
			return id
		}
		term := newTerm("opaque")
		term.Name = t.String()
		id := ti.alloc(key, t, term)
		term.Under, term.Core = id, id
		return id
	}
}

// coreOf computes the core type of an interface per the Go specification: the single underlying
// type of all types in its type set, or the channel type if all are channels with identical
// element type and non-conflicting direction; 0 if there is none (incl. ordinary interfaces).
func (ti *interner) coreOf(t *types.Interface, self int) int {
	terms, err := typeparams.NormalTerms(t)
	if err != nil || len(terms) == 0 {
		return 0
	}
	first := ti.id(terms[0].Type().Underlying())
	same := true
	for _, tm := range terms[1:] {
		if ti.id(tm.Type().Underlying()) != first {
			same = false
		}
	}
	if same {
		return first
	}
	// channel rule
	var elem types.Type
	dir := types.SendRecv
	for _, tm := range terms {
		ch, ok := tm.Type().Underlying().(*types.Chan)
		if !ok {
			return 0
		}
		if elem == nil {
			elem = ch.Elem()
		} else if ti.id(elem) != ti.id(ch.Elem()) {
			return 0
		}
		if ch.Dir() != types.SendRecv {
			if dir != types.SendRecv && dir != ch.Dir() {
				return 0
			}
			dir = ch.Dir()
		}
	}
	return ti.id(types.NewChan(dir, elem))
}

// needMethodSet attaches the method set (ids and signatures) of t to its term.
func (ti *interner) needMethodSet(t types.Type) {
	id := ti.id(t)
	if id == 0 {
		return
	}
	term := ti.terms[id-1]
	if term.HasMSet {
		return
	}
	term.HasMSet = true
	ms := types.NewMethodSet(types.Unalias(t))
	out := []Method{}
	for i := 0; i < ms.Len(); i++ {
		sel := ms.At(i)
		out = append(out, Method{N: sel.Obj().Id(), T: ti.id(sel.Type())})
	}
	term.MSet = out
}
