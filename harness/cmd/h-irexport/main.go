// h-irexport — C02 exporter: builds go/ir for packages under given builder modes and writes the
// function bodies as JSON documents (DESIGN.md 8.3) for IRWf.tla.
//
// Everything that describes the IR is read through the exported go/ir API only (Blocks, Instrs,
// Operands, Referrers, Preds, Succs, Block, ID, Recover, Locals, Params, FreeVars, Type()).  The
// exporter does not judge anything: it locates operands/referrers by pointer identity, interns
// types as terms of a small type language (bottom-up hash-consing = Go type identity), and copies
// the per-instruction attributes the typing rules talk about (field index, CommaOk, ...).
//
// One output line (NDJSON) per (package, mode):
//
//	{pkg, mode, modebits, types:[term], fns:[fn], skipped:[{name,blocks,instrs}]}
//
// No `null` anywhere (TLC's Json module rejects it); all records of one family have the same fields.
package main

import (
	"bufio"
	"encoding/json"
	"flag"
	"fmt"
	"go/ast"
	"go/build/constraint"
	"go/importer"
	"go/parser"
	"go/token"
	"go/types"
	"hash/fnv"
	"os"
	"path/filepath"
	"regexp"
	"runtime"
	"sort"
	"strings"
	"sync"

	"golang.org/x/tools/go/packages"
	"honnef.co/go/tools/go/ir"
	"honnef.co/go/tools/go/ir/irutil"
)

// ---- jobs ---------------------------------------------------------------------------------

type Job struct {
	Kind      string            `json:"kind"` // "dir" | "pkgs" | "src" | "gen"
	Name      string            `json:"name"`
	Path      string            `json:"path"`      // dir
	GoVersion string            `json:"goversion"` // dir/src
	Cwd       string            `json:"cwd"`       // pkgs
	Patterns  []string          `json:"patterns"`  // pkgs
	Files     map[string]string `json:"files"`     // src
	Seed      int64             `json:"seed"`      // gen
	Modes     []int             `json:"modes"`     // bit 1 naive, 2 GlobalDebug, 4 InstantiateGenerics, 8 BuildSerially
	Dump      string            `json:"dump"`      // function name whose disassembly is wanted (replay)
	Sample    int               `json:"sample"`    // export at most this many functions per document (chosen by hash of name and seed)
	Only      string            `json:"only"`      // regexp: export only functions whose name matches (generated programs: skip the fixed prelude)
}

type JobResult struct {
	Job        string   `json:"job"`
	Status     string   `json:"status"` // ok | skip | error
	Why        string   `json:"why"`
	Docs       int      `json:"docs"`
	Fns        int      `json:"fns"`
	Skipped    int      `json:"skipped"`
	Instrs     int      `json:"instrs"`
	Dumps      []string `json:"dumps"`
	Panicked   bool     `json:"panicked"`
	NotSampled int      `json:"notsampled"`
}

const (
	mNaive  = 1
	mDebug  = 2
	mInst   = 4
	mSerial = 8
)

func builderMode(bits int) ir.BuilderMode {
	var m ir.BuilderMode
	if bits&mNaive != 0 {
		m |= ir.NaiveForm
	}
	if bits&mDebug != 0 {
		m |= ir.GlobalDebug
	}
	if bits&mInst != 0 {
		m |= ir.InstantiateGenerics
	}
	if bits&mSerial != 0 {
		m |= ir.BuildSerially
	}
	return m
}

func modeName(bits int) string {
	s := "lifted"
	if bits&mNaive != 0 {
		s = "naive"
	}
	if bits&mDebug != 0 {
		s += "+debug"
	}
	if bits&mInst != 0 {
		s += "+inst"
	}
	if bits&mSerial != 0 {
		s += "+serial"
	}
	return s
}

var (
	maxBlocks = flag.Int("maxblocks", 60, "skip functions with more blocks")
	maxInstrs = flag.Int("maxinstrs", 600, "skip functions with more instructions")
	outPath   = flag.String("out", "", "output NDJSON file")
	jobsPath  = flag.String("jobs", "", "jobs JSON file")
	nworkers  = flag.Int("j", 4, "parallel jobs")
	genOnly   = flag.Int64("gen", -1, "print the generated program for this seed and exit")
)

var (
	outMu  sync.Mutex
	outW   *bufio.Writer
	impMu  sync.Mutex
	fsetMu sync.Mutex
)

// lockedImporter serialises a (not goroutine-safe) importer.
type lockedImporter struct{ imp types.ImporterFrom }

func (l lockedImporter) Import(path string) (*types.Package, error) {
	return l.ImportFrom(path, "", 0)
}
func (l lockedImporter) ImportFrom(path, dir string, mode types.ImportMode) (*types.Package, error) {
	impMu.Lock()
	defer impMu.Unlock()
	return l.imp.ImportFrom(path, dir, mode)
}

func main() {
	flag.Parse()
	if *genOnly >= 0 {
		fmt.Print(genProgram(*genOnly))
		return
	}
	data, err := os.ReadFile(*jobsPath)
	if err != nil {
		fatal(err)
	}
	var jobs []Job
	if err := json.Unmarshal(data, &jobs); err != nil {
		fatal(err)
	}
	f, err := os.Create(*outPath)
	if err != nil {
		fatal(err)
	}
	outW = bufio.NewWriterSize(f, 1<<20)

	fset := token.NewFileSet()
	srcImp := lockedImporter{importer.ForCompiler(fset, "source", nil).(types.ImporterFrom)}

	results := make([]JobResult, len(jobs))
	var wg sync.WaitGroup
	ch := make(chan int)
	for w := 0; w < *nworkers; w++ {
		wg.Add(1)
		go func() {
			defer wg.Done()
			for i := range ch {
				results[i] = runJob(&jobs[i], fset, srcImp)
			}
		}()
	}
	for i := range jobs {
		ch <- i
	}
	close(ch)
	wg.Wait()
	outW.Flush()
	f.Close()
	enc := json.NewEncoder(os.Stdout)
	for _, r := range results {
		enc.Encode(r)
	}
}

func fatal(err error) {
	fmt.Fprintln(os.Stderr, "h-irexport:", err)
	os.Exit(2)
}

func runJob(j *Job, fset *token.FileSet, imp types.ImporterFrom) (res JobResult) {
	res.Job = j.Name
	res.Dumps = []string{}
	defer func() {
		if r := recover(); r != nil {
			buf := make([]byte, 4096)
			buf = buf[:runtime.Stack(buf, false)]
			res.Status = "error"
			res.Panicked = true
			res.Why = fmt.Sprintf("panic: %v\n%s", r, buf)
		}
	}()
	switch j.Kind {
	case "dir":
		files, why := parseDir(fset, j.Path)
		if why != "" {
			res.Status, res.Why = "skip", why
			return
		}
		imp = newTDImporter(imp, fset, j.Path, j.GoVersion)
		r := buildSingle(j, fset, imp, files, &res)
		if r.Status == "skip" && len(files) > 1 {
			// a directory of independent single-file packages (go/ir/testdata): one package per file
			okAny := false
			why := r.Why
			for _, f := range files {
				sub := *j
				sub.Name = j.Name + "/" + filepath.Base(fset.Position(f.Pos()).Filename)
				res.Status, res.Why = "", ""
				if rr := buildSingle(&sub, fset, imp, []*ast.File{f}, &res); rr.Status == "ok" {
					okAny = true
				}
			}
			if okAny {
				res.Status, res.Why = "ok", "per-file packages ("+why+")"
			} else {
				res.Status, res.Why = "skip", why
			}
			return res
		}
		return r
	case "src", "gen":
		srcs := j.Files
		if j.Kind == "gen" {
			srcs = map[string]string{"p.go": genProgram(j.Seed)}
		}
		var names []string
		for n := range srcs {
			names = append(names, n)
		}
		sort.Strings(names)
		var files []*ast.File
		for _, n := range names {
			fsetMu.Lock()
			f, err := parser.ParseFile(fset, j.Name+"/"+n, srcs[n], parser.ParseComments|parser.SkipObjectResolution)
			fsetMu.Unlock()
			if err != nil {
				res.Status, res.Why = "error", "parse: "+err.Error()
				return
			}
			files = append(files, f)
		}
		return buildSingle(j, fset, imp, files, &res)
	case "pkgs":
		return buildPkgs(j, &res)
	}
	res.Status, res.Why = "error", "unknown job kind "+j.Kind
	return
}

var goVerRe = regexp.MustCompile(`^go1\.\d+$`)

// tdImporter resolves imports of sibling fixture packages (testdata/src/<path>, or a sibling
// directory named like the last path element) from source; everything else goes to base.
type tdImporter struct {
	base  types.ImporterFrom
	fset  *token.FileSet
	roots []string
	cache map[string]*types.Package
	gover string
}

func newTDImporter(base types.ImporterFrom, fset *token.FileSet, dir, gover string) *tdImporter {
	t := &tdImporter{base: base, fset: fset, cache: map[string]*types.Package{}, gover: gover}
	for d := dir; d != "/" && d != "."; d = filepath.Dir(d) {
		if filepath.Base(d) == "testdata" {
			t.roots = append(t.roots, filepath.Join(d, "src"))
			break
		}
	}
	t.roots = append(t.roots, filepath.Dir(dir))
	return t
}

func (t *tdImporter) Import(path string) (*types.Package, error) { return t.ImportFrom(path, "", 0) }
func (t *tdImporter) ImportFrom(path, dir string, mode types.ImportMode) (*types.Package, error) {
	if p, ok := t.cache[path]; ok {
		return p, nil
	}
	if strings.Contains(path, ".") && path != "C" {
		for i, root := range t.roots {
			cand := filepath.Join(root, path)
			if i > 0 {
				cand = filepath.Join(root, filepath.Base(path))
			}
			if st, err := os.Stat(cand); err == nil && st.IsDir() {
				files, why := parseDir(t.fset, cand)
				if why != "" {
					continue
				}
				tc := &types.Config{Importer: t, Error: func(error) {}}
				if goVerRe.MatchString(t.gover) {
					tc.GoVersion = t.gover
				}
				pkg, _ := tc.Check(path, t.fset, files, nil)
				if pkg != nil {
					t.cache[path] = pkg
					return pkg, nil
				}
			}
		}
	}
	return t.base.ImportFrom(path, dir, mode)
}

// parseDir parses the non-test Go files of a directory that belong to one package and are not
// excluded by build constraints / cgo.
func parseDir(fset *token.FileSet, dir string) ([]*ast.File, string) {
	ents, err := os.ReadDir(dir)
	if err != nil {
		return nil, err.Error()
	}
	byPkg := map[string][]*ast.File{}
	for _, e := range ents {
		n := e.Name()
		if e.IsDir() || !strings.HasSuffix(n, ".go") || strings.HasSuffix(n, "_test.go") {
			continue
		}
		fsetMu.Lock()
		f, err := parser.ParseFile(fset, filepath.Join(dir, n), nil, parser.ParseComments|parser.SkipObjectResolution)
		fsetMu.Unlock()
		if err != nil {
			return nil, "parse error: " + err.Error()
		}
		if !buildOK(f) {
			continue
		}
		cgo := false
		for _, im := range f.Imports {
			if im.Path.Value == `"C"` {
				cgo = true
			}
		}
		if cgo {
			continue
		}
		byPkg[f.Name.Name] = append(byPkg[f.Name.Name], f)
	}
	if len(byPkg) == 0 {
		return nil, "no buildable Go files"
	}
	best := ""
	for n, fs := range byPkg {
		if best == "" || len(fs) > len(byPkg[best]) || (len(fs) == len(byPkg[best]) && n < best) {
			best = n
		}
	}
	return byPkg[best], ""
}

func buildOK(f *ast.File) bool {
	for _, cg := range f.Comments {
		if cg.Pos() >= f.Package {
			break
		}
		for _, c := range cg.List {
			if constraint.IsGoBuild(c.Text) {
				x, err := constraint.Parse(c.Text)
				if err != nil {
					return false
				}
				return x.Eval(func(tag string) bool {
					return tag == "linux" || tag == "amd64" || tag == "unix" || tag == "gc" || strings.HasPrefix(tag, "go1.")
				})
			}
		}
	}
	return true
}

func newInfo() *types.Info {
	return &types.Info{
		Types:        make(map[ast.Expr]types.TypeAndValue),
		Defs:         make(map[*ast.Ident]types.Object),
		Uses:         make(map[*ast.Ident]types.Object),
		Implicits:    make(map[ast.Node]types.Object),
		Scopes:       make(map[ast.Node]*types.Scope),
		Selections:   make(map[*ast.SelectorExpr]*types.Selection),
		Instances:    make(map[*ast.Ident]types.Instance),
		FileVersions: make(map[*ast.File]string),
	}
}

// buildSingle type-checks one package from syntax (imports from source) and builds it once per
// mode, the way irutil.BuildPackage does (one Program per build, all dependencies created
// without syntax).
func buildSingle(j *Job, fset *token.FileSet, imp types.ImporterFrom, files []*ast.File, res *JobResult) JobResult {
	path := "ex.test/" + sanitize(j.Name)
	tc := &types.Config{Importer: imp}
	if goVerRe.MatchString(j.GoVersion) {
		tc.GoVersion = j.GoVersion
	}
	var firstErr error
	tc.Error = func(err error) {
		if firstErr == nil {
			firstErr = err
		}
	}
	for _, bits := range j.Modes {
		// type-check anew per mode: the builder is handed fresh types.Info (as every client does)
		firstErr = nil
		pkg := types.NewPackage(path, files[0].Name.Name)
		info := newInfo()
		types.NewChecker(tc, fset, pkg, info).Files(files)
		if firstErr != nil {
			if j.Kind == "dir" {
				res.Status, res.Why = "skip", "does not type-check: "+firstErr.Error()
			} else {
				res.Status, res.Why = "error", "generated program does not type-check: "+firstErr.Error()
			}
			return *res
		}
		prog := ir.NewProgram(fset, builderMode(bits))
		created := map[*types.Package]bool{}
		var createAll func(pkgs []*types.Package)
		createAll = func(pkgs []*types.Package) {
			for _, p := range pkgs {
				if !created[p] {
					created[p] = true
					prog.CreatePackage(p, nil, nil, true)
					createAll(p.Imports())
				}
			}
		}
		createAll(pkg.Imports())
		irpkg := prog.CreatePackage(pkg, files, info, false)
		irpkg.Build()
		exportPackage(j, prog, irpkg, bits, res)
	}
	res.Status = "ok"
	return *res
}

func sanitize(s string) string {
	var b strings.Builder
	for _, r := range s {
		if r >= 'a' && r <= 'z' || r >= 'A' && r <= 'Z' || r >= '0' && r <= '9' || r == '/' || r == '_' || r == '-' || r == '.' {
			b.WriteRune(r)
		} else {
			b.WriteByte('_')
		}
	}
	return b.String()
}

// buildPkgs loads packages with go/packages (syntax for the initial packages, export data for
// dependencies) and builds them as one Program with Program.Build (this is where BuildSerially
// matters), once per mode.
func buildPkgs(j *Job, res *JobResult) JobResult {
	cfg := &packages.Config{
		Mode: packages.NeedName | packages.NeedFiles | packages.NeedCompiledGoFiles | packages.NeedImports |
			packages.NeedTypes | packages.NeedTypesSizes | packages.NeedSyntax | packages.NeedTypesInfo | packages.NeedDeps,
		Dir: j.Cwd,
		Env: append(os.Environ(), "CGO_ENABLED=0"),
	}
	for _, bits := range j.Modes {
		initial, err := packages.Load(cfg, j.Patterns...)
		if err != nil {
			res.Status, res.Why = "error", "packages.Load: "+err.Error()
			return *res
		}
		var good []*packages.Package
		for _, p := range initial {
			if len(p.Errors) == 0 && !p.IllTyped && p.Types != nil && len(p.Syntax) > 0 {
				good = append(good, p)
			}
		}
		if len(good) == 0 {
			res.Status, res.Why = "skip", fmt.Sprintf("no well-typed package among %d loaded", len(initial))
			return *res
		}
		prog, irpkgs := irutil.Packages(good, builderMode(bits))
		prog.Build()
		for _, p := range irpkgs {
			if p != nil {
				exportPackage(j, prog, p, bits, res)
			}
		}
	}
	res.Status = "ok"
	return *res
}

// ---- output document ------------------------------------------------------------------------

// A position is block*1000 + index (both 1-based); 0 = not an instruction of this function.
type Pos = int

func mkPos(b, i int) Pos { return b*1000 + i }

type ValRef struct {
	K string `json:"k"` // i p fv c ac g fn bi none other
	// k=i: position of the defining instruction (0 = not in this function);
	// k=p/fv: index in Params/FreeVars (0 = not ours);
	// k=fn: -1 for a named function, else the number of occurrences of the user in fn.Referrers()
	P int `json:"p"`
	T int `json:"t"` // type id (0 = nil type)
}

// Instr is written with the common fields {op, id, blk, v, args} plus, for values, {t, refs},
// plus the attributes of its kind (the same set for every instruction of one kind):
//
//	sub    BinOp/UnOp token; Call/Go/Defer mode ("call" | "builtin" | "invoke")
//	n      Field / Extract index; number of call args; number of ConstantSwitch conds
//	flag   CommaOk / Heap / IsString / Blocking / IsAddr; MakeClosure: Fn is a *Function
//	at     AssertedType; invoke: method signature; MakeClosure: Fn.Signature
//	name   invoke: method id
//	recv   call mode, callee *Function with receiver: receiver type
//	types  TypeSwitch.Conds; MakeClosure: types of Fn.FreeVars; Select: state dirs (1 send, 2 recv);
//	       ChangeType: tag-insensitive ids (see attrs)
type Instr struct {
	Op   string
	ID   int
	Blk  int // Block().Index+1 as claimed by the instruction (0 = nil)
	V    int // 0 not a value; 1 value; 2 value whose Referrers() is nil
	T    int
	Args []ValRef
	Refs []Pos
	X    map[string]any
}

func (x Instr) MarshalJSON() ([]byte, error) {
	m := map[string]any{"op": x.Op, "id": x.ID, "blk": x.Blk, "v": x.V, "args": x.Args}
	if x.V > 0 {
		m["t"] = x.T
		m["refs"] = x.Refs
	}
	for k, v := range x.X {
		m[k] = v
	}
	return json.Marshal(m)
}

type Block struct {
	Index  int     `json:"index"` // claimed Index+1
	Preds  []int   `json:"preds"`
	Succs  []int   `json:"succs"`
	Instrs []Instr `json:"instrs"`
}

type ValDef struct {
	Name string `json:"name"`
	T    int    `json:"t"`
	HasR bool   `json:"hasr"`
	Refs []Pos  `json:"refs"`
}

type Fn struct {
	Name      string   `json:"name"`
	Synthetic string   `json:"synthetic"`
	Sig       int      `json:"sig"`
	RecvT     int      `json:"recvt"` // receiver type of Signature (0 none)
	Results   []int    `json:"results"`
	SigParams []int    `json:"sigparams"`
	Params    []ValDef `json:"params"`
	FreeVars  []ValDef `json:"freevars"`
	Recover   int      `json:"recover"` // block (1-based), 0 none, -1 not in Blocks
	Locals    []Pos    `json:"locals"`
	Dup       bool     `json:"dup"` // some instruction occurs twice in Blocks[*].Instrs
	NInstr    int      `json:"ninstr"`
	Blocks    []Block  `json:"blocks"`
}

type Skipped struct {
	Name   string `json:"name"`
	Blocks int    `json:"blocks"`
	Instrs int    `json:"instrs"`
}

type Doc struct {
	Job      string    `json:"job"`
	Pkg      string    `json:"pkg"`
	Mode     string    `json:"mode"`
	ModeBits int       `json:"modebits"`
	Types    []*TTerm  `json:"types"`
	Fns      []*Fn     `json:"fns"`
	Skipped  []Skipped `json:"skipped"`
}

func exportPackage(j *Job, prog *ir.Program, p *ir.Package, bits int, res *JobResult) {
	fns := collectFunctions(prog, p)
	ti := newInterner()
	doc := &Doc{Job: j.Name, Pkg: p.Pkg.Path(), Mode: modeName(bits), ModeBits: bits, Fns: []*Fn{}, Skipped: []Skipped{}}
	var only *regexp.Regexp
	if j.Only != "" {
		only = regexp.MustCompile(j.Only)
	}
	if j.Sample > 0 && len(fns) > j.Sample {
		// deterministic sample; the same functions under every mode of the job
		type hf struct {
			h  uint64
			fn *ir.Function
		}
		hs := make([]hf, len(fns))
		for i, fn := range fns {
			h := fnv.New64a()
			fmt.Fprintf(h, "%d|%s", j.Seed, fn.String())
			hs[i] = hf{h.Sum64(), fn}
		}
		sort.SliceStable(hs, func(a, b int) bool { return hs[a].h < hs[b].h })
		keep := map[*ir.Function]bool{}
		for _, x := range hs[:j.Sample] {
			keep[x.fn] = true
		}
		var kept []*ir.Function
		for _, fn := range fns {
			if keep[fn] {
				kept = append(kept, fn)
			}
		}
		res.NotSampled += len(fns) - len(kept)
		fns = kept
	}
	for _, fn := range fns {
		if only != nil && !only.MatchString(fn.String()) {
			continue
		}
		ni := 0
		for _, b := range fn.Blocks {
			ni += len(b.Instrs)
		}
		name := fn.String()
		if fn.Parent() != nil {
			name = fn.RelString(nil)
		}
		if j.Dump != "" && name == j.Dump {
			var sb strings.Builder
			fn.WriteTo(&sb)
			res.Dumps = append(res.Dumps, modeName(bits)+"\n"+sb.String())
		}
		if len(fn.Blocks) > *maxBlocks || ni > *maxInstrs {
			doc.Skipped = append(doc.Skipped, Skipped{name, len(fn.Blocks), ni})
			res.Skipped++
			continue
		}
		doc.Fns = append(doc.Fns, exportFn(fn, name, ti))
		res.Fns++
		res.Instrs += ni
	}
	doc.Types = ti.terms
	data, err := json.Marshal(doc)
	if err != nil {
		panic(err)
	}
	outMu.Lock()
	outW.Write(data)
	outW.WriteByte('\n')
	outMu.Unlock()
	res.Docs++
}

// collectFunctions enumerates the function bodies the builder produced for package p: declared
// functions and methods, init, anonymous functions, and every synthetic function (wrapper, thunk,
// bound method, instantiation) reachable from them or from the method sets of p's named types.
func collectFunctions(prog *ir.Program, p *ir.Package) []*ir.Function {
	seen := map[*ir.Function]bool{}
	var list []*ir.Function
	var add func(fn *ir.Function)
	add = func(fn *ir.Function) {
		if fn == nil || seen[fn] {
			return
		}
		seen[fn] = true
		if fn.Blocks == nil {
			return
		}
		list = append(list, fn)
		for _, a := range fn.AnonFuncs {
			add(a)
		}
		var buf [16]*ir.Value
		for _, b := range fn.Blocks {
			for _, ins := range b.Instrs {
				if ins == nil {
					continue
				}
				for _, op := range ins.Operands(buf[:0]) {
					if op == nil {
						continue
					}
					if f2, ok := (*op).(*ir.Function); ok && f2 != nil && (f2.Pkg == nil || f2.Pkg == p) {
						add(f2)
					}
				}
			}
		}
	}
	for _, fn := range p.Functions {
		add(fn)
	}
	var names []string
	for n := range p.Members {
		names = append(names, n)
	}
	sort.Strings(names)
	for _, n := range names {
		switch m := p.Members[n].(type) {
		case *ir.Function:
			add(m)
		case *ir.Type:
			named, ok := types.Unalias(m.Type()).(*types.Named)
			if !ok || named.TypeParams().Len() > 0 || types.IsInterface(named) {
				continue
			}
			for _, T := range []types.Type{named, types.NewPointer(named)} {
				mset := prog.MethodSets.MethodSet(T)
				for i := 0; i < mset.Len(); i++ {
					sel := mset.At(i)
					if sel.Obj().(*types.Func).Type().(*types.Signature).TypeParams().Len() > 0 {
						continue
					}
					add(prog.MethodValue(sel))
				}
			}
		}
	}
	return list
}

func exportFn(fn *ir.Function, name string, ti *interner) *Fn {
	out := &Fn{Name: name, Synthetic: fn.Synthetic, Results: []int{}, SigParams: []int{}, Params: []ValDef{}, FreeVars: []ValDef{},
		Locals: []Pos{}, Blocks: []Block{}}
	sig := fn.Signature
	out.Sig = ti.id(sig)
	if sig.Recv() != nil {
		out.RecvT = ti.id(sig.Recv().Type())
	}
	for i := 0; i < sig.Results().Len(); i++ {
		out.Results = append(out.Results, ti.id(sig.Results().At(i).Type()))
	}
	for i := 0; i < sig.Params().Len(); i++ {
		out.SigParams = append(out.SigParams, ti.id(sig.Params().At(i).Type()))
	}
	// positions by identity
	pos := map[ir.Instruction]Pos{}
	blockIdx := map[*ir.BasicBlock]int{}
	for bi, b := range fn.Blocks {
		if b == nil {
			continue
		}
		blockIdx[b] = bi + 1
		for ii, ins := range b.Instrs {
			if ins == nil {
				continue
			}
			if _, dup := pos[ins]; dup {
				out.Dup = true
			}
			pos[ins] = mkPos(bi+1, ii+1)
		}
	}
	bref := func(b *ir.BasicBlock) int {
		if b == nil {
			return 0
		}
		if i, ok := blockIdx[b]; ok {
			return i
		}
		return -1
	}
	locate := func(refs *[]ir.Instruction) (bool, []Pos) {
		if refs == nil {
			return false, []Pos{}
		}
		ps := make([]Pos, 0, len(*refs))
		for _, r := range *refs {
			if r == nil {
				ps = append(ps, 0)
				continue
			}
			ps = append(ps, pos[r]) // zero Pos if not an instruction of this function
		}
		return true, ps
	}
	for _, p := range fn.Params {
		has, refs := locate(p.Referrers())
		out.Params = append(out.Params, ValDef{p.Name(), ti.id(p.Type()), has, refs})
	}
	for _, fv := range fn.FreeVars {
		has, refs := locate(fv.Referrers())
		out.FreeVars = append(out.FreeVars, ValDef{fv.Name(), ti.id(fv.Type()), has, refs})
	}
	if fn.Recover != nil {
		out.Recover = bref(fn.Recover)
	}
	for _, l := range fn.Locals {
		out.Locals = append(out.Locals, pos[l])
	}
	paramIdx := func(p *ir.Parameter) int {
		for i, q := range fn.Params {
			if q == p {
				return i + 1
			}
		}
		return 0
	}
	fvIdx := func(p *ir.FreeVar) int {
		for i, q := range fn.FreeVars {
			if q == p {
				return i + 1
			}
		}
		return 0
	}
	valref := func(user ir.Instruction, v ir.Value) ValRef {
		if v == nil {
			return ValRef{K: "none"}
		}
		r := ValRef{T: ti.id(v.Type())}
		switch v := v.(type) {
		case *ir.Const:
			r.K = "c"
		case *ir.AggregateConst:
			r.K = "ac"
		case *ir.Global:
			r.K = "g"
		case *ir.Builtin:
			r.K = "bi"
		case *ir.Function:
			r.K, r.P = "fn", -1
			if v.Parent() != nil { // anonymous: function-local, Referrers are tracked
				r.P = 0
				if refs := v.Referrers(); refs != nil {
					for _, x := range *refs {
						if x == user {
							r.P++
						}
					}
				}
			}
		case *ir.Parameter:
			r.K, r.P = "p", paramIdx(v)
		case *ir.FreeVar:
			r.K, r.P = "fv", fvIdx(v)
		default:
			if ins, ok := v.(ir.Instruction); ok {
				r.K, r.P = "i", pos[ins]
			} else {
				r.K = "other"
			}
		}
		return r
	}
	var buf []*ir.Value
	for _, b := range fn.Blocks {
		ob := Block{Preds: []int{}, Succs: []int{}, Instrs: []Instr{}}
		if b == nil {
			out.Blocks = append(out.Blocks, ob)
			continue
		}
		ob.Index = b.Index + 1
		for _, p := range b.Preds {
			ob.Preds = append(ob.Preds, bref(p))
		}
		for _, s := range b.Succs {
			ob.Succs = append(ob.Succs, bref(s))
		}
		for _, ins := range b.Instrs {
			oi := Instr{Args: []ValRef{}, Refs: []Pos{}, X: map[string]any{}}
			if ins == nil {
				oi.Op = "nil"
				ob.Instrs = append(ob.Instrs, oi)
				continue
			}
			out.NInstr++
			oi.Op = strings.TrimPrefix(fmt.Sprintf("%T", ins), "*ir.")
			oi.ID = int(ins.ID())
			oi.Blk = bref(ins.Block())
			if v, ok := ins.(ir.Value); ok {
				oi.T = ti.id(v.Type())
				var has bool
				has, oi.Refs = locate(v.Referrers())
				oi.V = 2
				if has {
					oi.V = 1
				}
			}
			buf = ins.Operands(buf[:0])
			for _, op := range buf {
				if op == nil {
					oi.Args = append(oi.Args, ValRef{K: "none"})
					continue
				}
				oi.Args = append(oi.Args, valref(ins, *op))
			}
			attrs(ins, &oi, ti)
			ob.Instrs = append(ob.Instrs, oi)
		}
		out.Blocks = append(out.Blocks, ob)
	}
	return out
}

func attrs(ins ir.Instruction, oi *Instr, ti *interner) {
	X := oi.X
	call := func(c *ir.CallCommon) {
		X["n"] = len(c.Args)
		X["name"], X["at"], X["recv"] = "", 0, 0
		switch {
		case c.IsInvoke():
			X["sub"] = "invoke"
			X["name"] = c.Method.Id()
			X["at"] = ti.id(c.Method.Type())
		default:
			X["sub"] = "call"
			if _, ok := c.Value.(*ir.Builtin); ok {
				X["sub"] = "builtin"
			}
			if f, ok := c.Value.(*ir.Function); ok && f.Signature.Recv() != nil {
				X["recv"] = ti.id(f.Signature.Recv().Type())
			}
		}
	}
	switch v := ins.(type) {
	case *ir.Alloc:
		X["flag"] = v.Heap
	case *ir.BinOp:
		X["sub"] = v.Op.String()
	case *ir.UnOp:
		X["sub"] = v.Op.String()
	case *ir.Call:
		call(&v.Call)
	case *ir.Go:
		call(&v.Call)
	case *ir.Defer:
		call(&v.Call)
	case *ir.FieldAddr:
		X["n"] = v.Field
	case *ir.Field:
		X["n"] = v.Field
	case *ir.Extract:
		X["n"] = v.Index
	case *ir.MapLookup:
		X["flag"] = v.CommaOk
	case *ir.Recv:
		X["flag"] = v.CommaOk
	case *ir.TypeAssert:
		X["flag"] = v.CommaOk
		X["at"] = ti.id(v.AssertedType)
	case *ir.Next:
		X["flag"] = v.IsString
	case *ir.Select:
		X["flag"] = v.Blocking
		dirs := []int{}
		for _, st := range v.States {
			if st.Dir == types.SendOnly {
				dirs = append(dirs, 1)
			} else {
				dirs = append(dirs, 2)
			}
		}
		X["types"] = dirs
	case *ir.TypeSwitch:
		ts := []int{}
		for _, t := range v.Conds {
			ts = append(ts, ti.id(t))
		}
		X["types"] = ts
	case *ir.ConstantSwitch:
		X["n"] = len(v.Conds)
	case *ir.MakeClosure:
		ts := []int{}
		X["flag"], X["at"] = false, 0
		if f, ok := v.Fn.(*ir.Function); ok && f != nil {
			X["flag"] = true
			for _, fv := range f.FreeVars {
				ts = append(ts, ti.id(fv.Type()))
			}
			X["at"] = ti.id(f.Signature)
		}
		X["types"] = ts
	case *ir.MakeInterface:
		// the method set the MakeInterface rule needs is attached to the operand's type term
		if v.X != nil {
			ti.needMethodSet(v.X.Type())
		}
	case *ir.DebugRef:
		X["flag"] = v.IsAddr
	case *ir.ChangeType:
		// conversion identity ignores struct tags: ids of the underlying types (and of the
		// underlying pointer base types) in a tag-insensitive id space, comparable with each other only
		ts := []int{0, 0, 0, 0}
		if v.X != nil && v.X.Type() != nil && v.Type() != nil {
			a, b := v.X.Type().Underlying(), v.Type().Underlying()
			ts[0], ts[1] = ti.nt().id(a), ti.nt().id(b)
			pa, ok1 := a.(*types.Pointer)
			pb, ok2 := b.(*types.Pointer)
			if ok1 && ok2 {
				ts[2] = ti.nt().id(pa.Elem().Underlying())
				ts[3] = ti.nt().id(pb.Elem().Underlying())
			}
		}
		X["types"] = ts
	}
}
