// h-pfilter binds specs/PatternFilter.tla to the real code (property C08).
//
//	h-pfilter extract -repo DIR
//	    every string passed to pattern.MustParse in the repository (non-test, non-testdata Go files)
//	h-pfilter collect -tlc tlc.out -symtab symtab.json
//	    (a) drift: for every TLC-emitted abstract pattern, render it, run the REAL pattern.Parser and
//	    compare EntryNodes / SymbolsPattern / RootCallSymbols with the specification's collectors;
//	    prints the rendered pattern strings for (b)
//	h-pfilter probe -patterns patterns.json -dirs dirs.json
//	    (b) property level: a probe analyzer that requires code.RequiredAnalyzers is run by the REAL
//	    lintcmd/runner over the given package trees; for every pattern and package it compares
//	    code.Matches with brute-force pattern.Match on every syntax node, normalising automatic
//	    unnesting (a brute-force hit at n is explained by a filtered hit with the same bindings at a
//	    node of n's unwrap chain).
package main

import (
	"encoding/json"
	"flag"
	"fmt"
	"go/ast"
	"go/parser"
	"go/printer"
	"go/token"
	"go/types"
	"os"
	"path/filepath"
	"reflect"
	"sort"
	"strconv"
	"strings"
	"sync"

	"golang.org/x/tools/go/analysis"
	"golang.org/x/tools/go/analysis/passes/inspect"
	"golang.org/x/tools/go/ast/inspector"
	"golang.org/x/tools/go/packages"

	"honnef.co/go/tools/analysis/code"
	"honnef.co/go/tools/config"
	"honnef.co/go/tools/lintcmd/cache"
	"honnef.co/go/tools/lintcmd/runner"
	"honnef.co/go/tools/pattern"
	"honnef.co/go/tools/verifharness/internal/absyn"
)

func fatal(f string, a ...any) {
	fmt.Fprintf(os.Stderr, "h-pfilter: "+f+"\n", a...)
	os.Exit(2)
}

func main() {
	if len(os.Args) < 2 {
		fatal("usage: h-pfilter extract|collect|probe ...")
	}
	cmd := os.Args[1]
	os.Args = append(os.Args[:1], os.Args[2:]...)
	switch cmd {
	case "extract":
		extract()
	case "collect":
		collect()
	case "probe":
		probe()
	default:
		fatal("unknown command %s", cmd)
	}
}

// ---------------------------------------------------------------------------------------
// extract
// ---------------------------------------------------------------------------------------

type Extracted struct {
	File    string `json:"file"`
	Line    int    `json:"line"`
	Pattern string `json:"pattern"`
}

func stringConst(e ast.Expr) (string, bool) {
	switch e := e.(type) {
	case *ast.BasicLit:
		if e.Kind == token.STRING {
			s, err := strconv.Unquote(e.Value)
			return s, err == nil
		}
	case *ast.BinaryExpr:
		if e.Op == token.ADD {
			a, ok1 := stringConst(e.X)
			b, ok2 := stringConst(e.Y)
			return a + b, ok1 && ok2
		}
	case *ast.ParenExpr:
		return stringConst(e.X)
	}
	return "", false
}

func extract() {
	repo := flag.String("repo", "/repo", "repository root")
	flag.Parse()
	var out []Extracted
	nonconst := 0
	fset := token.NewFileSet()
	filepath.Walk(*repo, func(path string, info os.FileInfo, err error) error {
		if err != nil {
			return nil
		}
		if info.IsDir() {
			if n := info.Name(); n == "testdata" || n == ".git" || n == "_benchmarks" {
				return filepath.SkipDir
			}
			return nil
		}
		if !strings.HasSuffix(path, ".go") || strings.HasSuffix(path, "_test.go") {
			return nil
		}
		f, err := parser.ParseFile(fset, path, nil, parser.SkipObjectResolution)
		if err != nil {
			return nil
		}
		ast.Inspect(f, func(n ast.Node) bool {
			call, ok := n.(*ast.CallExpr)
			if !ok || len(call.Args) != 1 {
				return true
			}
			name := ""
			switch fn := call.Fun.(type) {
			case *ast.SelectorExpr:
				if x, ok := fn.X.(*ast.Ident); ok && x.Name == "pattern" {
					name = fn.Sel.Name
				}
			case *ast.Ident:
				if f.Name.Name == "pattern" {
					name = fn.Name
				}
			}
			if name != "MustParse" {
				return true
			}
			if s, ok := stringConst(call.Args[0]); ok {
				rel, _ := filepath.Rel(*repo, path)
				out = append(out, Extracted{File: rel, Line: fset.Position(call.Pos()).Line, Pattern: s})
			} else {
				nonconst++
			}
			return true
		})
		return nil
	})
	json.NewEncoder(os.Stdout).Encode(map[string]any{"patterns": out, "nonconst": nonconst})
}

// ---------------------------------------------------------------------------------------
// collect (drift of the transcribed collectors)
// ---------------------------------------------------------------------------------------

type SymEntry struct {
	Path  string `json:"path"`
	Type  string `json:"type"`
	Ident string `json:"ident"`
	Kind  string `json:"kind"`
}

func (s SymEntry) Name() string {
	if s.Type == "" {
		return s.Path + "." + s.Ident
	}
	return "(" + s.Path + "." + s.Type + ")." + s.Ident
}
func (s SymEntry) Index() string {
	return fmt.Sprintf("(IndexSymbol %q %q %q)", s.Path, s.Type, s.Ident)
}

type Formula struct {
	K  string    `json:"k"`
	S  string    `json:"s"`
	Fs []Formula `json:"fs"`
}

func (f Formula) render(tab map[string]SymEntry) string {
	switch f.K {
	case "fany":
		return "_"
	case "fnil":
		return "<nil>"
	case "isym":
		return tab[f.S].Index()
	case "fand", "for":
		parts := []string{map[string]string{"fand": "(And", "for": "(Or"}[f.K]}
		for _, c := range f.Fs {
			parts = append(parts, c.render(tab))
		}
		return strings.Join(parts, " ") + ")"
	}
	return "?" + f.K
}

type patLine struct {
	D     string          `json:"d"`
	I     int             `json:"i"`
	V     json.RawMessage `json:"v"`
	Entry []string        `json:"entry"`
	Syms  Formula         `json:"syms"`
	Root  []string        `json:"root"`
}

type Drift struct {
	I       int    `json:"i"`
	Pattern string `json:"pattern"`
	What    string `json:"what"`
	Spec    string `json:"spec"`
	Real    string `json:"real"`
}

func typeName(n ast.Node) string {
	return strings.TrimPrefix(fmt.Sprintf("%T", n), "*ast.")
}

func collect() {
	tlc := flag.String("tlc", "", "TLC output with d=pat lines")
	symtab := flag.String("symtab", "", "symbol table JSON: id -> {path,type,ident,kind}")
	flag.Parse()
	tab := map[string]SymEntry{}
	if *symtab != "" {
		b, err := os.ReadFile(*symtab)
		if err != nil {
			fatal("%v", err)
		}
		if err := json.Unmarshal(b, &tab); err != nil {
			fatal("symtab: %v", err)
		}
	}
	data, err := os.ReadFile(*tlc)
	if err != nil {
		fatal("%v", err)
	}
	var drifts []Drift
	type rendered struct {
		I       int    `json:"i"`
		Pattern string `json:"pattern"`
	}
	var pats []rendered
	n := 0
	for _, ln := range strings.Split(string(data), "\n") {
		if !strings.HasPrefix(ln, "\"CASE ") {
			continue
		}
		var inner string
		if err := json.Unmarshal([]byte(ln), &inner); err != nil {
			fatal("bad TLC line: %v", err)
		}
		var l patLine
		if err := json.Unmarshal([]byte(inner[5:]), &l); err != nil {
			fatal("bad case: %v: %.200s", err, inner)
		}
		if l.D == "symtab" {
			if err := json.Unmarshal(l.V, &tab); err != nil {
				fatal("symtab: %v", err)
			}
			continue
		}
		if l.D != "pat" {
			continue
		}
		n++
		abs, err := absyn.Decode(l.V)
		if err != nil {
			fatal("bad pattern: %v", err)
		}
		r := &absyn.Renderer{Sp: absyn.Sugar, Sym: func(id string) string { return tab[id].Name() }}
		src := r.Pattern(abs)
		pats = append(pats, rendered{l.I, src})
		func() {
			defer func() {
				if rec := recover(); rec != nil {
					drifts = append(drifts, Drift{l.I, src, "parser panic", "", fmt.Sprint(rec)})
				}
			}()
			p := &pattern.Parser{AllowTypeInfo: true}
			q, err := p.Parse(src)
			if err != nil {
				drifts = append(drifts, Drift{l.I, src, "parse error", "", err.Error()})
				return
			}
			var real []string
			for _, e := range q.EntryNodes {
				real = append(real, typeName(e))
			}
			sort.Strings(real)
			spec := append([]string(nil), l.Entry...)
			sort.Strings(spec)
			if strings.Join(real, ",") != strings.Join(spec, ",") {
				drifts = append(drifts, Drift{l.I, src, "EntryNodes", strings.Join(diff(spec, real), ","), strings.Join(diff(real, spec), ",")})
			}
			realSyms := "<nil>"
			if q.SymbolsPattern != nil {
				realSyms = q.SymbolsPattern.String()
			}
			if specSyms := l.Syms.render(tab); specSyms != realSyms {
				drifts = append(drifts, Drift{l.I, src, "SymbolsPattern", specSyms, realSyms})
			}
			var rr, sr []string
			for _, s := range q.RootCallSymbols {
				rr = append(rr, s.String())
			}
			for _, id := range l.Root {
				sr = append(sr, tab[id].Index())
			}
			sort.Strings(rr)
			rr = uniq(rr)
			sort.Strings(sr)
			if strings.Join(rr, " ") != strings.Join(sr, " ") {
				drifts = append(drifts, Drift{l.I, src, "RootCallSymbols", strings.Join(sr, " "), strings.Join(rr, " ")})
			}
		}()
	}
	json.NewEncoder(os.Stdout).Encode(map[string]any{"patterns": pats, "drift": drifts, "compared": n, "symtab": tab})
}

func uniq(s []string) []string {
	var out []string
	for i, x := range s {
		if i == 0 || x != s[i-1] {
			out = append(out, x)
		}
	}
	return out
}

// diff returns the elements of a that are not in b
func diff(a, b []string) []string {
	in := map[string]bool{}
	for _, x := range b {
		in[x] = true
	}
	var out []string
	for _, x := range a {
		if !in[x] {
			out = append(out, x)
		}
	}
	return out
}

// ---------------------------------------------------------------------------------------
// probe
// ---------------------------------------------------------------------------------------

type PatIn struct {
	ID      string `json:"id"`
	Pattern string `json:"pattern"`
}

type Dir struct {
	Dir     string   `json:"dir"`
	Module  string   `json:"module"` // non-empty: overlay a go.mod with this module line (checks' testdata)
	Go      string   `json:"go"`
	Pats    []string `json:"pats"` // ids of the patterns to search for here (empty = all)
	Label   string   `json:"label"`
	NoTests bool     `json:"notests"`
}

type Mismatch struct {
	Kind     string   `json:"kind"` // dropped | extra | panic
	PatID    string   `json:"pat"`
	Pattern  string   `json:"pattern"`
	Pkg      string   `json:"pkg"`
	Label    string   `json:"label"`
	NodeType string   `json:"node_type"`
	Pos      string   `json:"pos"`
	Source   string   `json:"source"`
	Chain    []string `json:"chain"`
	State    string   `json:"state"`
	Stage    string   `json:"stage"` // which restriction lost it: symbols | rootcalls | entry | bindings
	Detail   string   `json:"detail,omitempty"`
}

type compiled struct {
	id   string
	src  string
	q    pattern.Pattern
	syms []pattern.IndexSymbol
}

var (
	gPats    []compiled
	gMu      sync.Mutex
	gMis     []Mismatch
	gStats   = map[string]int{}
	gLabel   string
	gSelect  map[string]bool
	gPerKey  = map[string]int{}
	gHitPats = map[string]bool{}
)

var selfTest = new(bool)

var domain = map[string]bool{}

func init() {
	for _, t := range []string{"RangeStmt", "AssignStmt", "IndexExpr", "IndexListExpr", "Ident", "ValueSpec", "GenDecl", "BinaryExpr", "ForStmt",
		"ArrayType", "DeferStmt", "MapType", "ReturnStmt", "SliceExpr", "StarExpr", "UnaryExpr", "SendStmt", "SelectStmt",
		"ImportSpec", "IfStmt", "GoStmt", "Field", "SelectorExpr", "StructType", "KeyValueExpr", "FuncType", "FuncLit",
		"FuncDecl", "ChanType", "CallExpr", "CaseClause", "CommClause", "CompositeLit", "EmptyStmt", "SwitchStmt",
		"TypeSwitchStmt", "TypeAssertExpr", "TypeSpec", "InterfaceType", "BranchStmt", "IncDecStmt", "BasicLit",
		// wrappers and list carriers the matcher looks through
		"ParenExpr", "ExprStmt", "DeclStmt", "LabeledStmt", "BlockStmt", "FieldList"} {
		domain[t] = true
	}
}

func symbolsOf(n pattern.Node, out *[]pattern.IndexSymbol) {
	switch n := n.(type) {
	case pattern.IndexSymbol:
		*out = append(*out, n)
	case pattern.And:
		for _, c := range n.Nodes {
			symbolsOf(c, out)
		}
	case pattern.Or:
		for _, c := range n.Nodes {
			symbolsOf(c, out)
		}
	}
}

// every Symbol name literal of the pattern (not only those that survive into SymbolsPattern)
func allSymbolNames(n pattern.Node, inSym bool, out *[]string) {
	if n == nil {
		return
	}
	switch n := n.(type) {
	case pattern.Symbol:
		allSymbolNames(n.Name, true, out)
		return
	case pattern.String:
		if inSym {
			*out = append(*out, string(n))
		}
		return
	case pattern.Or:
		for _, c := range n.Nodes {
			allSymbolNames(c, inSym, out)
		}
		return
	case pattern.Token:
		return
	}
	rv := reflect.ValueOf(n)
	if rv.Kind() != reflect.Struct {
		return
	}
	for i := 0; i < rv.NumField(); i++ {
		if !rv.Type().Field(i).IsExported() {
			continue
		}
		if c, ok := rv.Field(i).Interface().(pattern.Node); ok {
			allSymbolNames(c, inSym, out)
		}
	}
}

func symbolPath(name string) string {
	if strings.HasPrefix(name, "(") {
		end := strings.Index(name, ")")
		if end < 0 {
			return ""
		}
		name = strings.TrimPrefix(name[1:end], "*")
	}
	dot := strings.LastIndex(name, ".")
	if dot < 0 {
		return ""
	}
	return name[:dot]
}

func chain(n ast.Node) []ast.Node {
	out := []ast.Node{n}
	for {
		var next ast.Node
		switch x := n.(type) {
		case *ast.ParenExpr:
			next = x.X
		case *ast.ExprStmt:
			next = x.X
		case *ast.DeclStmt:
			next = x.Decl
		case *ast.LabeledStmt:
			next = x.Stmt
		case *ast.BlockStmt:
			if x != nil && len(x.List) == 1 {
				next = x.List[0]
			}
		case *ast.FieldList:
			if x != nil && len(x.List) == 1 {
				next = x.List[0]
			}
		}
		if next == nil || reflect.ValueOf(next).IsNil() {
			return out
		}
		out = append(out, next)
		n = next
	}
}

func stateString(pass *analysis.Pass, m *pattern.Matcher) string {
	keys := make([]string, 0, len(m.State))
	for k := range m.State {
		keys = append(keys, k)
	}
	sort.Strings(keys)
	var sb strings.Builder
	for _, k := range keys {
		v := m.State[k]
		sb.WriteString(k + "=")
		switch v := v.(type) {
		case nil:
			sb.WriteString("nil")
		case ast.Node:
			if reflect.ValueOf(v).IsNil() {
				sb.WriteString("nil")
			} else {
				fmt.Fprintf(&sb, "%T@%d-%d", v, v.Pos(), v.End())
			}
		case types.Object:
			fmt.Fprintf(&sb, "obj:%s", v.String())
		case []ast.Expr:
			fmt.Fprintf(&sb, "exprs:%d", len(v))
			for _, e := range v {
				fmt.Fprintf(&sb, "@%d", e.Pos())
			}
		case []ast.Stmt:
			fmt.Fprintf(&sb, "stmts:%d", len(v))
			for _, e := range v {
				fmt.Fprintf(&sb, "@%d", e.Pos())
			}
		case []*ast.Field:
			fmt.Fprintf(&sb, "fields:%d", len(v))
			for _, e := range v {
				fmt.Fprintf(&sb, "@%d", e.Pos())
			}
		default:
			fmt.Fprintf(&sb, "%T:%v", v, v)
		}
		sb.WriteString(";")
	}
	return sb.String()
}

func source(pass *analysis.Pass, n ast.Node) string {
	var sb strings.Builder
	printer.Fprint(&sb, pass.Fset, n)
	s := strings.Join(strings.Fields(sb.String()), " ")
	if len(s) > 160 {
		s = s[:160] + "..."
	}
	return s
}

func add(m Mismatch) {
	gMu.Lock()
	defer gMu.Unlock()
	gStats["mismatch_"+m.Kind]++
	// a diverse sample: at most 2 per (kind, pattern, stage, package), 150 per (kind, stage)
	k := m.Kind + "/" + m.PatID + "/" + m.Stage + "/" + m.Pkg
	ks := m.Kind + "//" + m.Stage
	if gPerKey[k] < 2 && gPerKey[ks] < 150 {
		gPerKey[k]++
		gPerKey[ks]++
		gMis = append(gMis, m)
	}
}

func bump(k string, n int) {
	gMu.Lock()
	gStats[k] += n
	gMu.Unlock()
}

func runProbe(pass *analysis.Pass) (any, error) {
	ins := pass.ResultOf[inspect.Analyzer].(*inspector.Inspector)
	var nodes []ast.Node
	ins.Preorder(nil, func(n ast.Node) {
		if domain[typeName(n)] {
			nodes = append(nodes, n)
		}
	})
	bump("packages", 1)
	bump("nodes", len(nodes))
	for i := range gPats {
		cp := &gPats[i]
		if gSelect != nil && !gSelect[cp.id] {
			continue
		}
		// the property's proviso: symbols named by the pattern are not declared in the analysed package
		declared := false
		var names []string
		allSymbolNames(cp.q.Root, false, &names)
		for _, nm := range names {
			if p := symbolPath(nm); p != "" && p == pass.Pkg.Path() {
				declared = true
			}
		}
		if declared {
			bump("pairs_skipped_proviso", 1)
			continue
		}
		bump("pairs", 1)
		filtered := map[ast.Node][]string{}
		nf := 0
		perr := func() (perr string) {
			defer func() {
				if r := recover(); r != nil {
					perr = fmt.Sprint(r)
				}
			}()
			for node, m := range code.Matches(pass, cp.q) {
				if *selfTest && typeName(node) == "CallExpr" {
					continue // negative self-test: pretend the filter lost every call expression
				}
				filtered[node] = append(filtered[node], stateString(pass, m))
				nf++
			}
			return ""
		}()
		if perr != "" {
			add(Mismatch{Kind: "panic", PatID: cp.id, Pattern: cp.src, Pkg: pass.Pkg.Path(), Label: gLabel, Detail: "code.Matches: " + perr})
			continue
		}
		could := code.CouldMatchAny(pass, cp.q)
		entry := map[string]bool{}
		for _, e := range cp.q.EntryNodes {
			entry[typeName(e)] = true
		}
		nb := 0
		brute := map[ast.Node]string{}
		for _, n := range nodes {
			var m *pattern.Matcher
			var ok bool
			merr := func() (merr string) {
				defer func() {
					if r := recover(); r != nil {
						merr = fmt.Sprint(r)
					}
				}()
				m, ok = code.Match(pass, cp.q, n)
				return ""
			}()
			if merr != "" {
				add(Mismatch{Kind: "panic", PatID: cp.id, Pattern: cp.src, Pkg: pass.Pkg.Path(), Label: gLabel, NodeType: typeName(n),
					Pos: pass.Fset.Position(n.Pos()).String(), Source: source(pass, n), Detail: "pattern.Match: " + merr})
				continue
			}
			if !ok {
				continue
			}
			nb++
			st := stateString(pass, m)
			brute[n] = st
			explained := false
			ch := chain(n)
			for _, c := range ch {
				for _, fs := range filtered[c] {
					if fs == st {
						explained = true
					}
				}
			}
			if explained {
				continue
			}
			stage := "entry"
			sameNodeOtherState := false
			for _, c := range ch {
				if len(filtered[c]) > 0 {
					sameNodeOtherState = true
				}
			}
			switch {
			case sameNodeOtherState:
				stage = "bindings"
			case !could:
				stage = "symbols"
			case len(cp.q.RootCallSymbols) != 0:
				stage = "rootcalls"
			}
			var cts []string
			for _, c := range ch {
				cts = append(cts, typeName(c))
			}
			add(Mismatch{Kind: "dropped", PatID: cp.id, Pattern: cp.src, Pkg: pass.Pkg.Path(), Label: gLabel, NodeType: typeName(n),
				Pos: pass.Fset.Position(n.Pos()).String(), Source: source(pass, ch[len(ch)-1]), Chain: cts, State: st, Stage: stage})
		}
		// the other direction: whatever the filtered search reports is a brute-force match with the same bindings
		for n, sts := range filtered {
			for _, st := range sts {
				if b, ok := brute[n]; !ok || b != st {
					add(Mismatch{Kind: "extra", PatID: cp.id, Pattern: cp.src, Pkg: pass.Pkg.Path(), Label: gLabel, NodeType: typeName(n),
						Pos: pass.Fset.Position(n.Pos()).String(), Source: source(pass, n), State: st, Detail: "brute force: " + b})
				}
			}
		}
		bump("brute_matches", nb)
		bump("filtered_matches", nf)
		if nb > 0 {
			gMu.Lock()
			gHitPats[cp.id] = true
			gMu.Unlock()
		}
	}
	return nil, nil
}

func probe() {
	patsFile := flag.String("patterns", "", "JSON list of {id, pattern}")
	dirsFile := flag.String("dirs", "", "JSON list of {dir, module, go, pats, label}")
	selfTest = flag.Bool("selftest-drop-calls", false, "negative self-test: discard filtered hits at CallExpr nodes")
	flag.Parse()
	var pin []PatIn
	b, err := os.ReadFile(*patsFile)
	if err != nil {
		fatal("%v", err)
	}
	if err := json.Unmarshal(b, &pin); err != nil {
		fatal("patterns: %v", err)
	}
	var dirs []Dir
	b, err = os.ReadFile(*dirsFile)
	if err != nil {
		fatal("%v", err)
	}
	if err := json.Unmarshal(b, &dirs); err != nil {
		fatal("dirs: %v", err)
	}
	var parseErrs []map[string]string
	for _, p := range pin {
		func() {
			defer func() {
				if r := recover(); r != nil {
					parseErrs = append(parseErrs, map[string]string{"id": p.ID, "pattern": p.Pattern, "error": "panic: " + fmt.Sprint(r)})
				}
			}()
			ps := &pattern.Parser{AllowTypeInfo: true}
			q, err := ps.Parse(p.Pattern)
			if err != nil {
				parseErrs = append(parseErrs, map[string]string{"id": p.ID, "pattern": p.Pattern, "error": err.Error()})
				return
			}
			c := compiled{id: p.ID, src: p.Pattern, q: q}
			symbolsOf(q.SymbolsPattern, &c.syms)
			gPats = append(gPats, c)
		}()
	}

	probeAnalyzer := &analysis.Analyzer{
		Name:     "pfilterprobe",
		Doc:      "compares code.Matches with brute-force pattern matching",
		Requires: code.RequiredAnalyzers,
		Run:      runProbe,
	}

	tmp, err := os.MkdirTemp("", "pfilter-cache-")
	if err != nil {
		fatal("%v", err)
	}
	defer os.RemoveAll(tmp)
	c, err := cache.Open(tmp)
	if err != nil {
		fatal("%v", err)
	}
	cache.SetSalt([]byte("verif-pfilter"))

	var loadErrs []string
	for _, d := range dirs {
		gLabel = d.Label
		gSelect = nil
		if len(d.Pats) > 0 {
			gSelect = map[string]bool{}
			for _, id := range d.Pats {
				gSelect[id] = true
			}
		}
		r, err := runner.New(config.Config{}, c)
		if err != nil {
			fatal("%v", err)
		}
		abs, _ := filepath.Abs(d.Dir)
		cfg := &packages.Config{
			Dir:   abs,
			Tests: !d.NoTests,
			Env:   append(os.Environ(), "GOPROXY=off", "GOFLAGS=-mod=mod"),
		}
		if d.Module != "" {
			gov := d.Go
			if gov == "" {
				gov = "1.22"
			}
			cfg.Env = append(os.Environ(), "GOPROXY=off", "GOFLAGS=-mod=vendor", "GO111MODULE=")
			cfg.Overlay = map[string][]byte{filepath.Join(abs, "go.mod"): []byte("module " + d.Module + "\ngo " + gov + "\n")}
		}
		res, err := r.Run(cfg, []*analysis.Analyzer{probeAnalyzer}, []string{"./..."})
		if err != nil {
			loadErrs = append(loadErrs, d.Dir+": "+err.Error())
			continue
		}
		for _, rr := range res {
			if rr.Failed {
				msg := d.Dir + ": " + rr.Package.PkgPath + " failed"
				for _, e := range rr.Errors {
					msg += ": " + e.Error()
				}
				loadErrs = append(loadErrs, msg)
			}
		}
		bump("dirs", 1)
	}
	hit := make([]string, 0, len(gHitPats))
	for id := range gHitPats {
		hit = append(hit, id)
	}
	sort.Strings(hit)
	enc := json.NewEncoder(os.Stdout)
	for _, m := range gMis {
		enc.Encode(m)
	}
	enc.Encode(map[string]any{"summary": map[string]any{"stats": gStats, "patterns": len(gPats), "parse_errors": parseErrs,
		"load_errors": loadErrs, "patterns_with_matches": hit}})
}
