package main

import (
	"bufio"
	"bytes"
	"encoding/base64"
	"encoding/json"
	"fmt"
	"go/token"
	"os"
	"regexp"
	"sort"
	"strings"

	"golang.org/x/tools/go/analysis"
	"golang.org/x/tools/go/packages"

	"honnef.co/go/tools/analysis/lint"
	"honnef.co/go/tools/config"
	"honnef.co/go/tools/lintcmd/cache"
	"honnef.co/go/tools/lintcmd/runner"
	"honnef.co/go/tools/quickfix"
	"honnef.co/go/tools/simple"
	"honnef.co/go/tools/staticcheck"
	"honnef.co/go/tools/stylecheck"
)

type Job struct {
	ID       string   `json:"id"`
	Dir      string   `json:"dir"`
	Patterns []string `json:"patterns"`
	Tests    bool     `json:"tests"`
	Only     []string `json:"only"` // optional: analyzer names (default: all)
	Env      []string `json:"env"`  // extra environment for the go command (e.g. GOFLAGS=-mod=vendor)
}

type Pos struct {
	File string `json:"file"`
	Line int    `json:"line"`
	Col  int    `json:"col"`
	Off  int    `json:"off"`
}

type Edit struct {
	Pos    Pos    `json:"pos"`
	End    Pos    `json:"end"`
	New    string `json:"new"`     // for reading
	NewB64 string `json:"new_b64"` // exact bytes
}

type Fix struct {
	Msg   string `json:"msg"`
	Edits []Edit `json:"edits"`
}

type Diag struct {
	Cat   string `json:"cat"`
	Msg   string `json:"msg"`
	Pos   Pos    `json:"pos"`
	End   Pos    `json:"end"`
	Fixes []Fix  `json:"fixes"`
}

type FileInfo struct {
	Name    string `json:"name"`
	Size    int    `json:"size"`
	Lines   []int  `json:"lines"`   // length in bytes of every line, newline excluded; strings.Split(content, "\n")
	LineDir bool   `json:"linedir"` // contains a //line or /*line directive, or imports "C"
	CRLF    bool   `json:"crlf"`
	Missing bool   `json:"missing"`
}

type PkgRecord struct {
	Job     string     `json:"job"`
	Pkg     string     `json:"pkg"`
	Path    string     `json:"path"`
	Failed  bool       `json:"failed"`
	Errors  []string   `json:"errors"`
	GoVers  string     `json:"govers"`
	Files   []FileInfo `json:"files"`
	Diags   []Diag     `json:"diags"`
	JobErr  string     `json:"joberr,omitempty"`
	Remap   bool       `json:"remap"` // some file of the package has line directives / cgo
	Compile []string   `json:"compiled"`
}

var lineDirRe = regexp.MustCompile(`(?m)^//line |/\*line `)
var cgoRe = regexp.MustCompile(`(?m)^import\s+"C"|^\s+"C"\s*$|^import\s+_?\s*"C"`)

// lineTable is computed from the bytes alone (it does not look at go/token).
func lineTable(b []byte) []int {
	parts := bytes.Split(b, []byte("\n"))
	out := make([]int, len(parts))
	for i, p := range parts {
		out[i] = len(p)
	}
	return out
}

func fileInfo(name string) FileInfo {
	b, err := os.ReadFile(name)
	if err != nil {
		return FileInfo{Name: name, Missing: true, Lines: []int{}}
	}
	return FileInfo{
		Name:    name,
		Size:    len(b),
		Lines:   lineTable(b),
		LineDir: lineDirRe.Match(b) || cgoRe.Match(b),
		CRLF:    bytes.Contains(b, []byte("\r\n")),
	}
}

func conv(p token.Position) Pos {
	return Pos{File: p.Filename, Line: p.Line, Col: p.Column, Off: p.Offset}
}

func allLintAnalyzers() []*lint.Analyzer {
	var out []*lint.Analyzer
	out = append(out, simple.Analyzers...)
	out = append(out, staticcheck.Analyzers...)
	out = append(out, stylecheck.Analyzers...)
	out = append(out, quickfix.Analyzers...)
	return out
}

func recordMain(jobsPath, outPath, cacheDir string) error {
	jobs, err := readNDJSON[Job](jobsPath)
	if err != nil {
		return err
	}
	c, err := cache.Open(cacheDir)
	if err != nil {
		return err
	}
	cache.SetSalt([]byte("verif-c16"))
	of, err := os.Create(outPath)
	if err != nil {
		return err
	}
	defer of.Close()
	w := bufio.NewWriter(of)
	defer w.Flush()
	enc := json.NewEncoder(w)

	all := allLintAnalyzers()
	for _, job := range jobs {
		var as []*analysis.Analyzer
		only := map[string]bool{}
		for _, n := range job.Only {
			only[n] = true
		}
		for _, a := range all {
			if len(only) == 0 || only[a.Analyzer.Name] {
				as = append(as, a.Analyzer)
			}
		}
		r, err := runner.New(config.Config{}, c)
		if err != nil {
			return err
		}
		cfg := &packages.Config{
			Dir:   job.Dir,
			Tests: job.Tests,
			Env:   append(append(os.Environ(), "GOPROXY=off", "GOFLAGS=-mod=mod"), job.Env...),
		}
		res, err := r.Run(cfg, as, job.Patterns)
		if err != nil {
			enc.Encode(PkgRecord{Job: job.ID, JobErr: err.Error(), Files: []FileInfo{}, Diags: []Diag{}, Errors: []string{}, Compile: []string{}})
			continue
		}
		sort.Slice(res, func(i, j int) bool { return res[i].Package.ID < res[j].Package.ID })
		for _, pr := range res {
			if !pr.Initial {
				continue
			}
			rec := PkgRecord{Job: job.ID, Pkg: pr.Package.ID, Path: pr.Package.PkgPath, Failed: pr.Failed,
				Files: []FileInfo{}, Diags: []Diag{}, Errors: []string{}, Compile: []string{}}
			if pr.Package.Module != nil {
				rec.GoVers = pr.Package.Module.GoVersion
			}
			for _, e := range pr.Errors {
				rec.Errors = append(rec.Errors, e.Error())
			}
			seen := map[string]bool{}
			for _, lists := range [][]string{pr.Package.GoFiles, pr.Package.CompiledGoFiles} {
				for _, f := range lists {
					if seen[f] || !strings.HasSuffix(f, ".go") {
						continue
					}
					seen[f] = true
					fi := fileInfo(f)
					if fi.LineDir {
						rec.Remap = true
					}
					rec.Files = append(rec.Files, fi)
				}
			}
			rec.Compile = append(rec.Compile, pr.Package.CompiledGoFiles...)
			if !pr.Failed && !pr.Skipped {
				data, err := pr.Load()
				if err != nil {
					rec.Failed = true
					rec.Errors = append(rec.Errors, "load: "+err.Error())
				}
				for _, d := range data.Diagnostics {
					dd := Diag{Cat: d.Category, Msg: d.Message, Pos: conv(d.Position), End: conv(d.End), Fixes: []Fix{}}
					for _, sf := range d.SuggestedFixes {
						f := Fix{Msg: sf.Message, Edits: []Edit{}}
						for _, te := range sf.TextEdits {
							f.Edits = append(f.Edits, Edit{Pos: conv(te.Position), End: conv(te.End),
								New: string(te.NewText), NewB64: base64.StdEncoding.EncodeToString(te.NewText)})
						}
						dd.Fixes = append(dd.Fixes, f)
					}
					rec.Diags = append(rec.Diags, dd)
				}
			}
			if err := enc.Encode(rec); err != nil {
				return err
			}
		}
		w.Flush()
	}
	fmt.Fprintf(os.Stderr, "h-fixes record: %d jobs\n", len(jobs))
	return nil
}
