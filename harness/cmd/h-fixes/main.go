// h-fixes is the conformance helper of property C16 (specs/Fixes.tla, specs/FixCases.tla).
//
//	h-fixes record -jobs jobs.ndjson -out out.ndjson -cache <dir>
//	    runs the REAL analyzers (simple, staticcheck, stylecheck, quickfix) through the REAL
//	    runner (lintcmd/runner) over every job's packages and records, per package, the
//	    diagnostics (category, position, end, message, suggested fixes with their edits) and an
//	    independently computed line table (line lengths) of every file of the package.
//
//	h-fixes check -in items.ndjson -out res.ndjson
//	    the property's own oracle for clause (3): for every item (a package + one file whose
//	    content was replaced by the patched text computed by TLC) go/parser must accept the file
//	    and, after import fix-up (unused imports dropped, imports the replacement text newly
//	    refers to added), go/types must accept the package.  Returns verdict + fixed-up source.
//
//	h-fixes rewrite -dir <scratch copy> -kind parens|comments|imports|crlf -seed N
//	    semantics-preserving source rewrites that derive variants of the input packages.
//
// Nothing here decides geometry: the recorded artefact is judged by TLC (FixesObs).
package main

import (
	"bufio"
	"encoding/json"
	"flag"
	"fmt"
	"os"
	"strings"
)

func main() {
	if len(os.Args) < 2 {
		fmt.Fprintln(os.Stderr, "usage: h-fixes record|check ...")
		os.Exit(2)
	}
	switch os.Args[1] {
	case "record":
		fs := flag.NewFlagSet("record", flag.ExitOnError)
		jobs := fs.String("jobs", "", "ndjson file of jobs")
		out := fs.String("out", "", "ndjson output")
		cdir := fs.String("cache", "", "staticcheck cache directory")
		fs.Parse(os.Args[2:])
		if err := recordMain(*jobs, *out, *cdir); err != nil {
			fmt.Fprintln(os.Stderr, "h-fixes record:", err)
			os.Exit(2)
		}
	case "check":
		fs := flag.NewFlagSet("check", flag.ExitOnError)
		in := fs.String("in", "", "ndjson file of items")
		out := fs.String("out", "", "ndjson output")
		fs.Parse(os.Args[2:])
		if err := checkMain(*in, *out); err != nil {
			fmt.Fprintln(os.Stderr, "h-fixes check:", err)
			os.Exit(2)
		}
	case "rewrite":
		fs := flag.NewFlagSet("rewrite", flag.ExitOnError)
		dir := fs.String("dir", "", "directory tree whose .go files are rewritten in place (a scratch copy!)")
		kind := fs.String("kind", "", "parens|comments|imports|crlf")
		seed := fs.Int64("seed", 1, "seed")
		density := fs.Float64("density", 0.5, "fraction of candidate sites rewritten")
		fs.Parse(os.Args[2:])
		if !strings.HasPrefix(*dir, os.TempDir()) {
			fmt.Fprintln(os.Stderr, "h-fixes rewrite: refusing to rewrite outside the temp dir:", *dir)
			os.Exit(2)
		}
		if err := rewriteMain(*dir, *kind, *seed, *density); err != nil {
			fmt.Fprintln(os.Stderr, "h-fixes rewrite:", err)
			os.Exit(2)
		}
	default:
		fmt.Fprintln(os.Stderr, "unknown mode", os.Args[1])
		os.Exit(2)
	}
}

func readNDJSON[T any](path string) ([]T, error) {
	f, err := os.Open(path)
	if err != nil {
		return nil, err
	}
	defer f.Close()
	var out []T
	sc := bufio.NewScanner(f)
	sc.Buffer(make([]byte, 1<<20), 1<<30)
	for sc.Scan() {
		if len(sc.Bytes()) == 0 {
			continue
		}
		var v T
		if err := json.Unmarshal(sc.Bytes(), &v); err != nil {
			return nil, err
		}
		out = append(out, v)
	}
	return out, sc.Err()
}
