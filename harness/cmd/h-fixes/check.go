package main

import (
	"bufio"
	"bytes"
	"encoding/base64"
	"encoding/json"
	"fmt"
	"go/ast"
	"go/build"
	"go/format"
	"go/parser"
	"go/token"
	"go/types"
	"os"
	"path"
	"regexp"
	"sort"
	"strconv"
	"strings"

	"golang.org/x/tools/go/gcexportdata"
	"golang.org/x/tools/go/packages"
)

// Item is one patched file to be judged by go/parser + import fix-up + go/types.
type Item struct {
	ID       string   `json:"id"`
	Dir      string   `json:"dir"`
	Patterns []string `json:"patterns"`
	Tests    bool     `json:"tests"`
	Env      []string `json:"env"`
	Pkg      string   `json:"pkg"`
	File     string   `json:"file"`
	Patched  string   `json:"patched_b64"`
	NewText  []string `json:"newtext"`
	WantSrc  bool     `json:"want_src"`
	Baseline bool     `json:"baseline"` // only report whether the unpatched package type-checks
}

type Verdict struct {
	ID      string   `json:"id"`
	Status  string   `json:"status"` // ok | parse | types | skip
	Errors  []string `json:"errors"`
	Added   []string `json:"added"`
	Dropped []string `json:"dropped"`
	Src     string   `json:"src,omitempty"`
	Why     string   `json:"why,omitempty"`
}

// std packages a replacement text may newly refer to (name -> path)
var stdByName = map[string]string{
	"strings": "strings", "bytes": "bytes", "fmt": "fmt", "errors": "errors", "sort": "sort", "slices": "slices",
	"maps": "maps", "time": "time", "strconv": "strconv", "math": "math", "os": "os", "io": "io", "regexp": "regexp",
	"utf8": "unicode/utf8", "unicode": "unicode", "context": "context", "sync": "sync", "cmp": "cmp", "http": "net/http",
	"url": "net/url", "filepath": "path/filepath", "path": "path", "atomic": "sync/atomic", "reflect": "reflect",
	"binary": "encoding/binary", "json": "encoding/json", "bufio": "bufio", "rand": "math/rand", "bits": "math/bits",
	"ioutil": "io/ioutil", "net": "net", "exec": "os/exec", "signal": "os/signal", "syscall": "syscall", "testing": "testing",
	"template": "text/template", "big": "math/big", "hex": "encoding/hex", "log": "log", "unsafe": "unsafe",
}

// extraStd: cheap std packages loaded together with the job's packages so that a newly referenced
// package can be imported from export data (they are dependencies of fmt/os/testing anyway).
func extraStd() []string {
	return []string{"bytes", "cmp", "context", "errors", "fmt", "io", "maps", "math", "math/bits", "os", "path/filepath",
		"reflect", "slices", "sort", "strconv", "strings", "sync", "sync/atomic", "time", "unicode", "unicode/utf8"}
}

type group struct {
	byID   map[string]*packages.Package
	byPath map[string]*packages.Package // non-test variants only
	pkgs   map[string]*pkgState
}

type pkgState struct {
	pkg     *packages.Package
	fset    *token.FileSet
	imports map[string]*types.Package
	files   map[string]*ast.File // parsed originals
	baseOK  bool
	baseErr []string
	scope   map[string]bool // package-level names
}

func loadGroup(it Item) (*group, error) {
	cfg := &packages.Config{
		Dir:   it.Dir,
		Tests: it.Tests,
		Env:   append(append(os.Environ(), "GOPROXY=off", "GOFLAGS=-mod=mod"), it.Env...),
		Mode: packages.NeedName | packages.NeedImports | packages.NeedDeps | packages.NeedExportFile |
			packages.NeedFiles | packages.NeedCompiledGoFiles | packages.NeedModule,
	}
	pkgs, err := packages.Load(cfg, it.Patterns...)
	if err != nil {
		return nil, err
	}
	g := &group{byID: map[string]*packages.Package{}, byPath: map[string]*packages.Package{}, pkgs: map[string]*pkgState{}}
	// the extra std packages are loaded separately WITHOUT tests (only their export files are
	// needed; with Tests the go command would compile the std test packages)
	ecfg := *cfg
	ecfg.Tests = false
	extras, err := packages.Load(&ecfg, extraStd()...)
	if err != nil {
		return nil, err
	}
	packages.Visit(extras, nil, func(p *packages.Package) {
		g.byPath[p.PkgPath] = p
	})
	packages.Visit(pkgs, nil, func(p *packages.Package) {
		g.byID[p.ID] = p
		if !strings.Contains(p.ID, " [") {
			g.byPath[p.PkgPath] = p
		}
	})
	return g, nil
}

func (g *group) importFromExport(st *pkgState, p *packages.Package) (*types.Package, error) {
	if p.PkgPath == "unsafe" {
		return types.Unsafe, nil
	}
	if tp := st.imports[p.PkgPath]; tp != nil && tp.Complete() {
		return tp, nil
	}
	if p.ExportFile == "" {
		return nil, fmt.Errorf("no export data for %q", p.ID)
	}
	f, err := os.Open(p.ExportFile)
	if err != nil {
		return nil, err
	}
	defer f.Close()
	r, err := gcexportdata.NewReader(bufio.NewReader(f))
	if err != nil {
		return nil, err
	}
	return gcexportdata.Read(r, st.fset, st.imports, p.PkgPath)
}

type importerFunc func(path string) (*types.Package, error)

func (f importerFunc) Import(path string) (*types.Package, error) { return f(path) }

func (g *group) importer(st *pkgState) types.Importer {
	return importerFunc(func(ipath string) (*types.Package, error) {
		if ipath == "unsafe" {
			return types.Unsafe, nil
		}
		if ipath == "C" {
			return nil, fmt.Errorf("cgo")
		}
		p := st.pkg.Imports[ipath]
		if p == nil {
			p = g.byPath[ipath]
		}
		if p == nil {
			return nil, fmt.Errorf("cannot resolve import %q", ipath)
		}
		return g.importFromExport(st, p)
	})
}

func goVersionOf(p *packages.Package) string {
	if p.Module != nil && p.Module.GoVersion != "" {
		return "go" + p.Module.GoVersion
	}
	tags := build.Default.ReleaseTags
	return tags[len(tags)-1]
}

func (g *group) typecheck(st *pkgState, files []*ast.File) []string {
	var errs []string
	tc := &types.Config{
		Importer:  g.importer(st),
		GoVersion: goVersionOf(st.pkg),
		Sizes:     types.SizesFor("gc", "amd64"),
		Error: func(err error) {
			if len(errs) < 6 {
				errs = append(errs, err.Error())
			}
		},
	}
	tp := types.NewPackage(st.pkg.PkgPath, st.pkg.Name)
	types.NewChecker(tc, st.fset, tp, nil).Files(files)
	return errs
}

func (g *group) state(id string) (*pkgState, error) {
	if st := g.pkgs[id]; st != nil {
		return st, nil
	}
	p := g.byID[id]
	if p == nil {
		return nil, fmt.Errorf("package %q not found by the loader", id)
	}
	st := &pkgState{pkg: p, fset: token.NewFileSet(), imports: map[string]*types.Package{}, files: map[string]*ast.File{}, scope: map[string]bool{}}
	g.pkgs[id] = st
	if len(p.Errors) > 0 {
		st.baseErr = []string{p.Errors[0].Error()}
		return st, nil
	}
	var fs []*ast.File
	for _, name := range p.CompiledGoFiles {
		af, err := parser.ParseFile(st.fset, name, nil, parser.ParseComments)
		if err != nil {
			st.baseErr = []string{err.Error()}
			return st, nil
		}
		st.files[name] = af
		fs = append(fs, af)
		for _, d := range af.Decls {
			switch d := d.(type) {
			case *ast.FuncDecl:
				if d.Recv == nil {
					st.scope[d.Name.Name] = true
				}
			case *ast.GenDecl:
				for _, s := range d.Specs {
					switch s := s.(type) {
					case *ast.TypeSpec:
						st.scope[s.Name.Name] = true
					case *ast.ValueSpec:
						for _, n := range s.Names {
							st.scope[n.Name] = true
						}
					}
				}
			}
		}
	}
	st.baseErr = g.typecheck(st, fs)
	st.baseOK = len(st.baseErr) == 0
	return st, nil
}

// localName returns the name under which the import is visible in the file.
func (g *group) localName(st *pkgState, spec *ast.ImportSpec) string {
	if spec.Name != nil {
		return spec.Name.Name
	}
	ipath, _ := strconv.Unquote(spec.Path.Value)
	p := st.pkg.Imports[ipath]
	if p == nil {
		p = g.byPath[ipath]
	}
	if p != nil && p.Name != "" {
		return p.Name
	}
	return path.Base(ipath)
}

// usedQualifiers: X of every selector X.Sel whose X is not resolved inside the file.
func usedQualifiers(f *ast.File) map[string]bool {
	used := map[string]bool{}
	ast.Inspect(f, func(n ast.Node) bool {
		if sel, ok := n.(*ast.SelectorExpr); ok {
			if id, ok := sel.X.(*ast.Ident); ok && id.Obj == nil {
				used[id.Name] = true
			}
		}
		return true
	})
	return used
}

// fixImports implements the property's "import list is adjusted": imports that became unused
// are dropped; packages the replacement text newly refers to are imported.
func (g *group) fixImports(st *pkgState, f *ast.File, newText []string, self string) (added, dropped []string) {
	used := usedQualifiers(f)
	have := map[string]bool{}
	// drop unused
	for _, d := range f.Decls {
		gd, ok := d.(*ast.GenDecl)
		if !ok || gd.Tok != token.IMPORT {
			continue
		}
		var keep []ast.Spec
		for _, s := range gd.Specs {
			is := s.(*ast.ImportSpec)
			name := g.localName(st, is)
			if name == "_" || name == "." || used[name] {
				keep = append(keep, s)
				have[name] = true
				continue
			}
			dropped = append(dropped, is.Path.Value)
		}
		gd.Specs = keep
	}
	// remove import decls that became empty
	var decls []ast.Decl
	for _, d := range f.Decls {
		if gd, ok := d.(*ast.GenDecl); ok && gd.Tok == token.IMPORT && len(gd.Specs) == 0 {
			continue
		}
		decls = append(decls, d)
	}
	f.Decls = decls
	var imps []*ast.ImportSpec
	for _, is := range f.Imports {
		keep := true
		for _, d := range dropped {
			if is.Path.Value == d {
				keep = false
			}
		}
		if keep {
			imps = append(imps, is)
		}
	}
	f.Imports = imps
	// add newly referenced
	var names []string
	for n := range used {
		names = append(names, n)
	}
	sort.Strings(names)
	for _, n := range names {
		if have[n] || st.scope[n] || types.Universe.Lookup(n) != nil {
			continue
		}
		mentioned := false
		re := regexp.MustCompile(`(^|[^\w.])` + regexp.QuoteMeta(n) + `\.`)
		for _, t := range newText {
			if re.MatchString(t) {
				mentioned = true
			}
		}
		if !mentioned {
			continue
		}
		ipath := ""
		// the path another file of the package uses for this name
		var others []string
		for name := range st.files {
			others = append(others, name)
		}
		sort.Strings(others)
		for _, name := range others {
			for _, is := range st.files[name].Imports {
				if g.localName(st, is) == n && is.Name == nil {
					ipath, _ = strconv.Unquote(is.Path.Value)
				}
			}
		}
		if ipath == "" {
			ipath = stdByName[n]
		}
		if ipath == "" {
			continue
		}
		spec := &ast.ImportSpec{Path: &ast.BasicLit{Kind: token.STRING, Value: strconv.Quote(ipath)}}
		gd := &ast.GenDecl{Tok: token.IMPORT, Specs: []ast.Spec{spec}}
		f.Decls = append([]ast.Decl{gd}, f.Decls...)
		f.Imports = append(f.Imports, spec)
		added = append(added, ipath)
	}
	return added, dropped
}

func (g *group) judge(it Item) Verdict {
	v := Verdict{ID: it.ID, Errors: []string{}, Added: []string{}, Dropped: []string{}}
	st, err := g.state(it.Pkg)
	if err != nil {
		v.Status, v.Why = "skip", err.Error()
		return v
	}
	if !st.baseOK {
		v.Status, v.Why = "skip", "unpatched package does not type-check in the harness: "+strings.Join(st.baseErr, "; ")
		return v
	}
	if it.Baseline {
		v.Status = "ok"
		return v
	}
	if _, ok := st.files[it.File]; !ok {
		v.Status, v.Why = "skip", "file is not a compiled Go file of the package"
		return v
	}
	src, err := base64.StdEncoding.DecodeString(it.Patched)
	if err != nil {
		v.Status, v.Why = "skip", "bad base64"
		return v
	}
	// the patched file is parsed into the package's file set under its own name
	pf, err := parser.ParseFile(st.fset, it.File, src, parser.ParseComments)
	if err != nil {
		v.Status = "parse"
		v.Errors = append(v.Errors, err.Error())
		return v
	}
	added, dropped := g.fixImports(st, pf, it.NewText, it.File)
	if added != nil {
		v.Added = added
	}
	if dropped != nil {
		v.Dropped = dropped
	}
	var fs []*ast.File
	for _, name := range st.pkg.CompiledGoFiles {
		if name == it.File {
			fs = append(fs, pf)
		} else {
			fs = append(fs, st.files[name])
		}
	}
	errs := g.typecheck(st, fs)
	if len(errs) > 0 {
		v.Status = "types"
		v.Errors = errs
	} else {
		v.Status = "ok"
	}
	if it.WantSrc {
		var buf bytes.Buffer
		if err := format.Node(&buf, st.fset, pf); err == nil {
			v.Src = buf.String()
		}
	}
	return v
}

func checkMain(inPath, outPath string) error {
	items, err := readNDJSON[Item](inPath)
	if err != nil {
		return err
	}
	of, err := os.Create(outPath)
	if err != nil {
		return err
	}
	defer of.Close()
	w := bufio.NewWriter(of)
	defer w.Flush()
	enc := json.NewEncoder(w)

	groups := map[string]*group{}
	gerr := map[string]error{}
	for _, it := range items {
		key := fmt.Sprintf("%s|%v|%v", it.Dir, it.Patterns, it.Tests)
		g, ok := groups[key]
		if !ok && gerr[key] == nil {
			g, err = loadGroup(it)
			if err != nil {
				gerr[key] = err
			} else {
				groups[key] = g
			}
		}
		if g == nil {
			enc.Encode(Verdict{ID: it.ID, Status: "skip", Why: "load: " + gerr[key].Error(), Errors: []string{}, Added: []string{}, Dropped: []string{}})
			continue
		}
		enc.Encode(g.judge(it))
	}
	return nil
}
