package main

import (
	"bytes"
	"fmt"
	"go/ast"
	"go/parser"
	"go/token"
	"hash/fnv"
	"math/rand"
	"os"
	"path/filepath"
	"sort"
	"strconv"
	"strings"
)

// Semantics-preserving source rewrites used to derive variants of the input packages
// (property C16's quantifier): comments and line breaks inside expressions, redundant
// parentheses, renamed imports, CRLF line endings.  Every rewrite is a set of textual
// insertions/replacements derived from the AST; a file whose rewritten text no longer
// parses is left unchanged.  Files with cgo or //line directives are left alone.

type ins struct {
	off  int
	del  int
	text string
	ord  int
}

func applyIns(src []byte, is []ins) []byte {
	sort.SliceStable(is, func(i, j int) bool {
		if is[i].off != is[j].off {
			return is[i].off < is[j].off
		}
		return is[i].ord < is[j].ord
	})
	var out bytes.Buffer
	last := 0
	for _, i := range is {
		if i.off < last {
			continue
		}
		out.Write(src[last:i.off])
		out.WriteString(i.text)
		last = i.off + i.del
	}
	out.Write(src[last:])
	return out.Bytes()
}

// valueOperands collects expressions that are certainly value expressions in operand
// position (safe to wrap in parentheses / to precede with a comment).
func valueOperands(f *ast.File) []ast.Expr {
	var out []ast.Expr
	ast.Inspect(f, func(n ast.Node) bool {
		switch n := n.(type) {
		case *ast.BinaryExpr:
			out = append(out, n.X, n.Y)
		case *ast.IfStmt:
			if n.Cond != nil {
				out = append(out, n.Cond)
			}
		case *ast.ReturnStmt:
			out = append(out, n.Results...)
		case *ast.AssignStmt:
			if len(n.Lhs) == len(n.Rhs) {
				out = append(out, n.Rhs...)
			}
		case *ast.CallExpr:
			// arguments of calls whose callee is a plain selector/identifier that is not a
			// builtin taking a type (make, new) and not a conversion-looking composite
			if id, ok := n.Fun.(*ast.Ident); ok && (id.Name == "make" || id.Name == "new") {
				return true
			}
			switch n.Fun.(type) {
			case *ast.Ident, *ast.SelectorExpr:
				for _, a := range n.Args {
					switch a.(type) {
					case *ast.ArrayType, *ast.MapType, *ast.ChanType, *ast.FuncType, *ast.StructType, *ast.InterfaceType, *ast.StarExpr:
					default:
						out = append(out, a)
					}
				}
			}
		case *ast.GenDecl:
			// constant and type declarations: do not touch (iota/typed consts are fine, but
			// types appear in expression positions there)
			if n.Tok == token.TYPE || n.Tok == token.IMPORT {
				return false
			}
		}
		return true
	})
	return out
}

func rewriteFile(kind string, name string, src []byte, rng *rand.Rand, density float64) []byte {
	if lineDirRe.Match(src) || cgoRe.Match(src) {
		return src
	}
	if kind == "crlf" {
		if bytes.Contains(src, []byte("\r")) {
			return src
		}
		return bytes.ReplaceAll(src, []byte("\n"), []byte("\r\n"))
	}
	fset := token.NewFileSet()
	f, err := parser.ParseFile(fset, name, src, parser.ParseComments)
	if err != nil {
		return src
	}
	tf := fset.File(f.Pos())
	off := func(p token.Pos) int { return tf.Offset(p) }
	var is []ins
	switch kind {
	case "parens":
		for k, e := range valueOperands(f) {
			if rng.Float64() >= density {
				continue
			}
			if _, ok := e.(*ast.KeyValueExpr); ok {
				continue
			}
			is = append(is, ins{off: off(e.Pos()), text: "(", ord: -k}, ins{off: off(e.End()), text: ")", ord: -k})
		}
	case "comments":
		n := 0
		ast.Inspect(f, func(nd ast.Node) bool {
			switch nd := nd.(type) {
			case *ast.GenDecl:
				if nd.Tok == token.IMPORT {
					return false
				}
			case *ast.BinaryExpr:
				if rng.Float64() < density {
					n++
					// after the operator: a comment and a line break (no semicolon is inserted after an operator)
					is = append(is, ins{off: off(nd.OpPos) + len(nd.Op.String()), text: fmt.Sprintf(" /* c%d */\n", n), ord: n})
				}
			case *ast.CallExpr:
				if len(nd.Args) > 0 && rng.Float64() < density {
					n++
					is = append(is, ins{off: off(nd.Lparen) + 1, text: fmt.Sprintf("\n/* a%d */ ", n), ord: n})
				}
			}
			return true
		})
	case "imports":
		// give every plainly imported std package an explicit different name and rename its uses
		for _, spec := range f.Imports {
			if spec.Name != nil {
				continue
			}
			p, _ := strconv.Unquote(spec.Path.Value)
			first := strings.Split(p, "/")[0]
			if p == "C" || p == "unsafe" || strings.Contains(first, ".") {
				continue
			}
			base := p[strings.LastIndex(p, "/")+1:]
			if !token.IsIdentifier(base) || (len(base) > 1 && base[0] == 'v' && base[1] >= '0' && base[1] <= '9') {
				continue
			}
			if rng.Float64() >= density {
				continue
			}
			alias := base + "Renamed"
			clash := false
			var uses []*ast.Ident
			ast.Inspect(f, func(nd ast.Node) bool {
				switch nd := nd.(type) {
				case *ast.Ident:
					if nd.Name == alias {
						clash = true
					}
				case *ast.SelectorExpr:
					if id, ok := nd.X.(*ast.Ident); ok && id.Name == base && id.Obj == nil {
						uses = append(uses, id)
					}
				}
				return true
			})
			// the package name may also be used unqualified nowhere; a local object named like the
			// package shadows it only where the parser resolved it (Obj != nil), which we skip
			if clash {
				continue
			}
			is = append(is, ins{off: off(spec.Path.Pos()), text: alias + " "})
			for _, id := range uses {
				is = append(is, ins{off: off(id.Pos()), del: len(base), text: alias})
			}
		}
	}
	if len(is) == 0 {
		return src
	}
	out := applyIns(src, is)
	if _, err := parser.ParseFile(token.NewFileSet(), name, out, parser.ParseComments); err != nil {
		return src
	}
	return out
}

func rewriteMain(dir, kind string, seed int64, density float64) error {
	var files []string
	err := filepath.Walk(dir, func(p string, info os.FileInfo, err error) error {
		if err != nil {
			return err
		}
		if info.IsDir() && info.Name() == "vendor" {
			return filepath.SkipDir
		}
		if !info.IsDir() && strings.HasSuffix(p, ".go") {
			files = append(files, p)
		}
		return nil
	})
	if err != nil {
		return err
	}
	sort.Strings(files)
	changed := 0
	for _, p := range files {
		src, err := os.ReadFile(p)
		if err != nil {
			return err
		}
		// the choice of sites depends on the seed and the file's path below dir only, so that the
		// same file is rewritten identically whatever else is in the tree (replays)
		relp, _ := filepath.Rel(dir, p)
		h := fnv.New64a()
		h.Write([]byte(relp))
		rng := rand.New(rand.NewSource(seed*1000003 + int64(h.Sum64()>>1)))
		out := rewriteFile(kind, p, src, rng, density)
		if !bytes.Equal(out, src) {
			changed++
			if err := os.WriteFile(p, out, 0o644); err != nil {
				return err
			}
		}
	}
	fmt.Printf("{\"files\":%d,\"changed\":%d}\n", len(files), changed)
	return nil
}
