// h-runner realises graph cases enumerated by TLC from specs/MCRunner.tla (family "H") and drives the
// REAL scheduler, honnef.co/go/tools/lintcmd/runner.(*Runner).Run, over them in-process:
//
//   - the package DAG becomes a Go module (one directory per package, imports as in the case; a package
//     "broken at construction" gets a syntax error),
//   - the analyzer DAG becomes synthetic go/analysis analyzers (Requires as in the case; analyzers in F
//     export a package fact; the analyzers in AF return an error on the named package),
//   - the semaphore capacity is runtime.GOMAXPROCS, set before runner.New.
//
// Each synthetic analyzer computes the set of (package, analyzer) actions in its causal past: itself, the
// results of its prerequisites (Pass.ResultOf) and, for fact analyzers, its own facts imported from the
// directly imported packages. It reports that set as one diagnostic. The specification predicts exactly
// this value (Runner.tla: WantRes / WantFinal), so "the result is a schedule-free function of the graph"
// is compared on real runs; the event log written by the verif hooks (VERIF_TRACE_RUNNER) of the same
// runs is validated against RunnerTrace.tla by the caller.
//
// usage: h-runner -cases cases.ndjson -dir scratch -reps N   (env: VERIF_TRACE_RUNNER, VERIF_YIELD_SEED_RUNNER)
// output: one JSON line per runner.Run call: {"run":k,"case":idx,"cap":c,"kind":"main|warm","failed":[...],
//         "diags":{pkg:[[category,message],...]},"err":""}
package main

import (
	"bufio"
	"encoding/json"
	"flag"
	"fmt"
	"os"
	"path/filepath"
	"reflect"
	"runtime"
	"sort"
	"strings"

	"honnef.co/go/tools/config"
	"honnef.co/go/tools/lintcmd/cache"
	"honnef.co/go/tools/lintcmd/runner"

	"golang.org/x/tools/go/analysis"
	"golang.org/x/tools/go/packages"
)

type Case struct {
	Idx int      `json:"idx"`
	N   int      `json:"n"`
	D   [][]int  `json:"d"`  // d[i-1] = dependencies of package i
	I   []int    `json:"I"`  // initial packages
	B   []int    `json:"B"`  // broken at construction
	Md  []string `json:"md"` // run | hit | fail
	M   int      `json:"m"`
	Ad  [][]int  `json:"ad"` // ad[j-1] = prerequisites of analyzer j
	F   []int    `json:"F"`  // fact analyzers
	AF  [][]int  `json:"AF"` // [i, j]: analyzer j fails on package i
	DU  [][]int  `json:"DU"` // [j, i]: analyzer j lists prerequisite i twice
	C   int      `json:"c"`  // semaphore capacity
}

type Out struct {
	Run    int                    `json:"run"`
	Case   int                    `json:"case"`
	Cap    int                    `json:"cap"`
	Kind   string                 `json:"kind"`
	Rep    int                    `json:"rep"`
	Failed []string               `json:"failed"`
	Diags  map[string][][2]string `json:"diags"`
	Err    string                 `json:"err"`
}

type fact1 struct{ Seen []string }
type fact2 struct{ Seen []string }
type fact3 struct{ Seen []string }
type fact4 struct{ Seen []string }

func (*fact1) AFact() {}
func (*fact2) AFact() {}
func (*fact3) AFact() {}
func (*fact4) AFact() {}

func newFact(j int) analysis.Fact {
	switch j {
	case 1:
		return new(fact1)
	case 2:
		return new(fact2)
	case 3:
		return new(fact3)
	default:
		return new(fact4)
	}
}

func factSeen(f analysis.Fact) *[]string {
	switch f := f.(type) {
	case *fact1:
		return &f.Seen
	case *fact2:
		return &f.Seen
	case *fact3:
		return &f.Seen
	case *fact4:
		return &f.Seen
	}
	panic("unknown fact")
}

func has(xs []int, v int) bool {
	for _, x := range xs {
		if x == v {
			return true
		}
	}
	return false
}

func modPath(c *Case) string { return fmt.Sprintf("ex.test/h%d", c.Idx) }

func writeModule(dir string, c *Case) error {
	if err := os.MkdirAll(dir, 0o755); err != nil {
		return err
	}
	if err := os.WriteFile(filepath.Join(dir, "go.mod"), []byte("module "+modPath(c)+"\n\ngo 1.22\n"), 0o644); err != nil {
		return err
	}
	for i := 1; i <= c.N; i++ {
		pd := filepath.Join(dir, fmt.Sprintf("p%d", i))
		if err := os.MkdirAll(pd, 0o755); err != nil {
			return err
		}
		var b strings.Builder
		fmt.Fprintf(&b, "// Package p%d is generated.\npackage p%d\n\n", i, i)
		if has(c.B, i) {
			b.WriteString("func broken( {\n")
		} else {
			for _, d := range c.D[i-1] {
				fmt.Fprintf(&b, "import p%d %q\n", d, fmt.Sprintf("%s/p%d", modPath(c), d))
			}
			fmt.Fprintf(&b, "\n// V is a value.\nvar V = 1")
			for _, d := range c.D[i-1] {
				fmt.Fprintf(&b, " + p%d.V", d)
			}
			b.WriteString("\n")
		}
		if err := os.WriteFile(filepath.Join(pd, fmt.Sprintf("p%d.go", i)), []byte(b.String()), 0o644); err != nil {
			return err
		}
	}
	return nil
}

func pkgIndex(c *Case, path string) int {
	var i int
	if _, err := fmt.Sscanf(strings.TrimPrefix(path, modPath(c)+"/p"), "%d", &i); err != nil {
		return 0
	}
	return i
}

func makeAnalyzers(c *Case) []*analysis.Analyzer {
	as := make([]*analysis.Analyzer, c.M+1)
	for j := 1; j <= c.M; j++ {
		j := j
		a := &analysis.Analyzer{
			Name:       fmt.Sprintf("a%d", j),
			Doc:        "synthetic analyzer",
			ResultType: reflect.TypeOf([]string{}),
		}
		if has(c.F, j) {
			a.FactTypes = []analysis.Fact{newFact(j)}
		}
		as[j] = a
	}
	for j := 1; j <= c.M; j++ {
		j := j
		a := as[j]
		for _, d := range c.Ad[j-1] {
			a.Requires = append(a.Requires, as[d])
			for _, du := range c.DU {
				if du[0] == j && du[1] == d {
					a.Requires = append(a.Requires, as[d])
				}
			}
		}
		a.Run = func(pass *analysis.Pass) (any, error) {
			pi := pkgIndex(c, pass.Pkg.Path())
			for _, af := range c.AF {
				if af[0] == pi && af[1] == j {
					return nil, fmt.Errorf("synthetic failure of a%d on p%d", j, pi)
				}
			}
			seen := map[string]bool{fmt.Sprintf("p%d/a%d", pi, j): true}
			for _, d := range c.Ad[j-1] {
				for _, s := range pass.ResultOf[as[d]].([]string) {
					seen[s] = true
				}
			}
			if has(c.F, j) {
				for _, imp := range pass.Pkg.Imports() {
					f := newFact(j)
					if pass.ImportPackageFact(imp, f) {
						for _, s := range *factSeen(f) {
							seen[s] = true
						}
					}
				}
			}
			out := make([]string, 0, len(seen))
			for s := range seen {
				out = append(out, s)
			}
			sort.Strings(out)
			if has(c.F, j) {
				f := newFact(j)
				*factSeen(f) = out
				pass.ExportPackageFact(f)
			}
			pass.Report(analysis.Diagnostic{Pos: pass.Files[0].Pos(), Message: strings.Join(out, " ")})
			return out, nil
		}
	}
	return as[1:]
}

var runCounter int

func doRun(c *Case, dir, cacheDir, kind string, rep int, patterns []int, w *bufio.Writer) {
	runCounter++
	o := Out{Run: runCounter, Case: c.Idx, Cap: c.C, Kind: kind, Rep: rep, Failed: []string{}, Diags: map[string][][2]string{}}
	defer func() {
		b, _ := json.Marshal(o)
		w.Write(b)
		w.WriteByte('\n')
		w.Flush()
	}()
	runtime.GOMAXPROCS(c.C)
	dc, err := cache.Open(cacheDir)
	if err != nil {
		o.Err = "cache: " + err.Error()
		return
	}
	r, err := runner.New(config.DefaultConfig, dc)
	if err != nil {
		o.Err = "runner.New: " + err.Error()
		return
	}
	r.GoVersion = "module"
	var pats []string
	for _, i := range patterns {
		pats = append(pats, fmt.Sprintf("%s/p%d", modPath(c), i))
	}
	cfg := &packages.Config{Dir: dir, Env: append(os.Environ(), "GOFLAGS=-mod=mod", "GOPROXY=off")}
	res, err := r.Run(cfg, makeAnalyzers(c), pats)
	runtime.GOMAXPROCS(runtime.NumCPU())
	if err != nil {
		o.Err = "Run: " + err.Error()
		return
	}
	for _, x := range res {
		name := fmt.Sprintf("p%d", pkgIndex(c, x.Package.PkgPath))
		if x.Failed {
			o.Failed = append(o.Failed, name)
			continue
		}
		if !x.Initial {
			continue
		}
		data, err := x.Load()
		if err != nil {
			o.Err = "Load: " + err.Error()
			return
		}
		ds := [][2]string{}
		for _, d := range data.Diagnostics {
			ds = append(ds, [2]string{d.Category, d.Message})
		}
		o.Diags[name] = ds
	}
	sort.Strings(o.Failed)
}

func main() {
	casesPath := flag.String("cases", "", "ndjson file of cases")
	dir := flag.String("dir", "", "scratch directory")
	reps := flag.Int("reps", 1, "repetitions of every case")
	flag.Parse()
	f, err := os.Open(*casesPath)
	if err != nil {
		fmt.Fprintln(os.Stderr, err)
		os.Exit(2)
	}
	cache.SetSalt([]byte("h-runner"))
	w := bufio.NewWriter(os.Stdout)
	sc := bufio.NewScanner(f)
	sc.Buffer(make([]byte, 1<<20), 1<<26)
	n := 0
	for sc.Scan() {
		var c Case
		if err := json.Unmarshal(sc.Bytes(), &c); err != nil {
			fmt.Fprintln(os.Stderr, "bad case:", err)
			os.Exit(2)
		}
		mdir := filepath.Join(*dir, fmt.Sprintf("h%d", c.Idx))
		if err := writeModule(mdir, &c); err != nil {
			fmt.Fprintln(os.Stderr, err)
			os.Exit(2)
		}
		for rep := 0; rep < *reps; rep++ {
			n++
			cdir := filepath.Join(*dir, fmt.Sprintf("cache-%d", n))
			os.MkdirAll(cdir, 0o755)
			// packages in mode "hit" are analysed by a first run (same role: initial or not is irrelevant
			// for the vetx entry; an initial package also needs its results entry)
			var warm []int
			for i := 1; i <= c.N; i++ {
				if c.Md[i-1] == "hit" {
					warm = append(warm, i)
				}
			}
			if len(warm) > 0 {
				doRun(&c, mdir, cdir, "warm", rep, warm, w)
			}
			doRun(&c, mdir, cdir, "main", rep, c.I, w)
			os.RemoveAll(cdir)
		}
	}
	w.Flush()
}
