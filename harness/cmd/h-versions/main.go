// h-versions is a staticcheck-shaped command (lintcmd.Command: real flag parsing incl. -go,
// real runner, real loader) whose only analyzers are probes for property C20.  Every probe
// calls the real report.Report on a fixed node (the name of each top-level function whose
// name starts with "Anchor") with exactly ONE version-bound option:
//
//	XV1001  report.MinimumLanguageVersion("go1.T")     message "minlang T"
//	XV1002  report.MaximumLanguageVersion("go1.T")     message "maxlang T"
//	XV1003  report.MinimumStdlibVersion("go1.T")       message "minstd T"
//	XV1004  report.MaximumStdlibVersion("go1.T")       message "maxstd T"
//	XV1000  no option (baseline: proves the file was analysed)   message "base lang=<v> std=<v>"
//
// for every threshold T listed in the environment variable VERIF_THRESHOLDS ("16,17,...").
// Which of these diagnostics come out is decided by report.Report / code.LanguageVersion /
// code.StdlibVersion / go/loader / lintcmd's -go handling -- the code under test.
//
// usage (in a module directory): h-versions [-go 1.N] -f json ./...
package main

import (
	"fmt"
	"go/ast"
	"os"
	"strconv"
	"strings"

	"golang.org/x/tools/go/analysis"
	"honnef.co/go/tools/analysis/code"
	"honnef.co/go/tools/analysis/lint"
	"honnef.co/go/tools/analysis/report"
	"honnef.co/go/tools/lintcmd"
)

var thresholds []int

func anchors(pass *analysis.Pass) []*ast.Ident {
	var out []*ast.Ident
	for _, f := range pass.Files {
		for _, d := range f.Decls {
			if fn, ok := d.(*ast.FuncDecl); ok && fn.Recv == nil && strings.HasPrefix(fn.Name.Name, "Anchor") {
				out = append(out, fn.Name)
			}
		}
	}
	return out
}

func probe(name, kind string, opt func(string) report.Option) *lint.Analyzer {
	a := &lint.Analyzer{
		Doc: &lint.RawDocumentation{Title: "C20 probe " + kind, Since: "verif", Severity: lint.SeverityWarning, MergeIf: lint.MergeIfAny},
		Analyzer: &analysis.Analyzer{
			Name: name,
			Run: func(pass *analysis.Pass) (any, error) {
				for _, id := range anchors(pass) {
					if opt == nil {
						report.Report(pass, id, fmt.Sprintf("base lang=%s std=%s",
							code.LanguageVersion(pass, id), code.StdlibVersion(pass, id)))
						continue
					}
					for _, t := range thresholds {
						report.Report(pass, id, fmt.Sprintf("%s %d", kind, t), opt("go1."+strconv.Itoa(t)))
					}
				}
				return nil, nil
			},
		},
	}
	return lint.InitializeAnalyzer(a)
}

func main() {
	for _, s := range strings.Split(os.Getenv("VERIF_THRESHOLDS"), ",") {
		if s = strings.TrimSpace(s); s != "" {
			n, err := strconv.Atoi(s)
			if err != nil {
				fmt.Fprintln(os.Stderr, "bad VERIF_THRESHOLDS:", err)
				os.Exit(3)
			}
			thresholds = append(thresholds, n)
		}
	}
	cmd := lintcmd.NewCommand("h-versions")
	cmd.ParseFlags(os.Args[1:])
	cmd.AddAnalyzers(
		probe("XV1000", "base", nil),
		probe("XV1001", "minlang", report.MinimumLanguageVersion),
		probe("XV1002", "maxlang", report.MaximumLanguageVersion),
		probe("XV1003", "minstd", report.MinimumStdlibVersion),
		probe("XV1004", "maxstd", report.MaximumStdlibVersion),
	)
	cmd.Run()
}
