// h-pattern replays the (pattern, tree, expected result) cases emitted by TLC from
// specs/Matcher.tla through the REAL pattern.Parser and pattern.Match (property C09).
//
// Every abstract pattern is rendered to the concrete pattern language in three spellings
// (sugared `x@(...)`, `_`, `[a b]`; explicit `(Binding "x" (...))`, `(Any)`, `(List h t)`;
// and a seeded per-node mix), every abstract tree is built as a real go/ast expression (plain
// and, seeded, with ParenExpr / ExprStmt wrappers).  pattern.Match runs on each combination and
// the result (matched?, Matcher.State projected to name -> canonical subtree) must equal the
// specification's Den(p, t).  A panic of the matcher on a well-formed pattern is a mismatch.
// Absent optional children (ast.SliceExpr with nil Low / High / Max) are built as nil ast.Expr; a
// name the spec binds to Absent must be a key of Matcher.State with a nil value ("<nil>").
//
// input : TLC output files (lines `"CASE {...}"`: d=pat|tree dictionary entries, d=pair results)
//
//	or NDJSON files with inline cases {"d":"case","p":{..},"t":{..},"ok":..,"env":{..}}
//
// output: one JSON object per mismatch, then {"summary":{...}}
package main

import (
	"bufio"
	"encoding/json"
	"flag"
	"fmt"
	"go/ast"
	"math/rand"
	"os"
	"runtime"
	"sort"
	"strings"
	"sync"

	"honnef.co/go/tools/pattern"
	"honnef.co/go/tools/verifharness/internal/absyn"
)

type line struct {
	D   string                     `json:"d"`
	I   int                        `json:"i"`
	V   json.RawMessage            `json:"v"`
	B   []string                   `json:"b"`
	P   json.RawMessage            `json:"p"`
	T   json.RawMessage            `json:"t"`
	Ok  bool                       `json:"ok"`
	Env map[string]json.RawMessage `json:"env"`
}

type parsed struct {
	src string
	pat pattern.Pattern
	err error
}

type patEntry struct {
	abs  *absyn.N
	raw  json.RawMessage
	bind []string
	sp   [3]parsed
}

type treeEntry struct {
	abs *absyn.N
	raw json.RawMessage
}

type Mismatch struct {
	Kind     string          `json:"kind"` // ok | env | panic | parse | parse-diff
	File     string          `json:"file"`
	PI       int             `json:"pi"`
	TI       int             `json:"ti"`
	Spelling string          `json:"spelling"`
	Wrap     string          `json:"wrap"`
	Pattern  string          `json:"pattern"`
	Tree     string          `json:"tree"`
	WantOK   bool            `json:"want_ok"`
	GotOK    bool            `json:"got_ok"`
	WantEnv  string          `json:"want_env"`
	GotEnv   string          `json:"got_env"`
	Detail   string          `json:"detail,omitempty"`
	AbsP     json.RawMessage `json:"p"`
	AbsT     json.RawMessage `json:"t"`
}

type job struct {
	file string
	pe   *patEntry
	te   *treeEntry
	pi   int
	ti   int
	ok   bool
	env  map[string]string
}

var (
	seed     = flag.Int64("seed", 1, "seed for the mixed spelling and the wrappers")
	wrapPct  = flag.Int("wrap", 25, "percentage of pairs additionally run with ParenExpr/ExprStmt wrappers")
	maxMis   = flag.Int("max", 100, "report at most this many mismatches per kind")
	nworkers = flag.Int("j", runtime.NumCPU(), "workers")
)

func decodeCaseLine(s string) (line, bool) {
	var l line
	if strings.HasPrefix(s, "\"CASE ") {
		var inner string
		if err := json.Unmarshal([]byte(s), &inner); err != nil {
			fatal("cannot decode TLC line: %v: %.200s", err, s)
		}
		if err := json.Unmarshal([]byte(inner[len("CASE "):]), &l); err != nil {
			fatal("cannot decode case: %v: %.200s", err, inner)
		}
		return l, true
	}
	if strings.HasPrefix(s, "{") {
		if err := json.Unmarshal([]byte(s), &l); err != nil {
			fatal("cannot decode case: %v: %.200s", err, s)
		}
		return l, true
	}
	return l, false
}

func fatal(f string, a ...any) {
	fmt.Fprintf(os.Stderr, "h-pattern: "+f+"\n", a...)
	os.Exit(2)
}

func newPat(raw json.RawMessage, idx int64) *patEntry {
	n, err := absyn.Decode(raw)
	if err != nil {
		fatal("bad pattern: %v", err)
	}
	pe := &patEntry{abs: n, raw: raw}
	for sp := absyn.Sugar; sp <= absyn.Mixed; sp++ {
		r := &absyn.Renderer{Sp: sp, Rng: rand.New(rand.NewSource(*seed*1000003 + idx))}
		src := r.Pattern(n)
		p := &pattern.Parser{}
		pat, err := p.Parse(src)
		pe.sp[sp] = parsed{src: src, pat: pat, err: err}
	}
	return pe
}

func envOf(raw map[string]json.RawMessage) map[string]string {
	out := map[string]string{}
	for k, v := range raw {
		n, err := absyn.Decode(v)
		if err != nil {
			fatal("bad env value: %v", err)
		}
		if n.K == "unbound" {
			continue
		}
		out[k] = absyn.Canon(n)
	}
	return out
}

type result struct {
	ok    bool
	env   map[string]string
	panic string
}

func runMatch(q pattern.Pattern, node ast.Node) (res result) {
	defer func() {
		if r := recover(); r != nil {
			res = result{panic: fmt.Sprint(r)}
		}
	}()
	m, ok := pattern.Match(q, node)
	env := map[string]string{}
	// "bound" is "the key is in Matcher.State" (comma-ok): a name bound to an absent optional child
	// has the key with a nil value and is printed "<nil>"; an unbound name has no entry at all.
	for _, name := range q.Bindings {
		if v, bound := m.State[name]; bound {
			env[name] = absyn.CanonReal(v)
		}
	}
	for k, v := range m.State { // keys that are no name of the pattern would be a mismatch, too
		if _, seen := env[k]; !seen {
			env[k] = absyn.CanonReal(v)
		}
	}
	return result{ok: ok, env: env}
}

func sameEnv(a, b map[string]string) bool {
	if len(a) != len(b) {
		return false
	}
	for k, v := range a {
		if w, ok := b[k]; !ok || w != v {
			return false
		}
	}
	return true
}

type stats struct {
	pairs, matches, runs, okCases, panics int
	parseErr                              int
	absentTree, absentBound               int // pairs whose tree has an absent child / whose expected env binds a name to Absent
}

func work(jobs <-chan job, out chan<- Mismatch, st *stats, mu *sync.Mutex) {
	local := stats{}
	for j := range jobs {
		local.pairs++
		if j.ok {
			local.okCases++
		}
		if absyn.HasAbsent(j.te.abs) {
			local.absentTree++
		}
		for _, v := range j.env {
			if v == "<nil>" {
				local.absentBound++
				break
			}
		}
		rng := rand.New(rand.NewSource(*seed*7919 + int64(j.pi)*100003 + int64(j.ti)))
		type variant struct {
			name string
			node ast.Node
		}
		plain := (&absyn.Builder{}).Expr(j.te.abs)
		variants := []variant{{"plain", plain}}
		if rng.Intn(100) < *wrapPct {
			w := (&absyn.Builder{Rng: rng, ParenPct: 40}).Expr(j.te.abs)
			variants = append(variants, variant{"paren", w})
			variants = append(variants, variant{"exprstmt", &ast.ExprStmt{X: (&absyn.Builder{}).Expr(j.te.abs)}})
		}
		for sp := absyn.Sugar; sp <= absyn.Mixed; sp++ {
			pp := j.pe.sp[sp]
			if sp == absyn.Mixed && (pp.src == j.pe.sp[absyn.Sugar].src || pp.src == j.pe.sp[absyn.Explicit].src) {
				continue
			}
			base := Mismatch{File: j.file, PI: j.pi, TI: j.ti, Spelling: sp.String(), Pattern: pp.src,
				Tree: absyn.Canon(j.te.abs), WantOK: j.ok, WantEnv: absyn.EnvString(j.env), AbsP: j.pe.raw, AbsT: j.te.raw}
			if pp.err != nil {
				local.parseErr++
				m := base
				m.Kind, m.Detail = "parse", pp.err.Error()
				out <- m
				continue
			}
			for _, v := range variants {
				local.runs++
				r := runMatch(pp.pat, v.node)
				m := base
				m.Wrap = v.name
				switch {
				case r.panic != "":
					local.panics++
					m.Kind, m.Detail = "panic", r.panic
					out <- m
				case r.ok != j.ok:
					m.Kind, m.GotOK, m.GotEnv = "ok", r.ok, absyn.EnvString(r.env)
					out <- m
				case j.ok && !sameEnv(r.env, j.env):
					m.Kind, m.GotOK, m.GotEnv = "env", r.ok, absyn.EnvString(r.env)
					out <- m
				default:
					if r.ok {
						local.matches++
					}
				}
			}
		}
	}
	mu.Lock()
	st.pairs += local.pairs
	st.matches += local.matches
	st.runs += local.runs
	st.okCases += local.okCases
	st.panics += local.panics
	st.parseErr += local.parseErr
	st.absentTree += local.absentTree
	st.absentBound += local.absentBound
	mu.Unlock()
}

// nameLimit: a pattern may use up to 64 names; the parser has to reject the 65th.
func nameLimit() {
	mk := func(k int) string {
		var sb strings.Builder
		sb.WriteString("(Or")
		for i := 1; i <= k; i++ {
			fmt.Fprintf(&sb, " (BinaryExpr n%d@(Any) \"+\" (Ident \"v%d\"))", i, i)
		}
		sb.WriteString(")")
		return sb.String()
	}
	res := map[string]any{}
	for _, k := range []int{64, 65} {
		_, err := (&pattern.Parser{}).Parse(mk(k))
		res[fmt.Sprintf("n%d_parses", k)] = err == nil
		if err != nil {
			res[fmt.Sprintf("n%d_err", k)] = err.Error()
		} else {
			res[fmt.Sprintf("n%d_err", k)] = ""
		}
	}
	json.NewEncoder(os.Stdout).Encode(map[string]any{"limit": res})
}

func main() {
	limit := flag.Bool("limit", false, "only probe the 64-name limit of the parser")
	flag.Parse()
	if *limit {
		nameLimit()
		return
	}
	jobs := make(chan job, 4096)
	out := make(chan Mismatch, 1024)
	var st stats
	var mu sync.Mutex
	var wg sync.WaitGroup
	for i := 0; i < *nworkers; i++ {
		wg.Add(1)
		go func() { defer wg.Done(); work(jobs, out, &st, &mu) }()
	}
	var mism []Mismatch
	total := 0
	byKind := map[string]int{}
	perPat, kept := map[string]int{}, map[string]int{}
	done := make(chan struct{})
	go func() {
		for m := range out {
			total++
			byKind[m.Kind]++
			// keep a diverse sample: at most two mismatches per (kind, pattern), *maxMis per kind
			pk := fmt.Sprintf("%s/%s/%d", m.Kind, m.File, m.PI)
			if perPat[pk] < 2 && kept[m.Kind] < *maxMis {
				perPat[pk]++
				kept[m.Kind]++
				mism = append(mism, m)
			}
		}
		close(done)
	}()

	npat, ntree, parseDiff := 0, 0, 0
	var samples []string
	for _, file := range flag.Args() {
		f, err := os.Open(file)
		if err != nil {
			fatal("%v", err)
		}
		pats := map[int]*patEntry{}
		trees := map[int]*treeEntry{}
		sc := bufio.NewScanner(f)
		sc.Buffer(make([]byte, 1<<20), 64<<20)
		inline := 0
		for sc.Scan() {
			l, ok := decodeCaseLine(sc.Text())
			if !ok {
				continue
			}
			switch l.D {
			case "pat":
				pe := newPat(l.V, int64(l.I))
				pe.bind = l.B
				pats[l.I] = pe
				npat++
				// the two spellings must denote the same pattern for the real parser, too
				a, b := pe.sp[absyn.Sugar], pe.sp[absyn.Explicit]
				if a.err == nil && b.err == nil {
					// (Root.String() is not compared: `x` parses to Binding{Node: nil}, (Binding "x" nil) to
					// Binding{Node: Nil{}}; the matcher treats both alike via isNil)
					if strings.Join(a.pat.Bindings, ",") != strings.Join(b.pat.Bindings, ",") ||
						strings.Join(a.pat.Bindings, ",") != strings.Join(pe.bind, ",") {
						parseDiff++
						out <- Mismatch{Kind: "parse-diff", File: file, PI: l.I, Pattern: a.src, Detail: fmt.Sprintf("sugar %s %v | explicit %s %s %v | spec bindings %v",
							a.pat.Root, a.pat.Bindings, b.src, b.pat.Root, b.pat.Bindings, pe.bind), AbsP: l.V}
					}
				}
				if len(samples) < 6 && l.I%997 == 3 {
					samples = append(samples, a.src+"  ||  "+b.src)
				}
			case "tree":
				n, err := absyn.Decode(l.V)
				if err != nil {
					fatal("bad tree: %v", err)
				}
				trees[l.I] = &treeEntry{abs: n, raw: l.V}
				ntree++
			case "pair":
				var pi, ti int
				if json.Unmarshal(l.P, &pi) != nil || json.Unmarshal(l.T, &ti) != nil {
					fatal("bad pair line")
				}
				pe, te := pats[pi], trees[ti]
				if pe == nil || te == nil {
					fatal("pair refers to unknown dictionary entry %d/%d in %s", pi, ti, file)
				}
				jobs <- job{file: file, pe: pe, te: te, pi: pi, ti: ti, ok: l.Ok, env: envOf(l.Env)}
			case "case":
				inline++
				pe := newPat(l.P, int64(inline))
				n, err := absyn.Decode(l.T)
				if err != nil {
					fatal("bad tree: %v", err)
				}
				jobs <- job{file: file, pe: pe, te: &treeEntry{abs: n, raw: l.T}, pi: inline, ti: 0, ok: l.Ok, env: envOf(l.Env)}
			}
		}
		if err := sc.Err(); err != nil {
			fatal("reading %s: %v", file, err)
		}
		f.Close()
	}
	close(jobs)
	wg.Wait()
	close(out)
	<-done

	enc := json.NewEncoder(os.Stdout)
	sort.SliceStable(mism, func(i, j int) bool { return mism[i].Kind < mism[j].Kind })
	for _, m := range mism {
		enc.Encode(m)
	}
	enc.Encode(map[string]any{"summary": map[string]any{
		"patterns": npat, "trees": ntree, "pairs": st.pairs, "expected_matches": st.okCases, "match_calls": st.runs,
		"agreeing_matches": st.matches, "pairs_tree_with_absent_child": st.absentTree, "pairs_binding_absent": st.absentBound, "panics": st.panics, "parse_errors": st.parseErr, "parse_diffs": parseDiff,
		"mismatches": total, "by_kind": byKind, "samples": samples}})
}
