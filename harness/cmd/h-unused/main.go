// h-unused drives the real `unused` analyzer (U1000) for the checks C07 and C17.
//
// For one module directory it
//
//   - loads and type-checks every package with go/packages (a package that does not type-check is a
//     generator bug, reported in "errors");
//   - runs the real analyzer through the real runner (lintcmd/runner.Runner.Run, the same call
//     lintcmd makes) and returns the raw unused.Result (used / unused / quiet) per package variant;
//   - optionally runs the same code path as cmd/staticcheck (lintcmd.Command, -checks U1000 -f json,
//     -tests on/off) in-process and returns the merged U1000 problems;
//   - optionally applies the deletion operator of DESIGN C07 to the reported objects of each
//     package and asks go/types whether the remainder still type-checks;
//   - optionally computes the syntactic MustReport set (zero-reference unexported package-level
//     func / named type / var / stand-alone const) from types.Info.Uses.
//
// usage: h-unused -dir <module dir> [-tests] [-raw] [-lintcmd] [-del] [-must] [-patterns ./...] [-binary sc]
// output: one JSON document on stdout.
package main

import (
	"bytes"
	"encoding/json"
	"flag"
	"fmt"
	"go/ast"
	"go/format"
	"go/parser"
	"go/token"
	"go/types"
	"math/rand"
	"os"
	"os/exec"
	"path/filepath"
	"regexp"
	"sort"
	"strings"
	"time"

	"golang.org/x/tools/go/analysis"
	"golang.org/x/tools/go/ast/astutil"
	"golang.org/x/tools/go/packages"

	"honnef.co/go/tools/config"
	"honnef.co/go/tools/lintcmd"
	"honnef.co/go/tools/lintcmd/cache"
	"honnef.co/go/tools/lintcmd/runner"
	"honnef.co/go/tools/unused"
)

type Obj struct {
	File string `json:"file"` // path relative to the module dir
	Line int    `json:"line"`
	Col  int    `json:"col"`
	Kind string `json:"kind"`
	Name string `json:"name"`
}

type Raw struct {
	ID     string `json:"id"`
	Path   string `json:"path"`
	Failed bool   `json:"failed"`
	Errors []string `json:"errors,omitempty"`
	Used   []Obj  `json:"used"`
	Unused []Obj  `json:"unused"`
	Quiet  []Obj  `json:"quiet"`
}

type Problem struct {
	File string `json:"file"`
	Line int    `json:"line"`
	Col  int    `json:"col"`
	Msg  string `json:"msg"`
	Code string `json:"code"`
}

type DelResult struct {
	ID           string   `json:"id"`
	Reported     int      `json:"reported"`
	Unmatched    []Obj    `json:"unmatched,omitempty"`   // reported objects without a defining identifier
	Unsupported  []string `json:"unsupported,omitempty"` // reported objects the operator cannot remove
	Errors       []string `json:"errors,omitempty"`      // type errors after deletion
	Dropped      int      `json:"dropped_imports"`
	Neutralised  int      `json:"neutralised_writes"`
	RemovedDecls int      `json:"removed_decls"`
	Source       map[string]string `json:"source,omitempty"` // the package after deletion (only when errors)
}

type Typed struct {
	ID     string   `json:"id"`
	Path   string   `json:"path"`
	Errors []string `json:"errors,omitempty"`
	Must   []Obj    `json:"must,omitempty"`
	MustSkipped string `json:"must_skipped,omitempty"`
}

type Out struct {
	Typed   []Typed     `json:"typed"`
	Raw     []Raw       `json:"raw"`
	Lint    []Problem   `json:"lint"`
	LintRC  int         `json:"lint_rc"`
	LintErr string      `json:"lint_err,omitempty"`
	Del     []DelResult `json:"del"`
}

var moddir string

func rel(p string) string {
	r, err := filepath.Rel(moddir, p)
	if err != nil {
		return p
	}
	return filepath.ToSlash(r)
}

func conv(os_ []unused.Object) []Obj {
	out := make([]Obj, 0, len(os_))
	for _, o := range os_ {
		out = append(out, Obj{rel(o.Position.Filename), o.Position.Line, o.Position.Column, o.Kind, o.Name})
	}
	sort.Slice(out, func(i, j int) bool {
		a, b := out[i], out[j]
		if a.File != b.File {
			return a.File < b.File
		}
		if a.Line != b.Line {
			return a.Line < b.Line
		}
		if a.Col != b.Col {
			return a.Col < b.Col
		}
		return a.Name < b.Name
	})
	return out
}

// runRaw: the real analyzer through the real runner; one Raw per initial package variant.
func runRaw(patterns []string, tests bool) ([]Raw, error) {
	c, err := cache.Default()
	if err != nil {
		return nil, err
	}
	r, err := runner.New(config.Config{Checks: []string{"U1000"}}, c)
	if err != nil {
		return nil, err
	}
	cfg := &packages.Config{Tests: tests, Dir: moddir, Env: os.Environ()}
	results, err := r.Run(cfg, []*analysis.Analyzer{unused.Analyzer.Analyzer}, patterns)
	if err != nil {
		return nil, err
	}
	var out []Raw
	for _, res := range results {
		if !res.Initial {
			continue
		}
		raw := Raw{ID: res.Package.ID, Path: res.Package.PkgPath, Failed: res.Failed}
		if res.Failed {
			for _, e := range res.Errors {
				raw.Errors = append(raw.Errors, e.Error())
			}
			out = append(out, raw)
			continue
		}
		if res.Skipped {
			continue
		}
		rd, err := res.Load()
		if err != nil {
			return nil, err
		}
		raw.Used, raw.Unused, raw.Quiet = conv(rd.Unused.Used), conv(rd.Unused.Unused), conv(rd.Unused.Quiet)
		out = append(out, raw)
	}
	sort.Slice(out, func(i, j int) bool { return out[i].ID < out[j].ID })
	return out, nil
}

// runLint: the code path of cmd/staticcheck (lintcmd.Command: flags, linter.run, linter.lint with
// the merge over package variants, JSON formatter), in-process or through the real binary.
func runLint(patterns []string, tests bool, binary string, scratch string) ([]Problem, int, string) {
	args := []string{"-checks", "U1000", fmt.Sprintf("-tests=%t", tests), "-f", "json"}
	args = append(args, patterns...)
	var outb []byte
	code := 0
	stderr := ""
	if binary != "" {
		cmd := exec.Command(binary, args...)
		cmd.Dir = moddir
		var so, se bytes.Buffer
		cmd.Stdout, cmd.Stderr = &so, &se
		err := cmd.Run()
		if ee, ok := err.(*exec.ExitError); ok {
			code = ee.ExitCode()
		} else if err != nil {
			code = -1
		}
		outb = so.Bytes()
		stderr = se.String()
	} else {
		outPath := filepath.Join(scratch, fmt.Sprintf("lint_out_%d", os.Getpid()))
		fout, err := os.Create(outPath)
		if err != nil {
			return nil, -1, err.Error()
		}
		cwd, _ := os.Getwd()
		if err := os.Chdir(moddir); err != nil {
			return nil, -1, err.Error()
		}
		oldOut := os.Stdout
		os.Stdout = fout
		cmd := lintcmd.NewCommand("staticcheck")
		cmd.ParseFlags(args)
		cmd.AddAnalyzers(unused.Analyzer)
		code = cmd.Execute()
		os.Stdout = oldOut
		fout.Close()
		os.Chdir(cwd)
		outb, _ = os.ReadFile(outPath)
		os.Remove(outPath)
	}
	var ps []Problem
	dec := json.NewDecoder(bytes.NewReader(outb))
	for dec.More() {
		var v struct {
			Code     string
			Location struct {
				File         string
				Line, Column int
			}
			Message string
		}
		if err := dec.Decode(&v); err != nil {
			return ps, -1, "undecodable output: " + err.Error() + " " + stderr
		}
		ps = append(ps, Problem{rel(v.Location.File), v.Location.Line, v.Location.Column, v.Message, v.Code})
	}
	sort.Slice(ps, func(i, j int) bool {
		a, b := ps[i], ps[j]
		if a.File != b.File {
			return a.File < b.File
		}
		if a.Line != b.Line {
			return a.Line < b.Line
		}
		return a.Col < b.Col
	})
	return ps, code, stderr
}

func loadTyped(patterns []string, tests bool) ([]*packages.Package, error) {
	cfg := &packages.Config{
		// NeedDeps: dependencies are type-checked from source; without it go/packages runs `go list -export`,
		// which compiles every listed package
		Mode: packages.NeedName | packages.NeedFiles | packages.NeedCompiledGoFiles | packages.NeedImports | packages.NeedDeps |
			packages.NeedTypes | packages.NeedSyntax | packages.NeedTypesInfo | packages.NeedTypesSizes | packages.NeedModule,
		Dir:   moddir,
		Tests: tests,
		Env:   os.Environ(),
	}
	return packages.Load(cfg, patterns...)
}

type posKey struct {
	file      string
	line, col int
}

// ---------------------------------------------------------------------------------------------
// syntactic MustReport (corpora)

var generatedRe = regexp.MustCompile(`^// Code generated .* DO NOT EDIT\.$`)

// isCgo: the package imports "C".  go/packages hands out the cgo-processed files (CompiledGoFiles, generated
// into the build cache, import "C" already removed), so the syntax alone does not show it.
func isCgo(pkg *packages.Package) bool {
	for _, f := range pkg.Syntax {
		for _, imp := range f.Imports {
			if imp.Path.Value == `"C"` {
				return true
			}
		}
	}
	src := map[string]bool{}
	for _, f := range pkg.GoFiles {
		src[f] = true
	}
	for _, f := range pkg.CompiledGoFiles {
		if !src[f] {
			return true
		}
	}
	return false
}

func mustReport(pkg *packages.Package) ([]Obj, string) {
	if isCgo(pkg) {
		return nil, "cgo"
	}
	if pkg.PkgPath == "runtime" || strings.HasPrefix(pkg.PkgPath, "runtime/") {
		return nil, "runtime"
	}
	referenced := map[types.Object]bool{}
	for _, o := range pkg.TypesInfo.Uses {
		referenced[o] = true
		switch o := o.(type) {
		case *types.Func:
			referenced[o.Origin()] = true
		case *types.Var:
			referenced[o.Origin()] = true
		}
	}
	// names excluded by deliberate, documented rules that are not about references
	excludedName := map[string]bool{}
	excludedFile := map[string]bool{}
	for _, f := range pkg.Syntax {
		fname := pkg.Fset.Position(f.Pos()).Filename
		for _, cg := range f.Comments {
			for _, c := range cg.List {
				t := c.Text
				if generatedRe.MatchString(t) {
					excludedFile[fname] = true // (1.9)
				}
				if strings.HasPrefix(t, "//go:linkname ") {
					fs := strings.Fields(t)
					if len(fs) >= 2 {
						excludedName[fs[1]] = true // (1.8)
					}
				}
				if strings.HasPrefix(t, "//export ") {
					fs := strings.Fields(t)
					if len(fs) >= 2 {
						excludedName[fs[1]] = true
					}
				}
				if strings.HasPrefix(t, "//lint:") && strings.Contains(t, "U1000") {
					excludedFile[fname] = true // ignore directives
				}
				if strings.HasPrefix(t, "//go:cgo_export_") {
					excludedFile[fname] = true // (1.6)
				}
			}
		}
	}
	var out []Obj
	add := func(id *ast.Ident, kind string) {
		obj := pkg.TypesInfo.Defs[id]
		if obj == nil || id.Name == "_" || token.IsExported(id.Name) || referenced[obj] || excludedName[id.Name] {
			return
		}
		p := pkg.Fset.PositionFor(id.Pos(), false)
		if excludedFile[p.Filename] {
			return
		}
		out = append(out, Obj{rel(p.Filename), p.Line, p.Column, kind, id.Name})
	}
	for _, f := range pkg.Syntax {
		for _, d := range f.Decls {
			switch d := d.(type) {
			case *ast.FuncDecl:
				if d.Recv != nil || d.Name.Name == "init" || (d.Name.Name == "main" && pkg.Name == "main") {
					continue
				}
				add(d.Name, "func")
			case *ast.GenDecl:
				for _, s := range d.Specs {
					switch s := s.(type) {
					case *ast.TypeSpec:
						if s.Assign.IsValid() {
							continue // alias: not a "named type"
						}
						add(s.Name, "type")
					case *ast.ValueSpec:
						if d.Tok == token.CONST {
							if len(d.Specs) != 1 || len(s.Names) != 1 {
								continue // only stand-alone constants
							}
							add(s.Names[0], "const")
						} else {
							for _, n := range s.Names {
								add(n, "var")
							}
						}
					}
				}
			}
		}
	}
	return out, ""
}

// ---------------------------------------------------------------------------------------------
// the deletion operator of DESIGN C07

type deleter struct {
	pkg     *packages.Package
	info    *types.Info
	removed map[types.Object]bool // reported objects
	res     *DelResult
}

func (d *deleter) isRemoved(id *ast.Ident) bool {
	if id == nil {
		return false
	}
	if o := d.info.Defs[id]; o != nil && d.removed[o] {
		return true
	}
	return false
}

// usesRemovedVar: the expression is (a parenthesised) identifier that refers to a removed variable
func (d *deleter) usesRemovedVar(e ast.Expr) bool {
	for {
		p, ok := e.(*ast.ParenExpr)
		if !ok {
			break
		}
		e = p.X
	}
	id, ok := e.(*ast.Ident)
	if !ok {
		return false
	}
	o := d.info.Uses[id]
	v, ok := o.(*types.Var)
	return ok && !v.IsField() && d.removed[v]
}

func embeddedIdent(e ast.Expr) *ast.Ident {
	for {
		switch x := e.(type) {
		case *ast.Ident:
			return x
		case *ast.StarExpr:
			e = x.X
		case *ast.ParenExpr:
			e = x.X
		case *ast.SelectorExpr:
			return x.Sel
		case *ast.IndexExpr:
			e = x.X
		case *ast.IndexListExpr:
			e = x.X
		default:
			return nil
		}
	}
}

func recvBase(fd *ast.FuncDecl) *ast.Ident {
	if fd.Recv == nil || len(fd.Recv.List) == 0 {
		return nil
	}
	return embeddedIdent(fd.Recv.List[0].Type)
}

// rewriteGenDecl removes the reported names from a const/var/type declaration; returns false if
// nothing is left of it.
func (d *deleter) rewriteGenDecl(gd *ast.GenDecl) bool {
	if gd.Tok == token.IMPORT {
		return true
	}
	var specs []ast.Spec
	for i := 0; i < len(gd.Specs); i++ {
		switch s := gd.Specs[i].(type) {
		case *ast.TypeSpec:
			if d.isRemoved(s.Name) {
				d.res.RemovedDecls++
				continue
			}
			specs = append(specs, s)
		case *ast.ValueSpec:
			keep := make([]bool, len(s.Names))
			n := 0
			for j, name := range s.Names {
				keep[j] = !d.isRemoved(name)
				if keep[j] {
					n++
				}
			}
			if n == len(s.Names) {
				specs = append(specs, s)
				continue
			}
			d.res.RemovedDecls += len(s.Names) - n
			if n == 0 {
				// the whole spec goes; an implicitly repeated constant expression moves to the next spec
				if gd.Tok == token.CONST && i+1 < len(gd.Specs) {
					if nx, ok := gd.Specs[i+1].(*ast.ValueSpec); ok && len(nx.Values) == 0 && nx.Type == nil && (len(s.Values) > 0 || s.Type != nil) {
						nx.Type, nx.Values = s.Type, s.Values
					}
				}
				continue
			}
			switch {
			case len(s.Values) == len(s.Names):
				var names []*ast.Ident
				var vals []ast.Expr
				for j := range s.Names {
					if keep[j] {
						names = append(names, s.Names[j])
						vals = append(vals, s.Values[j])
					}
				}
				s.Names, s.Values = names, vals
			case len(s.Values) == 0:
				var names []*ast.Ident
				for j := range s.Names {
					if keep[j] {
						names = append(names, s.Names[j])
					}
				}
				s.Names = names
			default: // a, b = f()
				for j := range s.Names {
					if !keep[j] {
						s.Names[j] = ast.NewIdent("_")
					}
				}
			}
			specs = append(specs, s)
		default:
			specs = append(specs, s)
		}
	}
	gd.Specs = specs
	return len(specs) > 0
}

func (d *deleter) rewriteFieldList(fl *ast.FieldList) {
	if fl == nil {
		return
	}
	var out []*ast.Field
	for _, f := range fl.List {
		if len(f.Names) == 0 {
			if d.isRemoved(embeddedIdent(f.Type)) {
				d.res.RemovedDecls++
				continue
			}
			out = append(out, f)
			continue
		}
		var names []*ast.Ident
		for _, n := range f.Names {
			if d.isRemoved(n) {
				d.res.RemovedDecls++
				continue
			}
			names = append(names, n)
		}
		if len(names) == 0 {
			continue
		}
		f.Names = names
		out = append(out, f)
	}
	fl.List = out
}

func (d *deleter) rewriteFile(f *ast.File, removedTypes map[types.Object]bool) {
	drop := func(c *astutil.Cursor) {
		if c.Index() >= 0 {
			c.Delete()
		} else {
			c.Replace(&ast.EmptyStmt{Implicit: true})
		}
	}
	astutil.Apply(f, func(c *astutil.Cursor) bool {
		switch n := c.Node().(type) {
		case *ast.FuncDecl:
			if d.isRemoved(n.Name) {
				d.res.RemovedDecls++
				c.Delete()
				return false
			}
			if b := recvBase(n); b != nil {
				if o := d.info.Uses[b]; o != nil && removedTypes[o] {
					d.res.RemovedDecls++
					c.Delete()
					return false
				}
			}
		case *ast.GenDecl:
			if _, isStmt := c.Parent().(*ast.DeclStmt); !isStmt {
				if !d.rewriteGenDecl(n) {
					c.Delete()
					return false
				}
			}
		case *ast.DeclStmt:
			if gd, ok := n.Decl.(*ast.GenDecl); ok {
				if !d.rewriteGenDecl(gd) {
					drop(c)
					return false
				}
			}
		case *ast.StructType:
			d.rewriteFieldList(n.Fields)
		case *ast.InterfaceType:
			d.rewriteFieldList(n.Methods)
		case *ast.AssignStmt:
			if n.Tok == token.DEFINE {
				return true
			}
			hit := false
			for i, l := range n.Lhs {
				if d.usesRemovedVar(l) {
					n.Lhs[i] = ast.NewIdent("_")
					hit = true
					// `_ = nil` is not valid Go: an untyped nil written to a removed variable becomes 0
					if len(n.Rhs) == len(n.Lhs) {
						if id, ok := astutil.Unparen(n.Rhs[i]).(*ast.Ident); ok {
							if _, isNil := d.info.Uses[id].(*types.Nil); isNil {
								n.Rhs[i] = &ast.BasicLit{Kind: token.INT, Value: "0"}
							}
						}
					}
				}
			}
			if hit {
				d.res.Neutralised++
				if n.Tok != token.ASSIGN { // v op= e  ->  _ = e
					n.Tok = token.ASSIGN
				}
			}
		case *ast.IncDecStmt:
			if d.usesRemovedVar(n.X) {
				d.res.Neutralised++
				drop(c)
				return false
			}
		case *ast.RangeStmt:
			if n.Tok == token.ASSIGN {
				if n.Key != nil && d.usesRemovedVar(n.Key) {
					n.Key = ast.NewIdent("_")
					d.res.Neutralised++
				}
				if n.Value != nil && d.usesRemovedVar(n.Value) {
					n.Value = ast.NewIdent("_")
					d.res.Neutralised++
				}
			}
		}
		return true
	}, nil)
}

var unusedImportRe = regexp.MustCompile(`^"([^"]+)" imported (as \S+ )?and not used`)

func dropImportAt(files []*ast.File, fset *token.FileSet, pos token.Pos) bool {
	for _, f := range files {
		for di, decl := range f.Decls {
			gd, ok := decl.(*ast.GenDecl)
			if !ok || gd.Tok != token.IMPORT {
				continue
			}
			for i, s := range gd.Specs {
				is := s.(*ast.ImportSpec)
				if is.Pos() <= pos && pos <= is.End() {
					gd.Specs = append(gd.Specs[:i:i], gd.Specs[i+1:]...)
					if len(gd.Specs) == 0 {
						// the last import of the declaration: an import declaration without specs is not a valid AST
						// (GenDecl.End panics for the unparenthesised form), so the declaration goes as well
						f.Decls = append(f.Decls[:di:di], f.Decls[di+1:]...)
					}
					for j, im := range f.Imports {
						if im == is {
							f.Imports = append(f.Imports[:j:j], f.Imports[j+1:]...)
							break
						}
					}
					return true
				}
			}
		}
	}
	return false
}

type mapImporter map[string]*types.Package

func (m mapImporter) Import(path string) (*types.Package, error) {
	if path == "unsafe" {
		return types.Unsafe, nil
	}
	if p, ok := m[path]; ok && p != nil {
		return p, nil
	}
	return nil, fmt.Errorf("no type information for import %q", path)
}

func typeCheck(pkg *packages.Package, files []*ast.File) []types.Error {
	imp := mapImporter{}
	for path, ip := range pkg.Imports {
		imp[path] = ip.Types
	}
	var errs []types.Error
	conf := types.Config{
		Importer: imp,
		Sizes:    pkg.TypesSizes,
		Error: func(err error) {
			if te, ok := err.(types.Error); ok {
				errs = append(errs, te)
			} else {
				errs = append(errs, types.Error{Msg: err.Error()})
			}
		},
	}
	if pkg.Module != nil && pkg.Module.GoVersion != "" {
		conf.GoVersion = "go" + pkg.Module.GoVersion
	}
	info := &types.Info{}
	conf.Check(pkg.PkgPath, pkg.Fset, files, info)
	return errs
}

func deleteAndCheck(pkg *packages.Package, reported []Obj, wantSource bool) DelResult {
	res := DelResult{ID: pkg.ID, Reported: len(reported)}
	if isCgo(pkg) {
		res.Unsupported = append(res.Unsupported, "cgo package")
		return res
	}
	byPos := map[posKey]types.Object{}
	for id, o := range pkg.TypesInfo.Defs {
		if o == nil {
			continue
		}
		p := pkg.Fset.PositionFor(id.Pos(), false)
		byPos[posKey{rel(p.Filename), p.Line, p.Column}] = o
	}
	d := &deleter{pkg: pkg, info: pkg.TypesInfo, removed: map[types.Object]bool{}, res: &res}
	removedTypes := map[types.Object]bool{}
	// objects the operator has no rule for; they are fine if they disappear with an enclosing declaration
	pending := map[types.Object]string{}
	for _, r := range reported {
		o, ok := byPos[posKey{r.File, r.Line, r.Col}]
		if !ok {
			res.Unmatched = append(res.Unmatched, r)
			continue
		}
		switch o := o.(type) {
		case *types.TypeName:
			if _, isTP := o.Type().(*types.TypeParam); isTP {
				pending[o] = "type parameter " + o.Name()
				continue
			}
			removedTypes[o] = true
		case *types.Var:
			if !o.IsField() && o.Parent() != pkg.Types.Scope() {
				// parameters, results, receivers, local variables: the operator has no rule for them
				pending[o] = "local variable or parameter " + o.Name()
				continue
			}
		case *types.Func, *types.Const:
		default:
			pending[o] = fmt.Sprintf("%T %s", o, o.Name())
			continue
		}
		d.removed[o] = true
	}
	if len(res.Unmatched) > 0 {
		return res
	}
	for _, f := range pkg.Syntax {
		d.rewriteFile(f, removedTypes)
	}
	if len(pending) > 0 {
		for _, f := range pkg.Syntax {
			ast.Inspect(f, func(n ast.Node) bool {
				if id, ok := n.(*ast.Ident); ok {
					if o := pkg.TypesInfo.Defs[id]; o != nil {
						if what, ok := pending[o]; ok {
							res.Unsupported = append(res.Unsupported, what)
							delete(pending, o)
						}
					}
				}
				return true
			})
		}
		if len(res.Unsupported) > 0 {
			sort.Strings(res.Unsupported)
			return res
		}
	}
	var errs []types.Error
	for round := 0; round < 4; round++ {
		errs = typeCheck(pkg, pkg.Syntax)
		progress := false
		var rest []types.Error
		for _, e := range errs {
			if unusedImportRe.MatchString(e.Msg) && dropImportAt(pkg.Syntax, pkg.Fset, e.Pos) {
				res.Dropped++
				progress = true
				continue
			}
			rest = append(rest, e)
		}
		errs = rest
		if !progress {
			break
		}
	}
	for _, e := range errs {
		p := pkg.Fset.Position(e.Pos)
		res.Errors = append(res.Errors, fmt.Sprintf("%s:%d:%d: %s", rel(p.Filename), p.Line, p.Column, e.Msg))
	}
	if len(res.Errors) > 0 && wantSource {
		res.Source = map[string]string{}
		for _, f := range pkg.Syntax {
			var buf bytes.Buffer
			if err := formatNode(&buf, pkg.Fset, f); err == nil {
				res.Source[rel(pkg.Fset.Position(f.Pos()).Filename)] = buf.String()
			}
		}
	}
	return res
}

// ---------------------------------------------------------------------------------------------
// corpus permutation: the same package with its files renamed (so that they are listed, parsed and
// analysed in another order) and with the top-level declarations of every file permuted.  Purely
// textual on declaration chunks (doc comment .. start of the next declaration), so comments,
// directives and build constraints travel with the code they belong to.

func permuteFile(src []byte, rng *rand.Rand, mode string) ([]byte, int, error) {
	fset := token.NewFileSet()
	f, err := parser.ParseFile(fset, "x.go", src, parser.ParseComments)
	if err != nil {
		return nil, 0, err
	}
	off := func(p token.Pos) int { return fset.Position(p).Offset }
	var starts []int
	for _, d := range f.Decls {
		if gd, ok := d.(*ast.GenDecl); ok && gd.Tok == token.IMPORT {
			if len(starts) > 0 {
				return src, 0, nil // imports after declarations: leave the file alone
			}
			continue
		}
		start := d.Pos()
		switch d := d.(type) {
		case *ast.FuncDecl:
			if d.Doc != nil {
				start = d.Doc.Pos()
			}
		case *ast.GenDecl:
			if d.Doc != nil {
				start = d.Doc.Pos()
			}
		}
		// extend to the beginning of the line
		o := off(start)
		for o > 0 && src[o-1] != '\n' {
			o--
		}
		if len(starts) > 0 && o <= starts[len(starts)-1] {
			return src, 0, nil // two declarations on one line
		}
		starts = append(starts, o)
	}
	if len(starts) < 2 {
		return src, 0, nil
	}
	header := src[:starts[0]]
	var chunks [][]byte
	for i := range starts {
		end := len(src)
		if i+1 < len(starts) {
			end = starts[i+1]
		}
		c := src[starts[i]:end]
		if len(c) == 0 || c[len(c)-1] != '\n' {
			c = append(append([]byte{}, c...), '\n')
		}
		chunks = append(chunks, c)
	}
	if mode == "reverse" {
		for i, j := 0, len(chunks)-1; i < j; i, j = i+1, j-1 {
			chunks[i], chunks[j] = chunks[j], chunks[i]
		}
	} else {
		rng.Shuffle(len(chunks), func(i, j int) { chunks[i], chunks[j] = chunks[j], chunks[i] })
	}
	out := append([]byte{}, header...)
	for _, c := range chunks {
		out = append(out, c...)
		out = append(out, '\n')
	}
	if _, err := parser.ParseFile(token.NewFileSet(), "x.go", out, parser.ParseComments); err != nil {
		return src, 0, nil
	}
	return out, len(chunks), nil
}

func permuteTree(src, dst string, seed int64, mode string) error {
	rng := rand.New(rand.NewSource(seed))
	nfiles, ndecls := 0, 0
	err := filepath.Walk(src, func(path string, fi os.FileInfo, err error) error {
		if err != nil {
			return err
		}
		r, _ := filepath.Rel(src, path)
		if fi.IsDir() {
			return os.MkdirAll(filepath.Join(dst, r), 0o755)
		}
		b, err := os.ReadFile(path)
		if err != nil {
			return err
		}
		name := fi.Name()
		if strings.HasSuffix(name, ".go") {
			if mode == "decls" || mode == "both" || mode == "reverse" {
				nb, n, err := permuteFile(b, rng, mode)
				if err == nil {
					b = nb
					ndecls += n
				}
			}
			if mode == "files" || mode == "both" || mode == "reverse" {
				// a prefix that inverts (or scrambles) the lexical order of the files of a directory
				sum := 0
				for _, c := range []byte(name) {
					sum = (sum*31 + int(c) + int(seed)*7) % 997
				}
				if mode == "reverse" {
					inv := make([]byte, 0, 8)
					for i := 0; i < len(name) && i < 8; i++ {
						inv = append(inv, 'a'+('z'-lower(name[i]))%26)
					}
					name = "r" + string(inv) + "_" + name
				} else {
					name = fmt.Sprintf("p%03d_%s", sum, name)
				}
			}
			nfiles++
		}
		return os.WriteFile(filepath.Join(dst, filepath.Dir(r), name), b, 0o644)
	})
	fmt.Printf("{\"files\": %d, \"decls\": %d}\n", nfiles, ndecls)
	return err
}

func lower(c byte) byte {
	if c >= 'A' && c <= 'Z' {
		c += 'a' - 'A'
	}
	if c < 'a' || c > 'z' {
		return 'a'
	}
	return c
}

func formatNode(buf *bytes.Buffer, fset *token.FileSet, n ast.Node) error { return format.Node(buf, fset, n) }

func main() {
	dir := flag.String("dir", "", "module directory")
	tests := flag.Bool("tests", false, "analyse test variants")
	doRaw := flag.Bool("raw", false, "raw unused.Result per package variant through the real runner")
	doLint := flag.Bool("lintcmd", false, "merged U1000 problems through lintcmd.Command")
	doDel := flag.Bool("del", false, "deletion check with go/types")
	doMust := flag.Bool("must", false, "syntactic MustReport")
	delFrom := flag.String("delfrom", "raw", "reported set for the deletion check: raw (per package) or lint (merged)")
	binary := flag.String("binary", "", "run the lintcmd path through this staticcheck binary instead of in-process")
	pats := flag.String("patterns", "./...", "space separated package patterns")
	injectPath := flag.String("inject", "", "JSON {package id: [objects]} added to the reported set of the deletion check (self-test)")
	doTyped := flag.Bool("typed", false, "type-check every package with go/packages and report errors")
	permSrc := flag.String("permute", "", "permute mode: source directory tree of Go packages")
	permDst := flag.String("permute-dst", "", "permute mode: destination directory")
	permSeed := flag.Int64("permute-seed", 1, "permute mode: seed")
	permMode := flag.String("permute-mode", "both", "permute mode: decls | files | both | reverse")
	flag.Parse()
	moddir, _ = filepath.Abs(*dir)
	patterns := strings.Fields(*pats)
	var out Out

	t0 := time.Now()
	lap := func(what string) {
		if os.Getenv("VERIF_TIMING") != "" {
			fmt.Fprintf(os.Stderr, "timing %s %.1fs\n", what, time.Since(t0).Seconds())
		}
		t0 = time.Now()
	}
	if *permSrc != "" {
		if err := permuteTree(*permSrc, *permDst, *permSeed, *permMode); err != nil {
			fmt.Fprintln(os.Stderr, "permute:", err)
			os.Exit(6)
		}
		return
	}
	var pkgs []*packages.Package
	var err error
	if *doDel || *doMust || *doTyped {
		pkgs, err = loadTyped(patterns, *tests)
	}
	lap("typed load")
	if err != nil {
		fmt.Fprintln(os.Stderr, "load:", err)
		os.Exit(3)
	}
	byID := map[string]*packages.Package{}
	for _, p := range pkgs {
		byID[p.ID] = p
		t := Typed{ID: p.ID, Path: p.PkgPath}
		for _, e := range p.Errors {
			t.Errors = append(t.Errors, e.Error())
		}
		if *doMust && len(p.Errors) == 0 && p.TypesInfo != nil {
			t.Must, t.MustSkipped = mustReport(p)
		}
		out.Typed = append(out.Typed, t)
	}
	sort.Slice(out.Typed, func(i, j int) bool { return out.Typed[i].ID < out.Typed[j].ID })

	if *doRaw || (*doDel && *delFrom == "raw") {
		out.Raw, err = runRaw(patterns, *tests)
		if err != nil {
			fmt.Fprintln(os.Stderr, "runner:", err)
			os.Exit(4)
		}
	}
	lap("runner")
	if *doLint || (*doDel && *delFrom == "lint") {
		scratch := os.TempDir()
		out.Lint, out.LintRC, out.LintErr = runLint(patterns, *tests, *binary, scratch)
	}
	lap("lintcmd")
	inject := map[string][]Obj{}
	if *injectPath != "" {
		b, err := os.ReadFile(*injectPath)
		if err == nil {
			err = json.Unmarshal(b, &inject)
		}
		if err != nil {
			fmt.Fprintln(os.Stderr, "inject:", err)
			os.Exit(7)
		}
	}
	if *doDel {
		if *delFrom == "raw" {
			for _, raw := range out.Raw {
				p := byID[raw.ID]
				if p == nil || raw.Failed || len(p.Errors) > 0 || p.TypesInfo == nil {
					continue
				}
				out.Del = append(out.Del, deleteAndCheck(p, append(append([]Obj{}, raw.Unused...), inject[raw.ID]...), true))
			}
		} else {
			// merged problems, by directory of the file; every variant of the package must survive
			for _, p := range pkgs {
				if len(p.Errors) > 0 || p.TypesInfo == nil || len(p.GoFiles) == 0 {
					continue
				}
				files := map[string]bool{}
				for _, f := range p.CompiledGoFiles {
					files[rel(f)] = true
				}
				var rep []Obj
				for _, pr := range out.Lint {
					if pr.Code == "U1000" && files[pr.File] {
						rep = append(rep, Obj{File: pr.File, Line: pr.Line, Col: pr.Col})
					}
				}
				out.Del = append(out.Del, deleteAndCheck(p, rep, true))
			}
		}
	}
	lap("deletion")
	enc := json.NewEncoder(os.Stdout)
	if err := enc.Encode(out); err != nil {
		fmt.Fprintln(os.Stderr, err)
		os.Exit(5)
	}
}
