// Package lib is the sibling package that the shapes import under various names.
package lib

// Shape is implemented with exported methods.
type Shape interface {
	Area() int
	Name() string
}

// Visitor is implemented by unexported types of the importing packages.
type Visitor interface {
	Visit(n int) bool
}

// Sealed can only be implemented by embedding Base.
type Sealed interface {
	Shape
	sealed()
}

// Base carries an exported field and implements the unexported part of Sealed.
type Base struct {
	ID int
}

func (Base) sealed() {}

// Describe is an exported method that is promoted to every embedder.
func (b Base) Describe() string { return "base" }

// Unit is the sealed shape of this package; it implements Sealed through the embedded Base.
type Unit struct {
	Base
}

// Area implements Shape.
func (Unit) Area() int { return 1 }

// Name implements Shape.
func (Unit) Name() string { return "unit" }

// Walk calls v for 0..n-1.
func Walk(v Visitor, n int) int {
	c := 0
	for i := 0; i < n; i++ {
		if v.Visit(i) {
			c++
		}
	}
	return c
}

// Total sums the areas.
func Total(ss ...Shape) int {
	t := 0
	for _, s := range ss {
		t += s.Area()
	}
	return t
}

// Number is a constraint.
type Number interface {
	~int | ~int64 | ~float64
}

// Map is a generic helper.
func Map[T, U any](xs []T, f func(T) U) []U {
	out := make([]U, 0, len(xs))
	for _, x := range xs {
		out = append(out, f(x))
	}
	return out
}

// Pair is a generic struct.
type Pair[K comparable, V any] struct {
	Key K
	Val V
}

// Version is an exported constant.
const Version = 3

// Default is an exported variable.
var Default = Base{ID: 1}

// Option configures a Config.
type Option func(*Config)

// Config is configured by options.
type Config struct {
	Depth int
	Name  string
}

// Apply applies the options.
func Apply(opts ...Option) Config {
	var c Config
	for _, o := range opts {
		o(&c)
	}
	return c
}
