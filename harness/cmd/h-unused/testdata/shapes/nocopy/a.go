// Package nocopy: fields of a NoCopy sentinel type are used (6.1) although nothing refers to them.
package nocopy

type noCopy struct{}

func (*noCopy) Lock()   {}
func (*noCopy) Unlock() {}

type pool struct {
	noCopy noCopy
	items  []int
	spare  int
}

// Get reads items only.
func (p *pool) Get() int {
	if len(p.items) == 0 {
		return 0
	}
	return p.items[0]
}

// NewPool is the exported constructor.
func NewPool() *pool { return &pool{} }

type almostNoCopy struct{}

func (*almostNoCopy) Lock()         {}
func (*almostNoCopy) Unlock()       {}
func (*almostNoCopy) TryLock() bool { return true }

type guarded struct {
	guard almostNoCopy
	n     int
}

// N reads n.
func (g *guarded) N() int { return g.n }

// NewGuarded is the exported constructor.
func NewGuarded() *guarded { return &guarded{} }
