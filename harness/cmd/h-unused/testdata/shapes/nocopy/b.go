package nocopy

type lockOnly struct{}

func (*lockOnly) Lock() {}

type once struct {
	_    lockOnly
	lk   lockOnly
	done bool
}

// Do flips done.
func (o *once) Do(f func()) {
	if !o.done {
		o.done = true
		f()
	}
}

// NewOnce is the exported constructor.
func NewOnce() *once { return new(once) }

type unusedPool struct {
	noCopy noCopy
	n      int
}
