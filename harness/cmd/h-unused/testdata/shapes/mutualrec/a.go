// Package mutualrec: mutually recursive functions and types. Unreachable cycles must be reported as a whole (they
// reference each other, so the literal zero-reference reading does not apply); reachable cycles are used.
package mutualrec

func isEven(n int) bool {
	if n == 0 {
		return true
	}
	return isOdd(n - 1)
}

func isOdd(n int) bool {
	if n == 0 {
		return false
	}
	return isEven(n - 1)
}

// Even enters the reachable cycle.
func Even(n int) bool { return isEven(n) }

func deadPing(n int) int {
	if n == 0 {
		return 0
	}
	return deadPong(n - 1)
}

func deadPong(n int) int {
	if n == 0 {
		return 1
	}
	return deadPing(n-1) + deadSelf(n)
}

func deadSelf(n int) int {
	if n <= 0 {
		return 0
	}
	return deadSelf(n - 1)
}
