package mutualrec

var (
	first  = func() int { return second() + 1 }
	second = func() int { return 0 }
)

// First calls through the variables.
func First() int { return first() }

var deadVarA = func() int { return deadFn() }

func deadFn() int { return len(deadTable) }

var deadTable = []int{1, 2, 3}

type state func(int) state

func start(n int) state {
	if n > 0 {
		return middle
	}
	return nil
}

func middle(n int) state {
	if n > 1 {
		return start
	}
	return nil
}

// Machine runs the state functions, which only refer to each other by value (4.4).
func Machine(n int) int {
	steps := 0
	for s := start; s != nil; s = s(n) {
		steps++
		n--
	}
	return steps
}
