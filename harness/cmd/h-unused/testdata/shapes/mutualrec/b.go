package mutualrec

type treeT struct {
	kids forest
	val  int
}

type forest []*treeT

func (t *treeT) sum() int { return t.val + t.kids.sum() }

func (f forest) sum() int {
	s := 0
	for _, t := range f {
		s += t.sum()
	}
	return s
}

// Sum enters the recursive pair of types and methods.
func Sum(vals ...int) int {
	var f forest
	for _, v := range vals {
		f = append(f, &treeT{val: v})
	}
	return f.sum()
}

type deadA struct {
	b *deadB
}

type deadB struct {
	a *deadA
}

func (a *deadA) walk() int {
	if a.b == nil {
		return 0
	}
	return a.b.walk() + 1
}

func (b *deadB) walk() int {
	if b.a == nil {
		return 0
	}
	return b.a.walk() + 1
}
