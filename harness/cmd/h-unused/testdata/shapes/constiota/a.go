// Package constiota: constant groups (10.1): using one member uses the whole group, groups are separated by blank
// lines inside one declaration, blank members do not connect, typed iota enumerations, constants used only as array
// lengths or in other constants.
package constiota

type color int

const (
	red color = iota
	green
	blue
)

// Is uses only one member of the enumeration.
func Is(c int) bool { return color(c) == green }

const (
	kb = 1 << (10 * (iota + 1))
	mb
	gb

	lonelyA = "a"
	lonelyB = "b"
)

// Mega uses the middle member of the first group of the declaration; the second group stays unused.
func Mega(n int) int { return n * mb }

const (
	flagA = 1 << iota
	_
	flagC
)

const single = 42

const width = 4

type grid [width][width]int

// Cells uses a constant through an array type only.
func Cells() int {
	var g grid
	return len(g) * len(g[0])
}
