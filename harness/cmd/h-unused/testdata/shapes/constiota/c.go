package constiota

// Local declares constant groups in a function body.
func Local(n int) int {
	const (
		step = 3
		span = step * 2
		rest
	)
	const alone = 9
	if n > span {
		return step
	}
	return n
}

type level int8

const (
	debug level = iota - 1
	info
	warn
)

var current = info

// Enabled compares against the package-level variable.
func Enabled(l int) bool { return level(l) >= current }

type mode string

const (
	modeFast mode = "fast"
	modeSafe mode = "safe"
)
