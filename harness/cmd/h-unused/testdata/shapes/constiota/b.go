package constiota

type weekday uint8

const (
	monday weekday = iota + 1
	tuesday
	wednesday
)

var names = [...]string{
	monday:    "mon",
	tuesday:   "tue",
	wednesday: "wed",
}

func (d weekday) String() string {
	if int(d) < len(names) {
		return names[d]
	}
	return "?"
}

// Day converts to the named type.
func Day(n int) string { return weekday(n).String() }

const (
	limitLow  = 10
	limitHigh = limitLow * 10
)

// Clamp uses limitHigh, which uses limitLow.
func Clamp(n int) int {
	if n > limitHigh {
		return limitHigh
	}
	return n
}

const (
	unusedX, unusedY = iota, iota * 2
	unusedZ, unusedW
)

const floating = 2.5
