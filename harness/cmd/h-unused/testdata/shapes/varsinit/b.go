package varsinit

type level int

var threshold level = 3

var levels = map[string]level{"low": 1, "high": threshold + 2}

// Level looks a level up.
func Level(s string) int { return int(levels[s]) }

type plugin interface {
	name() string
}

type pluginA struct{}

func (pluginA) name() string { return "a" }

type pluginB struct{}

func (pluginB) name() string { return "b" }

var plugins = []plugin{pluginA{}, pluginB{}}

// Names iterates over the plugins.
func Names() []string {
	var out []string
	for _, p := range plugins {
		out = append(out, p.name())
	}
	return out
}

type pluginC struct{}

func (pluginC) name() string { return "c" }

var unusedPlugins = []plugin{pluginC{}}
