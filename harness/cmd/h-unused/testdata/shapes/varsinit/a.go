// Package varsinit: variables use their types (9.2) and initialisers; multi-value initialisation from one call; grouped
// declarations where only some names are used; variables used only by other variables' initialisers.
package varsinit

import "errors"

var errA, errB = errors.New("a"), errors.New("b")

// IsA compares against one of the two.
func IsA(err error) bool { return errors.Is(err, errA) }

var host, port = split("localhost:80")

func split(s string) (string, string) {
	for i := range s {
		if s[i] == ':' {
			return s[:i], s[i+1:]
		}
	}
	return s, ""
}

// Host reads one of two variables initialised by one call.
func Host() string { return host }

type settings struct {
	retries int
}

var defaults settings

var current = &defaults

// Retries reads through the pointer.
func Retries() int { return current.retries }

var (
	unusedA, unusedB int
	unusedC          = settings{}
)
