package promote1

type flusher interface {
	flush() int
}

type buffer struct {
	n int
}

func (b *buffer) flush() int {
	n := b.n
	b.n = 0
	return n
}

type writer struct {
	*buffer
	name string
}

var sink flusher = &writer{name: "w"}

// Flush uses the package-level interface variable.
func Flush() int { return sink.flush() }

type reader struct {
	buffer
	pos int
}

// Drain converts *reader (pointer receiver method promoted through a value embedding) in a var declaration.
func Drain() int {
	r := &reader{pos: 1}
	var f flusher = r
	return f.flush() + r.pos
}

var unusedSink flusher

func resetUnused() { unusedSink = nil }
