// Package promote1: package-level types that satisfy interfaces only through methods promoted over ONE level of
// embedding, by value and by pointer; implicit conversions in assignments and variable declarations (6.3, 8.2).
package promote1

type speaker interface {
	speak() string
}

type voice struct {
	pitch int
}

func (v voice) speak() string {
	if v.pitch > 3 {
		return "high"
	}
	return "low"
}

type person struct {
	voice
	age int
}

// Talk converts person to speaker in an assignment.
func Talk(age int) string {
	var s speaker
	p := person{age: age}
	s = p
	return s.speak()
}

type mute struct {
	reason string
}

func (m mute) why() string { return m.reason }
