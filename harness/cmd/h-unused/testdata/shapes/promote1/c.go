package promote1

import "ex.test/shapes/lib"

// badge embeds lib.Base: the unexported method sealed comes from another package, the exported ones are declared here.
type badge struct {
	lib.Base
	w, h int
}

func (b badge) Area() int    { return b.w * b.h }
func (b badge) Name() string { return "badge" }

// Seal converts badge to lib.Sealed in a call argument.
func Seal(w, h int) int {
	return lib.Total(sealed(badge{w: w, h: h}))
}

func sealed(s lib.Sealed) lib.Shape { return s }

type sticker struct {
	lib.Base
	glue bool
}

func (s sticker) sticky() bool { return s.glue }
