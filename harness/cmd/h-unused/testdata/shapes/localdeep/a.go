// Package localdeep: local named types two embedding levels away from the method, by value and by pointer, declared
// in nested blocks, closures in closures and in methods (rules 6.3, 6.4, 8.2, 2.1 for local types).
package localdeep

type runner interface {
	run() int
	stop()
}

type engine struct {
	rpm int
}

func (e *engine) run() int { return e.rpm }
func (e *engine) stop()    { e.rpm = 0 }

type chassis struct {
	*engine
	wheels int
}

func drive(r runner) int {
	defer r.stop()
	return r.run()
}

// Start: car embeds chassis (by value) which embeds *engine; car is only ever converted implicitly.
func Start(n int) int {
	if n > 0 {
		type car struct {
			chassis
			plate string
		}
		var c car
		c.plate = "p"
		c.wheels = n
		return drive(c)
	}
	return 0
}

type cold struct{}

func (cold) freeze() {}
