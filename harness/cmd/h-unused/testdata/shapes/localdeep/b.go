package localdeep

import "fmt"

type logger struct {
	prefix string
}

// String is exported: rule 2.1/6.4 must keep the embedded field of the local type alive.
func (l logger) String() string { return l.prefix }

type mid struct {
	logger
}

type service struct {
	calls int
}

// Handle declares local types inside a closure inside a method; the value is passed to fmt (interface{} parameter), so
// only the exported promoted method (found through reflection by fmt) keeps mid/logger meaningful.
func (s *service) Handle(names ...string) []string {
	var out []string
	each := func(name string) {
		inner := func() fmt.Stringer {
			type traced struct {
				*mid
				depth int
			}
			t := &traced{depth: len(name)}
			return t
		}
		out = append(out, fmt.Sprint(inner()))
		s.calls++
	}
	for _, n := range names {
		each(n)
	}
	return out
}

// NewService is the exported constructor.
func NewService() *service { return &service{} }

var idle bool

func neverCalled() { idle = true }
