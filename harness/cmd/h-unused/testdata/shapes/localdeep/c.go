package localdeep

type closer interface {
	close() error
}

type handle struct {
	fd int
}

func (h *handle) close() error {
	h.fd = -1
	return nil
}

type pipe struct {
	handle
}

// Shutdown sends a local type over a channel of interface type (conversion in a send statement) and stores another
// one in a map of interfaces (conversion in an index assignment).
func Shutdown(ch chan closer, reg map[string]closer) {
	type session struct {
		pipe
		id int
	}
	s := &session{id: 1}
	ch <- s
	type lease struct {
		*session
	}
	reg["x"] = lease{}
	var arr [1]closer
	arr[0] = &lease{}
	for _, c := range arr {
		_ = c.close()
	}
}

type unusedLocalOwner struct{}

func helperNoCaller() *unusedLocalOwner {
	type scratch struct{ n int }
	_ = scratch{n: 1}
	return nil
}
