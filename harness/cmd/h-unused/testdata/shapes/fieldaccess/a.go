// Package fieldaccess: fields are used by being accessed (4.7, 7.1), fields use their types (7.2): selector chains,
// promoted fields through embedded structs and embedded pointers, writes to fields, keyed and unkeyed literals, fields
// of function type being called, address-of fields.
package fieldaccess

type vec struct {
	x, y, z float64
}

type body struct {
	pos  vec
	vel  vec
	mass massT
	name nameT
}

type massT float64

type nameT string

// Momentum reads through a chain; z, name (and so nameT) stay unused.
func Momentum(b *body) float64 {
	return float64(b.mass) * (b.vel.x + b.vel.y) * b.pos.x
}

// NewBody uses a keyed literal for two fields.
func NewBody(m float64) *body {
	return &body{mass: massT(m), vel: vec{x: 1}}
}

type inner struct {
	depth int
	width int
}

type middle struct {
	inner
	height int
}

type outer struct {
	*middle
	label string
}

// Depth selects a field promoted through an embedded pointer and an embedded value; the embedded fields themselves are
// never named.
func Depth(o outer) int { return o.depth }

// NewOuter allocates the pointer; the literal is keyed by the embedded field's name.
func NewOuter() outer { return outer{middle: &middle{}} }
