package fieldaccess

type callbacks struct {
	before func()
	after  func()
	never  func()
}

// Around calls function-typed fields.
func Around(c callbacks, f func()) {
	if c.before != nil {
		c.before()
	}
	f()
	defer c.after()
}

type stats struct {
	reads  int
	writes int
	errs   int
	total  *int
}

// Record only writes to fields (field writes are uses) and takes the address of one.
func Record(s *stats) *int {
	s.reads++
	s.writes += 2
	s.total = &s.errs
	return s.total
}

type point struct {
	x, y int
}

// Unkeyed literals use every field.
func Origin() any { return point{0, 0} }

type size struct {
	w, h int
}

// Keyed literals use the named fields only.
func Wide(w int) any { return size{w: w} }

type unusedStats struct {
	n int
}

func (u *unusedStats) bump() { u.n++ }
