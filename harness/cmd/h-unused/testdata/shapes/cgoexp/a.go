// Package cgoexp: functions exported to cgo are used (1.6).
package cgoexp

/*
static int twice(int x) { return 2 * x; }
*/
import "C"

//export goCallback
func goCallback(n C.int) C.int { return n + 1 }

func notExported(n int) int { return n }

// Twice calls into C.
func Twice(n int) int { return int(C.twice(C.int(n))) }
