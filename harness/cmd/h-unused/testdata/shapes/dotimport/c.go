package dotimport

import . "ex.test/shapes/lib"

// Everything in this file is unused: once it is deleted the dot import is unused as well.

func unusedTotal(s Shape) int { return Total(s, s) }

var unusedPair Pair[int, int]
