package dotimport

import . "ex.test/shapes/lib"

func withDepth(d int) Option {
	return func(c *Config) { c.Depth = d }
}

func withName(n string) Option {
	return func(c *Config) { c.Name = n }
}

// Build applies local option constructors.
func Build(d int) Config { return Apply(withDepth(d)) }

type pairs = Pair[string, localVal]

type localVal struct {
	n int
}

// Pairs instantiates a dot-imported generic type with a local type argument, through an alias.
func Pairs() pairs { return pairs{Key: "k", Val: localVal{n: 1}} }

func number[N Number](n N) N { return n + n }

// Twice instantiates a local generic function constrained by a dot-imported constraint.
func Twice(n int) int { return number(n) }
