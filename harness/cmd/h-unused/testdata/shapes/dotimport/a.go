// Package dotimport: dot import of a sibling package: foreign identifiers appear unqualified next to local ones.
package dotimport

import (
	. "ex.test/shapes/lib"
)

type tile struct {
	Base
	side int
}

func (t tile) Area() int    { return t.side * t.side }
func (t tile) Name() string { return "tile" }

// Sum uses the dot-imported function, interface and variable.
func Sum(side int) int {
	var s Shape = tile{Base: Default, side: side}
	return Total(s) + Version
}

type counterV struct {
	hits int
}

func (c *counterV) Visit(n int) bool {
	c.hits += n
	return n%2 == 0
}

// Evens walks with an unexported visitor.
func Evens(n int) int { return Walk(&counterV{}, n) }

type config struct {
	depth int
}

func unusedOption(c *Config) { c.Depth = 1 }
