// Package anonstruct: anonymous struct types use all their fields (11.1): variables, slices, maps and channels of
// anonymous structs, anonymous structs nested in named structs, embedded fields of anonymous structs.
package anonstruct

var settings struct {
	verbose bool
	level   int
	name    string
}

// Verbose reads one field of the anonymous struct.
func Verbose() bool { return settings.verbose }

var cases = []struct {
	in   string
	want int
	note string
}{
	{"a", 1, "first"},
	{in: "bb", want: 2},
}

// Check ranges over the table and reads two of three fields.
func Check(f func(string) int) bool {
	for _, c := range cases {
		if f(c.in) != c.want {
			return false
		}
	}
	return true
}

type holder struct {
	inner struct {
		a, b int
	}
	meta struct{ tag kind }
	skip int
}

type kind string

// Hold touches the named struct's fields.
func Hold() int {
	var h holder
	h.inner.a = 1
	h.meta.tag = "k"
	return h.inner.a
}

var unusedSettings struct {
	flag onlyHere
}

type onlyHere bool
