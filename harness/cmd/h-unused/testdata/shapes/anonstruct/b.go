package anonstruct

type base struct {
	id int
}

func (b base) ident() int { return b.id }

type identer interface {
	ident() int
}

// Wrap embeds a named type in an anonymous struct; the conversion needs the promoted method.
func Wrap(id int) int {
	v := struct {
		base
		extra string
	}{base{id}, "x"}
	var i identer = v
	return i.ident() + len(v.extra)
}

// Chan sends anonymous structs.
func Chan() chan struct{ msg payload } {
	ch := make(chan struct{ msg payload }, 1)
	ch <- struct{ msg payload }{}
	return ch
}

type payload struct {
	body string
}

// Body reads the field.
func Body(p payload) string { return p.body }

func unusedWrap() any {
	return struct{ n never }{}
}

type never int
