package main

var commands = map[string]command{}

type command interface {
	exec() int
}

type help struct{}

func (help) exec() int { return 0 }

type version struct{}

func (version) exec() int { return 1 }

func registerAll() {
	commands["help"] = help{}
}

// Exported is exported from package main.
func Exported() int { return commands["help"].exec() }

// Main with a capital M is an exported ordinary function.
func Main() {}
