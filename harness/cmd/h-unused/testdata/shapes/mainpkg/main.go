// Command mainpkg: the main function of package main and init functions are used (1.5, 1.7); exported identifiers of
// package main are still exported (1.1-1.4).
package main

import "fmt"

func main() {
	run(options)
}

func init() {
	options.verbose = envVerbose()
}

func init() {
	registerAll()
}

type opts struct {
	verbose bool
	name    string
}

var options opts

func envVerbose() bool { return false }

func run(o opts) {
	if o.verbose {
		fmt.Println(banner)
	}
}

const banner = "mainpkg"

func unusedMainHelper() string { return options.name }
