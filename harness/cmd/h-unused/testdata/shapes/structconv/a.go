// Package structconv: conversions between struct types with identical underlying types (5.1): the fields of the one struct
// are read, the fields of the other are referred to nowhere; conversions through pointers, chains, generics.
package structconv

type wire struct {
	id   int
	name string
	tags []string
}

type model struct {
	id   int
	name string
	tags []string
}

// Decode lets the caller fill a wire (through reflection, say) and reads a model: nothing refers to wire's fields, they
// are kept alive only by the conversion and the reads of model's fields.
func Decode(fill func(any)) (int, string, int) {
	var w wire
	fill(&w)
	m := model(w)
	return m.id, m.name, len(m.tags)
}

type dto struct {
	a, b int
}

type entity struct {
	a, b int
}

// Alias converts a pointer to a struct; dto's fields are never referred to.
func Alias(x, y int) int {
	d := new(dto)
	e := (*entity)(d)
	e.a = x
	return e.a + e.b + y
}

type lonelyTwin struct {
	a, b int
}
