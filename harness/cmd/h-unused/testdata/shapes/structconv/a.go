// Package structconv: conversions between struct types with identical underlying types (5.1): fields of the one struct
// are only read, fields of the other only written (through the literal); conversions through pointers.
package structconv

type wire struct {
	id   int
	name string
	tags []string
}

type model struct {
	id   int
	name string
	tags []string
}

// Decode fills a wire and reads a model.
func Decode(id int, name string) (int, string, int) {
	w := wire{id: id, name: name, tags: nil}
	m := model(w)
	return m.id, m.name, len(m.tags)
}

type dto struct {
	a, b int
}

type entity struct {
	a, b int
}

// Alias converts a pointer to a struct.
func Alias(x, y int) int {
	d := &dto{x, y}
	e := (*entity)(d)
	return e.a + e.b
}

type lonelyTwin struct {
	a, b int
}
