package structconv

type pointXY struct {
	x, y int
}

type pointAlt struct {
	x, y int
}

type pointThird struct {
	x, y int
}

func origin() pointXY { return pointXY{} }

// Chain converts through three identical struct types; only the last one's fields are read.
func Chain() int {
	p := pointThird(pointAlt(origin()))
	return p.x - p.y
}

type tagged struct {
	v int `k:"a"`
}

type untagged struct {
	v int
}

// Strip relies on tags being ignored in conversions.
func Strip(n int) int {
	t := tagged{v: n}
	return untagged(t).v
}

func unusedConv(p pointAlt) pointThird { return pointThird(p) }
