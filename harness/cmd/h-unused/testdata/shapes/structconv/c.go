package structconv

type inner struct {
	n int
}

type outerA struct {
	inner
	flag bool
}

type outerB struct {
	inner
	flag bool
}

// Embedded converts between structs with embedded fields and selects through the embedded field of the target only.
func Embedded(n int) (int, bool) {
	var a outerA
	a.n = n
	b := outerB(a)
	return b.inner.n, b.flag
}

type generic[T any] struct {
	val T
}

type genericTwin[T any] struct {
	val T
}

// Generic converts between instantiated generic structs.
func Generic(n int) int {
	g := generic[int]{val: n}
	return genericTwin[int](g).val
}

var unusedOuter outerA
