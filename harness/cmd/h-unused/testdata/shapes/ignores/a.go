// Package ignores: lint:ignore and lint:file-ignore directives for U1000 mark objects (and the fields and methods of
// types) as used.
package ignores

//lint:ignore U1000 kept for the debugger
func debugDump() string { return "dump" }

//lint:ignore U1000 kept for symmetry
type kept struct {
	a, b int
}

func (kept) method() {}

func dropped() string { return "dropped" }

// Touch is the API.
func Touch() {}
