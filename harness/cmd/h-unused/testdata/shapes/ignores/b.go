package ignores

//lint:file-ignore U1000 this file is a parking lot

func parked() {}

type parkedType struct {
	n int
}

var parkedVar parkedType
