// Package aliases: alias declarations inside one package: alias used instead of the aliased type, alias embedded as a
// field, alias of an instantiated generic, alias chains, alias declared locally.
package aliases

type celsius float64

type temp = celsius

func (c celsius) fahrenheit() float64 { return float64(c)*9/5 + 32 }

// Convert only ever names the alias.
func Convert(x float64) float64 {
	var t temp = temp(x)
	return t.fahrenheit()
}

type record struct {
	key string
	val int
}

type row = record

type line = row

// Rows names the aliased type through a chain of aliases.
func Rows() []line {
	return []line{{key: "a", val: 1}}
}

// Key reads the fields.
func Key(l line) (string, int) { return l.key, l.val }

type unusedAlias = record

type hidden struct{ n int }

type unusedHiddenAlias = hidden
