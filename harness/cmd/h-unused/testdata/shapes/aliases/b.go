package aliases

type base struct {
	id int
}

func (b base) ident() int { return b.id }

type baseAlias = base

// derived embeds the alias: the field is named baseAlias.
type derived struct {
	baseAlias
	extra string
}

type identer interface {
	ident() int
}

// Ident converts derived; the method is promoted through the alias-named field.
func Ident(id int) int {
	var d derived
	d.extra = "e"
	var i identer = d
	return i.ident() + id
}

type list[T any] struct {
	xs []T
}

type intList = list[int]

func (l *list[T]) add(x T) { l.xs = append(l.xs, x) }

// Ints uses the generic type only through its instantiated alias.
func Ints(n int) int {
	var l intList
	l.add(n)
	return len(l.xs)
}

// Local declares an alias locally.
func Local(n int) int {
	type point struct{ x, y int }
	type pt = point
	p := pt{x: n, y: n}
	return p.x + p.y
}

type stringList = list[string]
