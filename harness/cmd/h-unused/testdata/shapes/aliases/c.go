package aliases

import "fmt"

type errAlias = error

type failure struct {
	code int
}

func (f *failure) Error() string { return fmt.Sprint("failure ", f.code) }

// Fail returns *failure as the aliased built-in interface.
func Fail(code int) errAlias {
	if code == 0 {
		return nil
	}
	return &failure{code: code}
}

type handler = func(int) errAlias

var table = map[string]handler{
	"fail": Fail,
}

// Dispatch looks the handler up.
func Dispatch(name string, code int) error {
	if h, ok := table[name]; ok {
		return h(code)
	}
	return nil
}

type unusedHandler = func(string) errAlias

func unusedDispatch(h handler) errAlias { return h(0) }
