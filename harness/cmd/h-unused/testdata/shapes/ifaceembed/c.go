package ifaceembed

import (
	"io"

	"ex.test/shapes/lib"
)

// rw embeds interfaces of other packages next to an own unexported method.
type rw interface {
	io.Reader
	lib.Visitor
	reset()
}

type stream struct {
	data []byte
	off  int
}

func (s *stream) Read(p []byte) (int, error) {
	n := copy(p, s.data[s.off:])
	s.off += n
	if n == 0 {
		return 0, io.EOF
	}
	return n, nil
}

func (s *stream) Visit(n int) bool { return n < len(s.data) }

func (s *stream) reset() { s.off = 0 }

// Open returns the stream through an anonymous interface that embeds rw.
func Open(data []byte) interface {
	rw
	io.Closer
} {
	return &closing{stream: stream{data: data}}
}

type closing struct {
	stream
	closed bool
}

func (c *closing) Close() error {
	c.closed = true
	c.reset()
	return nil
}

type unusedIface interface {
	rw
	extra()
}
