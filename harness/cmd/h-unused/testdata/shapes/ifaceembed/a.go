// Package ifaceembed: interfaces embedding interfaces (8.4), chains C -> B -> A, sum types with an unexported marker
// method that is never called (8.3), interfaces only mentioned in other interfaces.
package ifaceembed

type a interface {
	alpha() int
}

type b interface {
	a
	beta() int
}

type c interface {
	b
	gamma() int
}

type impl struct {
	x, y, z int
}

func (i impl) alpha() int { return i.x }
func (i impl) beta() int  { return i.y }
func (i impl) gamma() int { return i.z }

// Sum only ever calls through c; a and b are used because c embeds them.
func Sum(x, y, z int) int {
	var v c = impl{x, y, z}
	return v.alpha() + v.beta() + v.gamma()
}

type d interface {
	delta()
}

type e interface {
	d
	epsilon()
}
