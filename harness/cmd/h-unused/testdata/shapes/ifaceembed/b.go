package ifaceembed

// node is a sum type: the marker method must exist on every variant but is never called.
type node interface {
	isNode()
}

type leaf struct {
	val int
}

type branch struct {
	l, r node
}

func (leaf) isNode()    {}
func (*branch) isNode() {}

// Eval walks the tree with a type switch.
func Eval(n node) int {
	switch n := n.(type) {
	case leaf:
		return n.val
	case *branch:
		return Eval(n.l) + Eval(n.r)
	}
	return 0
}

// Leaf and Branch are the exported constructors.
func Leaf(v int) node       { return leaf{val: v} }
func Branch(l, r node) node { return &branch{l: l, r: r} }

type stray struct{}

func (stray) isStray() {}
