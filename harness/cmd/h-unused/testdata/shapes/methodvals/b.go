package methodvals

type op func(counter) int

var ops = map[string]op{
	"double": counter.double,
}

type hooks struct {
	onDone func()
}

// Finish stores a bound method in a struct field and runs it through the field.
func Finish(c *counter) int {
	h := hooks{onDone: c.reset}
	defer h.onDone()
	return ops["double"](*c)
}

type formatter interface {
	format(int) string
}

type plain struct{}

func (plain) format(n int) string { return string(rune('0' + n%10)) }

// Formatter returns the interface method as a method value; plain.format is reached only dynamically.
func Formatter() func(int) string {
	var f formatter = plain{}
	return f.format
}

type fancy struct{}

func (fancy) decorate(s string) string { return "*" + s + "*" }

var unusedOp op
