// Package methodvals: method values, method expressions, bound methods stored in variables, struct fields, maps and
// passed as callbacks (4.3); the methods are never called by name.
package methodvals

type counter struct {
	n int
}

func (c *counter) inc()         { c.n++ }
func (c *counter) add(d int)    { c.n += d }
func (c counter) value() int    { return c.n }
func (c counter) double() int   { return 2 * c.n }
func (c *counter) reset()       { c.n = 0 }
func (c counter) unusedM() bool { return c.n == 0 }

func times(n int, f func()) {
	for i := 0; i < n; i++ {
		f()
	}
}

// Run passes a bound method as a callback and reads through a method expression.
func Run(n int) int {
	var c counter
	times(n, c.inc)
	add := (*counter).add
	add(&c, 2)
	get := counter.value
	return get(c)
}
