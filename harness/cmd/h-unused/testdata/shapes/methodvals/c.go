package methodvals

import "sort"

type byLen []string

func (b byLen) Len() int           { return len(b) }
func (b byLen) Less(i, j int) bool { return len(b[i]) < len(b[j]) }
func (b byLen) Swap(i, j int)      { b[i], b[j] = b[j], b[i] }

// Sort converts to byLen only in a conversion expression.
func Sort(ss []string) { sort.Sort(byLen(ss)) }

type matrix struct {
	rows [][]int
}

func (m *matrix) at(i, j int) int { return m.rows[i][j] }

func (m *matrix) each(f func(i, j int) int) int {
	t := 0
	for i := range m.rows {
		for j := range m.rows[i] {
			t += f(i, j)
		}
	}
	return t
}

// Trace hands one method of a value to another method of the same value.
func Trace(rows [][]int) int {
	m := &matrix{rows: rows}
	return m.each(m.at)
}

func (m *matrix) transpose() {}
