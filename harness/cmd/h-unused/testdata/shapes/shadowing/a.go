// Package shadowing: local objects shadow package-level objects of the same name, so no identifier resolves to the
// package-level one; method, field and label names equal to package-level names.
package shadowing

func helper() int { return 1 }

func count() int { return 2 }

type item struct {
	count  int
	helper string
}

func (i item) total() int { return i.count }

// Use calls count(); helper is only a field name, a local variable and a label here.
func Use(n int) int {
	helper := n
helper2:
	for {
		if helper > 3 {
			break helper2
		}
		helper++
	}
	it := item{count: count(), helper: "h"}
	return it.total() + helper + len(it.helper)
}

var limit = 10

const size = 4

// Shadow declares locals named like the package-level variable and constant.
func Shadow(n int) int {
	limit := n * 2
	const size = 8
	return limit + size
}
