package shadowing

type token int

type kind int

// Kinds declares a local type named like a package-level one; the package-level kind is never referred to.
func Kinds(n int) int {
	type kind string
	k := kind("k")
	return len(k) + int(token(n))
}

type parser struct {
	token token
}

// next is a method named like a package-level function.
func (p *parser) next() token { return p.token }

func next() int { return 0 }

// Next uses the method only.
func Next() int { return int((&parser{}).next()) }

func param(limit int) int { return limit }

// Param passes through a parameter that shadows limit.
func Param(n int) int { return param(n) }
