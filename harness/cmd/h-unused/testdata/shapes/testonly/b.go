package testonly

type clock interface {
	now() int64
}

type fakeClock struct {
	t int64
}

func (f *fakeClock) now() int64 { return f.t }

type realClock struct{}

func (realClock) now() int64 { return 0 }

var theClock clock = realClock{}

// Now reads the clock.
func Now() int64 { return theClock.now() }
