// Package testonly: helpers that only the tests use (unused without tests, used in the test variant), helpers that the
// external test package reaches through an export_test.go bridge, sinks written by benchmarks (4.9).
package testonly

// Parse is the production entry point.
func Parse(s string) int { return len(normalise(s)) }

func normalise(s string) string { return s }

func fixture() string { return "fixture" }

func onlyBridge() int { return 7 }

var debugHook func(string)

func neverAnywhere() {}
