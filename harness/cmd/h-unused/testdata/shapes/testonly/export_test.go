package testonly

// OnlyBridge exposes onlyBridge to the external test package.
var OnlyBridge = onlyBridge

// SetDebugHook installs the hook.
func SetDebugHook(f func(string)) { debugHook = f }
