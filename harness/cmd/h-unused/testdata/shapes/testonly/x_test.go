package testonly_test

import (
	"testing"

	"ex.test/shapes/testonly"
)

func TestBridge(t *testing.T) {
	testonly.SetDebugHook(func(string) {})
	if testonly.OnlyBridge() != 7 {
		t.Fatal("bridge")
	}
	helper(t)
}

func helper(t *testing.T) { t.Helper() }

func unusedExternalHelper() {}
