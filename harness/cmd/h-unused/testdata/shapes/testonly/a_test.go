package testonly

import "testing"

var sink int

func TestParse(t *testing.T) {
	if Parse(fixture()) != 7 {
		t.Fatal("bad")
	}
	theClock = &fakeClock{t: 1}
	if Now() != 1 {
		t.Fatal("clock")
	}
}

func BenchmarkParse(b *testing.B) {
	for i := 0; i < b.N; i++ {
		sink = Parse("x")
	}
}

func unusedTestHelper() {}
