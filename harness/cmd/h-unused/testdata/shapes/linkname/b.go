package linkname

import _ "unsafe" // for go:linkname

type table struct {
	rows int
}

// growTable is pushed; it keeps the method grow alive, nothing else does.
//
//go:linkname growTable ex.test/shapes/linkname_consumer.growTable
func growTable(t *table) { t.grow() }

func (t *table) grow() { t.rows++ }

func (t *table) shrink() { t.rows-- }

// Rows is the exported reader.
func Rows(t *table) int { return t.rows }
