// Package linkname: symbols pushed to other packages via go:linkname are used (1.8).
package linkname

import _ "unsafe" // for go:linkname

//go:linkname pushed ex.test/shapes/linkname_consumer.pulled
func pushed(n int) int { return helperOfPushed(n) }

func helperOfPushed(n int) int { return n + 1 }

//go:linkname pushedVar ex.test/shapes/linkname_consumer.pulledVar
var pushedVar int

func notPushed(n int) int { return n - 1 }

var notPushedVar int

// Touch keeps the package non-trivial.
func Touch() int { return 0 }
