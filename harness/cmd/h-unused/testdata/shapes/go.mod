module ex.test/shapes

go 1.23
