package generics

import "ex.test/shapes/lib"

// ordered is used only as the constraint of a type parameter of a method-carrying generic type.
type ordered interface {
	~int | ~string
}

type tree[K ordered, V any] struct {
	root *treeNode[K, V]
}

type treeNode[K ordered, V any] struct {
	k    K
	v    V
	l, r *treeNode[K, V]
}

func (t *tree[K, V]) insert(k K, v V) {
	p := &t.root
	for *p != nil {
		if k < (*p).k {
			p = &(*p).l
		} else {
			p = &(*p).r
		}
	}
	*p = &treeNode[K, V]{k: k, v: v}
}

func (t *tree[K, V]) walk(f func(K, V)) {
	var rec func(n *treeNode[K, V])
	rec = func(n *treeNode[K, V]) {
		if n == nil {
			return
		}
		rec(n.l)
		f(n.k, n.v)
		rec(n.r)
	}
	rec(t.root)
}

// Sorted uses the tree and a generic helper of the sibling package.
func Sorted(xs []int) []string {
	var t tree[int, label]
	for _, x := range xs {
		t.insert(x, label{x})
	}
	var ls []label
	t.walk(func(_ int, l label) { ls = append(ls, l) })
	return lib.Map(ls, label.text)
}

type label struct{ n int }

func (l label) text() string { return string(rune('a' + l.n%26)) }

func (l label) upper() string { return string(rune('A' + l.n%26)) }

type scale[N lib.Number] struct {
	f N
}

func (s scale[N]) apply(x N) N { return s.f * x }

// Double instantiates scale with a type of the constraint's type set.
func Double(x float64) float64 { return scale[float64]{2}.apply(x) }
