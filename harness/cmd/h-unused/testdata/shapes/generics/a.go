// Package generics: generic types, constraints with type sets, type parameters and arguments (2.5, 2.6, 4.10, 12.1),
// instantiated generic interfaces (the info.Instances path of the known-interface set), methods of generic types.
package generics

type number interface {
	~int | ~int64 | myFloat
}

type myFloat float64

type myInt int

func sum[T number](xs ...T) T {
	var t T
	for _, x := range xs {
		t += x
	}
	return t
}

// SumInts instantiates sum with a named type that is used nowhere else.
func SumInts(xs ...int) int {
	ys := make([]myInt, len(xs))
	for i, x := range xs {
		ys[i] = myInt(x)
	}
	return int(sum(ys...))
}

type stack[T any] struct {
	items []T
}

func (s *stack[T]) push(x T) { s.items = append(s.items, x) }

func (s *stack[T]) pop() (T, bool) {
	var zero T
	if len(s.items) == 0 {
		return zero, false
	}
	x := s.items[len(s.items)-1]
	s.items = s.items[:len(s.items)-1]
	return x, true
}

func (s *stack[T]) peek() (T, bool) {
	var zero T
	if len(s.items) == 0 {
		return zero, false
	}
	return s.items[len(s.items)-1], true
}

type elem struct {
	id int
}

// Reverse uses stack[elem]: elem is a type argument only.
func Reverse(ids []int) []int {
	var s stack[elem]
	for _, id := range ids {
		s.push(elem{id})
	}
	var out []int
	for {
		e, ok := s.pop()
		if !ok {
			return out
		}
		out = append(out, e.id)
	}
}

type unusedConstraint interface {
	~string | ~[]byte
}

func unusedGeneric[T unusedConstraint](x T) int { return len(x) }
