package generics

// container is a generic interface with an unexported method; only its instantiation container[string] makes the
// method set of words relevant.
type container[T any] interface {
	get(i int) T
	count() int
}

type words struct {
	ws []string
}

func (w words) get(i int) string { return w.ws[i] }
func (w words) count() int       { return len(w.ws) }

func join[T any](c container[T], f func(T) string) string {
	s := ""
	for i := 0; i < c.count(); i++ {
		s += f(c.get(i))
	}
	return s
}

// Join converts words to container[string] in a call argument of a generic function.
func Join(ws ...string) string {
	return join[string](words{ws}, func(s string) string { return s })
}

type numbers struct {
	ns []int
}

func (n numbers) get(i int) int { return n.ns[i] }
func (n numbers) count() int    { return len(n.ns) }

var _ container[int] = numbers{}

type pair[K comparable, V any] struct {
	key K
	val V
}

type keyT string

type valT struct{ n int }

// Pairs mentions keyT and valT as type arguments of a composite literal only.
func Pairs() int {
	ps := []pair[keyT, valT]{{key: "a", val: valT{1}}}
	return len(ps) + ps[0].val.n + len(ps[0].key)
}

type lonelyPair[K comparable] struct {
	k K
}
