package tagsreflect

import "encoding/json"

type meta struct {
	Created int64 `json:"created"`
}

type metaHolder struct {
	meta
}

type document struct {
	metaHolder
	*extras
	title string
}

type extras struct {
	comment string
	inner   innerExtras
}

type innerExtras struct {
	Visible bool
}

// Encode encodes a document: metaHolder is kept by 6.5 through two levels; extras has no exported field directly
// (innerExtras is not embedded), so the embedded *extras is unused.
func Encode(title string) ([]byte, error) {
	d := document{title: title}
	return json.Marshal(d)
}

type deep1 struct{ deep2 }
type deep2 struct{ *deep3 }
type deep3 struct{ Leaf int }

// Deep returns a value with an exported field three levels down.
func Deep() any { return deep1{} }
