// Package tagsreflect: exported fields of unexported structs are used (6.2) - they are reached by reflection (encoding,
// struct tags); embedded structs with exported fields are used recursively (6.5); unexported fields are not.
package tagsreflect

import "encoding/json"

type config struct {
	Name    string `json:"name"`
	Port    int    `json:"port,omitempty"`
	secret  string
	Nested  nested `json:"nested"`
	private int
}

type nested struct {
	Level int `json:"level"`
	cache map[string]int
}

// Marshal encodes a config; no field is named in code except secret.
func Marshal(secret string) ([]byte, error) {
	c := config{}
	c.secret = secret
	return json.Marshal(c)
}

type orphanConfig struct {
	Name string `json:"name"`
	note string
}
