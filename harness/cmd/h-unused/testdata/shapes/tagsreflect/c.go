package tagsreflect

import (
	"reflect"
)

type itemName struct {
	Space, Local string
}

type item struct {
	XMLName itemName `xml:"item"`
	ID      int      `xml:"id,attr"`
	body    string
}

// Items returns values for the encoder and touches body so that it is used.
func Items(n int) []any {
	out := make([]any, 0, n)
	for i := 0; i < n; i++ {
		it := item{ID: i}
		it.body = "b"
		out = append(out, it)
	}
	return out
}

type visitor struct {
	Seen int
}

// Visit is an exported method of an unexported type, found by reflect.Value.MethodByName only (2.1).
func (v *visitor) Visit(n int) bool {
	v.Seen += n
	return true
}

func (v *visitor) skip(n int) bool { return n < 0 }

// Reflect looks the method up by name.
func Reflect() bool {
	return reflect.ValueOf(&visitor{}).MethodByName("Visit").IsValid()
}

type unusedVisitor struct {
	Seen int
}

func (u *unusedVisitor) Visit(n int) bool { return n > u.Seen }
