// Package retfuncs: functions that are only returned, stored, deferred, started as goroutines or passed along (4.2,
// 4.3, 4.4, 4.5): never called by name.
package retfuncs

func double(n int) int { return 2 * n }

func triple(n int) int { return 3 * n }

func square(n int) int { return n * n }

// Pick returns functions.
func Pick(name string) func(int) int {
	switch name {
	case "double":
		return double
	case "triple":
		return triple
	}
	return nil
}

var byName = map[string]func(int) int{"square": square}

// ByName looks a function up.
func ByName(name string) func(int) int { return byName[name] }

func cleanup() {}

func background(done chan<- struct{}) { close(done) }

// Run defers one function and starts another as a goroutine.
func Run() {
	defer cleanup()
	done := make(chan struct{})
	go background(done)
	<-done
}

func quadruple(n int) int { return double(double(n)) }
