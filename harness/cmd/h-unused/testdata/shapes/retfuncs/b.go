package retfuncs

type middleware func(handler) handler

type handler func(string) string

func logging(next handler) handler {
	return func(s string) string { return next("log:" + s) }
}

func tracing(next handler) handler {
	return func(s string) string { return next("trace:" + s) }
}

func metrics(next handler) handler { return next }

func chain(h handler, ms ...middleware) handler {
	for i := len(ms) - 1; i >= 0; i-- {
		h = ms[i](h)
	}
	return h
}

// Serve composes the middlewares, which are only mentioned as values.
func Serve(s string) string {
	h := chain(func(s string) string { return s }, logging, tracing)
	return h(s)
}

type visitorFn func(int) visitorFn

func counting(total *int) visitorFn {
	var self visitorFn
	self = func(n int) visitorFn {
		*total += n
		return self
	}
	return self
}

// Count uses a self-returning closure.
func Count(ns ...int) int {
	t := 0
	v := counting(&t)
	for _, n := range ns {
		v = v(n)
	}
	return t
}
