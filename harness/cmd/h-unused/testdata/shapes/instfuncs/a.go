// Package instfuncs: generic functions instantiated explicitly, implicitly, as values; generic methods' receivers with
// renamed and blank type parameters; generic types instantiated only inside other generic code.
package instfuncs

func apply[T, U any](x T, f func(T) U) U { return f(x) }

func ident[T any](x T) T { return x }

func zero[T any]() T {
	var z T
	return z
}

type token struct {
	s string
}

// Run instantiates explicitly, implicitly and as a function value.
func Run(s string) int {
	f := ident[token]
	t := apply(s, func(s string) token { return token{s} })
	return len(f(t).s) + zero[int]()
}

type box[T any] struct {
	v T
}

func (b box[U]) get() U { return b.v }

func (box[_]) kind() string { return "box" }

func (b *box[T]) set(v T) { b.v = v }

// Box uses get and kind.
func Box(n int) (int, string) {
	b := box[int]{v: n}
	return b.get(), b.kind()
}

func unusedApply[T any](x T) T { return ident(x) }
