package instfuncs

type option[T any] struct {
	val   T
	valid bool
}

func some[T any](v T) option[T] { return option[T]{val: v, valid: true} }

func none[T any]() option[T] { return option[T]{} }

func (o option[T]) orElse(d T) T {
	if o.valid {
		return o.val
	}
	return d
}

func first[T any](xs []T) option[T] {
	if len(xs) == 0 {
		return none[T]()
	}
	return some(xs[0])
}

// First instantiates option only inside generic code.
func First(xs []int) int { return first(xs).orElse(-1) }

type getter[T any] interface {
	get() T
}

func read[T any, G getter[T]](g G) T { return g.get() }

// Read uses box[string] through a type parameter constrained by a generic interface with an unexported method.
func Read(s string) string { return read[string](box[string]{v: s}) }

type unusedOption[T any] struct {
	val T
}

func (o unusedOption[T]) get() T { return o.val }
