// Package renamed: sibling packages imported under other names, one of them under the NAME of the other.
package renamed

import (
	lib "ex.test/shapes/a/util"
	util "ex.test/shapes/lib"
)

type region struct {
	w, h int
	tag  lib.Key
}

func (r region) Area() int    { return r.w * r.h }
func (r region) Name() string { return string(r.tag) }

// Area uses lib (really a/util) and util (really lib).
func Area(w, h int) int {
	return util.Total(region{w: w, h: h, tag: lib.Key("r")})
}

type local struct {
	t *lib.T
}

func (l local) n() int { return l.t.N }

// N builds a local.
func N(n int) int { return local{t: lib.New(n)}.n() }

type unusedRegion struct {
	tag lib.Key
}
