package renamed

import (
	other "ex.test/shapes/b/util"
	core "ex.test/shapes/lib"
)

type walker struct {
	limit int
	last  *other.T
}

func (w *walker) Visit(n int) bool {
	w.last = other.New("v")
	return n < w.limit
}

// Walk uses core.Walk with a local visitor.
func Walk(limit int) int { return core.Walk(&walker{limit: limit}, 10) }

var defaultBase = core.Default

// ID reads the copy of the foreign variable.
func ID() int { return defaultBase.ID }

var unusedBase core.Base

func unusedVersion() int { return core.Version }
