package renamed

import (
	"strings"

	third "ex.test/shapes/b/util"
)

// Everything in this file is unused: once it is deleted both imports are unused as well.

func unusedRepeat(t *third.T) string { return strings.Repeat(t.S, 2) }

type unusedHolder struct {
	t third.T
}
