// Package samename2: like samename, but the two interfaces live in two different files (file order decides which is
// seen first), are anonymous interface types in signatures, and one implementation satisfies them only through
// embedding.
package samename2

import (
	"ex.test/shapes/a/util"
)

// StoreA takes an anonymous interface mentioning a/util.T.
func StoreA(s interface{ put(util.T) bool }, n int) bool {
	return s.put(util.T{N: n})
}

type sinkA struct {
	got []util.T
}

func (s *sinkA) put(t util.T) bool {
	s.got = append(s.got, t)
	return true
}

// NewA is the exported constructor.
func NewA() *sinkA { return &sinkA{} }
