package samename2

type unusedSink struct {
	n int
}

func (u *unusedSink) put(n int) bool {
	u.n = n
	return true
}

var unusedDefault = 3
