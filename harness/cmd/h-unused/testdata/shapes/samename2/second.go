package samename2

import (
	"ex.test/shapes/b/util"
)

// StoreB takes an anonymous interface mentioning b/util.T.
func StoreB(s interface{ put(util.T) bool }, str string) bool {
	return s.put(util.T{S: str})
}

type sinkB struct {
	got []util.T
}

func (s *sinkB) put(t util.T) bool {
	s.got = append(s.got, t)
	return true
}

// Wrapped satisfies StoreB's interface only through the embedded *sinkB.
type Wrapped struct {
	*sinkB
	Name string
}

// NewB is the exported constructor.
func NewB() Wrapped { return Wrapped{sinkB: &sinkB{}} }
