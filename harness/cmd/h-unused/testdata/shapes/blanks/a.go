// Package blanks: objects named _ are used (9.9): blank fields, blank variables asserting interface satisfaction, blank
// functions, blank types, blank constants, blank parameters and receivers.
package blanks

import "io"

type flusher interface {
	flush() error
}

type file struct {
	_    [0]func() // not comparable
	name string
	_    int32
	size int64
}

func (f *file) flush() error { return nil }

func (f *file) Write(p []byte) (int, error) {
	f.size += int64(len(p))
	return len(p), nil
}

var _ flusher = (*file)(nil)

var _ io.Writer = (*file)(nil)

// Name reads one field.
func Name(f *file) string { return f.name }

// New is the exported constructor.
func New(name string) *file { return &file{name: name} }

type assertOnly struct{}

func (assertOnly) flush() error { return nil }

var _ flusher = assertOnly{}

type neverAsserted struct{}

func (neverAsserted) sync() error { return nil }
