package blanks

import (
	"fmt"
	_ "unsafe" // blank import
)

var source = func() string { return "src" }()

// Source returns the initialised variable.
func Source() string { return source }

type event struct {
	kind int
	_    struct{}
}

// Describe uses a keyed literal of a struct with a blank field.
func Describe(kind int) string {
	e := event{kind: kind}
	return fmt.Sprint(e.kind)
}

var _ fmt.Stringer = stringerOnly(0)

type stringerOnly int

func (stringerOnly) String() string { return "s" }

var unusedSource string
