package blanks

func _() {
	// compile-time assertion on a constant, reached only through the blank function
	var x [1]struct{}
	_ = x[chunk-64]
}

const chunk = 64

type _ struct {
	pad onlyInBlankType
}

type onlyInBlankType int

const _ = uint(limit - 1)

const limit = 8

var _, second = pair()

func pair() (int, int) { return 1, 2 }

func (*file) ignoreRecv(_ int, _ string) {}

// Touch calls a method with blank parameters.
func Touch(f *file) { f.ignoreRecv(0, "") }

var _ = registered()

func registered() bool { return true }

func unregistered() bool { return false }
