package typeswitch

type visitor interface {
	visitNum(num) int
	visitAdd(add) int
}

type expr interface {
	accept(visitor) int
}

type num struct{ v int }

type add struct{ l, r expr }

func (n num) accept(v visitor) int { return v.visitNum(n) }
func (a add) accept(v visitor) int { return v.visitAdd(a) }

type evaluator struct{}

func (e evaluator) visitNum(n num) int { return n.v }
func (e evaluator) visitAdd(a add) int { return a.l.accept(e) + a.r.accept(e) }

// Eval builds and evaluates.
func Eval(x, y int) int {
	var e expr = add{num{x}, num{y}}
	if a, ok := e.(add); ok {
		_ = a.l.(num)
	}
	return e.accept(evaluator{})
}

type printer struct{}

func (printer) visitNum(num) int { return 0 }
