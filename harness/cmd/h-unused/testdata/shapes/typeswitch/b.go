package typeswitch

type meters float64

type feet float64

type id uint32

type rawID = uint32

// Convert mentions meters and feet only as conversion targets.
func Convert(x float64) float64 {
	return float64(feet(meters(x) * 3.28))
}

// IDs mentions id only in make and in a conversion inside a loop.
func IDs(raw []rawID) int {
	ids := make([]id, 0, len(raw))
	for _, r := range raw {
		ids = append(ids, id(r))
	}
	return len(ids)
}

type node struct {
	next *node
	val  int
}

// Chain mentions node only through new.
func Chain(n int) int {
	head := new(node)
	cur := head
	for i := 0; i < n; i++ {
		cur.next = new(node)
		cur = cur.next
		cur.val = i
	}
	return head.val
}

type yards float64

func unusedConvert(y yards) meters { return meters(y) }
