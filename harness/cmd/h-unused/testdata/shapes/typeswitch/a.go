// Package typeswitch: types that appear only in type switches, type assertions, conversions and as operands of new/make
// (4.6, 9.4); comma-ok assertions; assertions to interfaces with unexported methods.
package typeswitch

import "errors"

type notFound struct {
	key string
}

func (e *notFound) Error() string { return "not found: " + e.key }

type timeout struct{}

func (timeout) Error() string   { return "timeout" }
func (timeout) temporary() bool { return true }

type temporary interface {
	temporary() bool
}

// Classify only mentions the error types in case clauses and assertions.
func Classify(err error) string {
	switch e := err.(type) {
	case *notFound:
		return e.key
	case timeout:
		return "t"
	}
	if t, ok := err.(temporary); ok && t.temporary() {
		return "temp"
	}
	var nf *notFound
	if errors.As(err, &nf) {
		return nf.key
	}
	return ""
}

// Fail produces the errors.
func Fail(key string) error {
	if key == "" {
		return timeout{}
	}
	return &notFound{key: key}
}

type fatal struct{}

func (fatal) Error() string { return "fatal" }
