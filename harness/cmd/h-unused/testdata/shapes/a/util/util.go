// Package util (a) is one of two sibling packages that share the package NAME util and the type names T and Key.
package util

// T is a.util's T.
type T struct{ N int }

// Key is a.util's key type.
type Key string

// New returns a T.
func New(n int) *T { return &T{N: n} }
