// Package localembed: function-local named struct types whose method sets come from embedded fields only
// (rules 6.3, 8.2 applied to types that are not package-level; 4.2, 4.10, 7.2).
package localembed

type shaper interface {
	area() int
}

type square struct {
	side int
}

func (s square) area() int { return s.side * s.side }

func total(s shaper) int { return s.area() }

// Compute declares a local struct that satisfies shaper only through the method promoted from the embedded
// field; nothing names the embedded field, the embedded type or the method outside their declarations.
func Compute(n int) int {
	type tagged struct {
		square
		tag string
	}
	var v tagged
	v.tag = "x"
	return total(v) + n
}

// genuinely unused
func leftover(n int) int { return n + 1 }

type orphan struct {
	weight int
}

func (o orphan) heavy() bool { return o.weight > 10 }
