package localembed

type sizer interface {
	size() int
}

type bag[T any] struct {
	items []T
}

func (b bag[T]) size() int { return len(b.items) }

func sizes(ss []sizer) int {
	n := 0
	for _, s := range ss {
		n += s.size()
	}
	return n
}

// Count declares the local type inside a generic function; the embedded field has a generic type and the
// conversion to the interface happens in a composite literal.
func Count[T any](xs ...T) int {
	type counted struct {
		bag[T]
		seen bool
	}
	var c counted
	c.seen = len(xs) > 0
	return sizes([]sizer{c, &c})
}

const lonely = 3
