package localembed

type namer interface {
	name() string
}

type label struct {
	text string
}

func (l *label) name() string { return l.text }

func show(n namer) string {
	if n == nil {
		return ""
	}
	return n.name()
}

// Render declares the local type inside a closure; the embedded field is a pointer and the conversion to the
// interface happens in a return statement.
func Render(parts []string) []string {
	wrap := func(p string) namer {
		type boxed struct {
			*label
			pad int
		}
		b := new(boxed)
		b.pad = len(p)
		return b
	}
	out := make([]string, 0, len(parts))
	for _, p := range parts {
		out = append(out, show(wrap(p)))
	}
	return out
}

var spare = 7
