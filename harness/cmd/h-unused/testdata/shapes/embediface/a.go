// Package embediface: structs that embed INTERFACES; the promoted interface methods help satisfy a larger interface
// (6.3 through an embedded field of interface type), overriding one method of the embedded interface (decorator).
package embediface

type store interface {
	get(k string) (string, bool)
	put(k, v string)
}

type mapStore struct {
	m map[string]string
}

func (s *mapStore) get(k string) (string, bool) {
	v, ok := s.m[k]
	return v, ok
}

func (s *mapStore) put(k, v string) { s.m[k] = v }

// counting decorates a store: put is overridden, get is promoted from the embedded interface.
type counting struct {
	store
	puts int
}

func (c *counting) put(k, v string) {
	c.puts++
	c.store.put(k, v)
}

func fill(s store, n int) {
	for i := 0; i < n; i++ {
		s.put("k", "v")
	}
	_, _ = s.get("k")
}

// Fill converts *counting to store in a call argument.
func Fill(n int) int {
	c := &counting{store: &mapStore{m: map[string]string{}}}
	fill(c, n)
	return c.puts
}

type nullStore struct{}

func (nullStore) get(string) (string, bool) { return "", false }
