package embediface

type reader interface {
	read() byte
}

type peeker interface {
	reader
	peek() byte
}

type source struct {
	data []byte
	pos  int
}

func (s *source) read() byte {
	b := s.data[s.pos]
	s.pos++
	return b
}

// buffered embeds the small interface and adds the missing method of the large one.
type buffered struct {
	reader
	ahead []byte
}

func (b *buffered) peek() byte {
	if len(b.ahead) == 0 {
		b.ahead = append(b.ahead, b.reader.read())
	}
	return b.ahead[0]
}

// Peek converts *buffered to peeker in a variable declaration; read is never called on it.
func Peek(data []byte) byte {
	var p peeker = &buffered{reader: &source{data: data}}
	return p.peek()
}

// limited is declared locally and embeds the interface one level further down.
func Limited(data []byte) byte {
	type limited struct {
		*buffered
		max int
	}
	l := limited{max: 1}
	var p peeker = l
	_ = p
	return byte(l.max)
}

type unusedPeeker struct {
	peeker
}
