// Package samename: two imported packages share the package NAME util and the type name T. Interfaces whose method
// signatures differ only in that type are different interfaces; a method implements exactly one of them (8.2).
// Both interfaces are declared in ONE file, the implementations in another.
package samename

import (
	a "ex.test/shapes/a/util"
	b "ex.test/shapes/b/util"
)

type handlerA interface {
	handle(*a.T) int
}

type handlerB interface {
	handle(*b.T) int
}

// ServeA calls through handlerA.
func ServeA(h handlerA, n int) int { return h.handle(a.New(n)) }

// ServeB calls through handlerB.
func ServeB(h handlerB, s string) int { return h.handle(b.New(s)) }
