package samename

import (
	autil "ex.test/shapes/a/util"
	butil "ex.test/shapes/b/util"
)

// ImplA implements only handlerA, ImplB only handlerB; both are exported, their methods are not.
type ImplA struct{}

func (ImplA) handle(t *autil.T) int { return t.N }

type ImplB struct{}

func (ImplB) handle(t *butil.T) int { return len(t.S) }

// ImplNone has a method of the same name that implements neither interface.
type ImplNone struct{}

func (ImplNone) handle(n int) int { return n }
