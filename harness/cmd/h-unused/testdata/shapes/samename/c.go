package samename

import (
	"ex.test/shapes/a/util"
)

type keyed interface {
	lookup(util.Key) bool
}

type table struct {
	m map[util.Key]bool
}

func (t table) lookup(k util.Key) bool { return t.m[k] }

// Has converts table to keyed.
func Has(k string) bool {
	var kd keyed = table{m: map[util.Key]bool{}}
	return kd.lookup(util.Key(k))
}

func unusedLookup(t table) int { return len(t.m) }
