// Package generated: objects in generated files are used (1.9), also when nothing refers to them, and they keep
// hand-written objects alive.
package generated

func handwritten() int { return 1 }

func handUnused() int { return genConst }

type handType struct {
	n int
}

// Use is the hand-written API.
func Use() int { return handType{n: 1}.n }
