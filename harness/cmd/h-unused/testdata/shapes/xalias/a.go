// Package xalias: aliases of types of other packages (also of the two packages named util), embedded aliases of
// foreign types, alias used as map key and in signatures.
package xalias

import (
	autil "ex.test/shapes/a/util"
	butil "ex.test/shapes/b/util"
	"ex.test/shapes/lib"
)

type aT = autil.T

type bT = butil.T

type shape = lib.Shape

// Both names the two same-named foreign types through local aliases.
func Both(n int, s string) (aT, bT) {
	return aT{N: n}, bT{S: s}
}

type rect struct {
	w, h int
}

func (r rect) Area() int    { return r.w * r.h }
func (r rect) Name() string { return "rect" }

// Shapes converts rect to the aliased foreign interface inside a composite literal.
func Shapes(w, h int) []shape {
	return []shape{rect{w, h}}
}

type unusedKey = autil.Key

type circle struct {
	r int
}

func (c circle) Area() int    { return 3 * c.r * c.r }
func (c circle) Name() string { return "circle" }
