package xalias

import "ex.test/shapes/lib"

type base = lib.Base

// widget embeds the alias of a foreign struct: the field is named base (unexported) although lib.Base has an exported
// field and exported methods (6.4, 6.5 keep the field alive).
type widget struct {
	base
	label string
}

// Widget returns a widget whose promoted exported members are reachable by reflection only.
func Widget(label string) any {
	return widget{label: label}
}

// Label reads the own field.
func Label(w any) string {
	if w, ok := w.(widget); ok {
		return w.label
	}
	return ""
}

type gadget struct {
	base
	knobs int
}
