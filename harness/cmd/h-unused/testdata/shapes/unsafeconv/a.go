// Package unsafeconv: conversions to and from unsafe.Pointer use all fields recursively (5.2), also through arrays;
// structs.HostLayout (6.6).
package unsafeconv

import (
	"structs"
	"unsafe"
)

type header struct {
	magic uint32
	size  uint32
	body  payload
}

type payload struct {
	kind  uint8
	flags uint8
	parts [2]part
}

type part struct {
	off, len uint16
}

// Size converts a *header to unsafe.Pointer: every field, nested field and array element field is relevant.
func Size(raw []byte) uintptr {
	var h header
	p := unsafe.Pointer(&h)
	_ = raw
	return uintptr(p) - uintptr(p) + unsafe.Sizeof(h)
}

type frame struct {
	seq  uint32
	ack  uint32
	data [8]byte
}

// Parse converts from unsafe.Pointer to a struct pointer.
func Parse(raw *[16]byte) uint32 {
	f := (*frame)(unsafe.Pointer(raw))
	return f.seq
}

type cstruct struct {
	_    structs.HostLayout
	a    int32
	b    int32
	next *cstruct
}

// Zero returns a value whose layout matters to a foreign caller.
func Zero() any { return cstruct{} }

type loose struct {
	a int32
	b int32
}

func unusedLoose() loose { return loose{} }
