package unsafeconv

import "unsafe"

type pixel struct {
	r, g, b, a uint8
}

type image struct {
	w, h int
	px   []pixel
}

// Bytes reinterprets the pixel slice; only pixel's address is converted, image's fields are used normally.
func Bytes(im *image) []byte {
	if len(im.px) == 0 || im.w*im.h == 0 {
		return nil
	}
	return unsafe.Slice((*byte)(unsafe.Pointer(&im.px[0])), len(im.px)*4)
}

// NewImage is the exported constructor.
func NewImage(w, h int) *image { return &image{w: w, h: h, px: make([]pixel, w*h)} }

type voxel struct {
	x, y, z uint8
}

var unusedVoxels []voxel
