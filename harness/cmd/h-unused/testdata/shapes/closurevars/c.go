package closurevars

type state struct {
	count int
	onHit func(int)
}

var global state

func init() {
	global.onHit = func(n int) { global.count += n + bonus }
}

var bonus = 2

// Hit calls the stored closure.
func Hit(n int) int {
	global.onHit(n)
	return global.count
}

var lazy = func() func() int {
	cache := 0
	return func() int {
		if cache == 0 {
			cache = compute()
		}
		return cache
	}
}()

func compute() int { return 42 }

// Lazy calls the closure returned by a closure.
func Lazy() int { return lazy() }

func unusedCompute() int { return compute() + 1 }
