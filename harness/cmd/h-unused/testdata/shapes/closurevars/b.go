package closurevars

var seed = 17

var derived = seed * 2

var table = func() []int {
	t := make([]int, derived)
	for i := range t {
		t[i] = i * factor
	}
	return t
}()

const factor = 3

// At reads the table, which is initialised by a closure that reads derived, which reads seed.
func At(i int) int { return table[i] }

func worker(ch chan<- int, n int) { ch <- n + offset }

var offset = 1

// Spawn starts workers in go statements inside a closure.
func Spawn(n int) <-chan int {
	ch := make(chan int, n)
	start := func(i int) { go worker(ch, i) }
	for i := 0; i < n; i++ {
		start(i)
	}
	return ch
}

var orphanSeed = 5

var orphanDerived = orphanSeed + 1
