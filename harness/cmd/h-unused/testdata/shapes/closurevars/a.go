// Package closurevars: package-level variables and functions referenced only inside closures, deferred and go
// statements; write-only variables (9.7); variables whose only read is in an initializer of another used variable.
package closurevars

import "sync"

var (
	mu      sync.Mutex
	hits    int
	misses  int
	written int
)

func bump() { hits++ }

// Track reads hits only inside a deferred closure; misses and written are only written.
func Track(f func()) (n int) {
	mu.Lock()
	defer func() {
		n = hits
		mu.Unlock()
	}()
	bump()
	misses++
	written = 5
	f()
	return 0
}

var registry = map[string]func() int{
	"hits": func() int { return hits },
}

// Lookup goes through the registry.
func Lookup(name string) int { return registry[name]() }

var unusedRegistry = map[string]func() int{
	"misses": func() int { return misses },
}
