// Package stmts: every statement kind carries references: select clauses (send, receive, assignment), labeled
// statements, switch/if initialisers, range over channels and functions' results, inc/dec, goto.
package stmts

var (
	inbox   = make(chan msg, 1)
	outbox  = make(chan msg, 1)
	quit    = make(chan struct{})
	lastMsg msg
	pending msg
	dropped int
)

type msg struct {
	id int
}

func next() msg { return msg{id: 1} }

// Pump reads inbox and quit, sends the result of next() to outbox, assigns to lastMsg in a comm clause.
func Pump() int {
	for {
		select {
		case m := <-inbox:
			pending = m
		case lastMsg = <-inbox:
		case outbox <- next():
		case <-quit:
			return pending.id
		default:
			dropped++
		}
	}
}

var idle chan msg

func unusedPump() {
	select {
	case <-idle:
	default:
	}
}
