package stmts

func lookup(k string) (int, bool) { return len(k), k != "" }

func weight(k string) int { return len(k) }

func keys() []string { return nil }

var total int

var retries = 3

// Walk uses functions in if/switch initialisers, a range expression, a labeled loop, inc/dec and goto.
func Walk() int {
	n := 0
outer:
	for _, k := range keys() {
		if v, ok := lookup(k); ok {
			n += v
			continue outer
		}
		switch w := weight(k); {
		case w > 3:
			break outer
		}
	}
again:
	retries--
	total++
	if retries > 0 {
		goto again
	}
	return n
}

func unusedLookup(k string) bool {
	_, ok := lookup(k)
	return ok
}
