// Package util (b) is one of two sibling packages that share the package NAME util and the type names T and Key.
package util

// T is b.util's T; it is not identical to a.util's T.
type T struct{ S string }

// Key is b.util's key type.
type Key int

// New returns a T.
func New(s string) *T { return &T{S: s} }
