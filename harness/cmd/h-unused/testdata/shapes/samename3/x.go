// Package samename3: the same-named foreign types appear as results, in generic instantiations and as embedded
// interface elements; three files, each with one interface.
package samename3

import (
	u "ex.test/shapes/a/util"
)

type makerA interface {
	make() *u.T
	keys() []u.Key
}

// UseA converts factoryA.
func UseA() int {
	var m makerA = factoryA{}
	return m.make().N + len(m.keys())
}

type factoryA struct{}

func (factoryA) make() *u.T    { return u.New(1) }
func (factoryA) keys() []u.Key { return nil }
