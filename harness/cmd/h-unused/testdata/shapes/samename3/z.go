package samename3

import (
	au "ex.test/shapes/a/util"
	bu "ex.test/shapes/b/util"
)

type boxA interface {
	unbox() map[au.Key]au.T
}

type boxB interface {
	unbox() map[bu.Key]bu.T
}

// Exported concrete types whose unexported methods implement exactly one of the two.
type BoxA struct{}

func (BoxA) unbox() map[au.Key]au.T { return nil }

type BoxB struct{}

func (BoxB) unbox() map[bu.Key]bu.T { return nil }

// Unbox calls through both.
func Unbox(x boxA, y boxB) int { return len(x.unbox()) + len(y.unbox()) }

type unusedBox struct{}

func (unusedBox) unbox() int { return 0 }
