package samename3

import (
	u "ex.test/shapes/b/util"
)

type makerB interface {
	make() *u.T
	keys() []u.Key
}

// UseB converts factoryB.
func UseB() int {
	var m makerB = factoryB{}
	return len(m.make().S) + len(m.keys())
}

type factoryB struct{}

func (factoryB) make() *u.T    { return u.New("x") }
func (factoryB) keys() []u.Key { return nil }
