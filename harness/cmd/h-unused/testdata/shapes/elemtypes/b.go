package elemtypes

type matrix [][]cell

type cell struct {
	v  value
	fn *formula
}

type value float64

type formula struct {
	src  string
	deps []*cell
}

// Eval walks a matrix; formula is reached through a pointer field only.
func Eval(m matrix) float64 {
	t := 0.0
	for _, row := range m {
		for _, c := range row {
			if c.fn != nil {
				t += float64(len(c.fn.deps) + len(c.fn.src))
			}
			t += float64(c.v)
		}
	}
	return t
}

type opt func(*settings)

type settings struct {
	depth int
}

// With returns an option; settings is reached through the signature of opt.
func With(d int) opt { return func(s *settings) { s.depth = d } }

type unusedOpt func(*unusedSettings)

type unusedSettings struct{ n int }
