// Package elemtypes: types use their underlying and element types (9.3): slices, arrays with named constant lengths,
// maps, channels, pointers, function signatures, nested combinations; the element types are named nowhere else.
package elemtypes

type id int

type name string

type idList []id

type byName map[name]idList

type event struct {
	at int64
}

type events chan *event

type handler func(event) result

type result struct {
	ok bool
}

const slots = 4

type ring [slots]*event

type registry struct {
	ids      byName
	queue    events
	handlers []handler
	recent   ring
}

// NewRegistry mentions only registry.
func NewRegistry() *registry {
	return &registry{ids: byName{}, queue: make(events, 1)}
}

// Len reads the remaining fields.
func (r *registry) Len() int { return len(r.handlers) + len(r.recent) }

type unusedList []unusedElem

type unusedElem struct{ n int }
