package promote2

import "fmt"

type stamp struct {
	at int64
}

// String is exported and promoted two levels up (6.4 recursively).
func (s stamp) String() string { return fmt.Sprint(s.at) }

type envelope struct {
	stamp
}

type parcel struct {
	*envelope
	weight int
}

// Ship hands a parcel to fmt; only reflection finds String.
func Ship(w int) string {
	p := parcel{weight: w}
	return fmt.Sprintf("%v/%d", p, p.weight)
}

type crate struct {
	parcel
	sealedBy string
}
