// Package promote2: interface satisfaction through methods promoted over TWO levels of embedding; value/value,
// value/pointer, pointer/value, pointer/pointer; conversions in return statements and call arguments (6.3 recursively).
package promote2

type ticker interface {
	tick() int
}

type core struct {
	n int
}

func (c *core) tick() int {
	c.n++
	return c.n
}

type shellVV struct {
	innerV
}

type innerV struct {
	core
}

type shellVP struct {
	innerP
}

type innerP struct {
	*core
}

type shellPV struct {
	*innerV
}

type shellPP struct {
	*innerP
}

// All returns every combination; shellVV and shellPV need addressable receivers for the pointer method.
func All() []ticker {
	return []ticker{&shellVV{}, shellVP{}, &shellVP{}, shellPV{}, &shellPV{}, shellPP{}, &shellPP{}}
}

// First converts in a return statement.
func First() ticker {
	return &shellVV{}
}

type shellNone struct {
	innerNone
}

type innerNone struct {
	core2
}

type core2 struct{ m int }

func (c core2) tock() int { return c.m }
