package promote2

type pinger interface {
	ping() bool
	pong() bool
}

type halfA struct{ a bool }

func (h halfA) ping() bool { return h.a }

type halfB struct{ b bool }

func (h *halfB) pong() bool { return h.b }

type levelA struct {
	halfA
}

type levelB struct {
	*halfB
}

// both collects the two halves of pinger from two different embedding paths of depth two.
type both struct {
	levelA
	levelB
	note string
}

func volley(p pinger) bool { return p.ping() && p.pong() }

// Play converts both in a call argument.
func Play(note string) bool {
	b := both{note: note}
	return volley(b)
}

// shadow: the outer method wins over the deeper one; deep.ping is never selected for pinger.
type deep struct{}

func (deep) ping() bool { return false }

type shadowMid struct {
	deep
}

type shadow struct {
	shadowMid
	*halfB
}

func (shadow) ping() bool { return true }

// PlayShadow converts shadow.
func PlayShadow() bool { return volley(shadow{}) }

func unusedVolley(p pinger) bool { return !volley(p) }
