// h-layout evaluates the real go/gcsizes API (property C19) in bulk.
//
// It parses and type-checks one generated Go source file (the same file the real compiler and
// the real structlayout binary are given), and for every declared struct type named T<idx>
// prints one JSON line with what honnef.co/go/tools/go/gcsizes reports:
//
//	{"idx":N,"size":..,"align":..,"offs":[..],"fsz":[..],"fal":[..],
//	 "std":{"size":..,"align":..,"offs":[..],"fsz":[..],"fal":[..]}}
//
// "std" is go/types' own gc sizes (types.SizesFor("gc", GOARCH)), a second, independent
// statement of the compiler's rule that the check uses to validate the specification on all
// cases (the compiled program validates it on a sample).
//
// usage: h-layout -src types.go
package main

import (
	"bufio"
	"encoding/json"
	"flag"
	"fmt"
	"go/ast"
	"go/build"
	"go/parser"
	"go/token"
	"go/types"
	"os"
	"sort"
	"strconv"
	"strings"

	"honnef.co/go/tools/go/gcsizes"
)

type res struct {
	Size  int64   `json:"size"`
	Align int64   `json:"align"`
	Offs  []int64 `json:"offs"`
	Fsz   []int64 `json:"fsz"`
	Fal   []int64 `json:"fal"`
}

func measure(s types.Sizes, T types.Type) res {
	st := T.Underlying().(*types.Struct)
	var fields []*types.Var
	for i := 0; i < st.NumFields(); i++ {
		fields = append(fields, st.Field(i))
	}
	r := res{Size: s.Sizeof(T), Align: s.Alignof(T), Offs: []int64{}, Fsz: []int64{}, Fal: []int64{}}
	if len(fields) > 0 {
		r.Offs = s.Offsetsof(fields)
	}
	for _, f := range fields {
		r.Fsz = append(r.Fsz, s.Sizeof(f.Type()))
		r.Fal = append(r.Fal, s.Alignof(f.Type()))
	}
	return r
}

func main() {
	src := flag.String("src", "", "generated Go source file")
	flag.Parse()
	fset := token.NewFileSet()
	f, err := parser.ParseFile(fset, *src, nil, 0)
	if err != nil {
		fmt.Fprintln(os.Stderr, "parse:", err)
		os.Exit(3)
	}
	conf := types.Config{}
	pkg, err := conf.Check("ex.test/l", fset, []*ast.File{f}, nil)
	if err != nil {
		fmt.Fprintln(os.Stderr, "typecheck:", err)
		os.Exit(3)
	}
	real := gcsizes.ForArch(build.Default.GOARCH)
	std := types.SizesFor("gc", build.Default.GOARCH)
	if std == nil {
		fmt.Fprintln(os.Stderr, "no std sizes for", build.Default.GOARCH)
		os.Exit(3)
	}
	var idxs []int
	for _, name := range pkg.Scope().Names() {
		if strings.HasPrefix(name, "T") {
			if n, err := strconv.Atoi(name[1:]); err == nil {
				idxs = append(idxs, n)
			}
		}
	}
	sort.Ints(idxs)
	w := bufio.NewWriter(os.Stdout)
	defer w.Flush()
	enc := json.NewEncoder(w)
	for _, n := range idxs {
		T := pkg.Scope().Lookup("T" + strconv.Itoa(n)).Type()
		if _, ok := T.Underlying().(*types.Struct); !ok {
			continue
		}
		r := measure(real, T)
		s := measure(std, T)
		enc.Encode(struct {
			Idx int `json:"idx"`
			res
			Std res `json:"std"`
		}{n, r, s})
	}
}
