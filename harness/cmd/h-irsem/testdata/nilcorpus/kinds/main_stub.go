//go:build !drv

package main

func main() {}
