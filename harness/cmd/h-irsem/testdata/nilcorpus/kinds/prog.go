package main

// Hand-written C15 shapes that the directed family (gennil_dir.go) does not produce: values of one transfer rule
// merged with definite nilness in ways real code does it (early returns, accumulation in loops, copies of
// structs, several phis fed by the same operand) and method values.

type T struct {
	f *int
	n int
}

type I interface{ M() }

func (*T) M() {}

type S struct {
	p *int
	i I
	m map[string]*T
}

var g int
var gp *int

func fresh() *int { return new(int) }

// ---- comma-ok map lookups: a hit may be a nil entry -------------------------------------------------------
func Lookup(m map[string]*T, k string) *T {
	if v, ok := m[k]; ok {
		return v
	}
	return &T{}
}

func LookupOrNil(m map[string]*T, k string) *T {
	if v, ok := m[k]; ok {
		return v
	}
	return nil
}

func LookupI(m map[int]I, k int) I {
	v, ok := m[k]
	if !ok {
		return &T{}
	}
	return v
}

func LookupMiss(m map[int]*int, k int) *int {
	v, ok := m[k]
	if !ok {
		return v // the zero value
	}
	return new(int)
}

func LookupField(s *S, k string) *T {
	r := &T{}
	if s != nil {
		if v, ok := s.m[k]; ok {
			r = v
		}
	}
	return r
}

func LookupTwice(m map[int]*int) (*int, *int) {
	a, ok := m[0]
	b := m[1]
	if ok {
		return a, b
	}
	return new(int), nil
}

// ---- the address of a package-level variable / a function value as operand of several phis ----------------
func GlobTwoPhis(c, d bool) *int {
	a := &g
	if c {
		a = nil
	}
	_ = a
	var b *int
	if d {
		b = &g
	}
	return b
}

func FuncTwoPhis(c, d bool) func() *int {
	a := fresh
	if c {
		a = nil
	}
	_ = a
	var b func() *int
	if d {
		b = fresh
	}
	return b
}

func GlobPair(c bool) (*int, *int) {
	a, b := &g, &g
	if c {
		a, b = new(int), nil
	}
	return a, b
}

func GlobAfterLoad(c bool) **int {
	if c {
		_ = *gp
		return nil
	}
	q := new(int)
	_ = q
	return &gp
}

// ---- accumulation in loops --------------------------------------------------------------------------------
func LastOf(m map[int]*int) *int {
	var r *int
	for _, v := range m {
		r = v
	}
	return r
}

func LastOfOr(m map[int]*int) *int {
	r := new(int)
	for _, v := range m {
		r = v
	}
	return r
}

func FirstNonNil(s []*int) *int {
	for _, v := range s {
		if v != nil {
			return v
		}
	}
	return nil
}

func FirstOr(s []*int) *int {
	for _, v := range s {
		return v
	}
	return new(int)
}

func KeyOf(m map[*T]int) *T {
	for k := range m {
		return k
	}
	return &T{}
}

func Chain(t *T, n int) *int {
	p := new(int)
	for i := 0; i < n; i++ {
		p = t.f
	}
	return p
}

// ---- copies of structs / arrays ---------------------------------------------------------------------------
func FieldOfCopy(s *S, c bool) *int {
	if c {
		return new(int)
	}
	t := *s
	return t.p
}

func FieldOfLit(p *int, c bool) *int {
	s := S{p: p}
	if c {
		s = S{}
	}
	return s.p
}

func ElemOfLit(p *int, n int) *int {
	a := [2]*int{p, nil}
	return a[n]
}

func IfaceField(s S, c bool) I {
	if c {
		return &T{}
	}
	return s.i
}

// ---- method values ----------------------------------------------------------------------------------------
func (t *T) Get() *int { return t.f }

func MethodValue(t *T, c bool) func() *int {
	if c {
		return nil
	}
	return t.Get
}

func MethodExpr(c bool) func(*T) *int {
	if c {
		return nil
	}
	return (*T).Get
}
