package main

// Ported from /repo/analysis/facts/nilness/testdata (Nilness.go, Interface/Interface.go) without the
// std imports, channels, unsafe and recover; plus typed-nil / type-switch / SA4023 shapes.

type (
	T    struct{ f *int }
	T2   T
	Doer interface{ Do() }
	Err  struct{}
)

func (*Err) Error() string { return "" }
func (*T) Do()             {}

func newErr() error { return &Err{} }

func fn1() *T {
	if true {
		return nil
	}
	return &T{}
}
func fn2() *T          { return &T{} }
func fn3() *T          { return new(T) }
func fn4() *T          { return fn3() }
func fn5() *T          { return fn1() }
func fn6() *T2         { return (*T2)(fn4()) }
func fn7() interface{} { return nil }
func fn8() interface{} { return 1 }
func fn9() []int {
	x := []int{}
	y := x[:1]
	return y
}
func fn10(x []int) []int { return x[:1] }
func fn11(x *T) *T       { return x }
func fn12(x *T) *int     { return x.f }
func fn13() *int         { return new(int) }
func fn14() []int        { return make([]int, 0) }
func fn15() []int        { return []int{} }
func fn16() []int        { return nil }
func fn17() error {
	if true {
		return newErr()
	}
	return nil
}
func fn18() (err error) {
	for {
		if err = fn17(); err != nil {
			return
		}
	}
}

var x *int

func fn19() *int { return x }
func fn20() *int {
	if true {
		return x
	}
	return nil
}
func fn30() *int {
	var m map[int]*int
	return m[0]
}
func fn32(x *int) *int {
	_ = *x
	return x
}
func fn33(a, b, c []int, d int) (x, y, z []int) {
	x = a[:0]
	y = b[:1]
	z = c[:d]
	return x, y, z
}
func fn34() Doer {
	var x any = new(int)
	r, _ := x.(Doer)
	return r
}
func fn40(x []int) []int {
	if x != nil {
		return append(x)
	}
	return make([]int, 0)
}
func fn41(x []int) []int {
	if x == nil {
		return append(x, 1)
	}
	return nil
}
func fn35(x any) Doer {
	v, ok := x.(Doer)
	if ok {
		return v
	} else {
		return Doer(nil)
	}
}
func fn36(x any) Doer {
	v, ok := x.(Doer)
	if ok {
		return nil
	} else {
		return v
	}
}
func fn38(x any) Doer {
	v, ok := x.(Doer)
	if !ok {
		return v
	} else {
		return v
	}
}
func fn39(x []int) []int { return append(x, 1) }
func fn43(b bool, x any) any {
	if b {
		_ = x.(int)
	}
	return x
}

func ifn1() *int                   { return nil }
func ifn2() (int, *int, int)       { return 0, nil, 0 }
func notAStub()                    {}
func ifn3() (out1 int, out2 error) { notAStub(); return 0, nil }
func ifn4() error                  { notAStub(); return nil }

func gen2() (out1 interface{}) { return 1 }
func gen3() (out1 interface{}) {
	m := map[int]*int{}
	return m[0]
}
func gen4() (out1 int, out2 interface{}, out3 *int) {
	m := map[int]*int{}
	return 0, m[0], nil
}
func gen5() (out1 interface{}) { return gen3() }
func gen6(b bool) interface{} {
	if b {
		m := map[int]*int{}
		return m[0]
	} else {
		return nil
	}
}
func gen7() (out1 interface{}) { return ifn1() }
func gen8(x *int) (out1 interface{}) {
	if x == nil {
		return x
	}
	return x
}
func gen9() (out1 interface{}) {
	var x *int
	return x
}
func gen10() (out1 interface{}) {
	var x *int
	if x == nil {
		return x
	}
	return newErr()
}
func gen11() interface{} {
	if true {
		return nil
	} else {
		return (*int)(nil)
	}
}
func gen12(b bool) (out1 interface{}) {
	var x interface{}
	if b {
		x = (*int)(nil)
	} else {
		x = (*string)(nil)
	}
	return x
}
func gen13() (out1 interface{}) {
	_, x, _ := ifn2()
	return x
}
func gen15() (out1 interface{}) {
	t := &T{}
	return t.f
}

var g *int = new(int)

func gen16() (out1 interface{}) { return g }
func gen17(x interface{}) interface{} {
	if x != nil {
		return x
	}
	return x
}
func gen18() (int, error) {
	_, err := ifn3()
	if err != nil {
		return 0, newErr()
	}
	return 0, err
}
func gen19() (out interface{}) {
	if true {
		return (*int)(nil)
	}
	return
}
func gen21() error {
	if false {
		return (*Err)(nil)
	}
	return ifn4()
}
func gen22() interface{}                     { return gen6(false) }
func gen25(x interface{}) (out1 interface{}) { return x.(interface{}) }
func gen26(x interface{}) interface{} {
	v, _ := x.(interface{})
	return v
}
func gen28() (out1 interface{}) {
	x := new(Err)
	var y error = x
	return y
}
func gen29() (out1 interface{}) {
	var x *Err
	var y error = x
	return y
}
func gen30() (out1, out2 interface{}) { return gen29(), gen28() }
func gen31() (out1 interface{}) {
	a, _ := gen30()
	return a
}
func gen32() (out1 interface{}) {
	_, b := gen30()
	return b
}
func gen34() (out1, out2 interface{}) { return nil, 1 }
func gen35() (out1 interface{}) {
	a, _ := gen34()
	return a
}
func gen36() (out1 interface{}) {
	_, b := gen34()
	return b
}

// typed nils, type switches, assertions
func ts1(x any) *T {
	switch v := x.(type) {
	case nil:
		return nil
	case *T:
		return v
	case *int, []int:
		return &T{}
	default:
		return new(T)
	}
}
func ts2(x any) any {
	switch v := x.(type) {
	case Doer:
		return v
	case error:
		return v
	}
	return nil
}
func ts3(d Doer) *T {
	if d == nil {
		return nil
	}
	return d.(*T)
}
func ts4(p *T) Doer {
	if p == nil {
		return nil
	}
	return p
}
func ts5(p *T) Doer        { return p }
func arr1(p *[2]int) []int { return p[:] }
func arr2(s []int) *[2]int { return (*[2]int)(s) }
func arr3(s []int) *[0]int { return (*[0]int)(s) }
func sl1(s []int, n int) []int {
	t := s[n:]
	return t
}
func sl2(s []int) []int { return s[0:0:0] }
func cl1(p *int) func() *int {
	return func() *int { return p }
}
func ld1(pp **int) *int { return *pp }
func st1(p *int) *int {
	*p = 1
	return p
}
func fld(t *T) *T {
	_ = t.f
	return t
}
func mp1(m map[int]int) map[int]int {
	m[1] = 2
	return m
}
func mp2(m map[int]int) map[int]int {
	_ = m[1]
	return m
}
func rec(n int, p *int) *int {
	if n > 0 {
		return rec(n-1, p)
	}
	return new(int)
}
func phi(b bool, p *int) *int {
	q := new(int)
	if b {
		q = p
	}
	return q
}
func loop(n int, p *int) *int {
	q := p
	for i := 0; i < n; i++ {
		q = new(int)
	}
	return q
}

// SA4023 shapes
func cmp1() bool { return gen9() == nil }
func cmp2() *int {
	if gen29() != nil {
		return new(int)
	}
	return nil
}
func cmp3(b bool) *int {
	if ts5(nil) == nil {
		return nil
	}
	return new(int)
}
func cmp4() *int {
	if e := fn17(); e == nil {
		return nil
	}
	return new(int)
}

// interface values loaded from memory, merged with nil (defect fixed in /repo 523d576)
var gd Doer

func ldI(p *int) Doer {
	if p != nil {
		return gd
	}
	return nil
}
func ldI2(pd *Doer, b bool) Doer {
	if b {
		return *pd
	}
	return nil
}
func ldI3(p *int) *T {
	return ldI(p).(*T)
}

// default branch of a type switch: the value is the tag itself
func tsDefault(i Doer) Doer {
	switch x := i.(type) {
	case nil:
		return nil
	default:
		return x
	}
}
func tsDefault2() any {
	var p *T
	var i any = p
	switch x := i.(type) {
	case int:
		return x
	default:
		return x
	}
}
func tsDefault3(p *T) any {
	var i any = p
	switch x := i.(type) {
	case nil:
		return 1
	case Doer:
		return x
	default:
		return x
	}
}
func tsMulti(i any) any {
	switch x := i.(type) {
	case *T, *int:
		return x
	}
	return nil
}
