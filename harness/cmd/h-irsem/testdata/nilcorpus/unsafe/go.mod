module ex.test/nilm

go 1.23
