package main

// unsafe conversions and builtins (UnsafeSlice, UnsafeSliceData, UnsafeStringData, UnsafeAdd) merged with definite
// nilness.  unsafe is outside the IRSem fragment (the package initialiser calls the body-less unsafe.init), so
// these claims are judged by the native run alone.

import "unsafe"

// ---- unsafe (native-only verdicts) ------------------------------------------------------------------------
func UPtr(p *int) unsafe.Pointer { return unsafe.Pointer(p) }

func UPtrMerge(p *int, c bool) (unsafe.Pointer, unsafe.Pointer) {
	if c {
		return unsafe.Pointer(p), unsafe.Pointer(p)
	}
	return unsafe.Pointer(new(int)), nil
}

func UBack(p *int, c bool) (*int, *int) {
	u := unsafe.Pointer(p)
	if c {
		return (*int)(u), (*int)(u)
	}
	return new(int), nil
}

func USlice(p *int, n int, c bool) ([]int, []int) {
	if c {
		s := unsafe.Slice(p, n)
		return s, s
	}
	return []int{}, nil
}

func USliceData(s []int, c bool) (*int, *int) {
	if c {
		p := unsafe.SliceData(s)
		return p, p
	}
	return new(int), nil
}

func UStringData(s string, c bool) (*byte, *byte) {
	if c {
		p := unsafe.StringData(s)
		return p, p
	}
	return new(byte), nil
}

func UAdd(p *int, n int, c bool) (unsafe.Pointer, unsafe.Pointer) {
	if c {
		q := unsafe.Add(unsafe.Pointer(p), n)
		return q, q
	}
	return unsafe.Pointer(new(int)), nil
}
