package main

func emitI(x int) { print("E emitI i:", x, "\n") }
func emitB(x bool) {
	if x {
		print("E emitB b:1\n")
	} else {
		print("E emitB b:0\n")
	}
}
func emitS(x string) {
	print("E emitS s:")
	for i := 0; i < len(x); i++ {
		if i > 0 {
			print(".")
		}
		print(x[i])
	}
	print("\n")
}

func Goto(n int) int {
	i := 0
	s := 0
loop:
	if i >= n {
		goto done
	}
	{
		v := i * 2
		p := &v
		s += *p
	}
	i++
	goto loop
done:
	return s
}

func Labelled(n int) int {
	s := 0
outer:
	for i := 0; i < 3; i++ {
		for j := 0; j < 3; j++ {
			if j == n {
				continue outer
			}
			if i == 2 && j == 1 {
				break outer
			}
			s += i*10 + j
			emitI(s)
		}
	}
	return s
}

func Switches(a int, b bool) int {
	r := 0
	switch {
	case a < 0 && b:
		r = 1
	case a < 0 || b:
		r = 2
		fallthrough
	case a == 1:
		r += 10
	default:
		r = 3
	}
	switch x := a * 2; x {
	case 0, 2:
		r += 100
	case 4:
		r += 200
		if b {
			break
		}
		r += 1000
	}
	return r
}

func ShortCircuit(a int, b bool) bool {
	t := func(x bool) bool { emitB(x); return x }
	return (t(a > 0) && t(b)) || (t(a == 0) && !t(b))
}

func RangeKinds(n int, s string) int {
	t := 0
	for i := range n {
		t += i
	}
	arr := [3]int{n, 2, 3}
	for i, v := range arr {
		arr[2] = 100
		t += i * v
	}
	for i, v := range &arr {
		arr[2] = 50
		t += i * v
	}
	sl := arr[:]
	for i := range sl {
		sl[i]++
	}
	for _, v := range sl {
		t += v
	}
	for i, r := range s {
		emitI(i)
		emitI(int(r))
	}
	for range 2 {
		t++
	}
	return t
}

func seq(n int) func(yield func(int) bool) {
	return func(yield func(int) bool) {
		for i := 0; i < n; i++ {
			if !yield(i) {
				emitI(-100)
				return
			}
		}
	}
}

func RangeFunc(n int, stop int) (r int) {
	defer func() { emitI(r) }()
	for v := range seq(n + 2) {
		if v == stop {
			break
		}
		if v == stop+1 {
			continue
		}
		defer emitI(1000 + v)
		r += v
	}
	for v := range seq(3) {
		if v == n {
			return 500 + v
		}
	}
	return r
}

func pairs(yield func(int, string) bool) {
	_ = yield(1, "a") && yield(2, "b") && yield(3, "c")
}

func RangeFunc2(k int) string {
	out := ""
outer:
	for i := range seq(3) {
		for j, s := range pairs {
			if j == k {
				continue outer
			}
			if i == 2 {
				break outer
			}
			out += s
		}
	}
	return out
}

// defer inside range-over-func bodies of a function that has no defer statement of its own: the deferred
// calls are pushed onto the enclosing function's defer stack and must run when it returns
func RangeFuncDeferOnly(n int) int {
	for v := range seq(n + 1) {
		defer emitI(v)
	}
	return n
}

func RangeFuncDeferNested(n int) (r int) {
	for v := range seq(2) {
		for w := range seq(n) {
			if w == 1 {
				continue
			}
			defer func() { r += v*10 + w; emitI(r) }()
		}
	}
	return 1
}

// constant cases over a tag whose evaluation has control flow of its own: the multi-way branch belongs
// at the end of the tag's last block, after the short-circuit evaluation
func SwitchBoolTag(a int, b bool) int {
	r := 0
	switch a > 0 && b {
	case true:
		r += 1
		emitI(r)
		fallthrough
	case false:
		r += 10
	}
	switch x := a - 1; x < 0 || !b {
	case false:
		r += 100
	default:
		r += 1000
	}
	return r
}
