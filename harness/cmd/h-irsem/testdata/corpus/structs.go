package main

func emitI(x int) { print("E emitI i:", x, "\n") }
func emitB(x bool) {
	if x {
		print("E emitB b:1\n")
	} else {
		print("E emitB b:0\n")
	}
}
func emitS(x string) {
	print("E emitS s:")
	for i := 0; i < len(x); i++ {
		if i > 0 {
			print(".")
		}
		print(x[i])
	}
	print("\n")
}

type P struct{ x, y int }
type I interface{ M(int) int }

func (p P) M(a int) int { return p.x + a }
func (p *P) Set(a int)  { p.x = a }

type Q struct {
	P
	z int
}

type R struct {
	a [3]int
	q Q
	s string
}

func Methods(a int) int {
	p := P{a, 2}
	p.Set(5)
	var i I = p
	q := Q{P: p, z: 3}
	emitI(q.M(1))
	q.Set(9)
	var j I = &q
	switch v := j.(type) {
	case P:
		emitI(v.x)
	case *Q:
		emitI(v.z)
	case nil:
		emitI(-1)
	default:
		emitI(-2)
	}
	return i.M(a) + j.M(1)
}

func TypeSw(k int) int {
	var x interface{}
	switch k {
	case -1:
		x = nil
	case 0:
		x = 42
	case 1:
		x = "str"
	default:
		x = P{k, k}
	}
	switch v := x.(type) {
	case int:
		return v
	case string, bool:
		if s, ok := v.(string); ok {
			emitS(s)
		}
		return 1
	case nil:
		return -1
	case I:
		return v.M(10)
	}
	return -5
}

func Nested(k int, b bool) (int, string) {
	var r R
	r.a[1] = k
	r.q.z = 4
	r.q.P.y = 5
	r.s = "ab"
	pr := &r
	pa := &pr.a
	pa[2] = 7
	if b {
		pr.q.Set(k * 2)
	}
	r2 := r
	r2.a[0] = 99
	emitI(r.a[0] + r.a[1] + r.a[2])
	emitI(r2.a[0])
	emitB(r == r2)
	r2.a[0] = 0
	emitB(r == r2)
	return r.q.x + r.q.y + r.q.z, r2.s
}

func Idx(k int) int {
	a := [4]int{1, 2, 3, 4}
	s := a[1:3]
	s[0] = 20
	s = append(s, 30)
	emitI(a[3])
	emitI(len(s)*10 + cap(s))
	return a[k] + s[k]
}

func NilDeref(k int) int {
	var p *P
	if k > 0 {
		p = &P{k, k}
	}
	return p.x
}

func BoundMethod(k int) int {
	p := &P{k, 1}
	f := p.M
	g := P.M
	h := (*P).Set
	h(p, 3)
	var i I = p
	m := i.M
	return f(1) + g(*p, 2) + m(4)
}
