package main

func emitI(x int) { print("E emitI i:", x, "\n") }
func emitB(x bool) {
	if x {
		print("E emitB b:1\n")
	} else {
		print("E emitB b:0\n")
	}
}
func emitS(x string) {
	print("E emitS s:")
	for i := 0; i < len(x); i++ {
		if i > 0 {
			print(".")
		}
		print(x[i])
	}
	print("\n")
}

func Counter(n int) int {
	c := 0
	inc := func(d int) int {
		c += d
		return c
	}
	for i := 0; i < n; i++ {
		emitI(inc(i))
	}
	return c
}

func LoopCapture(n int) int {
	var fs []func() int
	for i := 0; i < n+1; i++ {
		fs = append(fs, func() int { return i * 10 })
	}
	s := 0
	for _, f := range fs {
		s += f()
	}
	return s
}

func apply(f func(int) int, x int) int { return f(x) }

func HigherOrder(a, b int) int {
	add := func(x int) int { return x + a }
	mul := func(x int) int {
		return apply(add, x) * b
	}
	return apply(mul, 3)
}

func Defers(n int) (r int) {
	for i := 0; i < n; i++ {
		defer func(k int) {
			emitI(k)
			r += k
		}(i)
	}
	defer emitI(100)
	return n * 10
}

func DeferPanic(k int) (r int, s string) {
	defer func() {
		e := recover()
		switch v := e.(type) {
		case nil:
			s = "none"
		case int:
			r = v
			s = "int"
		case string:
			s = v
		default:
			s = "other"
		}
	}()
	defer func() {
		emitI(1)
	}()
	switch k {
	case 0:
		panic(5)
	case 1:
		panic("boom")
	case 2:
		var a []int
		_ = a[k]
	}
	return 1, "ok"
}

func Repanic(k int) int {
	defer func() {
		if e := recover(); e != nil {
			emitI(2)
			if k == 1 {
				panic(77)
			}
		}
	}()
	if k >= 0 {
		panic("x")
	}
	return k
}

func inner(k int) int {
	defer emitI(-k)
	if k == 2 {
		panic(k)
	}
	return k
}

func Propagate(k int) (r int) {
	defer func() {
		if e := recover(); e != nil {
			r = e.(int) + 100
		}
	}()
	return inner(k) + inner(k+1)
}

func NoRecover(k int) int {
	defer emitI(9)
	return 10 / k
}

func fact(n int) int {
	if n <= 1 {
		return 1
	}
	return n * fact(n-1)
}

func Rec(n int) int { return fact(n + 2) }

func multi(a int) (int, bool, string) { return a + 1, a > 0, "m" }

func Multi(a int) (int, string) {
	x, ok, s := multi(a)
	if ok {
		s += "!"
	}
	return x, s
}

// go1.22 per-iteration loop variables whose only capture sits in the post statement: the closure sees the
// copy that the post statement is about to increment, one cell per iteration
func LoopVarPost(n int) int {
	var fs []func() int
	for i := 0; i < n+2; i, fs = i+1, append(fs, func() int { return i }) {
	}
	s := 0
	for _, f := range fs {
		s = s*10 + f()
	}
	return s
}

// the same with the address taken in the post statement
func LoopVarPostAddr(n int) int {
	var ps []*int
	for i := 0; i < n+2; i, ps = i+1, append(ps, &i) {
	}
	s := 0
	for _, p := range ps {
		*p += 3
		s = s*10 + *p
	}
	return s
}

// captured only in the condition
func LoopVarCond(n int) int {
	var fs []func() int
	keep := func(f func() int) bool {
		fs = append(fs, f)
		return true
	}
	for i := 0; i < n+2 && keep(func() int { i += 5; return i }); i++ {
		emitI(i)
	}
	s := 0
	for _, f := range fs {
		s = s*10 + f()%10
	}
	return s
}

// captured in the body and modified in the post statement through the closure of the previous iteration
func LoopVarBodyPost(n int) int {
	var last func() int
	s := 0
	for i := 0; i < n+3; i++ {
		if last != nil {
			s += last()
		}
		last = func() int { i++; return i }
	}
	return s*100 + last()
}
