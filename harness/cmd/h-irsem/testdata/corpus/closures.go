package main

func emitI(x int) { print("E emitI i:", x, "\n") }
func emitB(x bool) {
	if x {
		print("E emitB b:1\n")
	} else {
		print("E emitB b:0\n")
	}
}
func emitS(x string) {
	print("E emitS s:")
	for i := 0; i < len(x); i++ {
		if i > 0 {
			print(".")
		}
		print(x[i])
	}
	print("\n")
}

func Counter(n int) int {
	c := 0
	inc := func(d int) int {
		c += d
		return c
	}
	for i := 0; i < n; i++ {
		emitI(inc(i))
	}
	return c
}

func LoopCapture(n int) int {
	var fs []func() int
	for i := 0; i < n+1; i++ {
		fs = append(fs, func() int { return i * 10 })
	}
	s := 0
	for _, f := range fs {
		s += f()
	}
	return s
}

func apply(f func(int) int, x int) int { return f(x) }

func HigherOrder(a, b int) int {
	add := func(x int) int { return x + a }
	mul := func(x int) int {
		return apply(add, x) * b
	}
	return apply(mul, 3)
}

func Defers(n int) (r int) {
	for i := 0; i < n; i++ {
		defer func(k int) {
			emitI(k)
			r += k
		}(i)
	}
	defer emitI(100)
	return n * 10
}

func DeferPanic(k int) (r int, s string) {
	defer func() {
		e := recover()
		switch v := e.(type) {
		case nil:
			s = "none"
		case int:
			r = v
			s = "int"
		case string:
			s = v
		default:
			s = "other"
		}
	}()
	defer func() {
		emitI(1)
	}()
	switch k {
	case 0:
		panic(5)
	case 1:
		panic("boom")
	case 2:
		var a []int
		_ = a[k]
	}
	return 1, "ok"
}

func Repanic(k int) int {
	defer func() {
		if e := recover(); e != nil {
			emitI(2)
			if k == 1 {
				panic(77)
			}
		}
	}()
	if k >= 0 {
		panic("x")
	}
	return k
}

func inner(k int) int {
	defer emitI(-k)
	if k == 2 {
		panic(k)
	}
	return k
}

func Propagate(k int) (r int) {
	defer func() {
		if e := recover(); e != nil {
			r = e.(int) + 100
		}
	}()
	return inner(k) + inner(k+1)
}

func NoRecover(k int) int {
	defer emitI(9)
	return 10 / k
}

func fact(n int) int {
	if n <= 1 {
		return 1
	}
	return n * fact(n-1)
}

func Rec(n int) int { return fact(n + 2) }

func multi(a int) (int, bool, string) { return a + 1, a > 0, "m" }

func Multi(a int) (int, string) {
	x, ok, s := multi(a)
	if ok {
		s += "!"
	}
	return x, s
}
