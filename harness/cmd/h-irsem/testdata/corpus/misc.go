package main

func emitI(x int) { print("E emitI i:", x, "\n") }
func emitB(x bool) {
	if x {
		print("E emitB b:1\n")
	} else {
		print("E emitB b:0\n")
	}
}
func emitS(x string) {
	print("E emitS s:")
	for i := 0; i < len(x); i++ {
		if i > 0 {
			print(".")
		}
		print(x[i])
	}
	print("\n")
}

type celsius int
type temps []celsius
type namedFn func(int) int

type logger interface{ log(int) }
type mem struct{ xs []int }

func (m *mem) log(x int) { m.xs = append(m.xs, x); emitI(x) }

func Misc(k int, s string) (int, string) {
	a := make([]int, k+1)  // MakeSlice (dynamic length; k = -1 -> empty, non-nil)
	b := make([]int, k, 3) // k = -1 panics
	a[0] = 7
	c := celsius(k) // ChangeType
	t := temps{c, c + 1}
	var f namedFn = func(x int) int { return x * 2 }
	g := (func(int) int)(f)
	m := &mem{}
	var l logger = m
	defer l.log(1) // defer invoke
	defer m.log(2)
	mp := map[string]int{"a": 1, "b": 2}
	clear(mp)
	clear(a)
	n := copy(b, a)
	bs := make([]byte, 3)
	copy(bs, s)
	return int(t[1]) + g(3) + len(mp) + a[0] + n + len(b), min(s, "b") + max(s, "b") + string(bs[:1])
}

type tree struct {
	l, r *tree
	v    int
}

func (t *tree) insert(v int) *tree {
	if t == nil {
		return &tree{v: v}
	}
	if v < t.v {
		t.l = t.l.insert(v)
	} else {
		t.r = t.r.insert(v)
	}
	return t
}

func (t *tree) walk(f func(int)) {
	if t == nil {
		return
	}
	t.l.walk(f)
	f(t.v)
	t.r.walk(f)
}

func Tree(a, b int) int {
	var root *tree
	for _, v := range []int{a, b, 1, a + b, 0} {
		root = root.insert(v)
	}
	s := 0
	root.walk(func(v int) { emitI(v); s = s*3 + v })
	return s
}

type matrix [2][2]int

func (m matrix) mul(o matrix) (r matrix) {
	for i := 0; i < 2; i++ {
		for j := 0; j < 2; j++ {
			for k := 0; k < 2; k++ {
				r[i][j] += m[i][k] * o[k][j]
			}
		}
	}
	return
}

func Matrix(n int) int {
	m := matrix{{1, 1}, {1, 0}}
	r := matrix{{1, 0}, {0, 1}}
	for i := 0; i < n+2; i++ {
		r = r.mul(m)
	}
	p := &r[1]
	p[0]++
	return r[0][0]*100 + r[1][0]
}

func StrOps(s string, b bool) int {
	r := 0
	if s >= "a" {
		r += 1
	}
	if s <= "a" {
		r += 10
	}
	if s > "" {
		r += 100
	}
	if s != "a" && b {
		r += 1000
	}
	t := s + s
	u := t[len(s):]
	if u == s {
		r += 10000
	}
	for i := range s {
		r += i
	}
	return r + len(t[:len(t)/2])
}
