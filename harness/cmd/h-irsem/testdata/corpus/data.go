package main

func emitI(x int) { print("E emitI i:", x, "\n") }
func emitB(x bool) {
	if x {
		print("E emitB b:1\n")
	} else {
		print("E emitB b:0\n")
	}
}
func emitS(x string) {
	print("E emitS s:")
	for i := 0; i < len(x); i++ {
		if i > 0 {
			print(".")
		}
		print(x[i])
	}
	print("\n")
}

var g1 int
var g2 = 5
var g3 = []int{1, 2, 3}

func Globals(k int) int {
	g1 += k
	g2 *= 2
	g3[0] = k
	p := &g1
	*p += 1
	return g1 + g2 + g3[0] + g3[1]
}

func Maps(k int, s string) int {
	m := map[string]int{"a": 1}
	m[s] = k
	m["zz"] += 2
	v, ok := m["b"]
	t := 0
	if ok {
		t += v
	}
	for key, v := range m {
		emitS(key)
		emitI(v)
	}
	delete(m, "a")
	var nm map[int]int
	t += nm[3] + len(nm)
	if k == 2 {
		nm[1] = 1
	}
	return t + len(m)
}

func Slices(k int) int {
	s := make([]int, 2, 5)
	s[0] = k
	t := s[1:4]
	t[2] = 9
	u := append(s, 7)
	emitI(t[0])
	emitI(len(u) + cap(u))
	n := copy(s, []int{8, 8, 8})
	emitI(n + s[1])
	var z []int
	emitB(z == nil)
	z = append(z, 1, 2)
	emitB(z == nil)
	emitI(len(z))
	w := s[k:]
	return len(w) + cap(w)
}

func Strings(s string, k int) string {
	b := []byte(s)
	if len(b) > 0 {
		b[0] = 'X'
	}
	r := []rune(s)
	t := string(b) + string(r) + string(rune(k+64))
	emitI(len(r))
	if k >= 0 && k < len(s) {
		emitI(int(s[k]))
	}
	u := ""
	for _, c := range s {
		u = string(c) + u
	}
	b = append(b, "yz"...)
	emitS(string(b[1:]))
	emitB(s == "a")
	emitB(s < t)
	return t + u
}

func Arith(a, b int) int {
	emitI(a + b*3 - (a - b))
	emitI(a &^ b)
	emitI(a & b)
	emitI(a | b)
	emitI(a ^ b)
	emitI(-a)
	emitI(^a)
	emitI(a << 3)
	emitI((a * 100) >> 2)
	emitI(17 / (b + 3))
	emitI(-17 / (b + 3))
	emitI(17 % (b + 3))
	emitI(-17 % (b + 3))
	emitI(min(a, b, 1))
	emitI(max(a, b))
	return a / b
}

func Sized(a int8, b uint8, c int16) int {
	x := a * 100
	y := b + 200
	z := c * 30000
	emitI(int(x))
	emitI(int(y))
	emitI(int(z))
	emitI(int(uint8(a)))
	emitI(int(int8(b)))
	emitI(int(b >> 1))
	emitI(int(a >> 1))
	emitI(int(b << 7))
	emitI(int(^b))
	emitI(int(-b))
	emitI(int(uint16(c) / 3))
	var u uint8 = 250
	n := 0
	for i := u; i >= 250; i++ {
		n++
	}
	return n + int(a/-1)
}

func ArrPtr(k int) int {
	s := []int{1, 2, 3, 4}
	a := [4]int(s)
	p := (*[4]int)(s)
	p[0] = 10
	a[1] = 20
	if k == 2 {
		_ = [5]int(s)
	}
	return s[0] + s[1] + a[0] + a[1] + len(p)
}

type num interface{ ~int | ~int8 }

func sum[T num](xs ...T) T {
	var t T
	for _, x := range xs {
		t += x
	}
	return t
}

type Stack[T any] struct{ items []T }

func (s *Stack[T]) Push(x T) { s.items = append(s.items, x) }
func (s *Stack[T]) Pop() (T, bool) {
	var zero T
	if len(s.items) == 0 {
		return zero, false
	}
	x := s.items[len(s.items)-1]
	s.items = s.items[:len(s.items)-1]
	return x, true
}

func Generics(k int) (int, string) {
	var st Stack[string]
	st.Push("a")
	st.Push("b")
	x, _ := st.Pop()
	var si Stack[int]
	_, ok := si.Pop()
	if ok {
		k++
	}
	return sum(k, 2, 3) + int(sum[int8](1, 2)), x
}
