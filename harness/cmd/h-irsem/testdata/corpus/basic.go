package main

func emitI(x int) { print("E emitI i:", x, "\n") }
func emitB(x bool) {
	if x {
		print("E emitB b:1\n")
	} else {
		print("E emitB b:0\n")
	}
}
func emitS(x string) {
	print("E emitS s:")
	for i := 0; i < len(x); i++ {
		if i > 0 {
			print(".")
		}
		print(x[i])
	}
	print("\n")
}

func Loop(x, y int) int {
	s := 0
	for i := 0; i < x; i++ {
		if i%2 == 0 {
			s += y
		} else {
			s -= 1
		}
		emitI(s)
	}
	return s
}

func esc(p *int) { *p += 100 }

// partially escaping local
func PartEsc(x int, c bool) int {
	a := x
	p := &a
	if c {
		*p = 7
		esc(p)
		a++
	}
	emitI(a)
	return a + *p
}

func Recov(x int) (r int) {
	defer func() {
		if e := recover(); e != nil {
			r = 7
		}
	}()
	a := []int{1, 2, 3}
	emitI(a[x])
	switch x {
	case 0:
		emitI(10)
		fallthrough
	case 1:
		emitI(11)
	default:
		emitI(12)
	}
	return a[x] / x
}

func Strs(s string, b bool) (string, int) {
	t := s + "x"
	if b && len(s) > 0 {
		t = t + s[:1]
	}
	emitS(t)
	emitB(t < "b")
	n := 0
	for i, r := range s {
		n += i + int(r)
	}
	return t, n
}

// the shape of lift.go's doc comment (split alloc): liftable uses before, unliftable after the escape
func SplitAlloc(x int, c bool) int {
	v := x * 2
	if c {
		emitI(v)
		esc(&v)
		emitI(v)
	} else {
		emitI(v + 1)
		v += 3
	}
	emitI(v)
	return v
}

func SplitAllocLoop(n int, c bool) int {
	t := 0
	for i := 0; i < n+1; i++ {
		w := i * 5
		w++
		if c && i == 1 {
			esc(&w)
		}
		t += w
		if i == 0 {
			w = 50
			t += w
		}
	}
	return t
}

func SplitAllocSwitch(k int) int {
	v := k
	var p *int
	switch k {
	case 0:
		v = 10
	case 1:
		v = 20
		p = &v
		*p += 1
	default:
		v++
	}
	if p != nil {
		*p *= 2
	}
	emitI(v)
	return v
}
