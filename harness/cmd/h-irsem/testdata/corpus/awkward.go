package main

func emitI(x int) { print("E emitI i:", x, "\n") }
func emitB(x bool) {
	if x {
		print("E emitB b:1\n")
	} else {
		print("E emitB b:0\n")
	}
}
func emitS(x string) {
	print("E emitS s:")
	for i := 0; i < len(x); i++ {
		if i > 0 {
			print(".")
		}
		print(x[i])
	}
	print("\n")
}

// goto into a loop-like region whose local escapes through a closure
func GotoEscape(n int) int {
	var fs []func() int
	i := 0
again:
	{
		v := i * 3
		fs = append(fs, func() int { v++; return v })
	}
	i++
	if i < n+1 {
		goto again
	}
	s := 0
	for _, f := range fs {
		s += f() + f()
	}
	return s
}

// 3-clause loop: per-iteration copies, body modifies the loop variable, closure captures it
func LoopVarCopy(n int) int {
	var fs []func() int
	for i := 0; i < n+2; i++ {
		if i == 1 {
			i++
		}
		fs = append(fs, func() int { i += 10; return i })
	}
	s := 0
	for _, f := range fs {
		s += f()
		emitI(s)
	}
	return s
}

type pt struct{ x, y int }

func (p pt) add(q pt) pt  { return pt{p.x + q.x, p.y + q.y} }
func (p *pt) scale(k int) { p.x *= k; p.y *= k }

type shape interface {
	area() int
	name() string
}
type rect struct {
	pt
	w, h int
}
type circ struct{ *pt }

func (r rect) area() int    { return r.w * r.h }
func (r rect) name() string { return "rect" }
func (c circ) area() int    { return c.x * c.x * 3 }
func (c circ) name() string { return "circ" }

func Embedded(k int, b bool) (int, string) {
	r := rect{pt{1, 2}, k, 3}
	r.scale(2)
	c := circ{&pt{k, 0}}
	c.scale(3)
	var s shape = r
	if b {
		s = c
	}
	q := r.add(*c.pt)
	emitI(q.x*100 + q.y)
	f := s.area
	r.w = 100
	return f(), s.name()
}

func variadic(pre string, xs ...int) (string, int) {
	t := 0
	for _, x := range xs {
		t += x
	}
	if len(xs) > 0 {
		xs[0] = 99
	}
	return pre, t
}

func Variadic(a, b int) int {
	_, t0 := variadic("a")
	_, t1 := variadic("b", a)
	s := []int{a, b, 3}
	_, t2 := variadic("c", s...)
	return t0 + t1*10 + t2*100 + s[0]*1000
}

func NamedResults(k int) (a int, b string) {
	defer func() {
		a *= 2
		if r := recover(); r != nil {
			b = "recovered"
			a += 1
		}
	}()
	a = 5
	if k == 1 {
		panic("p")
	}
	if k == 2 {
		return 7, "seven"
	}
	b = "plain"
	return
}

func deep(k int) (r int) {
	defer func() { r += 100 }()
	if k == 0 {
		var m map[string]int
		m["x"] = 1
	}
	return k
}

func NestedPanic(k int) (out int) {
	defer func() {
		if e := recover(); e != nil {
			out = -1
			defer func() {
				if e2 := recover(); e2 != nil {
					out = -2
				}
			}()
			if k == 0 {
				panic("again")
			}
		}
	}()
	return deep(k) + deep(k-1)
}

func DeferLoop(n int) (r int) {
	for i := 0; i < n+1; i++ {
		defer func() { r = r*10 + i }()
	}
	return 0
}

func DeferArgs(n int) int {
	x := n
	defer emitI(x)
	x += 5
	defer func(v int) { emitI(v + x) }(x)
	x *= 2
	return x
}

func counter() (func() int, func()) {
	c := 0
	return func() int { c++; return c }, func() { c = 100 }
}

func Counters(n int) int {
	inc, reset := counter()
	inc2, _ := counter()
	inc()
	inc()
	if n > 0 {
		reset()
	}
	return inc()*1000 + inc2()
}

func ArrayValue(k int) int {
	a := [3]int{1, 2, 3}
	b := a
	b[0] = k
	pa := &a
	for i, v := range a {
		a[2] = 50
		pa[1] = 60
		emitI(i*100 + v)
	}
	m := map[string]pt{"a": {1, 2}}
	p := m["a"]
	p.x = 9
	ss := [][]int{{1}, {2, 3}}
	ss[1] = append(ss[1], 4)
	t := ss[1][:1]
	t[0] = 7
	anon := struct {
		n int
		s []int
	}{k, ss[1]}
	return b[0] + a[2] + a[1] + m["a"].x + p.x + anon.s[0] + anon.n + len(ss[1])
}

func BadUTF8(k int) int {
	s := "a\xffb\xe4\xb8"
	if k > 0 {
		s += "\xadz"
	}
	t := 0
	for i, r := range s {
		emitI(i)
		emitI(int(r))
		t++
	}
	rs := []rune(s)
	emitS(string(rs))
	emitS(string(rune(-1)) + string(rune(0x10ffff)) + string(rune(0xd800)))
	return t*100 + len(rs)
}

func Shifts(a int8, u uint8, n int) int {
	emitI(int(a << 7))
	emitI(int(a >> 7))
	emitI(int(u << 7))
	emitI(int(u >> 7))
	emitI(int(u >> uint(n+1)))
	emitI(int(a << uint(n+1)))
	emitI(int(uint8(a)))
	emitI(int(int8(u)))
	emitI(int(-a))
	emitI(int(a * a))
	emitI(int(u * u))
	emitI(int(u/3) + int(a/3) + int(a%3))
	emitI(int(uint16(u) << 9))
	emitI(int(int16(a) << 9))
	emitI(1 << n >> 1)
	return int(a&^5) + int(u&^5) + int(a|64) + int(u^255)
}

type stringer interface{ str() string }
type myInt int
type myStr string

func (m myInt) str() string { return "i" }
func (m myStr) str() string { return string(m) }

func IfaceCmp(k int) int {
	var a, b interface{} = k, 1
	var s1, s2 stringer = myInt(k), myInt(1)
	var e interface{} = pt{k, 1}
	r := 0
	if a == b {
		r += 1
	}
	if s1 == s2 {
		r += 10
	}
	if e == (pt{1, 1}) {
		r += 100
	}
	if s1 != nil && s1.str() == "i" {
		r += 1000
	}
	var s3 stringer = myStr("x")
	if _, ok := s3.(myInt); !ok {
		r += 10000
	}
	if v, ok := a.(int); ok {
		r += v
	}
	return r
}

func SwitchInit(k int) int {
	switch x := k + 1; {
	case x > 2:
		return 3
	case x > 1:
		return 2
	}
	switch k {
	default:
		return -1
	case 0:
		return 0
	}
}

func MethodValues(k int) int {
	p := pt{k, 1}
	f := p.add // receiver copied now
	p.x = 100
	g := (*pt).scale
	g(&p, 2)
	h := pt.add
	return f(pt{1, 1}).x*1000 + h(p, p).x
}
