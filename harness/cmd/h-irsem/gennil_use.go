package main

// Second directed family of C15 programs: REFINEMENT BY USE.
//
// The nilness analysis concludes that an operand is non-nil AFTER an instruction that would have panicked (or
// blocked forever) on nil: Load / Store through a pointer, FieldAddr, IndexAddr, Slice with a non-zero bound,
// SliceToArrayPointer / SliceToArray to a non-empty array, MapUpdate, Send, Recv, a blocking one-case Select, calls /
// defers / go of a function value, plain TypeAssert, the typed clauses of a TypeSwitch, and the branches of a nil
// comparison.  That refinement is recorded for the operand only on the paths that executed the instruction; where
// such a path joins one that did not, the join must fall back to what is known about the VALUE — which is only right
// if the value's nilness is a recorded state on the other path too and not a default applied when the slot is read.
//
// One function per (use, source, shape); the single result is the value itself, returned after the join:
//
//	use     the instruction kind that refines its operand (plus controls that use the value without refining it)
//	source  where the value comes from: a variable declared without a value and never reassigned (one nil constant
//	        in the IR), a typed nil literal, a parameter, a package variable (loaded once / loaded at every mention),
//	        the result of a call (callee MaybeNil / AlwaysNil), a phi of nil and a parameter, a function constant
//	shape   if       if c { USE }; return v
//	        ifret    if c { USE; return ALT }; return v
//	        ifelse   if c { USE } else { sink++ }; return v
//	        early    if !c { return v }; USE; return v
//	        loop     for i := 0; i < n; i++ { USE }; return v
//	        switch   switch n { case 0: sink++; case 1: USE }; return v
//	        nested   if c { if e { USE } }; return v
//	        andcond  if c && COND(v) { sink++ }; return v            (uses that have an expression form)
//	        recovered  defer func() { _ = recover() }(); if c { USE }; return v
//	        indefer  defer func() { _ = recover() }(); defer func() { if c { USE } }(); return v
//	        always   USE; return v                                   (no join: the refinement alone)
//
// The vectors of the domain contain the path that skips the use (c = false, n = 0: a nil value is returned) and the
// path that executes it (it panics when the value is nil).  Uses that would BLOCK forever on a nil or unbuffered
// channel, and `go` of a nil function (a fatal error no driver can recover from) are guarded by `n > 1`, which no
// vector satisfies: only the skipping path is executed, but the analysis sees both.

import (
	"fmt"
	"strings"
)

const usePrelude = `package main

import "ex.test/nilm/lib"

type T struct {
	f *int
	n int
}

func (t *T) M() int { return 7 }
func (t *T) K()     {}
func (t T) V() int  { return t.n }
func (t *T) P() *int {
	if t == nil {
		return nil
	}
	return t.f
}

type I interface{ M() int }
type I2 interface {
	M() int
	K()
}

var sink int

var gu_pt *T
var gu_pi *int
var gu_pa *[2]int
var gu_sl []int
var gu_mp map[int]int
var gu_ch chan int
var gu_fn func() *int
var gu_I I
var gu_any any

var _ = lib.Fresh

func mkNN() *int { return new(int) }

`

type useTy struct {
	tag, ty, nn string
}

var useTypes = []useTy{
	{"pt", "*T", "&T{}"},
	{"pi", "*int", "new(int)"},
	{"pa", "*[2]int", "new([2]int)"},
	{"sl", "[]int", "[]int{1}"},
	{"mp", "map[int]int", "map[int]int{}"},
	{"ch", "chan int", "make(chan int, 1)"},
	{"fn", "func() *int", "mkNN"},
	{"I", "I", "I(&T{})"},
	{"any", "any", "any(new(int))"},
}

func useTyOf(ty string) useTy {
	for _, t := range useTypes {
		if t.ty == ty {
			return t
		}
	}
	panic("use family: unknown type " + ty)
}

// useHelpers: per type a callee whose result is MaybeNil and one whose result is AlwaysNil.
func useHelpers() string {
	var b strings.Builder
	for _, t := range useTypes {
		fmt.Fprintf(&b, "func mk_%s(b bool) %s {\n\tif b {\n\t\treturn %s\n\t}\n\treturn nil\n}\n", t.tag, t.ty, t.nn)
		fmt.Fprintf(&b, "func nil_%s() %s { return nil }\n\n", t.tag, t.ty)
	}
	return b.String()
}

type useKind struct {
	kind    string   // the instruction of nilness.go that refines its operand ("control: ..." = no refinement)
	name    string   // short label
	ty      string   // type of the value
	stmts   []string // the use; $v = the value, $ALT = another value of the same type
	cond    string   // expression form (bool), "" if none
	block   bool     // would block forever / be fatal on nil: never executed (guard n > 1)
	hasRet  bool     // contains a return statement (not usable inside a closure)
	refines bool
}

func useKinds() []useKind {
	var out []useKind
	add := func(kind, name, ty string, cond string, stmts ...string) *useKind {
		out = append(out, useKind{kind: kind, name: name, ty: ty, stmts: stmts, cond: cond, refines: !strings.HasPrefix(kind, "control")})
		return &out[len(out)-1]
	}
	// --- Load / Store ----------------------------------------------------------------------------------
	add("Load", "*v", "*int", "*$v == 0", "sink += *$v")
	add("Load", "*v (struct copy)", "*T", "", "t0 := *$v", "sink += t0.n")
	add("Load", "v.V() (value receiver)", "*T", "$v.V() == 0", "sink += $v.V()")
	add("Store", "*v = 1", "*int", "", "*$v = 1")
	add("Store", "*v = T{}", "*T", "", "*$v = T{}")
	// --- FieldAddr -------------------------------------------------------------------------------------
	add("FieldAddr", "v.n", "*T", "$v.n == 0", "sink += $v.n")
	add("FieldAddr", "v.n = 1", "*T", "", "$v.n = 1")
	add("FieldAddr", "&v.n", "*T", "&$v.n != nil", "q := &$v.n", "_ = q")
	add("FieldAddr", "v.f", "*T", "$v.f == nil", "q := $v.f", "_ = q")
	// --- IndexAddr -------------------------------------------------------------------------------------
	add("IndexAddr", "v[0] (*array)", "*[2]int", "$v[0] == 0", "sink += $v[0]")
	add("IndexAddr", "v[1] = 1 (*array)", "*[2]int", "", "$v[1] = 1")
	add("IndexAddr", "range v (*array)", "*[2]int", "", "for _, x := range $v {", "\tsink += x", "}")
	add("IndexAddr", "v[0] (slice)", "[]int", "$v[0] == 0", "sink += $v[0]")
	add("IndexAddr", "v[0] = 1 (slice)", "[]int", "", "$v[0] = 1")
	add("IndexAddr", "&v[0] (slice)", "[]int", "&$v[0] != nil", "q := &$v[0]", "_ = q")
	// --- Slice / SliceToArrayPointer / SliceToArray ----------------------------------------------------
	add("Slice", "v[1:]", "[]int", "len($v[1:]) == 0", "w := $v[1:]", "sink += len(w)")
	add("Slice", "v[:1]", "[]int", "len($v[:1]) == 1", "w := $v[:1]", "sink += len(w)")
	add("Slice", "v[0:1:1]", "[]int", "", "w := $v[0:1:1]", "sink += len(w)")
	add("Slice", "v[1:] (*array)", "*[2]int", "len($v[1:]) == 1", "w := $v[1:]", "sink += len(w)")
	add("control: Slice zero bounds", "v[:0]", "[]int", "len($v[:0]) == 0", "w := $v[:0]", "sink += len(w)")
	add("control: Slice no bounds", "v[:] (*array)", "*[2]int", "", "w := $v[:]", "sink += len(w)")
	add("SliceToArrayPointer", "(*[1]int)(v)", "[]int", "(*[1]int)($v) != nil", "w := (*[1]int)($v)", "sink += w[0]")
	add("control: SliceToArrayPointer zero length", "(*[0]int)(v)", "[]int", "", "w := (*[0]int)($v)", "_ = w")
	add("SliceToArray", "[1]int(v)", "[]int", "", "w := [1]int($v)", "sink += w[0]")
	// --- MapUpdate -------------------------------------------------------------------------------------
	add("MapUpdate", "v[1] = 2", "map[int]int", "", "$v[1] = 2")
	add("MapUpdate", "v[1]++", "map[int]int", "", "$v[1]++")
	add("control: MapLookup", "v[1]", "map[int]int", "$v[1] == 0", "sink += $v[1]")
	add("control: delete", "delete(v, 1)", "map[int]int", "", "delete($v, 1)")
	add("control: range over map", "range v", "map[int]int", "", "for k := range $v {", "\tsink += k", "}")
	add("control: len", "len(v)", "[]int", "len($v) == 0", "sink += len($v)")
	// --- channels: every operation on a nil (or unbuffered) channel blocks, so these are never executed ---
	add("Send", "v <- 1", "chan int", "", "$v <- 1").block = true
	add("Recv", "<-v", "chan int", "", "sink += <-$v").block = true
	add("Recv", "x, ok := <-v", "chan int", "", "x, ok := <-$v", "_ = ok", "sink += x").block = true
	add("Recv", "range v (chan)", "chan int", "", "for x := range $v {", "\tsink += x", "}").block = true
	add("Select", "select { case <-v: }", "chan int", "", "select {", "case x := <-$v:", "\tsink += x", "}").block = true
	add("control: Select with default", "select { case v <- 1: default: }", "chan int", "", "select {", "case $v <- 1:", "default:", "}")
	add("control: close", "close(v)", "chan int", "", "close($v)")
	// --- calls of function values ----------------------------------------------------------------------
	add("Call (function value)", "v()", "func() *int", "$v() != nil", "q := $v()", "_ = q")
	add("Defer (function value)", "defer v()", "func() *int", "", "defer $v()")
	add("Go (function value)", "go v()", "func() *int", "", "go $v()").block = true
	// --- interfaces ------------------------------------------------------------------------------------
	add("control: invoke", "v.M()", "I", "$v.M() == 7", "sink += $v.M()")
	add("control: MakeInterface", "any(v)", "*T", "any($v) != nil", "w := any($v)", "_ = w")
	add("control: pointer-receiver method", "v.P()", "*T", "$v.P() == nil", "q := $v.P()", "_ = q")
	add("TypeAssert", "v.(*T)", "I", "$v.(*T) != nil", "w := $v.(*T)", "_ = w")
	add("TypeAssert", "v.(I2)", "I", "$v.(I2) != nil", "w := $v.(I2)", "_ = w")
	add("TypeAssert", "v.(*int)", "any", "$v.(*int) != nil", "w := $v.(*int)", "_ = w")
	add("TypeAssert", "v.(int)", "any", "$v.(int) == 1", "sink += $v.(int)")
	add("control: TypeAssert comma-ok", "w, ok := v.(*T)", "I", "", "w, ok := $v.(*T)", "_, _ = w, ok")
	add("Extract(TypeSwitch)", "case *T", "I", "", "switch x := $v.(type) {", "case *T:", "\t_ = x", "}")
	add("Extract(TypeSwitch)", "case *int, *T", "any", "", "switch x := $v.(type) {", "case *int, *T:", "\t_ = x", "}")
	add("Extract(TypeSwitch)", "case I", "any", "", "switch x := $v.(type) {", "case I:", "\tsink += x.M()", "}")
	add("Extract(TypeSwitch)", "default after case nil", "any", "", "switch x := $v.(type) {", "case nil:", "\tsink++", "default:", "\t_ = x", "}")
	add("control: Extract(TypeSwitch) default", "default", "I", "", "switch x := $v.(type) {", "case *T:", "\tsink++", "default:", "\t_ = x", "}")
	// --- nil comparison (refinement by test) -----------------------------------------------------------
	add("If (nil comparison)", "if v == nil { return }", "*T", "", "if $v == nil {", "\treturn $ALT", "}").hasRet = true
	add("If (nil comparison)", "if v == nil { return } (iface)", "I", "", "if $v == nil {", "\treturn $ALT", "}").hasRet = true
	add("If (nil comparison)", "if v != nil { … } else { return }", "[]int", "", "if $v != nil {", "\tsink++", "} else {", "\treturn $ALT", "}").hasRet = true
	add("control: If (nil comparison), both branches join", "if v != nil { … }", "*T", "", "if $v != nil {", "\tsink++", "}")
	return out
}

type useSrc struct {
	name    string
	deflt   bool // the value's nilness comes from a default / the entry state, not from an instruction's transfer
	only    string
	params  func(t useTy) []string
	pre     func(t useTy) []string
	v       func(t useTy) string
	nilOnly bool // the value is nil in every execution
}

func useSources() []useSrc {
	none := func(useTy) []string { return nil }
	v := func(useTy) string { return "v" }
	return []useSrc{
		{name: "nil variable (var v R)", deflt: true, params: none, pre: func(t useTy) []string { return []string{"var v " + t.ty} }, v: v, nilOnly: true},
		{name: "typed nil literal", deflt: true, params: none, pre: func(t useTy) []string { return []string{"v := (" + t.ty + ")(nil)"} }, v: v, nilOnly: true},
		{name: "parameter", deflt: true, params: func(t useTy) []string { return []string{"v " + t.ty} }, pre: none, v: v},
		{name: "package variable, loaded once", params: none, pre: func(t useTy) []string { return []string{"v := gu_" + t.tag} }, v: v},
		{name: "package variable, loaded at every mention", params: none, pre: none, v: func(t useTy) string { return "gu_" + t.tag }},
		{name: "call result (MaybeNil callee)", params: func(t useTy) []string { return []string{"b bool"} }, pre: func(t useTy) []string { return []string{"v := mk_" + t.tag + "(b)"} }, v: v},
		{name: "call result (AlwaysNil callee)", params: none, pre: func(t useTy) []string { return []string{"v := nil_" + t.tag + "()"} }, v: v, nilOnly: true},
		{name: "phi(nil, parameter)", params: func(t useTy) []string { return []string{"p " + t.ty, "d bool"} },
			pre: func(t useTy) []string { return []string{"var v " + t.ty, "if d {", "\tv = p", "}"} }, v: v},
		{name: "function constant", deflt: true, only: "func() *int", params: none, pre: func(t useTy) []string { return []string{"v := mkNN"} }, v: v},
	}
}

var useShapes = []string{"if", "ifret", "ifelse", "early", "loop", "switch", "nested", "andcond", "recovered", "indefer", "always"}

func useShapeOK(u useKind, shape string) bool {
	switch shape {
	case "andcond":
		return u.cond != "" && !u.block
	case "indefer":
		return !u.hasRet
	case "always":
		return !u.block
	}
	return true
}

// useFunction renders (use, source, shape) as function U<idx>.
func useFunction(idx int, u useKind, s useSrc, shape string) (string, dirFn) {
	t := useTyOf(u.ty)
	var b strings.Builder
	w := func(ind int, f string, a ...any) {
		b.WriteString(strings.Repeat("\t", ind))
		fmt.Fprintf(&b, f, a...)
		b.WriteString("\n")
	}
	vx := s.v(t)
	alt := [...]string{"nil", t.nn}[idx%2]
	sub := func(l string) string {
		return strings.ReplaceAll(strings.ReplaceAll(l, "$v", vx), "$ALT", alt)
	}
	use := func(ind int) {
		for _, l := range u.stmts {
			w(ind, "%s", sub(l))
		}
	}
	params := append([]string{}, s.params(t)...)
	guard, loopBound, swCase := "c", "n", "1"
	if u.block {
		guard, loopBound, swCase = "n > 1", "n-1", "2"
	}
	needC, needN, needE := false, false, false
	switch shape {
	case "if", "ifret", "ifelse", "early", "andcond", "recovered", "indefer":
		needC = !u.block
		needN = u.block
	case "loop", "switch":
		needN = true
	case "nested":
		needC, needN, needE = !u.block, u.block, true
	}
	if needC {
		params = append(params, "c bool")
	}
	if needN {
		params = append(params, "n int")
	}
	if needE {
		params = append(params, "e bool")
	}
	name := fmt.Sprintf("U%d", idx)
	meta := dirFn{Name: name, Kind: "use/" + u.kind, Src: u.name + " <- " + s.name, Shape: shape, Res: t.ty}
	w(0, "// use %s: %s <- %s [%s]", u.kind, u.name, s.name, shape)
	w(0, "func %s(%s) %s {", name, strings.Join(params, ", "), t.ty)
	pre := func() {
		for _, l := range s.pre(t) {
			w(1, "%s", l)
		}
	}
	switch shape {
	case "if":
		pre()
		w(1, "if %s {", guard)
		use(2)
		w(1, "}")
	case "ifret":
		pre()
		w(1, "if %s {", guard)
		use(2)
		w(2, "return %s", [...]string{t.nn, "nil"}[idx%2])
		w(1, "}")
	case "ifelse":
		pre()
		w(1, "if %s {", guard)
		use(2)
		w(1, "} else {")
		w(2, "sink++")
		w(1, "}")
	case "early":
		pre()
		w(1, "if !(%s) {", guard)
		w(2, "return %s", vx)
		w(1, "}")
		use(1)
	case "loop":
		pre()
		w(1, "for i := 0; i < %s; i++ {", loopBound)
		use(2)
		w(1, "}")
	case "switch":
		pre()
		w(1, "switch n {")
		w(1, "case 0:")
		w(2, "sink++")
		w(1, "case %s:", swCase)
		use(2)
		w(1, "}")
	case "nested":
		pre()
		w(1, "if %s {", guard)
		w(2, "if e {")
		use(3)
		w(2, "}")
		w(1, "}")
	case "andcond":
		pre()
		w(1, "if %s && %s {", guard, sub(u.cond))
		w(2, "sink++")
		w(1, "}")
	case "recovered":
		w(1, "defer func() { _ = recover() }()")
		pre()
		w(1, "if %s {", guard)
		use(2)
		w(1, "}")
	case "indefer":
		w(1, "defer func() { _ = recover() }()")
		pre()
		w(1, "defer func() {")
		w(2, "if %s {", guard)
		use(3)
		w(2, "}")
		w(1, "}()")
	case "always":
		pre()
		use(1)
	}
	w(1, "return %s", vx)
	w(0, "}")
	w(0, "")
	return b.String(), meta
}

// genUsePrograms renders the refinement-by-use family into nprog programs.
//
//	full = false (quick): every use once; the source and the shape rotate with the use's index (offset by the
//	                      seed), so every source and every shape occurs several times in every run;
//	full = true (thorough): every use x every source; for the refining uses all shapes with the sources whose
//	                      nilness is a default (nil variable, parameter); two rotating shapes otherwise.
func genUsePrograms(seed int64, nprog int, full bool) ([]string, [][]dirFn) {
	uses := useKinds()
	srcs := useSources()
	type item struct {
		u     useKind
		s     useSrc
		shape string
	}
	var items []item
	srcsFor := func(u useKind) []useSrc {
		var out []useSrc
		for _, s := range srcs {
			if s.only == "" || s.only == u.ty {
				out = append(out, s)
			}
		}
		return out
	}
	shapesFor := func(u useKind) []string {
		var out []string
		for _, sh := range useShapes {
			if useShapeOK(u, sh) {
				out = append(out, sh)
			}
		}
		return out
	}
	off := int(seed % 1000)
	if off < 0 {
		off = -off
	}
	for i, u := range uses {
		ss, shs := srcsFor(u), shapesFor(u)
		if full {
			for j, s := range ss {
				if u.refines && (j == 0 || s.name == "parameter") {
					for _, sh := range shs {
						items = append(items, item{u, s, sh})
					}
				} else {
					k := (i + j + off) % len(shs)
					items = append(items, item{u, s, shs[k]}, item{u, s, shs[(k+1+(i+off)%(len(shs)-1))%len(shs)]})
				}
			}
		} else {
			// sources rotate with stride 1, shapes with a stride coprime to their number
			items = append(items, item{u, ss[(i+off)%len(ss)], shs[(i*3+off/len(ss)+off)%len(shs)]})
		}
	}
	texts := make([]strings.Builder, nprog)
	metas := make([][]dirFn, nprog)
	for i := range texts {
		texts[i].WriteString(usePrelude)
		texts[i].WriteString(useHelpers())
	}
	for i, it := range items {
		k := i % nprog
		t, m := useFunction(i, it.u, it.s, it.shape)
		texts[k].WriteString(t)
		metas[k] = append(metas[k], m)
	}
	out := make([]string, nprog)
	for i := range texts {
		out[i] = texts[i].String()
	}
	return out, metas
}
