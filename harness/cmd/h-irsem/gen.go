package main

// Seeded generator of type-correct, terminating Go programs over the executable subset of C01:
// ints (incl. int8/uint8 with wrap-around), bools, strings, arrays/slices, structs, pointers incl.
// address-taken and partially escaping locals, closures, methods (value/pointer receivers, promotion
// through embedding), interfaces/type switches, a generic helper, if/for/range(int, slice, array,
// string, map, func)/switch/fallthrough/goto/labelled break+continue, defer/recover with named
// results, multi-value returns, explicit and run-time panics.
//
// Invariants of the generated code (so that native behaviour is defined and the model's integer
// range suffices): every int variable is reduced modulo 1009 when assigned, multiplications have a
// small-constant operand, loops have constant trip counts <= 4 or a fuel counter, recursion only in the
// fixed helpers, appends are linear (s = append(s, ...)), capacity is never observed after growth.

import (
	"flag"
	"fmt"
	"math/rand"
	"os"
	"path/filepath"
	"strings"
)

const Prelude = `package main

func emitI(x int) { print("E emitI i:", x, "\n") }
func emitB(x bool) {
	if x {
		print("E emitB b:1\n")
	} else {
		print("E emitB b:0\n")
	}
}
func emitS(x string) {
	print("E emitS s:")
	for i := 0; i < len(x); i++ {
		if i > 0 {
			print(".")
		}
		print(x[i])
	}
	print("\n")
}

type S struct {
	a int
	b bool
	c [2]int
	p *int
	t string
}

func (s S) Sum() int      { return s.a + s.c[0] + s.c[1] }
func (s *S) Bump(d int)   { s.a = (s.a + d) % 1009; s.c[1]++ }

type Shape interface{ Area() int }
type Sq struct{ n int }
type Rc struct{ w, h int }
type Wr struct {
	Sq
	k int
}

func (q Sq) Area() int   { return q.n * q.n % 1009 }
func (r *Rc) Area() int  { return r.w * r.h % 1009 }
func (r *Rc) Grow(d int) { r.w += d }

func pick[T any](c bool, a, b T) T {
	if c {
		return a
	}
	return b
}

func upto(n int) func(func(int) bool) {
	return func(yield func(int) bool) {
		for i := 0; i < n; i++ {
			if !yield(i) {
				return
			}
		}
	}
}

func addTo(p *int, d int) { *p = (*p + d) % 1009 }
func swap(a, b *int)      { *a, *b = *b, *a }
func sumSl(s []int) (t int) {
	for _, v := range s {
		t = (t + v) % 1009
	}
	return
}
func divmod(a, b int) (q, r int, ok bool) {
	if b == 0 {
		return 0, 0, false
	}
	return a / b, a % b, true
}
func mayPanic(k int) int {
	if k%5 == 3 {
		panic(k)
	}
	return k + 1
}
var zero int

func fib(n int) int {
	if n < 2 {
		return n
	}
	return fib(n-1) + fib(n-2)
}
`

type typ int

const (
	tInt typ = iota
	tBool
	tStr
	tI8
	tU8
	tPtr
	tSl
	tArr
	tStruct
	tPS
	tMap
	tFn
	tIface
	nTypes
)

var typName = map[typ]string{tInt: "int", tBool: "bool", tStr: "string", tI8: "int8", tU8: "uint8", tPtr: "*int", tSl: "[]int",
	tArr: "[3]int", tStruct: "S", tPS: "*S", tMap: "map[int]int", tFn: "func(int) int", tIface: "Shape"}

type variable struct {
	name   string
	t      typ
	minLen int  // slices: statically known lower bound of len
	nonNil bool // pointers: known non-nil
	ro     bool // loop variables etc. must not be assigned
}

type gen struct {
	r       *rand.Rand
	b       strings.Builder
	ind     int
	scopes  [][]*variable
	nvar    int
	nlabel  int
	helpers []helper // previously generated functions callable from here
	named   []string // named results of the current function (assignable ints)
	inLoop  int
	inDefer bool
	budget  int // remaining statements for the current function
}

type helper struct {
	name   string
	params []typ
	res    []typ
}

func (g *gen) w(format string, a ...any) {
	g.b.WriteString(strings.Repeat("\t", g.ind))
	fmt.Fprintf(&g.b, format, a...)
	g.b.WriteString("\n")
}

func (g *gen) push() { g.scopes = append(g.scopes, nil) }
func (g *gen) pop()  { g.scopes = g.scopes[:len(g.scopes)-1] }
func (g *gen) declare(t typ) *variable {
	g.nvar++
	v := &variable{name: fmt.Sprintf("v%d", g.nvar), t: t}
	g.scopes[len(g.scopes)-1] = append(g.scopes[len(g.scopes)-1], v)
	return v
}
func (g *gen) vars(t typ, assignable bool) []*variable {
	var out []*variable
	for _, s := range g.scopes {
		for _, v := range s {
			if v.t == t && (!assignable || !v.ro) {
				out = append(out, v)
			}
		}
	}
	return out
}
func (g *gen) pickVar(t typ, assignable bool) *variable {
	vs := g.vars(t, assignable)
	if len(vs) == 0 {
		return nil
	}
	return vs[g.r.Intn(len(vs))]
}
func (g *gen) chance(p int) bool { return g.r.Intn(100) < p }

// ---- expressions -------------------------------------------------------------------------------

func (g *gen) smallConst() string { return fmt.Sprint(g.r.Intn(9) - 2) }

// safe index into something of length n
func (g *gen) index(n int, d int) string {
	if n <= 0 {
		return "0"
	}
	if g.chance(50) || d <= 0 {
		return fmt.Sprint(g.r.Intn(n))
	}
	if g.chance(4) {
		return "(" + g.intExpr(d-1) + " + zero)" // may be out of range: run-time panic (zero keeps it non-constant)
	}
	return fmt.Sprintf("((%s)%%%d+%d)%%%d", g.intExpr(d-1), n, n, n)
}

func (g *gen) intLeaf() string {
	switch g.r.Intn(10) {
	case 0, 1, 2, 3:
		if v := g.pickVar(tInt, false); v != nil {
			return v.name
		}
	case 4:
		if v := g.pickVar(tStruct, false); v != nil {
			return v.name + [...]string{".a", ".c[0]", ".c[1]"}[g.r.Intn(3)]
		}
	case 5:
		if v := g.pickVar(tArr, false); v != nil {
			return fmt.Sprintf("%s[%d]", v.name, g.r.Intn(3))
		}
	case 6:
		if v := g.pickVar(tSl, false); v != nil && v.minLen > 0 {
			return fmt.Sprintf("%s[%d]", v.name, g.r.Intn(v.minLen))
		}
	case 7:
		if v := g.pickVar(tPtr, false); v != nil && (v.nonNil || g.chance(10)) {
			return "*" + v.name
		}
	}
	return g.smallConst()
}

func (g *gen) intExpr(d int) string {
	if d <= 0 || g.chance(25) {
		return g.intLeaf()
	}
	switch g.r.Intn(22) {
	case 0, 1, 2:
		return fmt.Sprintf("(%s + %s)", g.intExpr(d-1), g.intExpr(d-1))
	case 3, 4:
		return fmt.Sprintf("(%s - %s)", g.intExpr(d-1), g.intExpr(d-1))
	case 5:
		return fmt.Sprintf("(%s * %s)", g.intLeaf(), g.smallConst())
	case 6:
		return fmt.Sprintf("(%s / %d)", g.intExpr(d-1), g.r.Intn(5)+2)
	case 7:
		return fmt.Sprintf("(%s %% %d)", g.intExpr(d-1), g.r.Intn(7)+2)
	case 8:
		if g.chance(30) {
			return fmt.Sprintf("(%s / (%s + zero))", g.intExpr(d-1), g.intLeaf()) // may divide by zero
		}
		return fmt.Sprintf("(%s %% (%s%%5+7))", g.intExpr(d-1), g.intLeaf())
	case 9:
		op := [...]string{"&", "|", "^", "&^"}[g.r.Intn(4)]
		return fmt.Sprintf("(%s %s %s)", g.intExpr(d-1), op, g.intExpr(d-1))
	case 10:
		return fmt.Sprintf("(%s >> %d)", g.intExpr(d-1), g.r.Intn(4))
	case 11:
		return fmt.Sprintf("(%s << %d)", g.intLeaf(), g.r.Intn(4))
	case 12:
		return fmt.Sprintf("(-(%s))", g.intExpr(d-1))
	case 13:
		if v := g.pickVar(tSl, false); v != nil {
			if g.chance(50) {
				return "len(" + v.name + ")"
			}
			if v.minLen > 0 {
				return fmt.Sprintf("%s[%s]", v.name, g.index(v.minLen, d))
			}
		}
		if v := g.pickVar(tStr, false); v != nil {
			return "len(" + v.name + ")"
		}
	case 14:
		if v := g.pickVar(tArr, false); v != nil {
			return fmt.Sprintf("%s[%s]", v.name, g.index(3, d))
		}
	case 15:
		if v := g.pickVar(tMap, false); v != nil {
			return fmt.Sprintf("%s[%s]", v.name, g.mapKey())
		}
	case 16:
		if v := g.pickVar(tFn, false); v != nil && !g.inDefer {
			return fmt.Sprintf("%s(%s)", v.name, g.intExpr(d-1))
		}
	case 17:
		if v := g.pickVar(tIface, false); v != nil && (v.nonNil || g.chance(10)) {
			return v.name + ".Area()"
		}
		if v := g.pickVar(tStruct, false); v != nil {
			return v.name + ".Sum()"
		}
	case 18:
		if h := g.pickHelper([]typ{tInt}); h != nil && !g.inDefer {
			return g.callHelper(h, d-1)
		}
		return fmt.Sprintf("fib(%d)", g.r.Intn(6))
	case 19:
		t := [...]typ{tI8, tU8}[g.r.Intn(2)]
		return fmt.Sprintf("int(%s)", g.sizedExpr(t, d-1))
	case 20:
		return fmt.Sprintf("pick(%s, %s, %s)", g.boolExpr(d-1), g.intExpr(d-1), g.intExpr(d-1))
	case 21:
		if g.chance(50) {
			return fmt.Sprintf("min(%s, %s)", g.intExpr(d-1), g.intExpr(d-1))
		}
		return fmt.Sprintf("max(%s, %s, %s)", g.intExpr(d-1), g.intLeaf(), g.smallConst())
	}
	return g.intLeaf()
}

func (g *gen) mapKey() string {
	if g.chance(70) {
		return fmt.Sprint(g.r.Intn(3))
	}
	return fmt.Sprintf("(%s)%%3", g.intLeaf())
}

func (g *gen) sizedExpr(t typ, d int) string {
	n := typName[t]
	if d <= 0 || g.chance(30) {
		if v := g.pickVar(t, false); v != nil && g.chance(60) {
			return v.name
		}
		return fmt.Sprintf("%s(%s + zero)", n, g.intLeaf())
	}
	switch g.r.Intn(6) {
	case 0:
		return fmt.Sprintf("(%s + %s)", g.sizedExpr(t, d-1), g.sizedExpr(t, d-1))
	case 1:
		return fmt.Sprintf("(%s * %s)", g.sizedExpr(t, d-1), g.sizedExpr(t, d-1))
	case 2:
		return fmt.Sprintf("(%s - %s)", g.sizedExpr(t, d-1), g.sizedExpr(t, d-1))
	case 3:
		return fmt.Sprintf("(%s >> %d)", g.sizedExpr(t, d-1), g.r.Intn(3)+1)
	case 4:
		return fmt.Sprintf("(%s << %d)", g.sizedExpr(t, d-1), g.r.Intn(9))
	}
	return fmt.Sprintf("(^%s)", g.sizedExpr(t, d-1))
}

func (g *gen) boolExpr(d int) string {
	if d <= 0 || g.chance(20) {
		if v := g.pickVar(tBool, false); v != nil && g.chance(60) {
			return v.name
		}
		if v := g.pickVar(tStruct, false); v != nil && g.chance(20) {
			return v.name + ".b"
		}
		return fmt.Sprintf("%s %s %s", g.intLeaf(), [...]string{"<", "<=", "==", "!=", ">", ">="}[g.r.Intn(6)], g.intLeaf())
	}
	switch g.r.Intn(9) {
	case 0, 1:
		return fmt.Sprintf("(%s && %s)", g.boolExpr(d-1), g.boolExpr(d-1))
	case 2, 3:
		return fmt.Sprintf("(%s || %s)", g.boolExpr(d-1), g.boolExpr(d-1))
	case 4:
		return fmt.Sprintf("!(%s)", g.boolExpr(d-1))
	case 5:
		return fmt.Sprintf("%s %s %s", g.intExpr(d-1), [...]string{"<", "<=", "==", "!=", ">", ">="}[g.r.Intn(6)], g.intExpr(d-1))
	case 6:
		return fmt.Sprintf("%s %s %s", g.strExpr(d-1), [...]string{"<", "==", "!=", ">="}[g.r.Intn(4)], g.strExpr(d-1))
	case 7:
		if v := g.pickVar(tPtr, false); v != nil {
			if w := g.pickVar(tPtr, false); w != nil && g.chance(50) {
				return fmt.Sprintf("%s == %s", v.name, w.name)
			}
			return v.name + " != nil"
		}
		if v := g.pickVar(tIface, false); v != nil {
			return v.name + " == nil"
		}
		if v := g.pickVar(tSl, false); v != nil {
			return v.name + " == nil"
		}
	case 8:
		if v := g.pickVar(tStruct, false); v != nil {
			if w := g.pickVar(tStruct, false); w != nil {
				return fmt.Sprintf("%s == %s", v.name, w.name)
			}
		}
		if v := g.pickVar(tArr, false); v != nil {
			return fmt.Sprintf("%s == [3]int{%s, 1, 2}", v.name, g.smallConst())
		}
	}
	return fmt.Sprintf("%s < %s", g.intExpr(d-1), g.intExpr(d-1))
}

var strLits = []string{`""`, `"a"`, `"bc"`, `"hé"`, `"z"`}

func (g *gen) strExpr(d int) string {
	if d <= 0 || g.chance(40) {
		if v := g.pickVar(tStr, false); v != nil && g.chance(70) {
			return v.name
		}
		return strLits[g.r.Intn(len(strLits))]
	}
	switch g.r.Intn(6) {
	case 0, 1:
		return fmt.Sprintf("(%s + %s)", g.strExpr(d-1), g.strExpr(d-1))
	case 2:
		if v := g.pickVar(tStr, false); v != nil {
			return fmt.Sprintf("%s[min(%d, len(%s)):]", v.name, g.r.Intn(3), v.name)
		}
	case 3:
		return fmt.Sprintf("string(rune(65 + (%s)%%26&31))", g.intLeaf())
	case 4:
		if v := g.pickVar(tStruct, false); v != nil {
			return v.name + ".t"
		}
	case 5:
		return fmt.Sprintf("pick(%s, %s, %s)", g.boolExpr(d-1), g.strExpr(d-1), g.strExpr(d-1))
	}
	return strLits[g.r.Intn(len(strLits))]
}

func (g *gen) expr(t typ, d int) string {
	switch t {
	case tInt:
		return g.intExpr(d)
	case tBool:
		return g.boolExpr(d)
	case tStr:
		return g.strExpr(d)
	case tI8, tU8:
		return g.sizedExpr(t, d)
	}
	return g.newValue(t, d).expr
}

type valueExpr struct {
	expr   string
	minLen int
	nonNil bool
}

// newValue builds an expression of a composite type.
func (g *gen) newValue(t typ, d int) valueExpr {
	switch t {
	case tPtr:
		if v := g.pickVar(tInt, true); v != nil && g.chance(55) {
			return valueExpr{expr: "&" + v.name, nonNil: true}
		}
		if v := g.pickVar(tStruct, true); v != nil && g.chance(30) {
			return valueExpr{expr: "&" + v.name + ".a", nonNil: true}
		}
		if v := g.pickVar(tArr, true); v != nil && g.chance(30) {
			return valueExpr{expr: fmt.Sprintf("&%s[%d]", v.name, g.r.Intn(3)), nonNil: true}
		}
		if g.chance(8) {
			return valueExpr{expr: "(*int)(nil)"}
		}
		return valueExpr{expr: "new(int)", nonNil: true}
	case tSl:
		switch g.r.Intn(5) {
		case 0:
			n := g.r.Intn(3) + 1
			var es []string
			for i := 0; i < n; i++ {
				es = append(es, g.intExpr(d-1))
			}
			return valueExpr{expr: "[]int{" + strings.Join(es, ", ") + "}", minLen: n}
		case 1:
			n := g.r.Intn(3) + 1
			return valueExpr{expr: fmt.Sprintf("make([]int, %d, %d)", n, n+g.r.Intn(3)), minLen: n}
		case 2:
			if v := g.pickVar(tArr, true); v != nil {
				lo := g.r.Intn(2)
				return valueExpr{expr: fmt.Sprintf("%s[%d:]", v.name, lo), minLen: 3 - lo}
			}
		case 3:
			if v := g.pickVar(tSl, false); v != nil && v.minLen >= 2 {
				return valueExpr{expr: fmt.Sprintf("%s[1:%d]", v.name, v.minLen), minLen: v.minLen - 1}
			}
		}
		return valueExpr{expr: "[]int(nil)"}
	case tArr:
		if v := g.pickVar(tArr, false); v != nil && g.chance(30) {
			return valueExpr{expr: v.name}
		}
		if g.chance(30) {
			return valueExpr{expr: fmt.Sprintf("[3]int{%d: %s}", g.r.Intn(3), g.intExpr(d-1))}
		}
		return valueExpr{expr: fmt.Sprintf("[3]int{%s, %s, %s}", g.intExpr(d-1), g.intExpr(d-1), g.intExpr(d-1))}
	case tStruct:
		if v := g.pickVar(tStruct, false); v != nil && g.chance(25) {
			return valueExpr{expr: v.name}
		}
		if v := g.pickVar(tPS, false); v != nil && v.nonNil && g.chance(25) {
			return valueExpr{expr: "*" + v.name}
		}
		if g.chance(40) {
			return valueExpr{expr: fmt.Sprintf("S{a: %s, t: %s}", g.intExpr(d-1), g.strExpr(d-1))}
		}
		p := "nil"
		if v := g.pickVar(tPtr, false); v != nil {
			p = v.name
		}
		return valueExpr{expr: fmt.Sprintf("S{%s, %s, [2]int{%s, %s}, %s, %s}", g.intExpr(d-1), g.boolExpr(d-1), g.intLeaf(), g.intLeaf(), p, g.strExpr(d-1))}
	case tPS:
		if v := g.pickVar(tStruct, true); v != nil && g.chance(60) {
			return valueExpr{expr: "&" + v.name, nonNil: true}
		}
		if g.chance(6) {
			return valueExpr{expr: "(*S)(nil)"}
		}
		return valueExpr{expr: fmt.Sprintf("&S{a: %s}", g.intExpr(d-1)), nonNil: true}
	case tMap:
		if g.chance(50) {
			return valueExpr{expr: fmt.Sprintf("map[int]int{%d: %s}", g.r.Intn(3), g.intExpr(d-1)), nonNil: true}
		}
		return valueExpr{expr: "make(map[int]int)", nonNil: true}
	case tIface:
		switch g.r.Intn(5) {
		case 0:
			return valueExpr{expr: fmt.Sprintf("Shape(Sq{%s})", g.intLeaf()), nonNil: true}
		case 1:
			return valueExpr{expr: fmt.Sprintf("Shape(&Rc{%s, %s})", g.intLeaf(), g.intLeaf()), nonNil: true}
		case 2:
			return valueExpr{expr: fmt.Sprintf("Shape(Wr{Sq{%s}, 1})", g.intLeaf()), nonNil: true}
		case 3:
			return valueExpr{expr: fmt.Sprintf("Shape(&Wr{Sq{%s}, 2})", g.intLeaf()), nonNil: true}
		}
		return valueExpr{expr: "Shape(nil)"}
	}
	panic("newValue")
}

func (g *gen) pickHelper(res []typ) *helper {
	var ok []*helper
	for i := range g.helpers {
		h := &g.helpers[i]
		if len(h.res) == len(res) {
			same := true
			for j := range res {
				if h.res[j] != res[j] {
					same = false
				}
			}
			if same {
				ok = append(ok, h)
			}
		}
	}
	if len(ok) == 0 {
		return nil
	}
	return ok[g.r.Intn(len(ok))]
}

func (g *gen) callHelper(h *helper, d int) string {
	var as []string
	for _, p := range h.params {
		as = append(as, g.expr(p, d))
	}
	return fmt.Sprintf("%s(%s)", h.name, strings.Join(as, ", "))
}

// ---- statements --------------------------------------------------------------------------------

func clamp(e string) string { return fmt.Sprintf("(%s) %% 1009", e) }

func (g *gen) emitVar(v *variable) {
	switch v.t {
	case tInt:
		g.w("emitI(%s)", v.name)
	case tBool:
		g.w("emitB(%s)", v.name)
	case tStr:
		g.w("emitS(%s)", v.name)
	case tI8, tU8:
		g.w("emitI(int(%s))", v.name)
	case tArr:
		g.w("emitI(%s[0] + %s[1]*3 + %s[2]*5)", v.name, v.name, v.name)
	case tStruct:
		g.w("emitI(%s.Sum())", v.name)
		g.w("emitS(%s.t)", v.name)
	case tSl:
		g.w("emitI(len(%s)*1000 + sumSl(%s))", v.name, v.name)
	case tPtr:
		if v.nonNil {
			g.w("emitI(*%s)", v.name)
		} else {
			g.w("emitB(%s == nil)", v.name)
		}
	case tPS:
		if v.nonNil {
			g.w("emitI(%s.a)", v.name)
		} else {
			g.w("emitB(%s == nil)", v.name)
		}
	case tMap:
		g.w("emitI(len(%s)*100 + %s[0] + %s[1]*3 + %s[2]*7)", v.name, v.name, v.name, v.name)
	case tIface:
		if v.nonNil {
			g.w("emitI(%s.Area())", v.name)
		} else {
			g.w("emitB(%s == nil)", v.name)
		}
	case tFn:
		g.w("emitI(%s(1))", v.name)
	}
}

func (g *gen) declStmt() {
	t := typ(g.r.Intn(int(nTypes)))
	if g.chance(35) {
		t = tInt
	}
	if t == tFn {
		g.closureDecl()
		return
	}
	switch t {
	case tInt:
		e := clamp(g.intExpr(3))
		v := g.declare(t)
		if g.chance(30) {
			g.w("var %s int = %s", v.name, e)
		} else {
			g.w("%s := %s", v.name, e)
		}
	case tBool, tStr, tI8, tU8:
		e := g.expr(t, 3)
		v := g.declare(t)
		if t == tI8 || t == tU8 {
			g.w("var %s %s = %s", v.name, typName[t], e)
		} else if g.chance(15) {
			g.w("var %s %s", v.name, typName[t])
		} else {
			g.w("%s := %s", v.name, e)
		}
	default:
		ve := g.newValue(t, 2)
		v := g.declare(t)
		v.minLen, v.nonNil = ve.minLen, ve.nonNil
		if t == tMap && !ve.nonNil {
			v.nonNil = false
		}
		g.w("%s := %s", v.name, ve.expr)
	}
	v := g.scopes[len(g.scopes)-1][len(g.scopes[len(g.scopes)-1])-1]
	g.w("_ = %s", v.name)
}

func (g *gen) closureDecl() {
	v := g.declare(tFn)
	v.ro = true
	g.w("%s := func(x int) int {", v.name)
	g.ind++
	g.push()
	p := &variable{name: "x", t: tInt}
	g.scopes[len(g.scopes)-1] = append(g.scopes[len(g.scopes)-1], p)
	saveLoop, saveBudget := g.inLoop, g.budget
	g.inLoop = 0
	g.budget = 2 + g.r.Intn(3)
	hide := g.hideFn(v)
	g.block(2)
	g.w("return %s", clamp(g.intExpr(2)))
	hide()
	g.inLoop, g.budget = saveLoop, saveBudget
	g.pop()
	g.ind--
	g.w("}")
	g.w("_ = %s", v.name)
}

// hideFn makes closure variables unavailable inside their own body (no recursion)
func (g *gen) hideFn(v *variable) func() {
	old := v.t
	v.t = nTypes
	return func() { v.t = old }
}

func (g *gen) assignStmt() {
	switch g.r.Intn(16) {
	case 0, 1, 2:
		if v := g.pickVar(tInt, true); v != nil {
			g.w("%s = %s", v.name, clamp(g.intExpr(3)))
			return
		}
	case 3:
		if v := g.pickVar(tInt, true); v != nil {
			op := [...]string{"+=", "-=", "|=", "&=", "^="}[g.r.Intn(5)]
			g.w("%s %s %s", v.name, op, g.intExpr(2))
			g.w("%s %%= 1009", v.name)
			return
		}
	case 4:
		if v := g.pickVar(tInt, true); v != nil {
			if g.chance(50) {
				g.w("%s++", v.name)
			} else {
				g.w("%s--", v.name)
			}
			return
		}
	case 5:
		if v, w := g.pickVar(tInt, true), g.pickVar(tInt, true); v != nil && w != nil && v != w {
			g.w("%s, %s = %s, %s", v.name, w.name, w.name, clamp(g.intExpr(2)))
			return
		}
	case 6:
		if v := g.pickVar(tBool, true); v != nil {
			g.w("%s = %s", v.name, g.boolExpr(3))
			return
		}
	case 7:
		if v := g.pickVar(tStr, true); v != nil {
			if g.chance(50) {
				g.w("if len(%s) < 8 {", v.name)
				g.w("\t%s += %s", v.name, g.strExpr(1))
				g.w("}")
			} else {
				g.w("%s = %s", v.name, g.strExpr(2))
			}
			return
		}
	case 8:
		if v := g.pickVar(tStruct, true); v != nil {
			switch g.r.Intn(5) {
			case 0:
				g.w("%s.a = %s", v.name, clamp(g.intExpr(2)))
			case 1:
				g.w("%s.c[%s] = %s", v.name, g.index(2, 2), clamp(g.intExpr(2)))
			case 2:
				g.w("%s.b = %s", v.name, g.boolExpr(2))
			case 3:
				g.w("%s.Bump(%s)", v.name, g.intLeaf())
			case 4:
				g.w("%s = %s", v.name, g.newValue(tStruct, 2).expr)
			}
			return
		}
	case 9:
		if v := g.pickVar(tArr, true); v != nil {
			if g.chance(80) {
				g.w("%s[%s] = %s", v.name, g.index(3, 2), clamp(g.intExpr(2)))
			} else {
				g.w("%s = %s", v.name, g.newValue(tArr, 2).expr)
			}
			return
		}
	case 10:
		if v := g.pickVar(tSl, true); v != nil {
			switch {
			case v.minLen > 0 && g.chance(50):
				g.w("%s[%s] = %s", v.name, g.index(v.minLen, 2), clamp(g.intExpr(2)))
			case g.chance(60):
				g.w("%s = append(%s, %s)", v.name, v.name, clamp(g.intExpr(2)))
				v.minLen++
			default:
				if w := g.pickVar(tSl, false); w != nil {
					g.w("copy(%s, %s)", v.name, w.name)
				} else {
					g.w("%s = append(%s, 1, 2)", v.name, v.name)
					v.minLen += 2
				}
			}
			return
		}
	case 11:
		if v := g.pickVar(tPtr, false); v != nil && (v.nonNil || g.chance(8)) {
			switch g.r.Intn(3) {
			case 0:
				g.w("*%s = %s", v.name, clamp(g.intExpr(2)))
			case 1:
				g.w("addTo(%s, %s)", v.name, g.intLeaf())
			case 2:
				if w := g.pickVar(tPtr, false); w != nil && w.nonNil {
					g.w("swap(%s, %s)", v.name, w.name)
				} else {
					g.w("*%s += 3", v.name)
				}
			}
			return
		}
	case 12:
		if v := g.pickVar(tPS, false); v != nil && (v.nonNil || g.chance(8)) {
			if g.chance(50) {
				g.w("%s.a = %s", v.name, clamp(g.intExpr(2)))
			} else {
				g.w("%s.Bump(%s)", v.name, g.intLeaf())
			}
			return
		}
	case 13:
		if v := g.pickVar(tMap, false); v != nil {
			switch g.r.Intn(4) {
			case 0, 1:
				g.w("%s[%s] = %s", v.name, g.mapKey(), clamp(g.intExpr(2)))
			case 2:
				g.w("%s[%s]++", v.name, g.mapKey())
			case 3:
				g.w("delete(%s, %s)", v.name, g.mapKey())
			}
			return
		}
	case 14:
		if v := g.pickVar(tIface, true); v != nil {
			ve := g.newValue(tIface, 1)
			g.w("%s = %s", v.name, ve.expr)
			v.nonNil = v.nonNil && ve.nonNil
			return
		}
	case 15:
		if len(g.named) > 0 {
			g.w("%s = %s", g.named[g.r.Intn(len(g.named))], clamp(g.intExpr(2)))
			return
		}
	}
	if v := g.pickVar(tInt, true); v != nil {
		g.w("%s = %s", v.name, clamp(g.intExpr(2)))
	} else {
		g.w("emitI(%s)", g.intExpr(2))
	}
}

func (g *gen) emitStmt() {
	var all []*variable
	for _, s := range g.scopes {
		all = append(all, s...)
	}
	var ok []*variable
	for _, v := range all {
		if v.t < nTypes && !(g.inDefer && v.t == tFn) {
			ok = append(ok, v)
		}
	}
	if len(ok) == 0 || g.chance(20) {
		switch g.r.Intn(3) {
		case 0:
			g.w("emitI(%s)", g.intExpr(2))
		case 1:
			g.w("emitB(%s)", g.boolExpr(2))
		case 2:
			g.w("emitS(%s)", g.strExpr(2))
		}
		return
	}
	g.emitVar(ok[g.r.Intn(len(ok))])
}

func (g *gen) ifStmt(d int) {
	if g.chance(20) {
		g.w("if t := %s; t%%2 == 0 {", g.intExpr(2))
	} else {
		g.w("if %s {", g.boolExpr(3))
	}
	g.ind++
	g.push()
	g.block(d - 1)
	g.pop()
	g.ind--
	if g.chance(30) {
		g.w("} else if %s {", g.boolExpr(2))
		g.ind++
		g.push()
		g.block(d - 1)
		g.pop()
		g.ind--
	}
	if g.chance(55) {
		g.w("} else {")
		g.ind++
		g.push()
		g.block(d - 1)
		g.pop()
		g.ind--
	}
	g.w("}")
}

func (g *gen) loopBody(d int, label string) {
	g.inLoop++
	g.push()
	if label != "" || g.chance(35) {
		kw := "continue"
		if g.chance(50) {
			kw = "break"
		}
		if label != "" {
			kw += " " + label
		}
		g.w("if %s {", g.boolExpr(2))
		g.w("\t%s", kw)
		g.w("}")
	}
	g.block(d - 1)
	g.pop()
	g.inLoop--
}

func (g *gen) forStmt(d int) {
	label := ""
	if g.chance(25) {
		g.nlabel++
		label = fmt.Sprintf("L%d", g.nlabel)
		g.w("%s:", label)
	}
	g.push()
	defer g.pop()
	i := g.declareLoopVar(tInt)
	switch g.r.Intn(8) {
	case 0, 1:
		g.w("for %s := 0; %s < %d; %s++ {", i.name, i.name, g.r.Intn(4)+1, i.name)
	case 2:
		g.w("for %s := range %d {", i.name, g.r.Intn(4)+1)
	case 3:
		// condition loop with fuel
		g.w("for %s := 0; %s && %s < %d; %s++ {", i.name, g.boolExpr(2), i.name, g.r.Intn(3)+2, i.name)
	case 4:
		if v := g.pickVar(tSl, false); v != nil {
			e := g.declareLoopVar(tInt)
			g.w("for %s, %s := range %s {", i.name, e.name, v.name)
			g.w("\t_, _ = %s, %s", i.name, e.name)
			break
		}
		fallthrough
	case 5:
		if v := g.pickVar(tArr, false); v != nil {
			e := g.declareLoopVar(tInt)
			amp := ""
			if g.chance(30) && !v.ro {
				amp = "&"
			}
			g.w("for %s, %s := range %s%s {", i.name, e.name, amp, v.name)
			g.w("\t_, _ = %s, %s", i.name, e.name)
			break
		}
		fallthrough
	case 6:
		if v := g.pickVar(tMap, false); v != nil && d <= 2 {
			e := g.declareLoopVar(tInt)
			g.w("for %s, %s := range %s {", i.name, e.name, v.name)
			g.w("\t_, _ = %s, %s", i.name, e.name)
			break
		}
		if v := g.pickVar(tStr, false); v != nil {
			e := g.declareLoopVar(tInt)
			g.w("for %s, r%s := range %s {", i.name, e.name, v.name)
			g.w("\t%s := int(r%s)", e.name, e.name)
			g.w("\t_, _ = %s, %s", i.name, e.name)
			break
		}
		fallthrough
	default:
		g.w("for %s := range upto(%d) {", i.name, g.r.Intn(4)+1)
	}
	g.ind++
	g.w("_ = %s", i.name)
	g.loopBody(d, label)
	g.ind--
	g.w("}")
}

func (g *gen) declareLoopVar(t typ) *variable {
	g.nvar++
	v := &variable{name: fmt.Sprintf("v%d", g.nvar), t: t, ro: true}
	g.scopes[len(g.scopes)-1] = append(g.scopes[len(g.scopes)-1], v)
	return v
}

func (g *gen) pick2(a, b string) string {
	if g.chance(50) {
		return a
	}
	return b
}

func (g *gen) switchStmt(d int) {
	switch g.r.Intn(4) {
	case 3: // constant cases over a boolean tag that needs control flow of its own (&&, ||)
		g.w("switch %s {", g.pick2(g.boolExpr(1)+" && "+g.boolExpr(2), g.boolExpr(2)+" || "+g.boolExpr(1)))
		g.w("case true:")
		g.ind++
		g.push()
		g.block(d - 1)
		g.pop()
		fell := g.chance(25)
		if fell {
			g.w("fallthrough")
		}
		g.ind--
		if fell || g.chance(60) {
			g.w("case false:")
			g.ind++
			g.push()
			g.block(d - 1)
			g.pop()
			g.ind--
		}
		if g.chance(30) {
			g.w("default:")
			g.ind++
			g.push()
			g.block(d - 1)
			g.pop()
			g.ind--
		}
		g.w("}")
	case 0: // expression switch with fallthrough
		g.w("switch %s %% 4 {", g.intExpr(2))
		n := g.r.Intn(3) + 1
		for k := 0; k < n; k++ {
			if g.chance(25) {
				g.w("case %d, %d:", k, k+4)
			} else {
				g.w("case %d:", k)
			}
			g.ind++
			g.push()
			g.block(d - 1)
			g.pop()
			if k+1 < n && g.chance(30) {
				g.w("fallthrough")
			}
			g.ind--
		}
		if g.chance(60) {
			g.w("default:")
			g.ind++
			g.push()
			g.block(d - 1)
			g.pop()
			g.ind--
		}
		g.w("}")
	case 1: // tagless
		g.w("switch {")
		for k := 0; k < g.r.Intn(3)+1; k++ {
			g.w("case %s:", g.boolExpr(2))
			g.ind++
			g.push()
			g.block(d - 1)
			if g.inLoop > 0 && g.chance(15) {
				g.w("break")
			}
			g.pop()
			g.ind--
		}
		g.w("default:")
		g.ind++
		g.push()
		g.block(d - 1)
		g.pop()
		g.ind--
		g.w("}")
	case 2: // type switch
		v := g.pickVar(tIface, false)
		src := ""
		if v != nil {
			src = v.name
		} else {
			src = g.newValue(tIface, 1).expr
		}
		g.w("switch y := any(%s).(type) {", src)
		g.w("case Sq:")
		g.w("\temitI(y.n)")
		g.w("case *Rc:")
		g.ind++
		g.w("y.Grow(1)")
		g.w("emitI(y.w)")
		g.push()
		g.block(d - 1)
		g.pop()
		g.ind--
		if g.chance(50) {
			g.w("case Wr, *Wr:")
			g.w("\temitI(y.(Shape).Area())")
		}
		g.w("case nil:")
		g.w("\temitI(-1)")
		if g.chance(50) {
			g.w("case Shape:")
			g.w("\temitI(y.Area() + 1)")
		} else {
			g.w("default:")
			g.w("\t_ = y")
		}
		g.w("}")
	}
}

func (g *gen) gotoStmt(d int) {
	g.nlabel++
	c := g.declare(tInt)
	c.ro = true
	l := fmt.Sprintf("G%d", g.nlabel)
	g.w("%s := 0", c.name)
	g.w("%s:", l)
	g.w("%s++", c.name)
	g.push()
	g.w("{")
	g.ind++
	g.block(d - 1)
	g.ind--
	g.w("}")
	g.pop()
	g.w("if %s < %d && %s {", c.name, g.r.Intn(3)+2, g.boolExpr(2))
	g.w("\tgoto %s", l)
	g.w("}")
}

func (g *gen) deferStmt() {
	switch g.r.Intn(3) {
	case 0:
		g.w("defer emitI(%s)", g.intExpr(2))
	case 1:
		g.w("defer func() {")
		g.ind++
		g.push()
		save, saveLoop, saveBudget := g.inDefer, g.inLoop, g.budget
		g.inDefer, g.inLoop, g.budget = true, 0, 2
		g.block(1)
		g.inDefer, g.inLoop, g.budget = save, saveLoop, saveBudget
		g.pop()
		g.ind--
		g.w("}()")
	case 2:
		g.w("defer func() {")
		g.ind++
		g.w("if e := recover(); e != nil {")
		g.ind++
		g.w("if k, ok := e.(int); ok {")
		g.w("\temitI(k)")
		g.w("} else {")
		g.w("\temitI(-7)")
		g.w("}")
		if len(g.named) > 0 {
			g.w("%s = %s", g.named[g.r.Intn(len(g.named))], clamp(g.intExpr(1)))
		}
		g.ind--
		g.w("}")
		g.ind--
		g.w("}()")
	}
}

func (g *gen) callStmt() {
	if len(g.helpers) > 0 && g.chance(70) {
		h := &g.helpers[g.r.Intn(len(g.helpers))]
		call := g.callHelper(h, 2)
		if len(h.res) == 0 {
			g.w("%s", call)
			return
		}
		var lhs []string
		var vs []*variable
		g.w("{")
		g.ind++
		g.push()
		for _, t := range h.res {
			v := g.declare(t)
			v.nonNil = false
			vs = append(vs, v)
			lhs = append(lhs, v.name)
		}
		g.w("%s := %s", strings.Join(lhs, ", "), call)
		for _, v := range vs {
			g.emitVar(v)
		}
		g.pop()
		g.ind--
		g.w("}")
		return
	}
	switch g.r.Intn(3) {
	case 0:
		g.w("emitI(mayPanic(%s))", g.intExpr(2))
	case 1:
		g.w("if q, r, ok := divmod(%s, %s); ok {", g.intExpr(2), g.intLeaf())
		g.w("\temitI(q*7 + r)")
		g.w("}")
	case 2:
		if v := g.pickVar(tSl, false); v != nil {
			g.w("emitI(sumSl(%s))", v.name)
		} else {
			g.w("emitI(fib(%s %% 7))", g.intLeaf())
		}
	}
}

func (g *gen) stmt(d int) {
	g.budget--
	k := g.r.Intn(100)
	switch {
	case k < 18:
		g.declStmt()
	case k < 42:
		g.assignStmt()
	case k < 54:
		g.emitStmt()
	case k < 64 && d > 0:
		g.ifStmt(d)
	case k < 74 && d > 0:
		g.forStmt(d)
	case k < 80 && d > 0:
		g.switchStmt(d)
	case k < 83 && d > 0 && !g.inDefer:
		g.gotoStmt(d)
	case k < 87 && !g.inDefer:
		g.deferStmt()
	case k < 93 && !g.inDefer:
		g.callStmt()
	case k < 95 && !g.inDefer:
		g.w("if %s {", g.boolExpr(2))
		if g.chance(50) {
			g.w("\tpanic(%s)", g.intLeaf())
		} else {
			g.w("\tpanic(%s)", g.strExpr(1))
		}
		g.w("}")
	case k < 97:
		g.w("{")
		g.ind++
		g.push()
		g.block(d - 1)
		g.pop()
		g.ind--
		g.w("}")
	default:
		g.assignStmt()
	}
}

func (g *gen) block(d int) {
	n := 1 + g.r.Intn(3)
	for i := 0; i < n && g.budget > 0; i++ {
		g.stmt(d)
	}
	if n == 0 || g.budget <= 0 {
		g.w("_ = 0")
	}
}

func sig(ps []typ, names bool) string {
	var s []string
	for i, p := range ps {
		if names {
			s = append(s, fmt.Sprintf("p%d %s", i, typName[p]))
		} else {
			s = append(s, typName[p])
		}
	}
	return strings.Join(s, ", ")
}

func (g *gen) function(name string, params, results []typ, namedRes bool, size int) {
	g.scopes = nil
	g.push()
	g.named = nil
	for i, p := range params {
		v := &variable{name: fmt.Sprintf("p%d", i), t: p, minLen: 0}
		g.scopes[0] = append(g.scopes[0], v)
	}
	res := ""
	if len(results) > 0 {
		if namedRes {
			var rs []string
			for i, t := range results {
				n := fmt.Sprintf("r%d", i)
				rs = append(rs, n+" "+typName[t])
				v := &variable{name: n, t: t}
				g.scopes[0] = append(g.scopes[0], v)
				if t == tInt {
					g.named = append(g.named, n)
				}
			}
			res = " (" + strings.Join(rs, ", ") + ")"
		} else {
			res = " (" + sig(results, false) + ")"
		}
	}
	g.w("func %s(%s)%s {", name, sig(params, true), res)
	g.ind++
	g.budget = size
	g.inLoop, g.inDefer = 0, false
	g.push()
	for g.budget > 0 {
		g.stmt(3)
	}
	// final observation of the locals of the outermost block
	for _, v := range g.scopes[len(g.scopes)-1] {
		if v.t < nTypes && v.t != tFn && g.chance(60) {
			g.emitVar(v)
		}
	}
	var rs []string
	for _, t := range results {
		if t == tInt {
			rs = append(rs, clamp(g.intExpr(2)))
		} else {
			rs = append(rs, g.expr(t, 2))
		}
	}
	if len(results) > 0 {
		if namedRes && g.chance(40) {
			g.w("return")
		} else {
			g.w("return %s", strings.Join(rs, ", "))
		}
	}
	g.pop()
	g.ind--
	g.w("}")
	g.w("")
}

func genProgram(seed int64, nfut int) string {
	g := &gen{r: rand.New(rand.NewSource(seed))}
	g.b.WriteString(Prelude)
	g.b.WriteString("\n")
	// helpers with richer signatures, callable from the functions under test
	nh := 2 + g.r.Intn(3)
	for i := 0; i < nh; i++ {
		var ps, rs []typ
		for k := 0; k < 1+g.r.Intn(3); k++ {
			ps = append(ps, []typ{tInt, tInt, tBool, tPtr, tSl, tStruct, tPS, tIface, tStr, tArr, tMap}[g.r.Intn(11)])
		}
		for k := 0; k < g.r.Intn(3); k++ {
			rs = append(rs, []typ{tInt, tInt, tBool, tStr, tStruct}[g.r.Intn(5)])
		}
		name := fmt.Sprintf("h%d", i)
		g.function(name, ps, rs, g.chance(40), 4+g.r.Intn(5))
		g.helpers = append(g.helpers, helper{name: name, params: ps, res: rs})
	}
	for i := 0; i < nfut; i++ {
		var ps, rs []typ
		np := 1 + g.r.Intn(3)
		for k := 0; k < np; k++ {
			ps = append(ps, []typ{tInt, tInt, tInt, tBool, tStr, tI8, tU8}[g.r.Intn(7)])
		}
		for k := 0; k < g.r.Intn(3); k++ {
			rs = append(rs, []typ{tInt, tInt, tBool, tStr}[g.r.Intn(4)])
		}
		g.function(fmt.Sprintf("F%d", i), ps, rs, g.chance(50), 6+g.r.Intn(10))
	}
	return g.b.String()
}

func cmdGen(args []string) {
	fs := flag.NewFlagSet("gen", flag.ExitOnError)
	seed := fs.Int64("seed", 1, "seed")
	n := fs.Int("n", 1, "number of programs")
	nfut := fs.Int("futs", 6, "functions under test per program")
	dir := fs.String("dir", ".", "output directory")
	fs.Parse(args)
	for i := 0; i < *n; i++ {
		src := genProgram(*seed*1000003+int64(i), *nfut)
		if err := os.WriteFile(filepath.Join(*dir, fmt.Sprintf("gen_%d_%d.go", *seed, i)), []byte(src), 0o644); err != nil {
			die("%v", err)
		}
	}
}
