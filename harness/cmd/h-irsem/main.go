// h-irsem — Go-side helper of checks C01/C15 (specs/IRSem.tla).
//
//	h-irsem export -src prog.go [-modes naive,lifted,naive+debug,lifted+debug] -out prog.json
//	    builds the package with the REAL go/ir builder (current /repo tree) in every requested mode and
//	    writes {"progs":[Prog...], "futs":[...]} (see export.go)
//	h-irsem driver -src prog.go -out main_native.go [-max 64]
//	    writes the native driver: one call of every function under test per input vector, printing
//	    CALL / emit / RET / PANIC lines through println (stderr)
//	h-irsem gen -seed N -n K -dir D      seeded program generator (gen.go)
//	h-irsem dump -src prog.go -mode lifted [-fn name]   printed IR (diagnostics)
package main

import (
	"encoding/json"
	"flag"
	"fmt"
	"go/ast"
	"go/parser"
	"go/token"
	"go/types"
	"os"
	"sort"
	"strings"

	"honnef.co/go/tools/go/ir"
	"honnef.co/go/tools/go/ir/irutil"
)

func die(format string, a ...any) {
	fmt.Fprintf(os.Stderr, "h-irsem: "+format+"\n", a...)
	os.Exit(2)
}

var modeBits = map[string]ir.BuilderMode{
	"naive":        ir.NaiveForm | ir.InstantiateGenerics,
	"lifted":       ir.InstantiateGenerics,
	"naive+debug":  ir.NaiveForm | ir.InstantiateGenerics | ir.GlobalDebug,
	"lifted+debug": ir.InstantiateGenerics | ir.GlobalDebug,
}

func parse(src string) (*token.FileSet, []*ast.File) {
	fset := token.NewFileSet()
	var files []*ast.File
	for _, s := range strings.Split(src, ",") {
		f, err := parser.ParseFile(fset, s, nil, parser.ParseComments|parser.SkipObjectResolution)
		if err != nil {
			die("parse: %v", err)
		}
		files = append(files, f)
	}
	return fset, files
}

func build(src string, mode ir.BuilderMode) (*ir.Package, *types.Info) {
	fset, files := parse(src)
	pkg, info, err := irutil.BuildPackage(&types.Config{}, fset, types.NewPackage("main", "main"), files, mode)
	if err != nil {
		die("build: %v", err)
	}
	return pkg, info
}

// FUT describes one function under test: exported-name top-level function whose parameters and
// results are all of basic int/bool/string kinds.
type FUT struct {
	Name    string   `json:"name"`
	Params  []string `json:"params"` // "int" | "bool" | "str" | "int8" ... (basic kind names)
	Results []string `json:"results"`
}

func basicName(t types.Type) string {
	b, ok := types.Unalias(t).Underlying().(*types.Basic)
	if !ok {
		return ""
	}
	switch b.Kind() {
	case types.Int:
		return "int"
	case types.Int8:
		return "int8"
	case types.Int16:
		return "int16"
	case types.Uint8:
		return "uint8"
	case types.Uint16:
		return "uint16"
	case types.Bool:
		return "bool"
	case types.String:
		return "string"
	}
	return ""
}

func futs(pkg *types.Package) []FUT {
	var out []FUT
	names := pkg.Scope().Names()
	sort.Strings(names)
	for _, n := range names {
		fn, ok := pkg.Scope().Lookup(n).(*types.Func)
		if !ok || !fn.Exported() {
			continue
		}
		sig := fn.Type().(*types.Signature)
		if sig.TypeParams().Len() > 0 || sig.Variadic() {
			continue
		}
		f := FUT{Name: n, Params: []string{}, Results: []string{}}
		ok = true
		for i := 0; i < sig.Params().Len(); i++ {
			b := basicName(sig.Params().At(i).Type())
			if pt := types.Unalias(sig.Params().At(i).Type()); b == "" || pt != pt.Underlying() {
				ok = false // only unnamed basic parameter types (the driver converts constants to them)
			}
			f.Params = append(f.Params, b)
		}
		for i := 0; i < sig.Results().Len(); i++ {
			b := basicName(sig.Results().At(i).Type())
			if b == "" {
				ok = false
			}
			f.Results = append(f.Results, b)
		}
		if ok {
			out = append(out, f)
		}
	}
	return out
}

func cmdExport(args []string) {
	fs := flag.NewFlagSet("export", flag.ExitOnError)
	src := fs.String("src", "", "source file(s), comma separated")
	modes := fs.String("modes", "naive,lifted,naive+debug,lifted+debug", "builder modes")
	out := fs.String("out", "", "output JSON")
	fs.Parse(args)
	type doc struct {
		Progs []Prog `json:"progs"`
		Futs  []FUT  `json:"futs"`
	}
	d := doc{Progs: []Prog{}, Futs: []FUT{}}
	for _, m := range strings.Split(*modes, ",") {
		bits, ok := modeBits[m]
		if !ok {
			die("unknown mode %q", m)
		}
		pkg, _ := build(*src, bits)
		ex := &exporter{prog: pkg.Prog, pkg: pkg, fnIdx: map[*ir.Function]int{}, globIdx: map[*ir.Global]int{}, rtSeen: map[string]bool{}}
		d.Progs = append(d.Progs, ex.export(m))
		if len(d.Futs) == 0 {
			d.Futs = futs(pkg.Pkg)
			if d.Futs == nil {
				d.Futs = []FUT{}
			}
		}
	}
	b, err := json.Marshal(d)
	if err != nil {
		die("marshal: %v", err)
	}
	if *out == "" {
		os.Stdout.Write(b)
	} else if err := os.WriteFile(*out, b, 0o644); err != nil {
		die("%v", err)
	}
}

func cmdDump(args []string) {
	fs := flag.NewFlagSet("dump", flag.ExitOnError)
	src := fs.String("src", "", "source file")
	mode := fs.String("mode", "lifted", "builder mode")
	only := fs.String("fn", "", "function name")
	fs.Parse(args)
	pkg, _ := build(*src, modeBits[*mode])
	var names []string
	for n := range pkg.Members {
		names = append(names, n)
	}
	sort.Strings(names)
	var dump func(fn *ir.Function)
	dump = func(fn *ir.Function) {
		fn.WriteTo(os.Stdout)
		for _, a := range fn.AnonFuncs {
			dump(a)
		}
	}
	for _, n := range names {
		if fn, ok := pkg.Members[n].(*ir.Function); ok && (*only == "" || *only == n) {
			dump(fn)
		}
	}
}

func main() {
	if len(os.Args) < 2 {
		die("usage: h-irsem export|driver|gen|dump ...")
	}
	switch os.Args[1] {
	case "export":
		cmdExport(os.Args[2:])
	case "driver":
		cmdDriver(os.Args[2:])
	case "gen":
		cmdGen(os.Args[2:])
	case "dump":
		cmdDump(os.Args[2:])
	case "gennil":
		cmdGenNil(os.Args[2:])
	case "claims":
		cmdClaims(os.Args[2:])
	case "nilexport":
		cmdNilExport(os.Args[2:])
	default:
		die("unknown subcommand %q", os.Args[1])
	}
}
