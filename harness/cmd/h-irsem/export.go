package main

// IR export for specs/IRSem.tla.
//
// Everything read here is exported go/ir API (Function.Blocks, BasicBlock.Instrs/Preds/Succs,
// Instruction fields, Value.Type, Program.MethodSets/MethodValue), i.e. what analyses see.
// The export never contains JSON null; every runtime value is a record of ONE uniform shape
// (Val), every operand a record of one shape (Ref), every instruction a record of one shape
// (Instr).  Const / Parameter / FreeVar / Global / Function are operands, not instructions.

import (
	"fmt"
	"go/constant"
	"go/token"
	"go/types"
	"sort"
	"strings"

	"honnef.co/go/tools/go/ir"
)

// Val is the uniform runtime value record of IRSem.tla.
//
//	k     kind: int bool str ptr slice iface func map struct array tuple iter dstk chan undef unsup
//	i     int value / bool 0,1 / heap address (ptr, slice base, map, iter; 0 = nil) / function index (func; 0 = nil)
//	a,b,c slice offset, length, capacity
//	t     dynamic type tag (iface; "" = nil interface)
//	p     sequence of ints: sub-object path (ptr, slice base), bytes (str)
//	e     sequence of values: fields / elements / tuple components / interface payload <<v>> / closure bindings
type Val struct {
	K string `json:"k"`
	I int64  `json:"i"`
	A int64  `json:"a"`
	B int64  `json:"b"`
	C int64  `json:"c"`
	T string `json:"t"`
	P []int  `json:"p"`
	E []Val  `json:"e"`
}

func mk(k string) Val  { return Val{K: k, P: []int{}, E: []Val{}} }
func intV(i int64) Val { v := mk("int"); v.I = i; return v }
func boolV(b bool) Val {
	v := mk("bool")
	if b {
		v.I = 1
	}
	return v
}
func strV(s string) Val {
	v := mk("str")
	for i := 0; i < len(s); i++ {
		v.P = append(v.P, int(s[i]))
	}
	return v
}
func unsupV(why string) Val { v := mk("unsup"); v.T = why; return v }
func funcV(idx int) Val     { v := mk("func"); v.I = int64(idx); return v }
func ptrV(addr int) Val     { v := mk("ptr"); v.I = int64(addr); return v }

// Ref is an operand: k="r" register i of the current frame, k="c" constant v.
type Ref struct {
	K string `json:"k"`
	I int    `json:"i"`
	V Val    `json:"v"`
}

// Cond is one TypeSwitch / TypeAssert target: k = "c" concrete (tags[1]), "i" interface (tags = all
// runtime type tags of the program that implement it), "n" nil.
type Cond struct {
	K    string   `json:"k"`
	Tags []string `json:"tags"`
}

type Instr struct {
	Op   string   `json:"op"`
	R    int      `json:"r"`    // destination register (0 = none)
	Args []Ref    `json:"args"` // operands
	Sub  string   `json:"sub"`  // operator token / call mode / conversion kind / collection kind
	N    int      `json:"n"`    // small integer: field index, CommaOk, bit width, presence mask, ...
	M    int      `json:"m"`    // second small integer: signedness, ...
	Aux  []Val    `json:"aux"`  // zero values the instruction may need
	Tags []string `json:"tags"` // type tags / names
	Cs   []Cond   `json:"cs"`   // type-switch conditions
	Txt  string   `json:"txt"`  // printed form (diagnostics only)
	Chk  int      `json:"chk"`  // C15: 1 = comparison claimed never true, 2 = claimed always true (set by the check)
	Pos  string   `json:"pos"`  // "line:col" of the source expression (comparisons only)
}

type Block struct {
	Preds  []int   `json:"preds"`
	Succs  []int   `json:"succs"`
	Instrs []Instr `json:"instrs"`
	Name   string  `json:"name"`
}

type Fn struct {
	Name     string   `json:"name"`
	Synth    string   `json:"synth"`
	Extern   int      `json:"extern"` // 1 = emit*: a call is an observable event; 2 = other body-less function
	Params   []int    `json:"params"`
	FreeVars []int    `json:"freevars"`
	NRegs    int      `json:"nregs"`
	NRes     int      `json:"nres"`
	ZeroRes  []Val    `json:"zerores"`
	Recover  int      `json:"recover"` // block index (1-based), 0 = none
	Blocks   []Block  `json:"blocks"`
	Unsup    []string `json:"unsup"` // instruction kinds / types outside the fragment
	Ops      []string `json:"ops"`   // instruction kinds used (coverage)
}

type Global struct {
	Name string `json:"name"`
	Zero Val    `json:"zero"`
}

type Prog struct {
	Mode    string                    `json:"mode"`
	Fns     []Fn                      `json:"fns"`
	Globals []Global                  `json:"globals"`
	Methods map[string]map[string]int `json:"methods"` // type tag -> method name -> function index
	Init    int                       `json:"init"`
}

type exporter struct {
	prog    *ir.Program
	pkg     *ir.Package          // the package under test (package main)
	pkgs    map[*ir.Package]bool // all packages built from syntax (nil: only pkg)
	fset    *token.FileSet
	fnIdx   map[*ir.Function]int
	fns     []*ir.Function
	globIdx map[*ir.Global]int
	globs   []*ir.Global
	rtTypes []types.Type // MakeInterface operand types (runtime types)
	rtSeen  map[string]bool
	chans   bool // C15 only: channels used by a single goroutine (buffered send / receive / close) are inside the fragment
}

func typeTag(t types.Type) string {
	return types.TypeString(types.Unalias(t), nil)
}

const rtErrTag = "runtime.Error"

func (ex *exporter) own(p *ir.Package) bool {
	return p == ex.pkg || (ex.pkgs != nil && ex.pkgs[p])
}

func (ex *exporter) addFn(f *ir.Function) int {
	if i, ok := ex.fnIdx[f]; ok {
		return i
	}
	ex.fns = append(ex.fns, f)
	ex.fnIdx[f] = len(ex.fns)
	return len(ex.fns)
}

func (ex *exporter) addGlobal(g *ir.Global) int {
	if i, ok := ex.globIdx[g]; ok {
		return i
	}
	ex.globs = append(ex.globs, g)
	ex.globIdx[g] = len(ex.globs)
	return len(ex.globs)
}

func (ex *exporter) addRT(t types.Type) {
	tag := typeTag(t)
	if !ex.rtSeen[tag] {
		ex.rtSeen[tag] = true
		ex.rtTypes = append(ex.rtTypes, t)
	}
}

const maxArray = 64

// zero materialises the zero value of t.
func zero(t types.Type) Val {
	switch u := types.Unalias(t).Underlying().(type) {
	case *types.Basic:
		switch {
		case u.Info()&types.IsInteger != 0:
			return intV(0)
		case u.Info()&types.IsBoolean != 0:
			return boolV(false)
		case u.Info()&types.IsString != 0:
			return strV("")
		case u.Kind() == types.UntypedNil:
			return mk("undef")
		}
		return unsupV("type " + u.String())
	case *types.Pointer:
		return ptrV(0)
	case *types.Slice:
		return mk("slice")
	case *types.Map:
		return mk("map")
	case *types.Chan:
		return mk("chan")
	case *types.Signature:
		return mk("func")
	case *types.Interface:
		return mk("iface")
	case *types.Struct:
		v := mk("struct")
		for i := 0; i < u.NumFields(); i++ {
			v.E = append(v.E, zero(u.Field(i).Type()))
		}
		return v
	case *types.Array:
		if u.Len() > maxArray {
			return unsupV("array too long")
		}
		v := mk("array")
		z := zero(u.Elem())
		for i := int64(0); i < u.Len(); i++ {
			v.E = append(v.E, z)
		}
		return v
	case *types.Tuple:
		v := mk("tuple")
		for i := 0; i < u.Len(); i++ {
			v.E = append(v.E, zero(u.At(i).Type()))
		}
		return v
	}
	return unsupV(fmt.Sprintf("type %T", t.Underlying()))
}

func hasUnsup(v Val) string {
	if v.K == "unsup" {
		return v.T
	}
	for _, e := range v.E {
		if s := hasUnsup(e); s != "" {
			return s
		}
	}
	return ""
}

const intLimit = 1 << 30

func (ex *exporter) constVal(c *ir.Const) Val {
	if c.Value == nil {
		return zero(c.Type())
	}
	t := types.Unalias(c.Type()).Underlying()
	if _, ok := t.(*types.TypeParam); ok {
		return unsupV("const of type parameter type")
	}
	if _, ok := t.(*types.Interface); ok {
		return unsupV("const of interface type")
	}
	switch c.Value.Kind() {
	case constant.Bool:
		return boolV(constant.BoolVal(c.Value))
	case constant.String:
		return strV(constant.StringVal(c.Value))
	case constant.Int:
		if b, ok := t.(*types.Basic); ok && b.Info()&types.IsInteger != 0 {
			i, exact := constant.Int64Val(c.Value)
			if !exact || i > intLimit || i < -intLimit {
				return unsupV("integer constant out of the modelled range")
			}
			return intV(i)
		}
		return unsupV("numeric constant of non-integer type")
	}
	return unsupV("constant kind " + c.Value.Kind().String())
}

func (ex *exporter) aggVal(fx *fnExp, a *ir.AggregateConst) Val {
	k := "struct"
	if _, ok := types.Unalias(a.Type()).Underlying().(*types.Array); ok {
		k = "array"
	}
	v := mk(k)
	for _, x := range a.Values {
		r := fx.ref(x)
		if r.K != "c" {
			return unsupV("non-constant AggregateConst element")
		}
		v.E = append(v.E, r.V)
	}
	return v
}

type fnExp struct {
	ex    *exporter
	fn    *ir.Function
	regs  map[ir.Value]int
	unsup map[string]bool
	ops   map[string]bool
}

func (fx *fnExp) bad(why string) {
	fx.unsup[why] = true
}

func (fx *fnExp) ref(v ir.Value) Ref {
	c := func(val Val) Ref {
		if s := hasUnsup(val); s != "" {
			fx.bad(s)
		}
		return Ref{K: "c", V: val}
	}
	switch v := v.(type) {
	case nil:
		return c(mk("undef"))
	case *ir.Const:
		return c(fx.ex.constVal(v))
	case *ir.AggregateConst:
		return c(fx.ex.aggVal(fx, v))
	case *ir.Function:
		return c(funcV(fx.ex.addFn(v)))
	case *ir.Global:
		if !fx.ex.own(v.Pkg) {
			return c(unsupV("global of another package"))
		}
		return c(ptrV(fx.ex.addGlobal(v)))
	case *ir.Builtin:
		return c(unsupV("builtin as value"))
	}
	if i, ok := fx.regs[v]; ok {
		return Ref{K: "r", I: i, V: mk("undef")}
	}
	return c(unsupV(fmt.Sprintf("operand %T of another function", v)))
}

func intInfo(t types.Type) (bits int, signed int, ok bool) {
	b, isb := types.Unalias(t).Underlying().(*types.Basic)
	if !isb || b.Info()&types.IsInteger == 0 {
		return 0, 0, false
	}
	switch b.Kind() {
	case types.Int8:
		return 8, 1, true
	case types.Int16:
		return 16, 1, true
	case types.Int32:
		return 32, 1, true
	case types.Int64, types.Int, types.UntypedInt, types.UntypedRune:
		return 64, 1, true
	case types.Uint8:
		return 8, 0, true
	case types.Uint16:
		return 16, 0, true
	case types.Uint32:
		return 32, 0, true
	case types.Uint64, types.Uint, types.Uintptr:
		return 64, 0, true
	}
	return 0, 0, false
}

func basicClass(t types.Type) string {
	switch u := types.Unalias(t).Underlying().(type) {
	case *types.Basic:
		switch {
		case u.Info()&types.IsInteger != 0:
			return "int"
		case u.Info()&types.IsBoolean != 0:
			return "bool"
		case u.Info()&types.IsString != 0:
			return "str"
		case u.Info()&(types.IsFloat|types.IsComplex) != 0:
			return "float"
		case u.Kind() == types.UnsafePointer:
			return "unsafe"
		}
		return "basic"
	case *types.Pointer:
		return "ptr"
	case *types.Slice:
		return "slice"
	case *types.Map:
		return "map"
	case *types.Chan:
		return "chan"
	case *types.Signature:
		return "func"
	case *types.Interface:
		return "iface"
	case *types.Struct:
		return "struct"
	case *types.Array:
		return "array"
	case *types.TypeParam:
		return "tparam"
	}
	return "other"
}

func isByteSlice(t types.Type) bool {
	s, ok := types.Unalias(t).Underlying().(*types.Slice)
	if !ok {
		return false
	}
	b, ok := types.Unalias(s.Elem()).Underlying().(*types.Basic)
	return ok && b.Kind() == types.Uint8
}

func isRuneSlice(t types.Type) bool {
	s, ok := types.Unalias(t).Underlying().(*types.Slice)
	if !ok {
		return false
	}
	b, ok := types.Unalias(s.Elem()).Underlying().(*types.Basic)
	return ok && b.Kind() == types.Int32
}

func (ex *exporter) condFor(t types.Type) Cond {
	if b, ok := t.(*types.Basic); ok && b.Kind() == types.UntypedNil {
		return Cond{K: "n", Tags: []string{}}
	}
	if it, ok := types.Unalias(t).Underlying().(*types.Interface); ok {
		c := Cond{K: "i", Tags: []string{}}
		for _, rt := range ex.rtTypes {
			if types.Implements(rt, it) {
				c.Tags = append(c.Tags, typeTag(rt))
			}
		}
		// the value of a run-time panic (runtime.Error) implements any, error, runtime.Error-like interfaces
		okRt := true
		for i := 0; i < it.NumMethods(); i++ {
			n := it.Method(i).Name()
			if n != "Error" && n != "RuntimeError" {
				okRt = false
			}
		}
		if okRt {
			c.Tags = append(c.Tags, rtErrTag)
		}
		sort.Strings(c.Tags)
		return c
	}
	return Cond{K: "c", Tags: []string{typeTag(t)}}
}

func isEmit(f *ir.Function) bool {
	return f.Parent() == nil && f.Signature.Recv() == nil && strings.HasPrefix(f.Name(), "emit")
}

func (ex *exporter) exportFn(f *ir.Function) Fn {
	out := Fn{Name: f.String(), Synth: f.Synthetic, Params: []int{}, FreeVars: []int{}, ZeroRes: []Val{}, Blocks: []Block{}, Unsup: []string{}, Ops: []string{}}
	if f.Parent() != nil {
		out.Name = f.Parent().String() + "/" + f.Name()
	}
	fx := &fnExp{ex: ex, fn: f, regs: map[ir.Value]int{}, unsup: map[string]bool{}, ops: map[string]bool{}}
	res := f.Signature.Results()
	out.NRes = res.Len()
	for i := 0; i < res.Len(); i++ {
		z := zero(res.At(i).Type())
		if s := hasUnsup(z); s != "" {
			fx.bad(s)
		}
		out.ZeroRes = append(out.ZeroRes, z)
	}
	if f.Blocks == nil || isEmit(f) {
		out.Extern = 2
		if isEmit(f) {
			out.Extern = 1
		}
		out.Unsup = keys(fx.unsup)
		return out
	}
	if f.TypeParams().Len() > 0 && len(f.TypeArgs()) == 0 {
		fx.bad("generic function body")
	}
	n := 0
	for _, p := range f.Params {
		n++
		fx.regs[p] = n
		out.Params = append(out.Params, n)
	}
	for _, p := range f.FreeVars {
		n++
		fx.regs[p] = n
		out.FreeVars = append(out.FreeVars, n)
	}
	for _, b := range f.Blocks {
		for _, ins := range b.Instrs {
			if v, ok := ins.(ir.Value); ok {
				n++
				fx.regs[v] = n
			}
		}
	}
	out.NRegs = n
	if f.Recover != nil {
		out.Recover = f.Recover.Index + 1
	}
	for _, b := range f.Blocks {
		bl := Block{Preds: []int{}, Succs: []int{}, Instrs: []Instr{}, Name: b.Comment}
		for _, p := range b.Preds {
			bl.Preds = append(bl.Preds, p.Index+1)
		}
		for _, s := range b.Succs {
			bl.Succs = append(bl.Succs, s.Index+1)
		}
		for _, ins := range b.Instrs {
			bl.Instrs = append(bl.Instrs, fx.instr(ins))
		}
		out.Blocks = append(out.Blocks, bl)
	}
	out.Unsup = keys(fx.unsup)
	out.Ops = keys(fx.ops)
	return out
}

func keys(m map[string]bool) []string {
	r := []string{}
	for k := range m {
		r = append(r, k)
	}
	sort.Strings(r)
	return r
}

func (fx *fnExp) call(in *Instr, c *ir.CallCommon) {
	if c.IsInvoke() {
		in.Sub = "invoke"
		in.Tags = []string{c.Method.Name()}
		in.Args = append(in.Args, fx.ref(c.Value))
	} else if b, ok := c.Value.(*ir.Builtin); ok {
		in.Sub = "builtin"
		name := b.Name()
		in.Tags = []string{name}
		in.Args = append(in.Args, Ref{K: "c", V: mk("undef")})
		switch name {
		case "len", "cap":
			in.Tags = append(in.Tags, basicClass(c.Args[0].Type()))
		case "append":
			// append([]T, []T...) or append([]byte, string...)
			in.Tags = append(in.Tags, basicClass(c.Args[1].Type()))
		case "copy":
			in.Tags = append(in.Tags, basicClass(c.Args[1].Type()))
		case "min", "max":
			in.Tags = append(in.Tags, basicClass(c.Args[0].Type()))
			if basicClass(c.Args[0].Type()) == "float" {
				fx.bad("float min/max")
			}
		case "clear":
			in.Tags = append(in.Tags, basicClass(c.Args[0].Type()))
			if s, ok := types.Unalias(c.Args[0].Type()).Underlying().(*types.Slice); ok {
				in.Aux = append(in.Aux, zero(s.Elem()))
			}
		case "delete", "recover", "panic", "print", "println", "ssa:deferstack", "ssa:wrapnilchk":
		case "close":
			if !fx.ex.chans {
				fx.bad("builtin " + name)
			}
		default:
			fx.bad("builtin " + name)
		}
	} else {
		in.Sub = "fn"
		in.Args = append(in.Args, fx.ref(c.Value))
	}
	for _, a := range c.Args {
		in.Args = append(in.Args, fx.ref(a))
	}
}

func (fx *fnExp) instr(ins ir.Instruction) Instr {
	in := Instr{Args: []Ref{}, Aux: []Val{}, Tags: []string{}, Cs: []Cond{}, Txt: ins.String()}
	if v, ok := ins.(ir.Value); ok {
		in.R = fx.regs[v]
		in.Txt = v.Name() + " = " + in.Txt
	}
	args := func(vs ...ir.Value) {
		for _, v := range vs {
			in.Args = append(in.Args, fx.ref(v))
		}
	}
	aux := func(t types.Type) {
		z := zero(t)
		if s := hasUnsup(z); s != "" {
			fx.bad(s)
		}
		in.Aux = append(in.Aux, z)
	}
	wrap := func(t types.Type) {
		if bits, signed, ok := intInfo(t); ok {
			in.N, in.M = bits, signed
		}
	}
	switch i := ins.(type) {
	case *ir.DebugRef:
		in.Op = "debugref"
	case *ir.BlankStore:
		in.Op = "blankstore"
	case *ir.Alloc:
		in.Op = "alloc"
		if i.Heap {
			in.N = 1
		}
		aux(i.Type().Underlying().(*types.Pointer).Elem())
	case *ir.Store:
		in.Op = "store"
		args(i.Addr, i.Val)
	case *ir.Load:
		in.Op = "load"
		args(i.X)
	case *ir.BinOp:
		in.Op = "binop"
		in.Sub = i.Op.String()
		args(i.X, i.Y)
		cls := basicClass(i.X.Type())
		in.Tags = []string{cls}
		if src := i.Source(); src != nil && fx.ex.fset != nil && (i.Op == token.EQL || i.Op == token.NEQ) {
			pos := fx.ex.fset.Position(src.Pos())
			in.Pos = fmt.Sprintf("%d:%d", pos.Line, pos.Column)
		}
		switch i.Op {
		case token.EQL, token.NEQ:
			if cls == "float" || cls == "tparam" || cls == "unsafe" || (cls == "chan" && !fx.ex.chans) {
				fx.bad("comparison of " + cls)
			}
		case token.SHL, token.SHR:
			wrap(i.Type()) // the register's own type decides the wrap-around
			if cls != "int" {
				fx.bad("shift of " + cls)
			}
		default:
			wrap(i.Type())
			if cls != "int" && cls != "str" && cls != "bool" {
				fx.bad("arithmetic on " + cls)
			}
		}
	case *ir.UnOp:
		in.Op = "unop"
		in.Sub = i.Op.String()
		args(i.X)
		wrap(i.Type())
		cls := basicClass(i.X.Type())
		if cls != "int" && cls != "bool" {
			fx.bad("unary operator on " + cls)
		}
	case *ir.Phi:
		in.Op = "phi"
		args(i.Edges...)
	case *ir.Call:
		in.Op = "call"
		fx.call(&in, &i.Call)
	case *ir.Defer:
		in.Op = "defer"
		fx.call(&in, &i.Call)
		if i.DeferStack != nil {
			in.N = 1
			args(i.DeferStack)
		}
	case *ir.Go:
		in.Op = "go"
		fx.bad("go statement")
	case *ir.ChangeType:
		in.Op = "changetype"
		args(i.X)
	case *ir.ChangeInterface:
		in.Op = "changeinterface"
		args(i.X)
	case *ir.Convert:
		in.Op = "convert"
		args(i.X)
		from, to := basicClass(i.X.Type()), basicClass(i.Type())
		switch {
		case from == "int" && to == "int":
			in.Sub = "int2int"
			wrap(i.Type())
		case from == "str" && isByteSlice(i.Type()):
			in.Sub = "str2bytes"
		case to == "str" && isByteSlice(i.X.Type()):
			in.Sub = "bytes2str"
		case from == "str" && isRuneSlice(i.Type()):
			in.Sub = "str2runes"
		case to == "str" && isRuneSlice(i.X.Type()):
			in.Sub = "runes2str"
		case from == "int" && to == "str":
			in.Sub = "int2str"
		default:
			in.Sub = from + "2" + to
			fx.bad("convert " + from + " to " + to)
		}
	case *ir.MultiConvert:
		in.Op = "multiconvert"
		fx.bad("MultiConvert")
	case *ir.SliceToArrayPointer:
		in.Op = "slicetoarrayptr"
		args(i.X)
		in.N = int(i.Type().Underlying().(*types.Pointer).Elem().Underlying().(*types.Array).Len())
	case *ir.SliceToArray:
		in.Op = "slicetoarray"
		args(i.X)
		in.N = int(i.Type().Underlying().(*types.Array).Len())
	case *ir.MakeInterface:
		in.Op = "makeinterface"
		args(i.X)
		in.Tags = []string{typeTag(i.X.Type())}
	case *ir.MakeClosure:
		in.Op = "makeclosure"
		args(i.Fn)
		args(i.Bindings...)
	case *ir.MakeMap:
		in.Op = "makemap"
	case *ir.MakeChan:
		in.Op = "makechan"
		if fx.ex.chans {
			args(i.Size)
		} else {
			fx.bad("channel")
		}
	case *ir.MakeSlice:
		in.Op = "makeslice"
		args(i.Len, i.Cap)
		aux(types.Unalias(i.Type()).Underlying().(*types.Slice).Elem())
	case *ir.Slice:
		in.Op = "slice"
		args(i.X)
		switch basicClass(i.X.Type()) {
		case "str":
			in.Sub = "str"
		case "slice":
			in.Sub = "slice"
		case "ptr":
			in.Sub = "arrptr"
			in.M = int(types.Unalias(i.X.Type()).Underlying().(*types.Pointer).Elem().Underlying().(*types.Array).Len())
		default:
			fx.bad("slice of " + basicClass(i.X.Type()))
		}
		if i.Low != nil {
			in.N |= 1
		}
		if i.High != nil {
			in.N |= 2
		}
		if i.Max != nil {
			in.N |= 4
		}
		args(i.Low, i.High, i.Max)
	case *ir.FieldAddr:
		in.Op = "fieldaddr"
		args(i.X)
		in.N = i.Field + 1
	case *ir.Field:
		in.Op = "field"
		args(i.X)
		in.N = i.Field + 1
	case *ir.IndexAddr:
		in.Op = "indexaddr"
		args(i.X, i.Index)
		switch basicClass(i.X.Type()) {
		case "slice":
			in.Sub = "slice"
		case "ptr":
			in.Sub = "arrptr"
		default:
			fx.bad("IndexAddr of " + basicClass(i.X.Type()))
		}
	case *ir.Index:
		in.Op = "index"
		args(i.X, i.Index)
		switch basicClass(i.X.Type()) {
		case "array":
			in.Sub = "array"
		case "str":
			in.Sub = "str"
		default:
			fx.bad("Index of " + basicClass(i.X.Type()))
		}
	case *ir.StringLookup:
		in.Op = "stringlookup"
		args(i.X, i.Index)
	case *ir.MapLookup:
		in.Op = "maplookup"
		args(i.X, i.Index)
		if i.CommaOk {
			in.N = 1
		}
		mt := types.Unalias(i.X.Type()).Underlying().(*types.Map)
		aux(mt.Elem())
		if k := basicClass(mt.Key()); k == "float" || k == "iface" {
			fx.bad("map with " + k + " keys")
		}
	case *ir.MapUpdate:
		in.Op = "mapupdate"
		args(i.Map, i.Key, i.Value)
	case *ir.Range:
		in.Op = "range"
		args(i.X)
		in.Sub = basicClass(i.X.Type())
	case *ir.Next:
		in.Op = "next"
		args(i.Iter)
		if i.IsString {
			in.N = 1
		}
	case *ir.TypeAssert:
		in.Op = "typeassert"
		args(i.X)
		if i.CommaOk {
			in.N = 1
		}
		in.Cs = []Cond{fx.ex.condFor(i.AssertedType)}
		aux(i.AssertedType)
	case *ir.TypeSwitch:
		in.Op = "typeswitch"
		args(i.Tag)
		for _, t := range i.Conds {
			in.Cs = append(in.Cs, fx.ex.condFor(t))
		}
		// result slot types: a slot of interface type receives the tag itself, a concrete slot the payload
		tup := i.Type().(*types.Tuple)
		for k := 1; k < tup.Len(); k++ {
			if types.IsInterface(tup.At(k).Type()) {
				in.Tags = append(in.Tags, "i")
			} else {
				in.Tags = append(in.Tags, "c")
			}
		}
	case *ir.Extract:
		in.Op = "extract"
		args(i.Tuple)
		in.N = i.Index + 1
	case *ir.CompositeValue:
		in.Op = "compositevalue"
		args(i.Values...)
		in.Sub = basicClass(i.Type())
	case *ir.Jump:
		in.Op = "jump"
	case *ir.If:
		in.Op = "if"
		args(i.Cond)
	case *ir.ConstantSwitch:
		in.Op = "constantswitch"
		args(i.Tag)
		for k, c := range i.Conds {
			if c == nil {
				in.N = k + 1 // default branch
				in.Args = append(in.Args, Ref{K: "c", V: mk("undef")})
			} else {
				args(c)
			}
		}
	case *ir.Return:
		in.Op = "return"
		args(i.Results...)
	case *ir.RunDefers:
		in.Op = "rundefers"
	case *ir.Panic:
		in.Op = "panic"
		args(i.X)
	case *ir.Unreachable:
		in.Op = "unreachable"
	case *ir.Select:
		in.Op = "select"
		fx.bad("select")
	case *ir.Send:
		in.Op = "send"
		if fx.ex.chans {
			args(i.Chan, i.X)
		} else {
			fx.bad("channel")
		}
	case *ir.Recv:
		in.Op = "recv"
		if fx.ex.chans {
			args(i.Chan)
			if i.CommaOk {
				in.N = 1
			}
			aux(types.Unalias(i.Chan.Type()).Underlying().(*types.Chan).Elem())
		} else {
			fx.bad("channel")
		}
	default:
		in.Op = fmt.Sprintf("%T", ins)
		fx.bad("instruction " + in.Op)
	}
	fx.ops[in.Op] = true
	if v, ok := ins.(ir.Value); ok {
		if c := basicClass(v.Type()); c == "float" || c == "unsafe" {
			fx.bad("value of type " + c)
		}
	}
	return in
}

// collect walks all functions reachable from the package members (static callees, closures,
// method values, method tables of runtime types) and gives each an index.
func (ex *exporter) collect() {
	all := []*ir.Package{ex.pkg}
	var others []*ir.Package
	for p := range ex.pkgs {
		if p != ex.pkg {
			others = append(others, p)
		}
	}
	sort.Slice(others, func(i, j int) bool { return others[i].Pkg.Path() < others[j].Pkg.Path() })
	all = append(all, others...)
	for _, pkg := range all {
		var names []string
		for n := range pkg.Members {
			names = append(names, n)
		}
		sort.Strings(names)
		for _, n := range names {
			switch m := pkg.Members[n].(type) {
			case *ir.Function:
				ex.addFn(m)
			case *ir.Global:
				ex.addGlobal(m)
			}
		}
	}
	for i := 0; i < len(ex.fns) || false; i++ {
		f := ex.fns[i]
		for _, a := range f.AnonFuncs {
			ex.addFn(a)
		}
		for _, b := range f.Blocks {
			for _, ins := range b.Instrs {
				var rands [16]*ir.Value
				for _, op := range ins.Operands(rands[:0]) {
					switch v := (*op).(type) {
					case *ir.Function:
						ex.addFn(v)
					case *ir.Global:
						if ex.own(v.Pkg) {
							ex.addGlobal(v)
						}
					}
				}
				if mi, ok := ins.(*ir.MakeInterface); ok {
					ex.addRTWithMethods(mi.X.Type())
				}
			}
		}
	}
}

func (ex *exporter) addRTWithMethods(t types.Type) {
	tag := typeTag(t)
	if ex.rtSeen[tag] {
		return
	}
	ex.addRT(t)
	ms := ex.prog.MethodSets.MethodSet(t)
	for i := 0; i < ms.Len(); i++ {
		if fn := ex.prog.MethodValue(ms.At(i)); fn != nil {
			ex.addFn(fn)
		}
	}
}

func (ex *exporter) export(mode string) Prog {
	ex.collect()
	return ex.exportAfterCollect(mode)
}

func (ex *exporter) exportAfterCollect(mode string) Prog {
	p := Prog{Mode: mode, Fns: []Fn{}, Globals: []Global{}, Methods: map[string]map[string]int{}}
	// exporting may discover nothing new (collect is closed under operands), but stay defensive
	for i := 0; i < len(ex.fns); i++ {
		p.Fns = append(p.Fns, ex.exportFn(ex.fns[i]))
	}
	for _, g := range ex.globs {
		p.Globals = append(p.Globals, Global{Name: g.Name(), Zero: zero(g.Type().Underlying().(*types.Pointer).Elem())})
	}
	for _, t := range ex.rtTypes {
		tab := map[string]int{}
		ms := ex.prog.MethodSets.MethodSet(t)
		for i := 0; i < ms.Len(); i++ {
			if fn := ex.prog.MethodValue(ms.At(i)); fn != nil {
				tab[ms.At(i).Obj().Name()] = ex.fnIdx[fn]
			}
		}
		tab["_"] = 0 // no empty records
		p.Methods[typeTag(t)] = tab
	}
	p.Methods[rtErrTag] = map[string]int{"_": 0}
	if init := ex.pkg.Func("init"); init != nil {
		p.Init = ex.fnIdx[init]
	}
	return p
}
