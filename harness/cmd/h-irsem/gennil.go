package main

// Seeded generator of C15 programs: functions with pointer-like results built from the property's
// vocabulary — nil checks, loads, allocations, conversions, slicing with zero / non-zero bounds, append,
// type assertions / switches with nil case, typed nils in interfaces, calls within the package and into
// ./lib (facts exported and imported across packages), recursion, package-level variables.
// No recover() (C03: nilness panics on it), no goroutines.

import (
	"encoding/json"
	"flag"
	"fmt"
	"math/rand"
	"os"
	"path/filepath"
	"strings"
)

const nilLib = `package lib

type T struct {
	F *int
	N int
}

type E struct{ Msg string }

func (e *E) Error() string { return "e" }

var GP *int

func Fresh() *int { return new(int) }
func Nil() *int   { return nil }
func Pass(p *int) *int { return p }
func Glob() *int  { return GP }
func Err(b bool) error {
	if b {
		return &E{}
	}
	return nil
}
func TypedNil() error {
	var e *E
	return e
}
func Mk(n int) []int { return make([]int, n) }
func Sub(s []int) []int { return s[:0] }
func Sub1(s []int) []int { return s[1:] }
`

const nilPrelude = `package main

import "ex.test/nilm/lib"

type T struct {
	f *int
	n int
}

type E struct{ msg string }

func (e *E) Error() string { return "e" }

type I interface{ M() int }

func (t *T) M() int { return 7 }

var gp *int
var gs []int
var gi I
var gm map[int]int
var ge error
var gmp map[int]*int
var gsp []*int

var _ = lib.Fresh

`

type nty int

const (
	nPtr  nty = iota // *int
	nPT              // *T
	nSl              // []int
	nMap             // map[int]int
	nMapP            // map[int]*int
	nSlP             // []*int
	nI               // I
	nAny             // any
	nErr             // error
	nInt
	nBool
	nNTypes
)

var ntyName = map[nty]string{nPtr: "*int", nPT: "*T", nSl: "[]int", nMap: "map[int]int", nMapP: "map[int]*int", nSlP: "[]*int", nI: "I", nAny: "any", nErr: "error", nInt: "int", nBool: "bool"}

type nvar struct {
	name string
	t    nty
}

type nfn struct {
	name   string
	params []nty
	res    []nty
}

type ngen struct {
	r    *rand.Rand
	b    strings.Builder
	vars []nvar
	fns  []nfn
	self *nfn
	nv   int
}

func (g *ngen) ch(p int) bool { return g.r.Intn(100) < p }
func (g *ngen) w(ind int, f string, a ...any) {
	g.b.WriteString(strings.Repeat("\t", ind))
	fmt.Fprintf(&g.b, f, a...)
	g.b.WriteString("\n")
}
func (g *ngen) pick(t nty) string {
	var c []string
	for _, v := range g.vars {
		if v.t == t {
			c = append(c, v.name)
		}
	}
	if len(c) == 0 {
		return ""
	}
	return c[g.r.Intn(len(c))]
}

// pickOuter picks a variable of type t among vs (the variables of the enclosing scope)
func (g *ngen) pickOuter(vs []nvar, t nty) string {
	var c []string
	for _, v := range vs {
		if v.t == t {
			c = append(c, v.name)
		}
	}
	if len(c) == 0 {
		return ""
	}
	return c[g.r.Intn(len(c))]
}

func (g *ngen) intE() string {
	if v := g.pick(nInt); v != "" && g.ch(60) {
		return v
	}
	return fmt.Sprint(g.r.Intn(3))
}

func (g *ngen) boolE() string {
	switch g.r.Intn(5) {
	case 0:
		if v := g.pick(nBool); v != "" {
			return v
		}
	case 1:
		t := nty(g.r.Intn(int(nInt)))
		if v := g.pick(t); v != "" {
			return v + [...]string{" == nil", " != nil"}[g.r.Intn(2)]
		}
	case 2:
		return g.intE() + " > 0"
	}
	if v := g.pick(nBool); v != "" {
		return v
	}
	return g.intE() + " == 1"
}

func (g *ngen) call(t nty, d int) string {
	var c []*nfn
	for i := range g.fns {
		if len(g.fns[i].res) == 1 && g.fns[i].res[0] == t {
			c = append(c, &g.fns[i])
		}
	}
	if len(c) == 0 {
		return ""
	}
	f := c[g.r.Intn(len(c))]
	var as []string
	for _, p := range f.params {
		as = append(as, g.expr(p, d-1))
	}
	return fmt.Sprintf("%s(%s)", f.name, strings.Join(as, ", "))
}

// expr yields an expression of type t (may panic at run time: that is part of the vocabulary)
func (g *ngen) expr(t nty, d int) string {
	if d <= 0 {
		if v := g.pick(t); v != "" && g.ch(70) {
			return v
		}
		switch t {
		case nInt:
			return g.intE()
		case nBool:
			return [...]string{"true", "false"}[g.r.Intn(2)]
		case nPtr:
			return [...]string{"nil", "new(int)", "gp"}[g.r.Intn(3)]
		case nPT:
			return [...]string{"nil", "&T{}", "new(T)"}[g.r.Intn(3)]
		case nSl:
			return [...]string{"nil", "[]int{}", "gs", "[]int{1, 2}"}[g.r.Intn(4)]
		case nMap:
			return [...]string{"nil", "map[int]int{}", "gm"}[g.r.Intn(3)]
		case nMapP:
			return [...]string{"nil", "map[int]*int{}", "gmp", "map[int]*int{0: nil, 1: new(int)}", "map[int]*int{1: nil}"}[g.r.Intn(5)]
		case nSlP:
			return [...]string{"nil", "[]*int{}", "gsp", "[]*int{nil}", "[]*int{new(int), nil}"}[g.r.Intn(5)]
		case nI:
			return [...]string{"nil", "gi", "I(&T{})", "I((*T)(nil))"}[g.r.Intn(4)]
		case nAny:
			return [...]string{"nil", "any(1)", "any((*int)(nil))", "any(new(int))"}[g.r.Intn(4)]
		case nErr:
			return [...]string{"nil", "ge", "error(&E{})", "error((*E)(nil))"}[g.r.Intn(4)]
		}
	}
	if c := g.call(t, d); c != "" && g.ch(25) {
		return c
	}
	switch t {
	case nInt:
		if v := g.pick(nSl); v != "" && g.ch(30) {
			return "len(" + v + ")"
		}
		if v := g.pick(nPT); v != "" && g.ch(20) {
			return v + ".n"
		}
		if v := g.pick(nPtr); v != "" && g.ch(20) {
			return "*" + v
		}
		return g.intE()
	case nBool:
		return g.boolE()
	case nPtr:
		switch g.r.Intn(12) {
		case 9:
			if v := g.pick(nMapP); v != "" {
				return v + "[" + g.intE() + "]"
			}
		case 10:
			if v := g.pick(nSlP); v != "" {
				return v + "[0]"
			}
		case 11:
			return "gmp[" + g.intE() + "]"
		case 0:
			if v := g.pick(nPT); v != "" {
				return v + ".f"
			}
		case 1:
			if v := g.pick(nPT); v != "" {
				return "&" + v + ".n"
			}
		case 2:
			if v := g.pick(nSl); v != "" {
				return "&" + v + "[0]"
			}
		case 3:
			if v := g.pick(nAny); v != "" {
				return v + ".(*int)"
			}
		case 4:
			return [...]string{"lib.Fresh()", "lib.Nil()", "lib.Glob()"}[g.r.Intn(3)]
		case 5:
			return "lib.Pass(" + g.expr(nPtr, d-1) + ")"
		case 6:
			if v := g.pick(nMap); v != "" {
				return "&[]int{" + v + "[0]}[0]"
			}
		}
	case nPT:
		switch g.r.Intn(5) {
		case 0:
			if v := g.pick(nI); v != "" {
				return v + ".(*T)"
			}
		case 1:
			if v := g.pick(nAny); v != "" {
				return v + ".(*T)"
			}
		case 2:
			return "&T{f: " + g.expr(nPtr, d-1) + "}"
		}
	case nSl:
		sl := func() string {
			e := g.expr(nSl, d-1)
			if e == "nil" {
				return "[]int(nil)"
			}
			return e
		}
		switch g.r.Intn(10) {
		case 0, 1:
			return sl() + [...]string{"[:0]", "[:1]", "[1:]", "[0:]", "[:]", "[0:0:0]", "[:1:1]"}[g.r.Intn(7)]
		case 2:
			return "append(" + sl() + ", 1)"
		case 3:
			return "append(" + sl() + ")"
		case 4:
			return "append(" + sl() + ", " + sl() + "...)"
		case 5:
			return "make([]int, " + g.intE() + ")"
		case 6:
			return [...]string{"lib.Mk(" + g.intE() + ")", "lib.Sub(" + g.expr(nSl, d-1) + ")", "lib.Sub1(" + g.expr(nSl, d-1) + ")"}[g.r.Intn(3)]
		case 7:
			return "[]int(nil)"
		case 8:
			return "(&[2]int{})[:]"
		}
	case nMap:
		if g.ch(30) {
			return "make(map[int]int)"
		}
	case nMapP:
		if g.ch(30) {
			return "make(map[int]*int)"
		}
	case nSlP:
		switch g.r.Intn(5) {
		case 0:
			e := g.expr(nSlP, d-1)
			if e == "nil" {
				e = "[]*int(nil)"
			}
			return "append(" + e + ", " + g.expr(nPtr, d-1) + ")"
		case 1:
			if v := g.pick(nSlP); v != "" {
				return v + [...]string{"[:0]", "[:1]", "[1:]"}[g.r.Intn(3)]
			}
		case 2:
			return "make([]*int, " + g.intE() + ")"
		}
	case nI:
		switch g.r.Intn(5) {
		case 0:
			return "I(" + g.expr(nPT, d-1) + ")"
		case 1:
			if v := g.pick(nAny); v != "" {
				return v + ".(I)"
			}
		}
	case nAny:
		switch g.r.Intn(6) {
		case 0:
			return "any(" + g.expr(nPtr, d-1) + ")"
		case 1:
			return "any(" + g.expr(nPT, d-1) + ")"
		case 2:
			return "any(" + g.expr(nSl, d-1) + ")"
		case 3:
			if v := g.pick(nI); v != "" {
				return "any(" + v + ")"
			}
		case 4:
			if v := g.pick(nErr); v != "" {
				return "any(" + v + ")"
			}
		}
	case nErr:
		switch g.r.Intn(5) {
		case 0:
			return "lib.Err(" + g.boolE() + ")"
		case 1:
			return "lib.TypedNil()"
		case 2:
			if v := g.pick(nAny); v != "" {
				return v + ".(error)"
			}
		}
	}
	return g.expr(t, 0)
}

func (g *ngen) ret(ind int, res []nty, d int) {
	var es []string
	for _, t := range res {
		es = append(es, g.expr(t, d))
	}
	g.w(ind, "return %s", strings.Join(es, ", "))
}

func (g *ngen) stmt(ind int, res []nty, d int) {
	switch g.r.Intn(12) {
	case 9: // comma-ok map lookup: the value is nil when the key is missing AND when a nil entry is present
		m := g.pick(nMapP)
		if m == "" {
			m = "gmp"
		}
		g.nv++
		n, ok := fmt.Sprintf("v%d", g.nv), fmt.Sprintf("ok%d", g.nv)
		if g.ch(50) && d > 0 {
			g.w(ind, "if %s, %s := %s[%s]; %s%s {", n, ok, m, g.intE(), [...]string{"", "!"}[g.r.Intn(2)], ok)
			g.w(ind+1, "_ = %s", n)
			save := g.vars
			g.vars = append(g.vars, nvar{n, nPtr})
			g.ret(ind+1, res, 1)
			g.vars = save
			g.w(ind, "}")
			return
		}
		g.w(ind, "%s, %s := %s[%s]", n, ok, m, g.intE())
		g.w(ind, "_, _ = %s, %s", n, ok)
		g.vars = append(g.vars, nvar{n, nPtr}, nvar{ok, nBool})
	case 10, 11: // range over a map / slice of pointers: early return or accumulation
		src, kind := g.pick(nMapP), nMapP
		if src == "" || g.ch(50) {
			if s := g.pick(nSlP); s != "" {
				src, kind = s, nSlP
			}
		}
		if src == "" {
			src = [...]string{"gmp", "gsp"}[g.r.Intn(2)]
		}
		_ = kind
		g.nv++
		n := fmt.Sprintf("v%d", g.nv)
		g.w(ind, "for _, %s := range %s {", n, src)
		save := g.vars
		g.vars = append(g.vars, nvar{n, nPtr})
		if acc := g.pickOuter(save, nPtr); acc != "" && g.ch(50) {
			g.w(ind+1, "%s = %s", acc, n)
		} else {
			g.w(ind+1, "_ = %s", n)
			g.ret(ind+1, res, 1)
		}
		g.vars = save
		g.w(ind, "}")
	case 0, 1: // nil check, then return
		t := nty(g.r.Intn(int(nInt)))
		if v := g.pick(t); v != "" {
			g.w(ind, "if %s %s nil {", v, [...]string{"==", "!="}[g.r.Intn(2)])
			save := g.vars[:len(g.vars):len(g.vars)] // variables declared inside the block go out of scope with it
			if g.ch(30) && d > 0 {
				g.stmt(ind+1, res, d-1)
			}
			g.ret(ind+1, res, 1)
			g.vars = save
			g.w(ind, "}")
			return
		}
		fallthrough
	case 2: // new local
		t := nty(g.r.Intn(int(nInt)))
		e := g.expr(t, 2)
		g.nv++
		n := fmt.Sprintf("v%d", g.nv)
		g.w(ind, "var %s %s = %s", n, ntyName[t], e)
		g.w(ind, "_ = %s", n)
		g.vars = append(g.vars, nvar{n, t})
	case 3: // conditional reassignment (phi)
		t := nty(g.r.Intn(int(nInt)))
		if v := g.pick(t); v != "" {
			g.w(ind, "if %s {", g.boolE())
			g.w(ind+1, "%s = %s", v, g.expr(t, 1))
			g.w(ind, "}")
			return
		}
		g.w(ind, "_ = 0")
	case 4: // comma-ok assertion
		src := g.pick(nAny)
		if src == "" {
			src = g.pick(nI)
		}
		if src != "" {
			g.nv++
			n := fmt.Sprintf("v%d", g.nv)
			g.w(ind, "%s, ok%d := %s.(*T)", n, g.nv, src)
			g.w(ind, "_, _ = %s, ok%d", n, g.nv)
			g.vars = append(g.vars, nvar{n, nPT}, nvar{fmt.Sprintf("ok%d", g.nv), nBool})
			return
		}
		g.w(ind, "_ = 1")
	case 5: // type switch with nil case
		src := g.pick(nAny)
		if src == "" {
			if e := g.pick(nErr); e != "" && d > 0 {
				g.w(ind, "switch x := %s.(type) {", e)
				g.w(ind, "case nil:")
				g.ret(ind+1, res, 1)
				g.w(ind, "case *E:")
				g.w(ind+1, "_ = x")
				g.ret(ind+1, res, 1)
				g.w(ind, "}")
				return
			}
		}
		if src != "" && d > 0 {
			g.w(ind, "switch x := %s.(type) {", src)
			g.w(ind, "case nil:")
			g.ret(ind+1, res, 1)
			g.w(ind, "case *T:")
			save := g.vars
			g.vars = append(g.vars, nvar{"x", nPT})
			g.ret(ind+1, res, 1)
			g.vars = save
			g.w(ind, "case *int, []int:")
			g.vars = append(g.vars, nvar{"x", nAny})
			g.ret(ind+1, res, 1)
			g.vars = save
			g.w(ind, "default:")
			g.w(ind+1, "_ = x")
			if len(res) == 1 && res[0] == nAny && g.ch(60) {
				g.w(ind+1, "return x") // the switched-over value itself
			}
			g.w(ind, "}")
			return
		}
		g.w(ind, "_ = 2")
	case 6: // dereference / store through a pointer: implies non-nil afterwards
		if v := g.pick(nPtr); v != "" {
			g.w(ind, "*%s = %s", v, g.intE())
			return
		}
		if v := g.pick(nPT); v != "" {
			g.w(ind, "%s.n++", v)
			return
		}
		if v := g.pick(nMap); v != "" {
			g.w(ind, "%s[1] = 2", v)
			return
		}
		if v := g.pick(nMapP); v != "" {
			g.w(ind, "%s[1] = %s", v, g.expr(nPtr, 1))
			return
		}
		g.w(ind, "_ = 3")
	case 7: // loop with reassignment
		t := nty(g.r.Intn(int(nInt)))
		if v := g.pick(t); v != "" {
			g.w(ind, "for i := 0; i < %s; i++ {", g.intE())
			g.w(ind+1, "%s = %s", v, g.expr(t, 1))
			g.w(ind, "}")
			return
		}
		g.w(ind, "_ = 4")
	case 8: // global store
		switch g.r.Intn(5) {
		case 3:
			g.w(ind, "gmp = %s", g.expr(nMapP, 1))
		case 4:
			g.w(ind, "gsp = %s", g.expr(nSlP, 1))
		case 0:
			g.w(ind, "gp = %s", g.expr(nPtr, 1))
		case 1:
			g.w(ind, "gs = %s", g.expr(nSl, 1))
		case 2:
			g.w(ind, "gi = %s", g.expr(nI, 1))
		}
	}
}

func (g *ngen) function(i int) {
	f := nfn{name: fmt.Sprintf("N%d", i)}
	for k := 0; k < g.r.Intn(4); k++ {
		f.params = append(f.params, nty(g.r.Intn(int(nNTypes))))
	}
	f.res = []nty{nty(g.r.Intn(int(nInt)))}
	if g.ch(20) {
		f.res = append(f.res, []nty{nErr, nInt, nPtr}[g.r.Intn(3)])
	}
	g.vars, g.nv = nil, 0
	var ps, rs []string
	for k, p := range f.params {
		n := fmt.Sprintf("p%d", k)
		ps = append(ps, n+" "+ntyName[p])
		g.vars = append(g.vars, nvar{n, p})
	}
	for _, r := range f.res {
		rs = append(rs, ntyName[r])
	}
	g.self = &f
	g.w(0, "func %s(%s) (%s) {", f.name, strings.Join(ps, ", "), strings.Join(rs, ", "))
	for k := 0; k < g.r.Intn(5); k++ {
		g.stmt(1, f.res, 2)
	}
	if g.ch(25) { // recursion, guarded by a decreasing int parameter
		for k, p := range f.params {
			if p == nInt {
				var as []string
				for j, q := range f.params {
					if j == k {
						as = append(as, fmt.Sprintf("p%d-1", k))
					} else {
						as = append(as, g.expr(q, 0))
					}
				}
				g.w(1, "if p%d > 0 {", k)
				g.w(2, "return %s(%s)", f.name, strings.Join(as, ", "))
				g.w(1, "}")
				break
			}
		}
	}
	g.ret(1, f.res, 2)
	g.w(0, "}")
	g.w(0, "")
	g.self = nil
	g.fns = append(g.fns, f)
	// a caller comparing an interface result with nil: the SA4023 corollary
	if f.res[0] >= nI && f.res[0] <= nErr && len(f.res) == 1 {
		var as []string
		g.vars = nil
		var qs []string
		for k, p := range f.params {
			n := fmt.Sprintf("p%d", k)
			qs = append(qs, n+" "+ntyName[p])
			as = append(as, n)
		}
		g.w(0, "func C%d(%s) *int {", i, strings.Join(qs, ", "))
		g.w(1, "if %s(%s) %s nil {", f.name, strings.Join(as, ", "), [...]string{"==", "!="}[g.r.Intn(2)])
		g.w(2, "return nil")
		g.w(1, "}")
		g.w(1, "return new(int)")
		g.w(0, "}")
		g.w(0, "")
	}
}

func genNilProgram(seed int64, n int) string {
	g := &ngen{r: rand.New(rand.NewSource(seed))}
	g.b.WriteString(nilPrelude)
	for i := 0; i < n; i++ {
		g.function(i)
	}
	return g.b.String()
}

func cmdGenNil(args []string) {
	fs := flag.NewFlagSet("gennil", flag.ExitOnError)
	seed := fs.Int64("seed", 1, "seed")
	n := fs.Int("n", 1, "number of programs (one module directory each)")
	nf := fs.Int("fns", 12, "functions per program")
	dir := fs.String("dir", ".", "output directory")
	ndir := fs.Int("directed", 0, "number of programs the directed (source x shape) family is spread over (0 = none)")
	full := fs.Bool("full", false, "directed family: every source in every shape (default: one seeded merging shape per source)")
	nuse := fs.Int("use", 0, "number of programs the refinement-by-use (use x source x shape) family is spread over (0 = none)")
	fs.Parse(args)
	type famT struct {
		prefix string
		texts  []string
		metas  [][]dirFn
	}
	var fams []famT
	if *ndir > 0 {
		texts, metas := genDirPrograms(*seed, *ndir, *full)
		fams = append(fams, famT{"dir", texts, metas})
	}
	if *nuse > 0 {
		texts, metas := genUsePrograms(*seed, *nuse, *full)
		fams = append(fams, famT{"use", texts, metas})
	}
	for _, fam := range fams {
		metas := fam.metas
		for i, text := range fam.texts {
			d := filepath.Join(*dir, fmt.Sprintf("%s_%d_%d", fam.prefix, *seed, i))
			if err := os.MkdirAll(filepath.Join(d, "lib"), 0o755); err != nil {
				die("%v", err)
			}
			mb, _ := json.Marshal(metas[i])
			files := map[string]string{
				"go.mod":       "module ex.test/nilm\n\ngo 1.23\n",
				"lib/lib.go":   dirLib,
				"prog.go":      text,
				"main_stub.go": "//go:build !drv\n\npackage main\n\nfunc main() {}\n",
				"dirmeta.json": string(mb),
			}
			for name, text := range files {
				if err := os.WriteFile(filepath.Join(d, name), []byte(text), 0o644); err != nil {
					die("%v", err)
				}
			}
		}
	}
	for i := 0; i < *n; i++ {
		d := filepath.Join(*dir, fmt.Sprintf("nil_%d_%d", *seed, i))
		if err := os.MkdirAll(filepath.Join(d, "lib"), 0o755); err != nil {
			die("%v", err)
		}
		files := map[string]string{
			"go.mod":       "module ex.test/nilm\n\ngo 1.23\n",
			"lib/lib.go":   nilLib,
			"prog.go":      genNilProgram(*seed*7919+int64(i), *nf),
			"main_stub.go": "//go:build !drv\n\npackage main\n\nfunc main() {}\n",
		}
		for name, text := range files {
			if err := os.WriteFile(filepath.Join(d, name), []byte(text), 0o644); err != nil {
				die("%v", err)
			}
		}
	}
}
