package main

// Native driver generation: package main gets a second file with main(), which calls every function
// under test on every vector of the input domain and prints, through the builtin print (stderr):
//
//	CALL <fn> <tok>...        before the call (after the package-level variables were re-initialised)
//	E <emitfn> <tok>          printed by the program's own emit* functions
//	RET <tok>...              results of a normal return
//	PANIC <tok>               the function panicked: i:/s:/b: for int/string/bool panic values,
//	                          rt: for a runtime.Error, o: otherwise
//
// tok = i:<decimal> | b:0 | b:1 | s:<byte>.<byte>...

import (
	"bytes"
	"flag"
	"fmt"
	"go/ast"
	"go/importer"
	"go/printer"
	"go/token"
	"go/types"
	"os"
	"strings"
)

var domains = map[string][]string{
	"int":    {"-1", "0", "1", "2"},
	"int8":   {"-1", "0", "1", "127"},
	"int16":  {"-1", "0", "1", "2"},
	"uint8":  {"0", "1", "2", "255"},
	"uint16": {"0", "1", "2", "65535"},
	"bool":   {"false", "true"},
	"string": {`""`, `"a"`, `"h\u00e9y"`},
}

func printTok(kind, expr string) string {
	switch kind {
	case "bool":
		return fmt.Sprintf("pB(%s)", expr)
	case "string":
		return fmt.Sprintf("pS(%s)", expr)
	}
	return fmt.Sprintf("pI(int(%s))", expr)
}

func vectors(f FUT, max int) [][]string {
	all := [][]string{{}}
	for _, p := range f.Params {
		var next [][]string
		for _, v := range all {
			for _, d := range domains[p] {
				next = append(next, append(append([]string{}, v...), d))
			}
		}
		all = next
	}
	if len(all) <= max {
		return all
	}
	// deterministic spread: every (len/max)-th vector plus the last
	var out [][]string
	for i := 0; i < max; i++ {
		out = append(out, all[i*len(all)/max])
	}
	return out
}

func cmdDriver(args []string) {
	fs := flag.NewFlagSet("driver", flag.ExitOnError)
	src := fs.String("src", "", "source file(s)")
	out := fs.String("out", "", "output file")
	max := fs.Int("max", 64, "maximum number of vectors per function")
	fs.Parse(args)
	fset, files := parse(*src)
	info := &types.Info{Defs: map[*ast.Ident]types.Object{}, Types: map[ast.Expr]types.TypeAndValue{}}
	conf := types.Config{Importer: importer.Default()}
	pkg, err := conf.Check("main", fset, files, info)
	if err != nil {
		die("typecheck: %v", err)
	}
	var b bytes.Buffer
	b.WriteString("package main\n\nimport \"runtime\"\n\n")
	b.WriteString(`func pI(x int)  { print(" i:", x) }
func pB(x bool) { if x { print(" b:1") } else { print(" b:0") } }
func pS(x string) {
	print(" s:")
	for i := 0; i < len(x); i++ {
		if i > 0 {
			print(".")
		}
		print(x[i])
	}
}
func pPanic(r any) {
	print("PANIC")
	switch v := r.(type) {
	case int:
		pI(v)
	case string:
		pS(v)
	case bool:
		pB(v)
	case runtime.Error:
		print(" rt:")
	default:
		print(" o:")
	}
	print("\n")
}

`)
	// re-initialisation of package-level variables, in source order
	b.WriteString("func resetGlobals() {\n")
	qual := func(p *types.Package) string {
		if p == pkg {
			return ""
		}
		return p.Name()
	}
	for _, f := range files {
		for _, d := range f.Decls {
			gd, ok := d.(*ast.GenDecl)
			if !ok || gd.Tok != token.VAR {
				continue
			}
			for _, sp := range gd.Specs {
				vs := sp.(*ast.ValueSpec)
				if len(vs.Values) == 0 {
					for _, n := range vs.Names {
						if n.Name == "_" {
							continue
						}
						t := info.Defs[n].Type()
						fmt.Fprintf(&b, "\t{\n\t\tvar z %s\n\t\t%s = z\n\t}\n", types.TypeString(t, qual), n.Name)
					}
					continue
				}
				var lhs []string
				for _, n := range vs.Names {
					lhs = append(lhs, n.Name)
				}
				var rhs []string
				for _, v := range vs.Values {
					var eb bytes.Buffer
					printer.Fprint(&eb, fset, v)
					e := eb.String()
					if vs.Type != nil {
						var tb bytes.Buffer
						printer.Fprint(&tb, fset, vs.Type)
						if _, isLit := v.(*ast.CompositeLit); !isLit {
							e = "(" + tb.String() + ")(" + e + ")"
						}
					}
					rhs = append(rhs, e)
				}
				fmt.Fprintf(&b, "\t%s = %s\n", strings.Join(lhs, ", "), strings.Join(rhs, ", "))
			}
		}
	}
	b.WriteString("}\n\n")
	fl := futs(pkg)
	for _, f := range fl {
		var ps, as, toks []string
		for i, p := range f.Params {
			ps = append(ps, fmt.Sprintf("a%d %s", i, p))
			as = append(as, fmt.Sprintf("a%d", i))
			toks = append(toks, printTok(p, fmt.Sprintf("a%d", i)))
		}
		fmt.Fprintf(&b, "func run_%s(%s) {\n", f.Name, strings.Join(ps, ", "))
		b.WriteString("\tdefer func() {\n\t\tif r := recover(); r != nil {\n\t\t\tpPanic(r)\n\t\t}\n\t}()\n")
		fmt.Fprintf(&b, "\tprint(\"CALL %s\")\n", f.Name)
		for _, t := range toks {
			fmt.Fprintf(&b, "\t%s\n", t)
		}
		b.WriteString("\tprint(\"\\n\")\n\tresetGlobals()\n")
		var rs []string
		for i := range f.Results {
			rs = append(rs, fmt.Sprintf("r%d", i))
		}
		call := fmt.Sprintf("%s(%s)", f.Name, strings.Join(as, ", "))
		if len(rs) > 0 {
			fmt.Fprintf(&b, "\t%s := %s\n", strings.Join(rs, ", "), call)
		} else {
			fmt.Fprintf(&b, "\t%s\n", call)
		}
		b.WriteString("\tprint(\"RET\")\n")
		for i, r := range f.Results {
			fmt.Fprintf(&b, "\t%s\n", printTok(r, rs[i]))
		}
		b.WriteString("\tprint(\"\\n\")\n}\n\n")
	}
	b.WriteString("func main() {\n")
	for _, f := range fl {
		for _, v := range vectors(f, *max) {
			var conv []string
			for i, x := range v {
				conv = append(conv, fmt.Sprintf("%s(%s)", f.Params[i], x))
			}
			fmt.Fprintf(&b, "\trun_%s(%s)\n", f.Name, strings.Join(conv, ", "))
		}
	}
	b.WriteString("}\n")
	if err := os.WriteFile(*out, b.Bytes(), 0o644); err != nil {
		die("%v", err)
	}
}
