package main

// C15 support.
//
//	h-irsem claims -dir <module dir>
//	    runs the REAL staticcheck runner (lintcmd.Command) in-process over ./... with a probe analyzer that
//	    reads nilness.Result (facts/nilness) for every function of the package and of its imports, plus
//	    SA4023; prints the JSON diagnostics on stdout.
//	h-irsem nilexport -dir <module dir> -out doc.json [-max 64]
//	    builds the packages (root = package main, optional ./lib) with the real go/ir builder in the mode
//	    staticcheck uses (GlobalDebug), exports the IR, enumerates the parameter / global vectors of the small
//	    domain for every function with a pointer-like result, and writes the native driver main_native.go
//	    (build tag drv) that performs exactly the same calls and prints the nil-ness of every result.

import (
	"encoding/json"
	"flag"
	"fmt"
	"go/ast"
	"go/parser"
	"go/token"
	"go/types"
	"os"
	"path/filepath"
	"sort"
	"strings"

	"golang.org/x/tools/go/analysis"
	"honnef.co/go/tools/analysis/facts/nilness"
	"honnef.co/go/tools/analysis/lint"
	"honnef.co/go/tools/go/ir"
	"honnef.co/go/tools/go/types/typeutil"
	"honnef.co/go/tools/lintcmd"
	"honnef.co/go/tools/staticcheck/sa4023"
)

var probe = lint.InitializeAnalyzer(&lint.Analyzer{
	Analyzer: &analysis.Analyzer{
		Name:     "XN1000",
		Requires: []*analysis.Analyzer{nilness.Analysis},
		Run: func(pass *analysis.Pass) (any, error) {
			res := pass.ResultOf[nilness.Analysis].(*nilness.Result)
			say := func(kind string, fn *types.Func) {
				sig := fn.Type().(*types.Signature)
				if sig.Recv() != nil {
					return
				}
				for i := 0; i < sig.Results().Len(); i++ {
					n := res.Nilness(fn, i)
					pass.Report(analysis.Diagnostic{Pos: pass.Files[0].Package,
						Message: fmt.Sprintf("%s|%s|%s|%d|%d|%d", kind, fn.Pkg().Path(), fn.Name(), i, n.Outer, n.Inner)})
				}
			}
			scope := pass.Pkg.Scope()
			for _, name := range scope.Names() {
				if fn, ok := scope.Lookup(name).(*types.Func); ok {
					say("own", fn)
				}
			}
			for _, imp := range pass.Pkg.Imports() {
				if !strings.Contains(imp.Path(), ".") {
					continue // std
				}
				for _, name := range imp.Scope().Names() {
					if fn, ok := imp.Scope().Lookup(name).(*types.Func); ok && fn.Exported() {
						say("imp", fn)
					}
				}
			}
			return nil, nil
		},
	},
	Doc: &lint.RawDocumentation{Title: "probe: nilness.Result of every function", Severity: lint.SeverityInfo},
})

func cmdClaims(args []string) {
	fs := flag.NewFlagSet("claims", flag.ExitOnError)
	dir := fs.String("dir", ".", "module directory")
	fs.Parse(args)
	if err := os.Chdir(*dir); err != nil {
		die("%v", err)
	}
	cmd := lintcmd.NewCommand("h-irsem-claims")
	cmd.ParseFlags([]string{"-checks", "XN1000,SA4023", "-f", "json", "./..."})
	cmd.AddAnalyzers(probe, sa4023.SCAnalyzer)
	code := cmd.Execute()
	if code > 1 {
		os.Exit(code)
	}
}

// ---- multi-package build ------------------------------------------------------------------------------

type mapImporter map[string]*types.Package

func (m mapImporter) Import(path string) (*types.Package, error) {
	if p, ok := m[path]; ok {
		return p, nil
	}
	if path == "unsafe" {
		return types.Unsafe, nil
	}
	return nil, fmt.Errorf("package %q not available", path)
}

func newInfo() *types.Info {
	return &types.Info{
		Types:        make(map[ast.Expr]types.TypeAndValue),
		Defs:         make(map[*ast.Ident]types.Object),
		Uses:         make(map[*ast.Ident]types.Object),
		Implicits:    make(map[ast.Node]types.Object),
		Scopes:       make(map[ast.Node]*types.Scope),
		Selections:   make(map[*ast.SelectorExpr]*types.Selection),
		Instances:    make(map[*ast.Ident]types.Instance),
		FileVersions: make(map[*ast.File]string),
	}
}

func parseDir(fset *token.FileSet, dir string) []*ast.File {
	ents, err := os.ReadDir(dir)
	if err != nil {
		die("%v", err)
	}
	var files []*ast.File
	for _, e := range ents {
		if e.IsDir() || !strings.HasSuffix(e.Name(), ".go") || e.Name() == "main_native.go" || e.Name() == "main_stub.go" {
			continue
		}
		f, err := parser.ParseFile(fset, filepath.Join(dir, e.Name()), nil, parser.ParseComments|parser.SkipObjectResolution)
		if err != nil {
			die("parse: %v", err)
		}
		files = append(files, f)
	}
	return files
}

// buildModule builds root (package main) and, if present, ./lib with syntax; returns main first.
func buildModule(dir string, modpath string, mode ir.BuilderMode) (*token.FileSet, []*ir.Package) {
	fset := token.NewFileSet()
	imp := mapImporter{}
	prog := ir.NewProgram(fset, mode)
	var pkgs []*ir.Package
	if st, err := os.Stat(filepath.Join(dir, "lib")); err == nil && st.IsDir() {
		files := parseDir(fset, filepath.Join(dir, "lib"))
		info := newInfo()
		tp := types.NewPackage(modpath+"/lib", "lib")
		if err := types.NewChecker(&types.Config{Importer: imp}, fset, tp, info).Files(files); err != nil {
			die("typecheck lib: %v", err)
		}
		imp[modpath+"/lib"] = tp
		pkgs = append(pkgs, prog.CreatePackage(tp, files, info, true))
	}
	files := parseDir(fset, dir)
	info := newInfo()
	tp := types.NewPackage("main", "main")
	if err := types.NewChecker(&types.Config{Importer: imp}, fset, tp, info).Files(files); err != nil {
		die("typecheck: %v", err)
	}
	for _, ip := range tp.Imports() {
		if ip == types.Unsafe {
			prog.CreatePackage(types.Unsafe, nil, nil, true)
		}
	}
	mainPkg := prog.CreatePackage(tp, files, info, false)
	prog.Build()
	return fset, append([]*ir.Package{mainPkg}, pkgs...)
}

// ---- input domain -------------------------------------------------------------------------------------

type domEntry struct {
	V     Val
	Cells []Val
	Go    string
}

func relocate(v Val, base int) Val {
	switch v.K {
	case "ptr", "slice", "map", "chan":
		if v.I > 0 {
			v.I += int64(base)
		}
	}
	if len(v.E) > 0 {
		e := make([]Val, len(v.E))
		for i := range v.E {
			e[i] = relocate(v.E[i], base)
		}
		v.E = e
	}
	return v
}

type nilExp struct {
	ex    *exporter
	main  *types.Package
	named []*types.TypeName // candidate concrete types for interface parameters
}

func (nx *nilExp) qual(p *types.Package) string {
	if p == nx.main {
		return ""
	}
	return p.Name()
}

func (nx *nilExp) ts(t types.Type) string { return types.TypeString(t, nx.qual) }

func (nx *nilExp) domain(t types.Type) []domEntry {
	ts := nx.ts(t)
	switch u := types.Unalias(t).Underlying().(type) {
	case *types.Basic:
		switch {
		case u.Info()&types.IsInteger != 0:
			return []domEntry{{V: intV(0), Go: ts + "(0)"}, {V: intV(1), Go: ts + "(1)"}}
		case u.Info()&types.IsBoolean != 0:
			return []domEntry{{V: boolV(false), Go: ts + "(false)"}, {V: boolV(true), Go: ts + "(true)"}}
		case u.Info()&types.IsString != 0:
			return []domEntry{{V: strV(""), Go: ts + `("")`}, {V: strV("a"), Go: ts + `("a")`}}
		}
		return nil
	case *types.Pointer:
		z := zero(u.Elem())
		if hasUnsup(z) != "" {
			return nil
		}
		out := []domEntry{{V: ptrV(0), Go: "(" + ts + ")(nil)"}, {V: ptrV(1), Cells: []Val{z}, Go: "new(" + nx.ts(u.Elem()) + ")"}}
		if containsPtrLike(u.Elem()) {
			// a third entry whose pointee holds non-nil pointer-likes (fields / elements / the pointee itself)
			var cb cellBuilder
			if v, g, ok := nx.rich(&cb, t, richDepth); ok {
				out = append(out, domEntry{V: v, Cells: cb.cells, Go: g})
			}
		}
		return out
	case *types.Slice:
		z := zero(u.Elem())
		if hasUnsup(z) != "" {
			return nil
		}
		arr := mk("array")
		arr.E = []Val{z}
		s := mk("slice")
		s.I, s.B, s.C = 1, 1, 1
		out := []domEntry{{V: mk("slice"), Go: "(" + ts + ")(nil)"}, {V: s, Cells: []Val{arr}, Go: "make(" + ts + ", 1)"}}
		if containsPtrLike(u.Elem()) {
			var cb cellBuilder
			if v, g, ok := nx.rich(&cb, t, richDepth); ok {
				out = append(out, domEntry{V: v, Cells: cb.cells, Go: g})
			}
		}
		return out
	case *types.Map:
		m := mk("map")
		m.I = 1
		out := []domEntry{{V: mk("map"), Go: "(" + ts + ")(nil)"}, {V: m, Cells: []Val{mk("mapobj")}, Go: "make(" + ts + ")"}}
		// one-entry maps: the key is the second value of the key type's domain; the element is zero (a nil
		// entry that IS present: comma-ok lookups yield (nil, true)) and, for pointer-like elements, non-nil
		if kv, kg, ok := richBasic(u.Key(), nx.ts(u.Key())); ok {
			if z := zero(u.Elem()); hasUnsup(z) == "" {
				mo := mk("mapobj")
				ent := mk("tuple")
				ent.E = []Val{kv, z}
				mo.E = []Val{ent}
				out = append(out, domEntry{V: m, Cells: []Val{mo}, Go: ts + "{" + kg + ": *new(" + nx.ts(u.Elem()) + ")}"})
			}
			if containsPtrLike(u.Elem()) {
				var cb cellBuilder
				if v, g, ok := nx.rich(&cb, t, richDepth); ok {
					out = append(out, domEntry{V: v, Cells: cb.cells, Go: g})
				}
			}
		}
		return out
	case *types.Chan:
		c := mk("chan")
		c.I = 1
		return []domEntry{{V: mk("chan"), Go: "(" + ts + ")(nil)"}, {V: c, Cells: []Val{mk("chanobj")}, Go: "make(" + ts + ")"}}
	case *types.Signature:
		return []domEntry{{V: mk("func"), Go: "(" + ts + ")(nil)"}}
	case *types.Struct, *types.Array:
		z := zero(t)
		if hasUnsup(z) != "" {
			return nil
		}
		out := []domEntry{{V: z, Go: "*new(" + ts + ")"}}
		if containsPtrLike(t) {
			var cb cellBuilder
			if v, g, ok := nx.rich(&cb, t, richDepth); ok {
				out = append(out, domEntry{V: v, Cells: cb.cells, Go: g})
			}
		}
		return out
	case *types.Interface:
		out := []domEntry{{V: mk("iface"), Go: "(" + ts + ")(nil)"}}
		for _, tn := range nx.named {
			C := tn.Type()
			pc := types.NewPointer(C)
			if types.Implements(pc, u) {
				z := zero(C)
				if hasUnsup(z) != "" {
					continue
				}
				nx.ex.addRTWithMethods(pc)
				a := mk("iface")
				a.T = typeTag(pc)
				a.E = []Val{ptrV(0)}
				b := mk("iface")
				b.T = typeTag(pc)
				b.E = []Val{ptrV(1)}
				out = append(out, domEntry{V: a, Go: ts + "((*" + nx.ts(C) + ")(nil))"},
					domEntry{V: b, Cells: []Val{z}, Go: ts + "(new(" + nx.ts(C) + "))"})
				break
			}
		}
		if u.NumMethods() == 0 {
			nx.ex.addRTWithMethods(types.Typ[types.Int])
			a := mk("iface")
			a.T = "int"
			a.E = []Val{intV(1)}
			out = append(out, domEntry{V: a, Go: ts + "(1)"})
			pi := types.NewPointer(types.Typ[types.Int])
			nx.ex.addRTWithMethods(pi)
			b := mk("iface")
			b.T = typeTag(pi)
			b.E = []Val{ptrV(0)}
			c := mk("iface")
			c.T = typeTag(pi)
			c.E = []Val{ptrV(1)}
			out = append(out, domEntry{V: b, Go: ts + "((*int)(nil))"}, domEntry{V: c, Cells: []Val{intV(0)}, Go: ts + "(new(int))"})
		}
		return out
	}
	return nil
}

const richDepth = 2

// containsPtrLike: t is pointer-like or an aggregate with a pointer-like part.
func containsPtrLike(t types.Type) bool {
	switch u := types.Unalias(t).Underlying().(type) {
	case *types.Pointer, *types.Slice, *types.Map, *types.Chan, *types.Signature, *types.Interface:
		return true
	case *types.Basic:
		return u.Kind() == types.UnsafePointer
	case *types.Struct:
		for i := 0; i < u.NumFields(); i++ {
			if containsPtrLike(u.Field(i).Type()) {
				return true
			}
		}
	case *types.Array:
		return u.Len() > 0 && containsPtrLike(u.Elem())
	}
	return false
}

// cellBuilder collects the heap cells of one domain entry; addresses are 1-based and entry-relative
// (relocate shifts them when the entry is placed into a run).
type cellBuilder struct{ cells []Val }

func (b *cellBuilder) alloc(v Val) int {
	b.cells = append(b.cells, v)
	return len(b.cells)
}

func richBasic(t types.Type, ts string) (Val, string, bool) {
	if b, ok := types.Unalias(t).Underlying().(*types.Basic); ok {
		switch {
		case b.Info()&types.IsInteger != 0:
			return intV(1), ts + "(1)", true
		case b.Info()&types.IsBoolean != 0:
			return boolV(true), ts + "(true)", true
		case b.Info()&types.IsString != 0:
			return strV("a"), ts + `("a")`, true
		}
	}
	return Val{}, "", false
}

// rich yields a value of type t in which every pointer-like part is non-nil (down to the given depth; below it
// parts are zero), together with the Go expression that builds the same value natively.  ok = false when no such
// value can be written (func values, structs of other packages with unexported fields, unmodelled types).
func (nx *nilExp) rich(b *cellBuilder, t types.Type, depth int) (Val, string, bool) {
	ts := nx.ts(t)
	zeroOf := func(t types.Type) (Val, string, bool) {
		z := zero(t)
		return z, "*new(" + nx.ts(t) + ")", hasUnsup(z) == ""
	}
	part := func(t types.Type) (Val, string, bool) {
		if depth > 0 {
			if v, g, ok := nx.rich(b, t, depth-1); ok {
				return v, g, true
			}
		}
		return zeroOf(t)
	}
	switch u := types.Unalias(t).Underlying().(type) {
	case *types.Basic:
		return richBasic(t, ts)
	case *types.Pointer:
		ev, eg, ok := part(u.Elem())
		if !ok {
			return Val{}, "", false
		}
		return ptrV(b.alloc(ev)), "mkp[" + nx.ts(u.Elem()) + "](" + eg + ")", true
	case *types.Slice:
		ev, eg, ok := part(u.Elem())
		if !ok {
			return Val{}, "", false
		}
		arr := mk("array")
		arr.E = []Val{ev}
		s := mk("slice")
		s.I, s.B, s.C = int64(b.alloc(arr)), 1, 1
		return s, ts + "{" + eg + "}", true
	case *types.Map:
		kv, kg, ok := richBasic(u.Key(), nx.ts(u.Key()))
		if !ok {
			return Val{}, "", false
		}
		ev, eg, ok := part(u.Elem())
		if !ok {
			return Val{}, "", false
		}
		ent := mk("tuple")
		ent.E = []Val{kv, ev}
		mo := mk("mapobj")
		mo.E = []Val{ent}
		m := mk("map")
		m.I = int64(b.alloc(mo))
		return m, ts + "{" + kg + ": " + eg + "}", true
	case *types.Struct:
		if n, ok := types.Unalias(t).(*types.Named); ok && n.Obj().Pkg() != nil && n.Obj().Pkg() != nx.main {
			for i := 0; i < u.NumFields(); i++ {
				if !u.Field(i).Exported() {
					return Val{}, "", false
				}
			}
		}
		v := mk("struct")
		var fs []string
		for i := 0; i < u.NumFields(); i++ {
			f := u.Field(i)
			if f.Name() == "_" {
				z, _, ok := zeroOf(f.Type())
				if !ok {
					return Val{}, "", false
				}
				v.E = append(v.E, z)
				continue
			}
			fv, fg, ok := part(f.Type())
			if !ok {
				return Val{}, "", false
			}
			v.E = append(v.E, fv)
			fs = append(fs, f.Name()+": "+fg)
		}
		return v, ts + "{" + strings.Join(fs, ", ") + "}", true
	case *types.Array:
		if u.Len() > 4 {
			return Val{}, "", false
		}
		v := mk("array")
		var es []string
		for i := int64(0); i < u.Len(); i++ {
			ev, eg, ok := part(u.Elem())
			if !ok {
				return Val{}, "", false
			}
			v.E = append(v.E, ev)
			es = append(es, eg)
		}
		return v, ts + "{" + strings.Join(es, ", ") + "}", true
	case *types.Interface:
		for _, tn := range nx.named {
			pc := types.NewPointer(tn.Type())
			if types.Implements(pc, u) {
				pv, pg, ok := nx.rich(b, pc, 0)
				if !ok {
					continue
				}
				nx.ex.addRTWithMethods(pc)
				a := mk("iface")
				a.T = typeTag(pc)
				a.E = []Val{pv}
				return a, ts + "(" + pg + ")", true
			}
		}
		if u.NumMethods() == 0 {
			pi := types.NewPointer(types.Typ[types.Int])
			nx.ex.addRTWithMethods(pi)
			a := mk("iface")
			a.T = typeTag(pi)
			a.E = []Val{ptrV(b.alloc(intV(0)))}
			return a, ts + "(new(int))", true
		}
	}
	return Val{}, "", false
}

type nilParam struct {
	name string // "" for parameters, Go lvalue for globals
	gidx int    // heap address of the global (0 for parameters)
	dom  []domEntry
}

type NilRun struct {
	P     int    `json:"p"`
	F     int    `json:"f"`
	Fn    string `json:"fn"`
	Vec   int    `json:"vec"`
	Args  []Val  `json:"args"`
	Cells []Val  `json:"cells"`
	GVals []GVal `json:"gvals"`
	Desc  string `json:"desc"`
	ResIf []int  `json:"resif"` // per result: 1 = interface-typed, 0 = other pointer-like, 2 = not pointer-like
}

type GVal struct {
	I int `json:"i"`
	V Val `json:"v"`
}

func cmdNilExport(args []string) {
	fs := flag.NewFlagSet("nilexport", flag.ExitOnError)
	dir := fs.String("dir", ".", "module directory")
	out := fs.String("out", "", "output JSON")
	max := fs.Int("max", 64, "maximum number of vectors per function")
	mod := fs.String("mod", "ex.test/nilm", "module path")
	fs.Parse(args)
	fset, pkgs := buildModule(*dir, *mod, ir.GlobalDebug)
	mainPkg := pkgs[0]
	ex := &exporter{prog: mainPkg.Prog, pkg: mainPkg, pkgs: map[*ir.Package]bool{}, fnIdx: map[*ir.Function]int{}, globIdx: map[*ir.Global]int{}, rtSeen: map[string]bool{}, fset: fset, chans: true}
	for _, p := range pkgs {
		ex.pkgs[p] = true
	}
	ex.collect()
	nx := &nilExp{ex: ex, main: mainPkg.Pkg}
	for _, p := range pkgs {
		sc := p.Pkg.Scope()
		for _, n := range sc.Names() {
			if tn, ok := sc.Lookup(n).(*types.TypeName); ok && !tn.IsAlias() {
				if named, ok := tn.Type().(*types.Named); ok && named.TypeParams().Len() == 0 && (p.Pkg == mainPkg.Pkg || tn.Exported()) {
					nx.named = append(nx.named, tn)
				}
			}
		}
	}
	// pointer-like package-level variables: their value at function entry is arbitrary
	var globals []nilParam
	for _, g := range ex.globs {
		if g.Object() == nil {
			continue
		}
		et := g.Type().Underlying().(*types.Pointer).Elem()
		if !typeutil.IsPointerLike(et) {
			continue
		}
		lv := g.Name()
		if g.Pkg != mainPkg {
			if !g.Object().Exported() {
				continue
			}
			lv = g.Pkg.Pkg.Name() + "." + lv
		}
		if d := nx.domain(et); len(d) > 1 {
			globals = append(globals, nilParam{name: lv, gidx: ex.globIdx[g], dom: d})
		}
	}
	type futT struct {
		fn     *ir.Function
		params []nilParam
		resif  []int
	}
	var futs []futT
	names := mainPkg.Pkg.Scope().Names()
	sort.Strings(names)
	for _, n := range names {
		tf, ok := mainPkg.Pkg.Scope().Lookup(n).(*types.Func)
		if !ok || strings.HasPrefix(n, "emit") || n == "main" || n == "init" {
			continue
		}
		sig := tf.Type().(*types.Signature)
		if sig.TypeParams().Len() > 0 || sig.Variadic() {
			continue
		}
		any := false
		var resif []int
		for i := 0; i < sig.Results().Len(); i++ {
			rt := sig.Results().At(i).Type()
			switch {
			case types.IsInterface(rt):
				resif = append(resif, 1)
				any = true
			case typeutil.IsPointerLike(rt):
				resif = append(resif, 0)
				any = true
			default:
				resif = append(resif, 2)
			}
		}
		if !any {
			continue
		}
		f := futT{fn: mainPkg.Prog.FuncValue(tf), resif: resif}
		ok = f.fn != nil
		for i := 0; ok && i < sig.Params().Len(); i++ {
			d := nx.domain(sig.Params().At(i).Type())
			if len(d) == 0 {
				ok = false
			}
			f.params = append(f.params, nilParam{dom: d})
		}
		if ok {
			futs = append(futs, f)
		}
	}
	p := ex.exportAfterCollect("staticcheck(GlobalDebug)")
	nglob := len(p.Globals)

	var runs []NilRun
	var drv strings.Builder
	drv.WriteString("//go:build drv\n\npackage main\n\nimport \"reflect\"\n\n")
	drv.WriteString("//LIBIMPORTS\n")
	drv.WriteString(`
func pP(isNil bool) {
	if isNil {
		print(" 1:2")
	} else {
		print(" 0:2")
	}
}
func pI(x any) {
	if x == nil {
		print(" 1:2")
		return
	}
	v := reflect.ValueOf(x)
	switch v.Kind() {
	case reflect.Ptr, reflect.Slice, reflect.Map, reflect.Func, reflect.Chan, reflect.UnsafePointer:
		if v.IsNil() {
			print(" 0:1")
			return
		}
	}
	print(" 0:0")
}
func pV() { print(" 0:2") }
func mkp[T any](v T) *T { return &v }

`)
	var mainBody strings.Builder
	for _, f := range futs {
		// only the package-level variables the function can reach matter for its behaviour
		reach := ex.reachableGlobals(f.fn)
		all := append([]nilParam{}, f.params...)
		for _, gq := range globals {
			if reach == nil || reach[gq.gidx] {
				all = append(all, gq)
			}
		}
		total := 1
		for _, q := range all {
			total *= len(q.dom)
			if total > 1<<20 {
				total = 1 << 20
			}
		}
		nvec := total
		if nvec > *max {
			nvec = *max
		}
		for k := 0; k < nvec; k++ {
			idx := k
			if total > *max {
				idx = k * total / *max
			}
			run := NilRun{P: 1, F: ex.fnIdx[f.fn], Fn: f.fn.Name(), Vec: k, Args: []Val{}, Cells: []Val{}, GVals: []GVal{}, ResIf: f.resif}
			var goArgs, goSets, desc []string
			rem := idx
			for _, q := range all {
				e := q.dom[rem%len(q.dom)]
				rem /= len(q.dom)
				base := nglob + len(run.Cells)
				v := relocate(e.V, base)
				for _, c := range e.Cells {
					run.Cells = append(run.Cells, relocate(c, base))
				}
				if q.gidx == 0 {
					run.Args = append(run.Args, v)
					goArgs = append(goArgs, e.Go)
					desc = append(desc, e.Go)
				} else {
					run.GVals = append(run.GVals, GVal{I: q.gidx, V: v})
					goSets = append(goSets, q.name+" = "+e.Go)
					desc = append(desc, q.name+"="+e.Go)
				}
			}
			run.Desc = f.fn.Name() + "(" + strings.Join(desc, ", ") + ")"
			runs = append(runs, run)
			fn := fmt.Sprintf("run_%s_%d", f.fn.Name(), k)
			fmt.Fprintf(&drv, "func %s() {\n\tdefer func() {\n\t\tif r := recover(); r != nil {\n\t\t\tprint(\"PANIC\\n\")\n\t\t}\n\t}()\n", fn)
			fmt.Fprintf(&drv, "\tprint(\"CALL %s %d\\n\")\n", f.fn.Name(), k)
			for _, s := range goSets {
				fmt.Fprintf(&drv, "\t%s\n", s)
			}
			var rs []string
			for i := range f.resif {
				rs = append(rs, fmt.Sprintf("r%d", i))
			}
			fmt.Fprintf(&drv, "\t%s := %s(%s)\n", strings.Join(rs, ", "), f.fn.Name(), strings.Join(goArgs, ", "))
			drv.WriteString("\tprint(\"NIL\")\n")
			for i, k := range f.resif {
				switch k {
				case 1:
					fmt.Fprintf(&drv, "\tpI(r%d)\n", i)
				case 0:
					fmt.Fprintf(&drv, "\tpP(r%d == nil)\n", i)
				default:
					fmt.Fprintf(&drv, "\t_ = r%d\n\tpV()\n", i)
				}
			}
			drv.WriteString("\tprint(\"\\n\")\n}\n\n")
			fmt.Fprintf(&mainBody, "\t%s()\n", fn)
		}
	}
	drv.WriteString("func main() {\n" + mainBody.String() + "}\n")
	text := drv.String()
	imports := ""
	for _, pk := range pkgs[1:] {
		if strings.Contains(text, pk.Pkg.Name()+".") {
			imports += fmt.Sprintf("import %s %q\n", pk.Pkg.Name(), pk.Pkg.Path())
		}
	}
	text = strings.Replace(text, "//LIBIMPORTS\n", imports, 1)
	if err := os.WriteFile(filepath.Join(*dir, "main_native.go"), []byte(text), 0o644); err != nil {
		die("%v", err)
	}
	if runs == nil {
		runs = []NilRun{}
	}
	doc := map[string]any{"progs": []Prog{p}, "runs": runs}
	b, err := json.Marshal(doc)
	if err != nil {
		die("%v", err)
	}
	if err := os.WriteFile(*out, b, 0o644); err != nil {
		die("%v", err)
	}
}

// reachableGlobals returns the heap indices of the package-level variables referenced by f or by a function
// statically reachable from it; nil means "unknown" (dynamic dispatch).
func (ex *exporter) reachableGlobals(f *ir.Function) map[int]bool {
	out := map[int]bool{}
	seen := map[*ir.Function]bool{}
	todo := []*ir.Function{f}
	for len(todo) > 0 {
		fn := todo[len(todo)-1]
		todo = todo[:len(todo)-1]
		if seen[fn] {
			continue
		}
		seen[fn] = true
		todo = append(todo, fn.AnonFuncs...)
		for _, b := range fn.Blocks {
			for _, ins := range b.Instrs {
				if c, ok := ins.(ir.CallInstruction); ok && c.Common().IsInvoke() {
					return nil
				}
				var rands [16]*ir.Value
				for _, op := range ins.Operands(rands[:0]) {
					switch v := (*op).(type) {
					case *ir.Function:
						todo = append(todo, v)
					case *ir.Global:
						if i, ok := ex.globIdx[v]; ok {
							out[i] = true
						}
					}
				}
			}
		}
	}
	return out
}
