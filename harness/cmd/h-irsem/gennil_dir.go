package main

// Directed families of C15 programs: one function per (source, shape).
//
// A *source* is a Go expression whose pointer-like value is produced by ONE transfer rule of the nilness
// analysis (analysis/facts/nilness: Alloc, MakeInterface, Load, FieldAddr, IndexAddr, Field, Index, MapLookup
// plain / comma-ok, TypeAssert plain / comma-ok, Extract of Call / TypeSwitch / Next / Recv / Select, ChangeType,
// ChangeInterface, Convert, Slice, SliceToArrayPointer, Const, Call with callee facts / dynamic / builtins,
// MakeClosure, Function, MakeMap/MakeSlice/MakeChan, Global, Parameter, Recv).
// A *shape* merges that value with DEFINITE nilness coming from another path — result 0 merges it with a
// definitely non-nil value, result 1 with nil — because that is where a rule that leaves its value unset
// (the lattice identity: the merge silently takes the other path's nilness) or that is too optimistic shows:
//
//	phi     var r0, r1 R = NN, nil; if c { r0, r1 = X, X }; return r0, r1
//	phiX    var r0, r1 R = X, X; if c { r0, r1 = NN, nil }; return r0, r1
//	ret     if c { return X, X }; return NN, nil
//	retX    if c { return NN, nil }; return X, X
//	direct  return X
//
// Sources that are blocks themselves (type switch clauses, range loops, `if v, ok := m[k]; ok`, select) use the
// block in place of `if c`.

import (
	"fmt"
	"math/rand"
	"sort"
	"strings"
)

const dirLib = nilLib + `
func Two(p *int) (*int, error) { return p, nil }

type B struct{ P *int }

func (b *B) Get() *int { return b.P }
`

const dirPrelude = `package main

import "ex.test/nilm/lib"

type T struct {
	f *int
	n int
}

func (t *T) M() int { return 7 }
func (t *T) K()     {}
func (t *T) P() *int {
	if t == nil {
		return nil
	}
	return t.f
}
func (t *T) Get() *int { return t.f }

type E struct{ msg string }

func (e *E) Error() string { return "e" }

type I interface{ M() int }
type I2 interface {
	M() int
	K()
}
type J interface{ P() *int }

type S struct {
	p  *int
	t  *T
	i  I
	e  error
	a  any
	m  map[int]*int
	s  []*int
	fn func() *int
}

type PI *int
type SL []int
type T2 T

var gN int
var gp *int
var gs []int
var gi I
var gm map[int]*int
var ge error
var ga any
var gf func() *int
var gT T
var gS S
var garr [2]*int

var _ = lib.Fresh

func mkNN() *int  { return new(int) }
func mkNil() *int { return nil }
func mkMaybe(b bool) *int {
	if b {
		return new(int)
	}
	return nil
}
func pass(p *int) *int          { return p }
func two(p *int) (*int, error)  { return p, nil }
func twoI(t *T) (I, *T)         { return t, t }
func mkS(p *int) S              { return S{p: p} }
func idS(s S) S                 { return s }
func idA(a [2]*int) [2]*int     { return a }
func idAI(a [2]I) [2]I          { return a }
func id[X any](x X) X           { return x }
func first[X any](x, y X) X     { return x }
func idI[X I](x X) I            { return x }
func viaDefer(p *int) (r *int) {
	defer func() { r = p }()
	return nil
}

`

// definitely non-nil expressions per result type (nil is always the untyped nil)
var dirNN = map[string][]string{
	"*int":         {"new(int)", "&gN"},
	"**int":        {"new(*int)", "&gp"},
	"*T":           {"&T{}", "new(T)", "&gT"},
	"[]int":        {"[]int{}", "make([]int, 0)", "[]int{1}"},
	"[]*int":       {"[]*int{}", "make([]*int, 1)"},
	"[]byte":       {"[]byte{}"},
	"[]rune":       {"[]rune{}"},
	"SL":           {"SL{}"},
	"PI":           {"PI(new(int))"},
	"map[int]*int": {"map[int]*int{}", "make(map[int]*int)"},
	"I":            {"I(&T{})", "I(new(T))"},
	"I2":           {"I2(&T{})"},
	"any":          {"any(new(int))", "any(1)", "any(&T{})"},
	"error":        {"error(&E{})"},
	"func() *int":  {"mkNN", "func() *int { return nil }"},
	"*[1]int":      {"new([1]int)", "&[1]int{}"},
	"*[0]int":      {"new([0]int)"},
	"chan int":     {"make(chan int)", "make(chan int, 1)"},
}

type dsrc struct {
	kind   string   // transfer rule exercised (the notes' table is keyed by this)
	name   string   // short label
	res    string   // result type
	params []string // "name type"
	pre    []string // statements establishing the value
	expr   string   // the value
	open   []string // block sources: lines opening the block in which expr is defined ...
	close  []string // ... and closing it
}

func dirSources() []dsrc {
	var out []dsrc
	add := func(kind, name, res string, params []string, pre []string, expr string) {
		out = append(out, dsrc{kind: kind, name: name, res: res, params: params, pre: pre, expr: expr})
	}
	blk := func(kind, name, res string, params []string, pre, open []string, expr string, close []string) {
		out = append(out, dsrc{kind: kind, name: name, res: res, params: params, pre: pre, expr: expr, open: open, close: close})
	}
	P := func(s ...string) []string { return s }

	// --- Alloc / Const / Parameter ---------------------------------------------------------------------
	add("Alloc", "new", "*int", nil, nil, "new(int)")
	add("Alloc", "complit", "*T", nil, nil, "&T{}")
	add("Alloc", "localaddr", "*int", nil, P("n := 0"), "&n")
	add("Const", "nil_ptr", "*int", nil, nil, "nil")
	add("Const", "nil_iface", "I", nil, nil, "nil")
	add("Const", "nil_slice", "[]int", nil, nil, "nil")
	for _, pt := range []string{"*int", "*T", "[]int", "map[int]*int", "I", "any", "error", "func() *int", "chan int"} {
		add("Parameter", "param", pt, P("p "+pt), nil, "p")
	}
	// --- MakeInterface ---------------------------------------------------------------------------------
	add("MakeInterface", "I(ptr)", "I", P("t *T"), nil, "I(t)")
	add("MakeInterface", "any(ptr)", "any", P("p *int"), nil, "any(p)")
	add("MakeInterface", "any(slice)", "any", P("s []int"), nil, "any(s)")
	add("MakeInterface", "any(map)", "any", P("m map[int]*int"), nil, "any(m)")
	add("MakeInterface", "any(int)", "any", P("n int"), nil, "any(n)")
	add("MakeInterface", "any(struct)", "any", P("t T"), nil, "any(t)")
	add("MakeInterface", "error(ptr)", "error", P("e *E"), nil, "error(e)")
	add("MakeInterface", "any(load)", "any", P("pp **int"), nil, "any(*pp)")
	add("MakeInterface", "any(lookup)", "any", P("m map[int]*int", "k int"), nil, "any(m[k])")
	// --- Load ------------------------------------------------------------------------------------------
	add("Load", "*pp", "*int", P("pp **int"), nil, "*pp")
	add("Load", "*ps", "[]int", P("ps *[]int"), nil, "*ps")
	add("Load", "*pi", "I", P("pi *I"), nil, "*pi")
	add("Load", "*pa", "any", P("pa *any"), nil, "*pa")
	add("Load", "*pe", "error", P("pe *error"), nil, "*pe")
	add("Load", "*pm", "map[int]*int", P("pm *map[int]*int"), nil, "*pm")
	add("Load(Global)", "gp", "*int", nil, nil, "gp")
	add("Load(Global)", "gs", "[]int", nil, nil, "gs")
	add("Load(Global)", "gi", "I", nil, nil, "gi")
	add("Load(Global)", "gm", "map[int]*int", nil, nil, "gm")
	add("Load(Global)", "ge", "error", nil, nil, "ge")
	add("Load(Global)", "ga", "any", nil, nil, "ga")
	add("Load(Global)", "gf", "func() *int", nil, nil, "gf")
	// --- FieldAddr (+Load) -----------------------------------------------------------------------------
	add("FieldAddr+Load", "t.f", "*int", P("t *T"), nil, "t.f")
	add("FieldAddr+Load", "s.p", "*int", P("s *S"), nil, "s.p")
	add("FieldAddr+Load", "s.t", "*T", P("s *S"), nil, "s.t")
	add("FieldAddr+Load", "s.i", "I", P("s *S"), nil, "s.i")
	add("FieldAddr+Load", "s.e", "error", P("s *S"), nil, "s.e")
	add("FieldAddr+Load", "s.a", "any", P("s *S"), nil, "s.a")
	add("FieldAddr+Load", "s.m", "map[int]*int", P("s *S"), nil, "s.m")
	add("FieldAddr+Load", "s.s", "[]*int", P("s *S"), nil, "s.s")
	add("FieldAddr+Load", "s.fn", "func() *int", P("s *S"), nil, "s.fn")
	add("FieldAddr+Load", "gS.p", "*int", nil, nil, "gS.p")
	add("FieldAddr+Load", "gS.i", "I", nil, nil, "gS.i")
	add("FieldAddr", "&t.n", "*int", P("t *T"), nil, "&t.n")
	add("FieldAddr", "&t.f", "**int", P("t *T"), nil, "&t.f")
	add("FieldAddr", "&gT.n", "*int", nil, nil, "&gT.n")
	// --- IndexAddr (+Load) -----------------------------------------------------------------------------
	add("IndexAddr", "&s[0]", "*int", P("s []int"), nil, "&s[0]")
	add("IndexAddr", "&a[1]", "*int", P("a *[2]int"), nil, "&a[1]")
	add("IndexAddr", "&sp[0]", "**int", P("sp []*int"), nil, "&sp[0]")
	add("IndexAddr+Load", "sp[0]", "*int", P("sp []*int"), nil, "sp[0]")
	add("IndexAddr+Load", "ap[1]", "*int", P("ap *[2]*int"), nil, "ap[1]")
	add("IndexAddr+Load", "st[0]", "*T", P("st []*T"), nil, "st[0]")
	add("IndexAddr+Load", "si[0]", "I", P("si []I"), nil, "si[0]")
	add("IndexAddr+Load", "se[0]", "error", P("se []error"), nil, "se[0]")
	add("IndexAddr+Load", "sa[0]", "any", P("sa []any"), nil, "sa[0]")
	add("IndexAddr+Load", "ss[0]", "[]int", P("ss [][]int"), nil, "ss[0]")
	add("IndexAddr+Load", "sm[0]", "map[int]*int", P("sm []map[int]*int"), nil, "sm[0]")
	add("IndexAddr+Load", "garr[1]", "*int", nil, nil, "garr[1]")
	// --- Field / Index (values that are not addressable) -----------------------------------------------
	for _, f := range [][2]string{{"p", "*int"}, {"t", "*T"}, {"i", "I"}, {"e", "error"}, {"a", "any"}, {"m", "map[int]*int"}, {"s", "[]*int"}} {
		add("Field", "idS(sv)."+f[0], f[1], P("sv S"), nil, "idS(sv)."+f[0])
	}
	add("Field", "mkS(p).p", "*int", P("p *int"), nil, "mkS(p).p")
	add("Index", "idA(av)[0]", "*int", P("av [2]*int"), nil, "idA(av)[0]")
	add("Index", "idA(av)[n]", "*int", P("av [2]*int", "n int"), nil, "idA(av)[n]")
	add("Index", "idAI(avi)[1]", "I", P("avi [2]I"), nil, "idAI(avi)[1]")
	// struct / array parameters are spilled to an Alloc by the builder: FieldAddr / IndexAddr + Load
	add("FieldAddr+Load", "sv.p (param copy)", "*int", P("sv S"), nil, "sv.p")
	add("FieldAddr+Load", "sv.i (param copy)", "I", P("sv S"), nil, "sv.i")
	add("IndexAddr+Load", "av[n] (param copy)", "*int", P("av [2]*int", "n int"), nil, "av[n]")
	// --- MapLookup, plain ------------------------------------------------------------------------------
	add("MapLookup", "m[k]", "*int", P("m map[int]*int", "k int"), nil, "m[k]")
	add("MapLookup", "ms[k]", "*T", P("ms map[string]*T", "k string"), nil, "ms[k]")
	add("MapLookup", "me[k]", "error", P("me map[int]error", "k int"), nil, "me[k]")
	add("MapLookup", "mi[k]", "I", P("mi map[int]I", "k int"), nil, "mi[k]")
	add("MapLookup", "msl[k]", "[]int", P("msl map[int][]int", "k int"), nil, "msl[k]")
	add("MapLookup", "ma[k]", "any", P("ma map[string]any", "k string"), nil, "ma[k]")
	add("MapLookup", "mm[k]", "map[int]*int", P("mm map[int]map[int]*int", "k int"), nil, "mm[k]")
	add("MapLookup", "nilmap[k]", "*int", P("k int"), P("var m map[int]*int"), "m[k]")
	add("MapLookup", "emptymap[k]", "*int", P("k int"), P("m := map[int]*int{}"), "m[k]")
	add("MapLookup", "literal[k]", "*int", P("k int"), P("m := map[int]*int{0: nil, 1: new(int)}"), "m[k]")
	add("MapLookup", "missingkey", "*int", nil, P("m := map[int]*int{1: new(int)}"), "m[2]")
	add("MapLookup", "gm[k]", "*int", P("k int"), nil, "gm[k]")
	add("MapLookup", "s.m[k]", "*int", P("s *S", "k int"), nil, "s.m[k]")
	// --- MapLookup, comma-ok (Extract) -----------------------------------------------------------------
	cok := func(name, res string, params []string, pre []string, look string) {
		add("Extract(MapLookup,ok)", name, res, params, append(append([]string{}, pre...), "v, ok := "+look, "_ = ok"), "v")
	}
	cok("v,ok:=m[k]", "*int", P("m map[int]*int", "k int"), nil, "m[k]")
	cok("v,ok:=ms[k]", "*T", P("ms map[string]*T", "k string"), nil, "ms[k]")
	cok("v,ok:=me[k]", "error", P("me map[int]error", "k int"), nil, "me[k]")
	cok("v,ok:=mi[k]", "I", P("mi map[int]I", "k int"), nil, "mi[k]")
	cok("v,ok:=msl[k]", "[]int", P("msl map[int][]int", "k int"), nil, "msl[k]")
	cok("v,ok:=ma[k]", "any", P("ma map[string]any", "k string"), nil, "ma[k]")
	cok("v,ok:=nilmap[k]", "*int", P("k int"), P("var m map[int]*int"), "m[k]")
	cok("v,ok:=emptymap[k]", "*int", P("k int"), P("m := map[int]*int{}"), "m[k]")
	cok("v,ok:=literal[k]", "*int", P("k int"), P("m := map[int]*int{0: nil, 1: new(int)}"), "m[k]")
	cok("v,ok:=gm[k]", "*int", P("k int"), nil, "gm[k]")
	blk("Extract(MapLookup,ok)", "if v,ok:=m[k];ok", "*int", P("m map[int]*int", "k int"), nil, P("if v, ok := m[k]; ok {"), "v", P("}"))
	blk("Extract(MapLookup,ok)", "if v,ok:=ms[k];ok", "*T", P("ms map[string]*T", "k string"), nil, P("if v, ok := ms[k]; ok {"), "v", P("}"))
	blk("Extract(MapLookup,ok)", "if v,ok:=m[k];!ok", "*int", P("m map[int]*int", "k int"), nil, P("if v, ok := m[k]; !ok {"), "v", P("}"))
	blk("Extract(MapLookup,ok)", "if v,ok:=mi[k];ok", "I", P("mi map[int]I", "k int"), nil, P("if v, ok := mi[k]; ok {"), "v", P("}"))
	blk("Extract(MapLookup,ok)", "if v,ok:=me[k];ok", "error", P("me map[int]error", "k int"), nil, P("if v, ok := me[k]; ok {"), "v", P("}"))
	// --- TypeAssert ------------------------------------------------------------------------------------
	add("TypeAssert", "a.(*int)", "*int", P("a any"), nil, "a.(*int)")
	add("TypeAssert", "a.(*T)", "*T", P("a any"), nil, "a.(*T)")
	add("TypeAssert", "i.(*T)", "*T", P("i I"), nil, "i.(*T)")
	add("TypeAssert", "a.(I)", "I", P("a any"), nil, "a.(I)")
	add("TypeAssert", "a.(error)", "error", P("a any"), nil, "a.(error)")
	add("TypeAssert", "a.(any)", "any", P("a any"), nil, "a.(any)")
	add("TypeAssert", "i.(I2)", "I2", P("i I"), nil, "i.(I2)")
	add("TypeAssert", "a.([]int)", "[]int", P("a any"), nil, "a.([]int)")
	add("TypeAssert", "a.(map[int]*int)", "map[int]*int", P("a any"), nil, "a.(map[int]*int)")
	add("TypeAssert", "ga.(*int)", "*int", nil, nil, "ga.(*int)")
	add("TypeAssert", "(*pa).(*int)", "*int", P("pa *any"), nil, "(*pa).(*int)")
	add("TypeAssert", "ma[k].(*int)", "*int", P("ma map[string]any", "k string"), nil, "ma[k].(*int)")
	tok := func(name, res string, params []string, src, typ string) {
		add("Extract(TypeAssert,ok)", "v,ok:="+name, res, params, P("v, ok := "+src+".("+typ+")", "_ = ok"), "v")
		blk("Extract(TypeAssert,ok)", "if v,ok:="+name+";ok", res, params, nil, P("if v, ok := "+src+".("+typ+"); ok {"), "v", P("}"))
	}
	tok("a.(*int)", "*int", P("a any"), "a", "*int")
	tok("a.(*T)", "*T", P("a any"), "a", "*T")
	tok("i.(*T)", "*T", P("i I"), "i", "*T")
	tok("a.(I)", "I", P("a any"), "a", "I")
	tok("a.(error)", "error", P("a any"), "a", "error")
	tok("a.([]int)", "[]int", P("a any"), "a", "[]int")
	blk("Extract(TypeAssert,ok)", "if v,ok:=a.(*int);!ok", "*int", P("a any"), nil, P("if v, ok := a.(*int); !ok {"), "v", P("}"))
	// --- Extract of a Call -----------------------------------------------------------------------------
	add("Extract(Call)", "two(p)#0", "*int", P("p *int"), P("v, _ := two(p)"), "v")
	add("Extract(Call)", "two(p)#1", "error", P("p *int"), P("_, v := two(p)"), "v")
	add("Extract(Call)", "twoI(t)#0", "I", P("t *T"), P("v, _ := twoI(t)"), "v")
	add("Extract(Call)", "twoI(t)#1", "*T", P("t *T"), P("_, v := twoI(t)"), "v")
	add("Extract(Call)", "lib.Two(p)#0", "*int", P("p *int"), P("v, _ := lib.Two(p)"), "v")
	// --- Extract of a TypeSwitch -----------------------------------------------------------------------
	blk("Extract(TypeSwitch)", "case *int", "*int", P("a any"), nil, P("switch v := a.(type) {", "case *int:"), "v", P("}"))
	blk("Extract(TypeSwitch)", "case nil,*int", "*int", P("a any"), nil, P("switch v := a.(type) {", "case nil:", "case *int:"), "v", P("}"))
	blk("Extract(TypeSwitch)", "case *T of I", "*T", P("i I"), nil, P("switch v := i.(type) {", "case *T:"), "v", P("}"))
	blk("Extract(TypeSwitch)", "case I", "I", P("a any"), nil, P("switch v := a.(type) {", "case I:"), "v", P("}"))
	blk("Extract(TypeSwitch)", "case error", "error", P("a any"), nil, P("switch v := a.(type) {", "case error:"), "v", P("}"))
	blk("Extract(TypeSwitch)", "case *int,*T", "any", P("a any"), nil, P("switch v := a.(type) {", "case *int, *T:"), "v", P("}"))
	blk("Extract(TypeSwitch)", "default", "any", P("a any"), nil, P("switch v := a.(type) {", "case *int:", "\t_ = v", "default:"), "v", P("}"))
	blk("Extract(TypeSwitch)", "default after nil", "any", P("a any"), nil, P("switch v := a.(type) {", "case nil:", "\t_ = v", "default:"), "v", P("}"))
	blk("Extract(TypeSwitch)", "default of I", "I", P("i I"), nil, P("switch v := i.(type) {", "case *T:", "\t_ = v", "default:"), "v", P("}"))
	blk("Extract(TypeSwitch)", "case []int", "[]int", P("a any"), nil, P("switch v := a.(type) {", "case []int:"), "v", P("}"))
	// --- Next: range over maps; range over slices / arrays (IndexAddr+Load, Index) ---------------------
	blk("Extract(Next)", "range m value", "*int", P("m map[int]*int"), nil, P("for _, v := range m {"), "v", P("}"))
	blk("Extract(Next)", "range ms value", "*T", P("ms map[string]*T"), nil, P("for _, v := range ms {"), "v", P("}"))
	blk("Extract(Next)", "range mi value", "I", P("mi map[int]I"), nil, P("for _, v := range mi {"), "v", P("}"))
	blk("Extract(Next)", "range me value", "error", P("me map[int]error"), nil, P("for _, v := range me {"), "v", P("}"))
	blk("Extract(Next)", "range literal value", "*int", nil, P("m := map[int]*int{0: nil}"), P("for _, v := range m {"), "v", P("}"))
	blk("Extract(Next)", "range key", "*int", P("p *int"), P("m := map[*int]bool{p: true}"), P("for v := range m {"), "v", P("}"))
	blk("Extract(Next)", "range gm value", "*int", nil, nil, P("for _, v := range gm {"), "v", P("}"))
	blk("range slice", "range sp", "*int", P("sp []*int"), nil, P("for _, v := range sp {"), "v", P("}"))
	blk("range slice", "range si", "I", P("si []I"), nil, P("for _, v := range si {"), "v", P("}"))
	blk("range slice", "range se", "error", P("se []error"), nil, P("for _, v := range se {"), "v", P("}"))
	blk("range array", "range av", "*int", P("av [2]*int"), nil, P("for _, v := range av {"), "v", P("}"))
	blk("range array", "range ap", "*int", P("ap *[2]*int"), nil, P("for _, v := range ap {"), "v", P("}"))
	// --- ChangeType / ChangeInterface / Convert --------------------------------------------------------
	add("ChangeType", "PI(p)", "PI", P("p *int"), nil, "PI(p)")
	add("ChangeType", "(*int)(q)", "*int", P("q PI"), nil, "(*int)(q)")
	add("ChangeType", "(*T)(t2)", "*T", P("t2 *T2"), nil, "(*T)(t2)")
	add("ChangeType", "[]int(sl)", "[]int", P("sl SL"), nil, "[]int(sl)")
	add("ChangeType", "SL(s)", "SL", P("s []int"), nil, "SL(s)")
	add("ChangeType", "SL(lookup)", "SL", P("msl map[int][]int", "k int"), nil, "SL(msl[k])")
	add("ChangeInterface", "any(i)", "any", P("i I"), nil, "any(i)")
	add("ChangeInterface", "any(e)", "any", P("e error"), nil, "any(e)")
	add("ChangeInterface", "I(i2)", "I", P("i2 I2"), nil, "I(i2)")
	add("ChangeInterface", "any(gi)", "any", nil, nil, "any(gi)")
	add("ChangeInterface", "any(mi[k])", "any", P("mi map[int]I", "k int"), nil, "any(mi[k])")
	add("Convert", "[]byte(str)", "[]byte", P("str string"), nil, "[]byte(str)")
	add("Convert", "[]rune(str)", "[]rune", P("str string"), nil, "[]rune(str)")
	// --- Slice / SliceToArrayPointer -------------------------------------------------------------------
	for _, sx := range []string{"[:0]", "[0:]", "[:]", "[1:]", "[:1]", "[0:0:0]", "[:n]"} {
		add("Slice", "s"+sx, "[]int", P("s []int", "n int"), nil, "s"+sx)
	}
	add("Slice", "a[:]", "[]int", P("a *[2]int"), nil, "a[:]")
	add("Slice", "a[:0]", "[]int", P("a *[2]int"), nil, "a[:0]")
	add("Slice", "arr[:]", "[]int", nil, P("var arr [2]int"), "arr[:]")
	add("Slice", "sp[:0]", "[]*int", P("sp []*int"), nil, "sp[:0]")
	add("Slice", "gs[:0]", "[]int", nil, nil, "gs[:0]")
	add("Slice", "msl[k][:0]", "[]int", P("msl map[int][]int", "k int"), nil, "msl[k][:0]")
	add("SliceToArrayPointer", "(*[1]int)(s)", "*[1]int", P("s []int"), nil, "(*[1]int)(s)")
	add("SliceToArrayPointer", "(*[0]int)(s)", "*[0]int", P("s []int"), nil, "(*[0]int)(s)")
	// --- Call: callee facts (same package, other package), methods, dynamic, generic, deferred ----------
	add("Call(fact)", "mkNN()", "*int", nil, nil, "mkNN()")
	add("Call(fact)", "mkNil()", "*int", nil, nil, "mkNil()")
	add("Call(fact)", "mkMaybe(b)", "*int", P("b bool"), nil, "mkMaybe(b)")
	add("Call(fact)", "pass(p)", "*int", P("p *int"), nil, "pass(p)")
	add("Call(fact)", "lib.Fresh()", "*int", nil, nil, "lib.Fresh()")
	add("Call(fact)", "lib.Nil()", "*int", nil, nil, "lib.Nil()")
	add("Call(fact)", "lib.Pass(p)", "*int", P("p *int"), nil, "lib.Pass(p)")
	add("Call(fact)", "lib.Glob()", "*int", nil, nil, "lib.Glob()")
	add("Call(fact)", "lib.Err(b)", "error", P("b bool"), nil, "lib.Err(b)")
	add("Call(fact)", "lib.TypedNil()", "error", nil, nil, "lib.TypedNil()")
	add("Call(fact)", "viaDefer(p)", "*int", P("p *int"), nil, "viaDefer(p)")
	add("Call(method)", "t.Get()", "*int", P("t *T"), nil, "t.Get()")
	add("Call(method)", "t.P()", "*int", P("t *T"), nil, "t.P()")
	add("Call(method)", "lib b.Get()", "*int", P("b *lib.B"), nil, "b.Get()")
	add("Call(invoke)", "j.P()", "*int", P("j J"), nil, "j.P()")
	add("Call(dynamic)", "closure()", "*int", P("p *int"), P("f := func() *int { return p }"), "f()")
	add("Call(dynamic)", "funcvalue()", "*int", P("b bool"), P("f := mkNN", "if b {", "\tf = mkNil", "}"), "f()")
	add("Call(dynamic)", "gf()", "*int", nil, nil, "gf()")
	add("Call(generic)", "id(p)", "*int", P("p *int"), nil, "id(p)")
	add("Call(generic)", "first(p,nil)", "*int", P("p *int"), nil, "first(p, nil)")
	add("Call(generic)", "id(i)", "I", P("i I"), nil, "id(i)")
	add("Call(generic)", "idI(t)", "I", P("t *T"), nil, "idI(t)")
	// --- builtins --------------------------------------------------------------------------------------
	add("Call(append)", "append(s)", "[]int", P("s []int"), nil, "append(s)")
	add("Call(append)", "append(s,1)", "[]int", P("s []int"), nil, "append(s, 1)")
	add("Call(append)", "append(s,s...)", "[]int", P("s []int"), nil, "append(s, s...)")
	add("Call(append)", "append(nil)", "[]int", nil, nil, "append([]int(nil))")
	add("Call(append)", "append(nil,s...)", "[]int", P("s []int"), nil, "append([]int(nil), s...)")
	add("Call(append)", "append(sp,p)", "[]*int", P("sp []*int", "p *int"), nil, "append(sp, p)")
	add("Call(append)", "append(msl[k])", "[]int", P("msl map[int][]int", "k int"), nil, "append(msl[k])")
	add("Call(recover)", "recover()", "any", nil, nil, "recover()")
	// --- function values -------------------------------------------------------------------------------
	add("MakeClosure", "closure", "func() *int", P("p *int"), nil, "func() *int { return p }")
	add("Function", "mkNN", "func() *int", nil, nil, "mkNN")
	add("Function", "lib.Fresh", "func() *int", nil, nil, "lib.Fresh")
	add("Function", "literal", "func() *int", nil, nil, "func() *int { return nil }")
	add("MakeClosure", "t.Get (bound)", "func() *int", P("t *T"), nil, "t.Get")
	add("MakeClosure", "j.P (bound)", "func() *int", P("j J"), nil, "j.P")
	// --- MakeMap / MakeSlice / MakeChan / composite literals -------------------------------------------
	add("MakeMap", "make(map)", "map[int]*int", nil, nil, "make(map[int]*int)")
	add("MakeMap", "map literal", "map[int]*int", nil, nil, "map[int]*int{1: nil}")
	add("MakeSlice", "make([]int,n)", "[]int", P("n int"), nil, "make([]int, n)")
	add("MakeSlice", "make([]int,0)", "[]int", nil, nil, "make([]int, 0)")
	add("Alloc+Slice", "[]int{1}", "[]int", nil, nil, "[]int{1}")
	add("Alloc+Slice", "[]int{}", "[]int", nil, nil, "[]int{}")
	add("MakeChan", "make(chan)", "chan int", nil, nil, "make(chan int)")
	// --- Global (the address of a package-level variable) ----------------------------------------------
	add("Global", "&gp", "**int", nil, nil, "&gp")
	add("Global", "&gT", "*T", nil, nil, "&gT")
	add("Global", "&gN", "*int", nil, nil, "&gN")
	// --- channels: Recv, comma-ok Recv, range over a channel, Select ------------------------------------
	mkch := P("ch := make(chan *int, 1)", "ch <- p")
	add("Recv", "<-ch", "*int", P("p *int"), mkch, "<-ch")
	add("Extract(Recv,ok)", "v,ok:=<-ch", "*int", P("p *int"), append(append([]string{}, mkch...), "v, ok := <-ch", "_ = ok"), "v")
	add("Recv", "<-closed", "*int", nil, P("ch := make(chan *int)", "close(ch)"), "<-ch")
	add("Extract(Recv,ok)", "v,ok:=<-closed", "*int", nil, P("ch := make(chan *int)", "close(ch)", "v, ok := <-ch", "_ = ok"), "v")
	blk("Recv", "range ch", "*int", P("p *int"), append(append([]string{}, mkch...), "close(ch)"), P("for v := range ch {"), "v", P("}"))
	blk("Extract(Select)", "select recv", "*int", P("p *int"), mkch, P("select {", "case v := <-ch:"), "v", P("default:", "}"))
	blk("Extract(Select)", "select recv,ok", "*int", P("p *int"), mkch, P("select {", "case v, ok := <-ch:", "\t_ = ok"), "v", P("}"))
	return out
}

var dirShapes = []string{"phi", "phiX", "ret", "retX", "direct"}

type dirFn struct {
	Name, Kind, Src, Shape, Res string
}

// dirFunction renders source s in the given shape.
func dirFunction(r *rand.Rand, idx int, s dsrc, shape string) (string, dirFn) {
	var b strings.Builder
	w := func(ind int, f string, a ...any) {
		b.WriteString(strings.Repeat("\t", ind))
		fmt.Fprintf(&b, f, a...)
		b.WriteString("\n")
	}
	nns := dirNN[s.res]
	if len(nns) == 0 {
		panic("no non-nil expression for " + s.res)
	}
	nn := nns[r.Intn(len(nns))]
	block := len(s.open) > 0
	params := append([]string{}, s.params...)
	if !block && shape != "direct" {
		params = append(params, "c bool")
	}
	name := fmt.Sprintf("D%d", idx)
	meta := dirFn{Name: name, Kind: s.kind, Src: s.name, Shape: shape, Res: s.res}
	if shape == "direct" {
		w(0, "// %s: %s [%s]", s.kind, s.name, shape)
		w(0, "func %s(%s) %s {", name, strings.Join(params, ", "), s.res)
		for _, l := range s.pre {
			w(1, "%s", l)
		}
		w(1, "return %s", s.expr)
		w(0, "}")
		w(0, "")
		return b.String(), meta
	}
	w(0, "// %s: %s [%s]", s.kind, s.name, shape)
	w(0, "func %s(%s) (%s, %s) {", name, strings.Join(params, ", "), s.res, s.res)
	open, close := s.open, s.close
	if !block {
		open, close = []string{"if c {"}, []string{"}"}
	}
	emit := func(ind int, ls []string) {
		for _, l := range ls {
			w(ind, "%s", l)
		}
	}
	switch {
	case block && (shape == "phi" || shape == "phiX"):
		w(1, "var r0, r1 %s = %s, nil", s.res, nn)
		emit(1, s.pre)
		emit(1, open)
		w(2, "r0, r1 = %s, %s", s.expr, s.expr)
		emit(1, close)
		w(1, "return r0, r1")
	case block:
		emit(1, s.pre)
		emit(1, open)
		w(2, "return %s, %s", s.expr, s.expr)
		emit(1, close)
		w(1, "return %s, nil", nn)
	case shape == "phi":
		w(1, "var r0, r1 %s = %s, nil", s.res, nn)
		emit(1, open)
		emit(2, s.pre)
		w(2, "var x %s = %s", s.res, s.expr)
		w(2, "r0, r1 = x, x")
		emit(1, close)
		w(1, "return r0, r1")
	case shape == "phiX":
		emit(1, s.pre)
		w(1, "var x %s = %s", s.res, s.expr)
		w(1, "r0, r1 := x, x")
		emit(1, open)
		w(2, "r0, r1 = %s, nil", nn)
		emit(1, close)
		w(1, "return r0, r1")
	case shape == "ret":
		emit(1, open)
		emit(2, s.pre)
		w(2, "var x %s = %s", s.res, s.expr)
		w(2, "return x, x")
		emit(1, close)
		w(1, "return %s, nil", nn)
	case shape == "retX":
		emit(1, open)
		w(2, "return %s, nil", nn)
		emit(1, close)
		emit(1, s.pre)
		w(1, "var x %s = %s", s.res, s.expr)
		w(1, "return x, x")
	}
	w(0, "}")
	w(0, "")
	return b.String(), meta
}

// genDirPrograms renders the directed family into nprog programs.
//
//	full = false (quick): every source once, in one merging shape chosen by the seed (phi-like or return-like,
//	                      order of the two paths likewise) — both merges (with non-nil, with nil) are always present
//	                      because they are results 0 and 1 of the same function;
//	full = true (thorough): every source in every shape.
func genDirPrograms(seed int64, nprog int, full bool) ([]string, [][]dirFn) {
	r := rand.New(rand.NewSource(seed*104729 + 17))
	srcs := dirSources()
	type item struct {
		s     dsrc
		shape string
	}
	var items []item
	for _, s := range srcs {
		if full {
			for _, sh := range dirShapes {
				if len(s.open) > 0 && (sh == "phiX" || sh == "retX" || sh == "direct") {
					continue
				}
				items = append(items, item{s, sh})
			}
		} else {
			items = append(items, item{s, dirShapes[r.Intn(4)]})
		}
	}
	texts := make([]strings.Builder, nprog)
	metas := make([][]dirFn, nprog)
	for i := range texts {
		texts[i].WriteString(dirPrelude)
	}
	for i, it := range items {
		k := i % nprog
		t, m := dirFunction(r, i, it.s, it.shape)
		texts[k].WriteString(t)
		metas[k] = append(metas[k], m)
	}
	out := make([]string, nprog)
	for i := range texts {
		out[i] = texts[i].String()
	}
	return out, metas
}

// dirKinds lists the transfer rules the family covers (for the coverage record).
func dirKinds() []string {
	seen := map[string]bool{}
	for _, s := range dirSources() {
		seen[s.kind] = true
	}
	return keys(seen)
}

var _ = sort.Strings
