// h-irkinds builds the go/ir form (the mode internal/passes/buildir uses: ir.GlobalDebug) of the packages
// matched by the patterns and prints, as one JSON array, the set of instruction kinds (Go type names of
// the ir.Instruction values) that the real builder emitted. checks/C03.py hands the result to
// specs/GoAtoms.tla (ObservedCoversIR): the atoms of the spec must reach every instruction kind.
//
// usage: h-irkinds -dir <module dir> pattern...
package main

import (
	"encoding/json"
	"flag"
	"fmt"
	"os"
	"reflect"
	"sort"

	"honnef.co/go/tools/go/ir"
	"honnef.co/go/tools/go/ir/irutil"

	"golang.org/x/tools/go/packages"
)

func main() {
	dir := flag.String("dir", ".", "module directory")
	flag.Parse()
	cfg := &packages.Config{
		Mode: packages.NeedName | packages.NeedFiles | packages.NeedCompiledGoFiles | packages.NeedImports |
			packages.NeedDeps | packages.NeedTypes | packages.NeedSyntax | packages.NeedTypesInfo | packages.NeedTypesSizes,
		Dir: *dir,
		Env: append(os.Environ(), "GOFLAGS=-mod=mod", "GOPROXY=off"),
	}
	pkgs, err := packages.Load(cfg, flag.Args()...)
	if err != nil {
		fmt.Fprintln(os.Stderr, err)
		os.Exit(2)
	}
	if packages.PrintErrors(pkgs) > 0 {
		os.Exit(2)
	}
	prog, ipkgs := irutil.Packages(pkgs, ir.GlobalDebug)
	prog.Build()
	kinds := map[string]int{}
	seen := map[*ir.Function]bool{}
	var visit func(fn *ir.Function)
	visit = func(fn *ir.Function) {
		if fn == nil || seen[fn] {
			return
		}
		seen[fn] = true
		for _, b := range fn.Blocks {
			for _, ins := range b.Instrs {
				kinds[reflect.TypeOf(ins).Elem().Name()]++
				// values that are not block instructions (constants, parameters, ...) are seen as operands
				for _, op := range ins.Operands(nil) {
					if op != nil && *op != nil {
						if t := reflect.TypeOf(*op); t.Kind() == reflect.Ptr {
							switch t.Elem().Name() {
							case "Const", "AggregateConst", "Parameter", "Global", "Builtin", "Function", "ArrayConst", "GenericConst", "ZeroConst":
								kinds[t.Elem().Name()]++
							}
						}
					}
				}
			}
		}
		for _, fv := range fn.FreeVars {
			kinds[reflect.TypeOf(fv).Elem().Name()]++
		}
		for _, an := range fn.AnonFuncs {
			visit(an)
		}
	}
	for _, p := range ipkgs {
		if p == nil {
			continue
		}
		for _, m := range p.Members {
			if fn, ok := m.(*ir.Function); ok {
				visit(fn)
			}
		}
		for _, fn := range p.Functions {
			visit(fn)
		}
	}
	names := make([]string, 0, len(kinds))
	for k := range kinds {
		names = append(names, k)
	}
	sort.Strings(names)
	b, _ := json.Marshal(names)
	fmt.Println(string(b))
	cnt, _ := json.Marshal(kinds)
	fmt.Fprintln(os.Stderr, string(cnt))
}
