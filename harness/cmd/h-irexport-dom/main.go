// h-irexport-dom builds Go source with the REAL go/ir builder and exports, for every built
// function, the control-flow graph the builder actually produced (after optimizeBlocks and
// lifting) together with every dominance answer of the public API:
//
//	BasicBlock.Dominates (all ordered pairs), BasicBlock.Idom, BasicBlock.Dominees,
//	Function.DomPreorder, Function.DomPostorder, Function.Recover.
//
// Only exported go/ir API is read, so the export cannot be steered by the code under test
// except through the API the analyses use as well.  The JSON is loaded into TLC
// (specs/DomObs.tla), which evaluates the path-based definition of specs/Dom.tla on it
// (observation validation, property C14).
//
// usage:
//
//	h-irexport-dom -out f.json [-naive] [-maxblocks N] [-dedup] -src a.go -src b.go ...
//	    each -src file is one import-free package, type-checked and built in-process
//	h-irexport-dom -out f.json [-maxblocks N] [-dedup] -dir <module dir> -pkgs pattern ...
//	    packages loaded with go/packages (NeedDeps) and built with irutil.Packages
//
// Block numbers in the output are 1-based (TLA+ sequences); 0 = none.
package main

import (
	"encoding/json"
	"flag"
	"fmt"
	"go/ast"
	"go/importer"
	"go/parser"
	"go/token"
	"go/types"
	"os"
	"path/filepath"
	"runtime"
	"sort"
	"strings"
	"sync"
	"time"

	"golang.org/x/tools/go/packages"
	"honnef.co/go/tools/go/ir"
	"honnef.co/go/tools/go/ir/irutil"
)

type Fn struct {
	Name      string   `json:"name"`
	Mode      string   `json:"mode"`
	N         int      `json:"n"`
	Succs     [][]int  `json:"succs"`
	Preds     [][]int  `json:"preds"`
	Recover   int      `json:"recover"`
	Idom      []int    `json:"idom"`
	Dominees  [][]int  `json:"dominees"`
	Dom       [][2]int `json:"dom"`
	Preorder  []int    `json:"preorder"`
	Postorder []int    `json:"postorder"`
	Count     int      `json:"count"`    // functions with this exact artefact (dedup)
	Others    []string `json:"others"`   // a few more names with the same artefact
	Comments  []string `json:"comments"` // block comments (diagnostics only)
	IndexOK   bool     `json:"index_ok"` // Blocks[i].Index == i for all i
	Err       string   `json:"err"`      // non-empty: export precondition failed
}

type multi []string

func (m *multi) String() string     { return strings.Join(*m, ",") }
func (m *multi) Set(s string) error { *m = append(*m, s); return nil }

func ints(bs []*ir.BasicBlock, idx map[*ir.BasicBlock]int) []int {
	out := make([]int, 0, len(bs))
	for _, b := range bs {
		if b == nil {
			out = append(out, 0)
			continue
		}
		i, ok := idx[b]
		if !ok {
			out = append(out, -1) // a block that is not in fn.Blocks
			continue
		}
		out = append(out, i+1)
	}
	return out
}

func export(fn *ir.Function, name, mode string) *Fn {
	n := len(fn.Blocks)
	f := &Fn{Name: name, Mode: mode, N: n, Count: 1, Others: []string{}, IndexOK: true}
	idx := make(map[*ir.BasicBlock]int, n)
	for i, b := range fn.Blocks {
		idx[b] = i
		if b.Index != i {
			f.IndexOK = false
		}
	}
	f.Succs = make([][]int, n)
	f.Preds = make([][]int, n)
	f.Dominees = make([][]int, n)
	f.Idom = make([]int, n)
	f.Comments = make([]string, n)
	f.Dom = [][2]int{}
	for i, b := range fn.Blocks {
		f.Succs[i] = ints(b.Succs, idx)
		f.Preds[i] = ints(b.Preds, idx)
		f.Dominees[i] = ints(b.Dominees(), idx)
		f.Comments[i] = b.Comment
		if d := b.Idom(); d != nil {
			if j, ok := idx[d]; ok {
				f.Idom[i] = j + 1
			} else {
				f.Idom[i] = -1
			}
		}
		for j, c := range fn.Blocks {
			if b.Dominates(c) {
				f.Dom = append(f.Dom, [2]int{i + 1, j + 1})
			}
		}
	}
	if fn.Recover != nil {
		if j, ok := idx[fn.Recover]; ok {
			f.Recover = j + 1
		} else {
			f.Recover = -1
		}
	}
	f.Preorder = ints(fn.DomPreorder(), idx)
	f.Postorder = ints(fn.DomPostorder(), idx)
	return f
}

func allFuncs(pkg *ir.Package) []*ir.Function {
	var out []*ir.Function
	var add func(f *ir.Function)
	add = func(f *ir.Function) {
		out = append(out, f)
		for _, a := range f.AnonFuncs {
			add(a)
		}
	}
	for _, f := range pkg.Functions {
		add(f)
	}
	return out
}

func fnName(f *ir.Function) string {
	s := f.RelString(nil)
	if ta := f.TypeArgs(); len(ta) > 0 {
		s += fmt.Sprint(ta)
	}
	return s
}

type sink struct {
	mu     sync.Mutex
	dedup  bool
	byKey  map[string]*Fn
	fns    []*Fn
	total  int
	skippd int
	closed bool
}

func (s *sink) add(f *Fn) {
	s.mu.Lock()
	defer s.mu.Unlock()
	if s.closed {
		return
	}
	s.total++
	if !s.dedup {
		s.fns = append(s.fns, f)
		return
	}
	// key = graph + answers (not the name, the block comments or the builder mode)
	name, cm, mode := f.Name, f.Comments, f.Mode
	f.Name, f.Comments, f.Mode = "", nil, ""
	kb, _ := json.Marshal(f)
	f.Name, f.Comments, f.Mode = name, cm, mode
	if g, ok := s.byKey[string(kb)]; ok {
		g.Count++
		if len(g.Others) < 3 {
			g.Others = append(g.Others, name)
		}
		return
	}
	s.byKey[string(kb)] = f
	s.fns = append(s.fns, f)
}

func main() {
	var srcs, pkgs multi
	out := flag.String("out", "", "output JSON file")
	naive := flag.Bool("naive", false, "build in NaiveForm (no lifting)")
	both := flag.Bool("both", false, "build in both modes (lifted and naive)")
	maxb := flag.Int("maxblocks", 0, "skip functions with more blocks (0 = no limit)")
	minb := flag.Int("minblocks", 0, "skip functions with fewer blocks")
	dedup := flag.Bool("dedup", false, "keep one record per distinct (CFG, answers) artefact")
	dir := flag.String("dir", "", "module directory for -pkgs")
	deadline := flag.Int("deadline", 900, "overall time limit in seconds for building the -src files")
	tests := flag.Bool("tests", false, "include test variants for -pkgs")
	flag.Var(&srcs, "src", "import-free Go source file forming one package (repeatable); @file = list of files")
	flag.Var(&pkgs, "pkgs", "package pattern (repeatable)")
	var srcdirs multi
	flag.Var(&srcdirs, "srcdir", "directory whose .go files form one package, imports resolved from GOROOT source (repeatable); @file = list")
	flag.Parse()
	if *out == "" {
		fmt.Fprintln(os.Stderr, "need -out")
		os.Exit(2)
	}
	var modes []ir.BuilderMode
	switch {
	case *both:
		modes = []ir.BuilderMode{0, ir.NaiveForm}
	case *naive:
		modes = []ir.BuilderMode{ir.NaiveForm}
	default:
		modes = []ir.BuilderMode{0}
	}
	modeName := func(m ir.BuilderMode) string {
		if m&ir.NaiveForm != 0 {
			return "naive"
		}
		return "lifted"
	}
	sk := &sink{dedup: *dedup, byKey: map[string]*Fn{}}
	var errs []string
	var emu sync.Mutex
	fail := func(format string, a ...any) {
		emu.Lock()
		errs = append(errs, fmt.Sprintf(format, a...))
		emu.Unlock()
	}
	consider := func(fn *ir.Function, name, mode string) {
		if fn.Blocks == nil {
			return
		}
		if (*maxb > 0 && len(fn.Blocks) > *maxb) || len(fn.Blocks) < *minb {
			sk.mu.Lock()
			sk.skippd++
			sk.mu.Unlock()
			return
		}
		sk.add(export(fn, name, mode))
	}

	// --- import-free sources ---------------------------------------------------------------
	var files []string
	for _, s := range srcs {
		if strings.HasPrefix(s, "@") {
			b, err := os.ReadFile(s[1:])
			if err != nil {
				fmt.Fprintln(os.Stderr, err)
				os.Exit(2)
			}
			for _, l := range strings.Split(string(b), "\n") {
				if l = strings.TrimSpace(l); l != "" {
					files = append(files, l)
				}
			}
		} else {
			files = append(files, s)
		}
	}
	if len(files) > 0 {
		var wg sync.WaitGroup
		sem := make(chan struct{}, runtime.NumCPU())
		for _, file := range files {
			wg.Add(1)
			sem <- struct{}{}
			go func(file string) {
				defer wg.Done()
				defer func() { <-sem }()
				build := func(m ir.BuilderMode) (ok bool) {
					defer func() {
						if r := recover(); r != nil {
							fail("PANIC building %s (%s): %v", file, modeName(m), r)
							ok = false
						}
					}()
					fset := token.NewFileSet()
					af, err := parser.ParseFile(fset, file, nil, parser.SkipObjectResolution)
					if err != nil {
						fail("parse %s: %v", file, err)
						return false
					}
					pkg := types.NewPackage("ex.test/"+af.Name.Name, af.Name.Name)
					ipkg, _, err := irutil.BuildPackage(&types.Config{}, fset, pkg, []*ast.File{af}, m)
					if err != nil {
						fail("typecheck %s: %v", file, err)
						return false
					}
					for _, fn := range allFuncs(ipkg) {
						if fn.Synthetic != "" {
							continue
						}
						consider(fn, fnName(fn), modeName(m))
					}
					return true
				}
				naiveDone := false
				for _, m := range modes {
					ok := build(m)
					if m&ir.NaiveForm != 0 {
						naiveDone = true
					}
					if !ok && m&ir.NaiveForm == 0 && !naiveDone && !*both {
						// the builder crashed after the dominator tree was built (lifting uses it):
						// the dominance answers are still observable in naive form
						naiveDone = true
						if build(ir.NaiveForm) {
							fail("FALLBACK %s: lifted build crashed, exported in naive form", file)
						}
					}
				}
			}(file)
		}
		// watchdog: a builder that hangs on a generated program must not hang the check
		done := make(chan struct{})
		go func() { wg.Wait(); close(done) }()
		select {
		case <-done:
		case <-time.After(time.Duration(*deadline) * time.Second):
			fail("TIMEOUT: building the sources did not finish within %d s (builder hang?)", *deadline)
			sk.mu.Lock() // freeze the sink: late results are dropped
			sk.closed = true
			sk.mu.Unlock()
		}
	}

	// --- directories type-checked with the source importer (testdata packages) -----------------
	var dirs []string
	for _, s := range srcdirs {
		if strings.HasPrefix(s, "@") {
			b, err := os.ReadFile(s[1:])
			if err != nil {
				fmt.Fprintln(os.Stderr, err)
				os.Exit(2)
			}
			for _, l := range strings.Split(string(b), "\n") {
				if l = strings.TrimSpace(l); l != "" {
					dirs = append(dirs, l)
				}
			}
		} else {
			dirs = append(dirs, s)
		}
	}
	nDirOK, nDirSkip := 0, 0
	if len(dirs) > 0 {
		fset := token.NewFileSet()
		imp := importer.ForCompiler(fset, "source", nil)
		for _, d := range dirs {
			ents, err := os.ReadDir(d)
			if err != nil {
				nDirSkip++
				continue
			}
			byPkg := map[string][]*ast.File{}
			bad := false
			for _, e := range ents {
				if e.IsDir() || !strings.HasSuffix(e.Name(), ".go") {
					continue
				}
				af, err := parser.ParseFile(fset, filepath.Join(d, e.Name()), nil, parser.SkipObjectResolution)
				if err != nil {
					bad = true
					break
				}
				byPkg[af.Name.Name] = append(byPkg[af.Name.Name], af)
			}
			if bad || len(byPkg) != 1 {
				nDirSkip++
				continue
			}
			for pname, afs := range byPkg {
				buildDir := func(m ir.BuilderMode) (ok bool) {
					defer func() {
						if r := recover(); r != nil {
							fail("PANIC building %s (%s): %v", d, modeName(m), r)
							ok = false
						}
					}()
					pkg := types.NewPackage("ex.test/"+filepath.Base(d), pname)
					ipkg, _, err := irutil.BuildPackage(&types.Config{Importer: imp, Error: func(error) {}}, fset, pkg, afs, m)
					if err != nil {
						nDirSkip++
						return true
					}
					nDirOK++
					for _, fn := range allFuncs(ipkg) {
						if fn.Synthetic != "" {
							continue
						}
						consider(fn, d+":"+fnName(fn), modeName(m))
					}
					return true
				}
				for _, m := range modes {
					if !buildDir(m) && m&ir.NaiveForm == 0 && !*both {
						if buildDir(ir.NaiveForm) {
							fail("FALLBACK %s: lifted build crashed, exported in naive form", d)
						}
					}
				}
			}
		}
		fmt.Fprintf(os.Stderr, "srcdirs: %d built, %d skipped (parse/type errors)\n", nDirOK, nDirSkip)
	}

	// --- packages ------------------------------------------------------------------------
	if len(pkgs) > 0 {
		cfg := &packages.Config{
			Dir:   *dir,
			Mode:  packages.NeedName | packages.NeedFiles | packages.NeedCompiledGoFiles | packages.NeedImports | packages.NeedExportFile | packages.NeedTypes | packages.NeedSyntax | packages.NeedTypesInfo | packages.NeedTypesSizes | packages.NeedModule,
			Tests: *tests,
		}
		initial, err := packages.Load(cfg, pkgs...)
		if err != nil {
			fmt.Fprintln(os.Stderr, "load:", err)
			os.Exit(2)
		}
		var good []*packages.Package
		nbad := 0
		for _, p := range initial {
			if len(p.Errors) > 0 || p.IllTyped || p.Types == nil {
				nbad++
				continue
			}
			good = append(good, p)
		}
		fmt.Fprintf(os.Stderr, "loaded %d packages (%d skipped: errors)\n", len(good), nbad)
		buildPkgs := func(m ir.BuilderMode) (ok bool) {
			defer func() {
				if r := recover(); r != nil {
					fail("PANIC building packages (%s): %v", modeName(m), r)
					ok = false
				}
			}()
			_, ipkgs := irutil.Packages(good, m)
			for i, ip := range ipkgs {
				if ip == nil {
					continue
				}
				ip.Build()
				for _, fn := range allFuncs(ip) {
					consider(fn, good[i].ID+"."+fnName(fn), modeName(m))
				}
			}
			return true
		}
		for _, m := range modes {
			if !buildPkgs(m) && m&ir.NaiveForm == 0 && !*both {
				if buildPkgs(ir.NaiveForm) {
					fail("FALLBACK packages: lifted build crashed, exported in naive form")
				}
			}
		}
	}

	sort.SliceStable(sk.fns, func(i, j int) bool { return sk.fns[i].N < sk.fns[j].N })
	doc := map[string]any{"fns": sk.fns, "total": sk.total, "skipped": sk.skippd, "errors": errs, "dirs_built": nDirOK, "dirs_skipped": nDirSkip}
	if errs == nil {
		doc["errors"] = []string{}
	}
	f, err := os.Create(*out)
	if err != nil {
		fmt.Fprintln(os.Stderr, err)
		os.Exit(2)
	}
	enc := json.NewEncoder(f)
	if err := enc.Encode(doc); err != nil {
		fmt.Fprintln(os.Stderr, err)
		os.Exit(2)
	}
	f.Close()
	fmt.Fprintf(os.Stderr, "exported %d records for %d functions (%d skipped by size), %d errors\n", len(sk.fns), sk.total, sk.skippd, len(errs))
}
