// h-lint executes lint jobs against the real staticcheck and returns the problems it printed in a
// normalised form.  A job is: files to write / remove below a working directory, an argv for
// staticcheck, and the output format to parse.  With -sc <binary> every job is one process of the
// real binary; with -sc "" the same code path as cmd/staticcheck's main (lintcmd.NewCommand,
// ParseFlags, AddAnalyzers, Execute) runs inside worker processes with os.Stdout redirected.
//
// Jobs carry a "lane"; jobs of one lane are executed sequentially, in input order, by one worker
// (they may share and rewrite a directory tree); lanes run in parallel.
//
// usage: h-lint -jobs <ndjson> [-sc <staticcheck binary>] [-dir scratch]
// output: one JSON line per job: {"id","exit","probs":[{f,l,c,code,sev,msg}],"unparsed":[...],"stderr"}
package main

import (
	"bufio"
	"bytes"
	"encoding/json"
	"flag"
	"fmt"
	"go/ast"
	"go/parser"
	"go/token"
	"net/url"
	"os"
	"os/exec"
	"path/filepath"
	"regexp"
	"sort"
	"strconv"
	"strings"
	"sync"

	"honnef.co/go/tools/config"
	"honnef.co/go/tools/lintcmd"
	"honnef.co/go/tools/simple"
	"honnef.co/go/tools/staticcheck"
	"honnef.co/go/tools/stylecheck"
	"honnef.co/go/tools/unused"
)

type Job struct {
	ID     int               `json:"id"`
	Lane   int               `json:"lane"`
	Cwd    string            `json:"cwd"`
	Write  map[string]string `json:"write,omitempty"`
	Remove []string          `json:"remove,omitempty"`
	Argv   []string          `json:"argv"`
	Format string            `json:"format"`
}

type Prob struct {
	F    string `json:"f"`
	L    int    `json:"l"`
	C    int    `json:"c"`
	Code string `json:"code"`
	Sev  string `json:"sev,omitempty"`
	Msg  string `json:"msg"`
}

type Result struct {
	ID       int      `json:"id"`
	Exit     int      `json:"exit"`
	Probs    []Prob   `json:"probs"`
	Unparsed []string `json:"unparsed,omitempty"`
	Stats    string   `json:"stats,omitempty"`
	Stderr   string   `json:"stderr,omitempty"`
	Err      string   `json:"err,omitempty"`
}

func prepare(j Job) error {
	for _, r := range j.Remove {
		p := filepath.Join(j.Cwd, r)
		if err := os.Remove(p); err != nil && !os.IsNotExist(err) {
			return err
		}
	}
	names := make([]string, 0, len(j.Write))
	for n := range j.Write {
		names = append(names, n)
	}
	sort.Strings(names)
	for _, n := range names {
		p := filepath.Join(j.Cwd, n)
		if err := os.MkdirAll(filepath.Dir(p), 0o755); err != nil {
			return err
		}
		if err := os.WriteFile(p, []byte(j.Write[n]), 0o644); err != nil {
			return err
		}
	}
	return nil
}

func rel(cwd, p string) string {
	if p == "" {
		return p
	}
	if filepath.IsAbs(p) {
		if r, err := filepath.Rel(cwd, p); err == nil && !strings.HasPrefix(r, "..") {
			return filepath.ToSlash(r)
		}
	}
	return filepath.ToSlash(p)
}

var (
	textRe    = regexp.MustCompile(`^(.*?):(\d+):(\d+): (.*) \(([A-Za-z0-9_]+)\)$`)
	textNoPos = regexp.MustCompile(`^(\S*?): (.*) \(([A-Za-z0-9_]+)\)$`)
	stylishRe = regexp.MustCompile(`^  \((\d+), (\d+)\)\s+(\S+)\s+(.*)$`)
)

func atoi(s string) int { n, _ := strconv.Atoi(s); return n }

func parse(format, cwd, out string, res *Result) {
	switch format {
	case "text":
		for _, l := range strings.Split(out, "\n") {
			if l == "" || strings.HasPrefix(l, "\t") {
				continue
			}
			if m := textRe.FindStringSubmatch(l); m != nil {
				res.Probs = append(res.Probs, Prob{F: rel(cwd, m[1]), L: atoi(m[2]), C: atoi(m[3]), Msg: m[4], Code: m[5]})
			} else if m := textNoPos.FindStringSubmatch(l); m != nil {
				res.Probs = append(res.Probs, Prob{F: rel(cwd, m[1]), Msg: m[2], Code: m[3]})
			} else {
				res.Unparsed = append(res.Unparsed, l)
			}
		}
	case "stylish":
		file := ""
		for _, l := range strings.Split(out, "\n") {
			switch {
			case l == "":
			case strings.HasPrefix(l, " ✖"):
				res.Stats = strings.TrimSpace(l)
			case strings.HasPrefix(l, "    "):
				// related information
			case strings.HasPrefix(l, "  ("):
				if m := stylishRe.FindStringSubmatch(l); m != nil {
					res.Probs = append(res.Probs, Prob{F: rel(cwd, file), L: atoi(m[1]), C: atoi(m[2]), Code: m[3], Msg: m[4]})
				} else {
					res.Unparsed = append(res.Unparsed, l)
				}
			default:
				file = l
			}
		}
	case "json":
		dec := json.NewDecoder(strings.NewReader(out))
		for dec.More() {
			var v struct {
				Code     string
				Severity string
				Location struct {
					File         string
					Line, Column int
				}
				Message string
			}
			if err := dec.Decode(&v); err != nil {
				res.Unparsed = append(res.Unparsed, "json: "+err.Error())
				break
			}
			res.Probs = append(res.Probs, Prob{F: rel(cwd, v.Location.File), L: v.Location.Line, C: v.Location.Column, Code: v.Code, Sev: v.Severity, Msg: v.Message})
		}
	case "sarif":
		var doc struct {
			Runs []struct {
				Results []struct {
					RuleID  string `json:"ruleId"`
					Message struct {
						Text string `json:"text"`
					} `json:"message"`
					Locations []struct {
						PhysicalLocation struct {
							ArtifactLocation struct {
								URI string `json:"uri"`
							} `json:"artifactLocation"`
							Region struct {
								StartLine   int `json:"startLine"`
								StartColumn int `json:"startColumn"`
							} `json:"region"`
						} `json:"physicalLocation"`
					} `json:"locations"`
					Suppressions []struct {
						Kind string `json:"kind"`
					} `json:"suppressions"`
				} `json:"results"`
			} `json:"runs"`
		}
		if err := json.Unmarshal([]byte(out), &doc); err != nil {
			res.Unparsed = append(res.Unparsed, "sarif: "+err.Error())
			return
		}
		if len(doc.Runs) != 1 {
			res.Unparsed = append(res.Unparsed, fmt.Sprintf("sarif: %d runs", len(doc.Runs)))
			return
		}
		for _, r := range doc.Runs[0].Results {
			p := Prob{Code: r.RuleID, Msg: r.Message.Text}
			if len(r.Locations) > 0 {
				loc := r.Locations[0].PhysicalLocation
				uri := loc.ArtifactLocation.URI
				if u, err := url.Parse(uri); err == nil {
					uri = u.Path
				}
				p.F = rel(cwd, uri)
				p.L, p.C = loc.Region.StartLine, loc.Region.StartColumn
			}
			if len(r.Suppressions) > 0 {
				p.Sev = "ignored"
			}
			res.Probs = append(res.Probs, p)
		}
	default:
		if out != "" {
			res.Unparsed = append(res.Unparsed, out)
		}
	}
	if res.Probs == nil {
		res.Probs = []Prob{}
	}
}

func runBinary(sc string, j Job) Result {
	res := Result{ID: j.ID}
	if err := prepare(j); err != nil {
		res.Err = err.Error()
		return res
	}
	cmd := exec.Command(sc, j.Argv...)
	cmd.Dir = j.Cwd
	var so, se bytes.Buffer
	cmd.Stdout, cmd.Stderr = &so, &se
	err := cmd.Run()
	if ee, ok := err.(*exec.ExitError); ok {
		res.Exit = ee.ExitCode()
	} else if err != nil {
		res.Err = err.Error()
		return res
	}
	res.Stderr = tail(se.String())
	parse(j.Format, j.Cwd, so.String(), &res)
	return res
}

func tail(s string) string {
	if len(s) > 2000 {
		return s[len(s)-2000:]
	}
	return s
}

// runInProc: cmd/staticcheck's main without the process boundary.
func runInProc(tmp string, j Job) Result {
	res := Result{ID: j.ID}
	if err := prepare(j); err != nil {
		res.Err = err.Error()
		return res
	}
	if err := os.Chdir(j.Cwd); err != nil {
		res.Err = err.Error()
		return res
	}
	outPath := filepath.Join(tmp, fmt.Sprintf("w%d.out", os.Getpid()))
	errPath := filepath.Join(tmp, fmt.Sprintf("w%d.err", os.Getpid()))
	fout, err := os.Create(outPath)
	if err != nil {
		res.Err = err.Error()
		return res
	}
	ferr, err := os.Create(errPath)
	if err != nil {
		res.Err = err.Error()
		return res
	}
	oldOut, oldErr, oldArgs := os.Stdout, os.Stderr, os.Args
	os.Stdout, os.Stderr = fout, ferr
	os.Args = append([]string{"staticcheck"}, j.Argv...)
	cmd := lintcmd.NewCommand("staticcheck")
	cmd.ParseFlags(j.Argv)
	cmd.AddAnalyzers(simple.Analyzers...)
	cmd.AddAnalyzers(staticcheck.Analyzers...)
	cmd.AddAnalyzers(stylecheck.Analyzers...)
	cmd.AddAnalyzers(unused.Analyzer)
	res.Exit = cmd.Execute()
	os.Stdout, os.Stderr, os.Args = oldOut, oldErr, oldArgs
	fout.Close()
	ferr.Close()
	b, _ := os.ReadFile(outPath)
	e, _ := os.ReadFile(errPath)
	res.Stderr = tail(string(e))
	parse(j.Format, j.Cwd, string(b), &res)
	return res
}

func readJobs(path string) []Job {
	f, err := os.Open(path)
	if err != nil {
		panic(err)
	}
	defer f.Close()
	s := bufio.NewScanner(f)
	s.Buffer(make([]byte, 1<<20), 1<<28)
	var jobs []Job
	for s.Scan() {
		if len(bytes.TrimSpace(s.Bytes())) == 0 {
			continue
		}
		var j Job
		if err := json.Unmarshal(s.Bytes(), &j); err != nil {
			panic(err)
		}
		jobs = append(jobs, j)
	}
	if err := s.Err(); err != nil {
		panic(err)
	}
	return jobs
}

// confLoad binds config.Load (parseConfigs, mergeConfigs, mergeLists, normalizeList) directly:
// every case is a chain of directories l1/l2/l3 (outermost first) whose staticcheck.conf files
// are given verbatim ("" = no file); the result is the `Checks` list config.Load returns for the
// innermost directory with config.DefaultConfig.Checks set to the case's default list.
type ConfCase struct {
	ID      int      `json:"id"`
	Default []string `json:"default"`
	Files   []string `json:"files"`
}
type ConfResult struct {
	ID     int      `json:"id"`
	Checks []string `json:"checks"`
	Err    string   `json:"err,omitempty"`
}

func confLoad(path, dir string, par int) {
	f, err := os.Open(path)
	if err != nil {
		panic(err)
	}
	defer f.Close()
	s := bufio.NewScanner(f)
	s.Buffer(make([]byte, 1<<20), 1<<26)
	var cases []ConfCase
	for s.Scan() {
		var c ConfCase
		if err := json.Unmarshal(s.Bytes(), &c); err != nil {
			panic(err)
		}
		cases = append(cases, c)
	}
	if len(cases) == 0 {
		return
	}
	def := cases[0].Default
	for _, c := range cases {
		if strings.Join(c.Default, ",") != strings.Join(def, ",") {
			panic("confload: all cases must share one default list")
		}
	}
	config.DefaultConfig.Checks = def
	out := bufio.NewWriterSize(os.Stdout, 1<<20)
	defer out.Flush()
	var mu sync.Mutex
	var wg sync.WaitGroup
	ch := make(chan ConfCase, 256)
	for w := 0; w < par; w++ {
		wg.Add(1)
		go func(w int) {
			defer wg.Done()
			base := filepath.Join(dir, fmt.Sprintf("cl%d", w))
			for c := range ch {
				d := base
				for i, content := range c.Files {
					d = filepath.Join(d, fmt.Sprintf("l%d", i+1))
					if err := os.MkdirAll(d, 0o755); err != nil {
						panic(err)
					}
					p := filepath.Join(d, config.ConfigName)
					if content == "" {
						os.Remove(p)
					} else if err := os.WriteFile(p, []byte(content), 0o644); err != nil {
						panic(err)
					}
				}
				cfg, err := config.Load(d)
				r := ConfResult{ID: c.ID, Checks: cfg.Checks}
				if r.Checks == nil {
					r.Checks = []string{}
				}
				if err != nil {
					r.Err = err.Error()
				}
				b, _ := json.Marshal(r)
				mu.Lock()
				out.Write(b)
				out.WriteByte('\n')
				mu.Unlock()
			}
		}(w)
	}
	for _, c := range cases {
		ch <- c
	}
	close(ch)
	wg.Wait()
}

// attach reports, for every comment of a Go file, the line of the comment and the line of the
// node go/ast.CommentMap associates it with (the environment's decision that the property calls
// "the code the comment is attached to").
func attach(path string) {
	fset := token.NewFileSet()
	f, err := parser.ParseFile(fset, path, nil, parser.ParseComments)
	if err != nil {
		fmt.Fprintln(os.Stderr, err)
		os.Exit(1)
	}
	type A struct {
		Text     string `json:"text"`
		Own      int    `json:"own"`
		Attached int    `json:"attached"`
		Node     string `json:"node"`
	}
	var out []A
	cm := ast.NewCommentMap(fset, f, f.Comments)
	for node, cgs := range cm {
		for _, cg := range cgs {
			for _, c := range cg.List {
				out = append(out, A{c.Text, fset.Position(c.Pos()).Line, fset.Position(node.Pos()).Line, fmt.Sprintf("%T", node)})
			}
		}
	}
	sort.Slice(out, func(i, j int) bool { return out[i].Own < out[j].Own })
	b, _ := json.Marshal(out)
	os.Stdout.Write(b)
	os.Stdout.WriteString("\n")
}

func main() {
	sc := flag.String("sc", "", "staticcheck binary; empty = in-process")
	attachPath := flag.String("attach", "", "print comment attachments of a Go file (go/ast.CommentMap)")
	confload := flag.String("confload", "", "ndjson of config.Load cases (see confLoad)")
	par := flag.Int("j", 8, "parallelism for -confload")
	jobsPath := flag.String("jobs", "", "ndjson jobs")
	worker := flag.Bool("worker", false, "internal: in-process worker (sequential)")
	dir := flag.String("dir", "", "scratch dir")
	flag.Parse()
	if *dir == "" {
		*dir = os.TempDir()
	}
	if *attachPath != "" {
		attach(*attachPath)
		return
	}
	if *confload != "" {
		confLoad(*confload, *dir, *par)
		return
	}
	jobs := readJobs(*jobsPath)
	out := bufio.NewWriterSize(os.Stdout, 1<<20)
	defer out.Flush()
	var mu sync.Mutex
	emit := func(r Result) {
		b, _ := json.Marshal(r)
		mu.Lock()
		out.Write(b)
		out.WriteByte('\n')
		mu.Unlock()
	}

	if *worker {
		for _, j := range jobs {
			emit(runInProc(*dir, j))
			mu.Lock()
			out.Flush()
			mu.Unlock()
		}
		return
	}

	lanes := map[int][]Job{}
	var order []int
	for _, j := range jobs {
		if _, ok := lanes[j.Lane]; !ok {
			order = append(order, j.Lane)
		}
		lanes[j.Lane] = append(lanes[j.Lane], j)
	}
	var wg sync.WaitGroup
	failed := false
	for _, lane := range order {
		wg.Add(1)
		go func(lane int, js []Job) {
			defer wg.Done()
			if *sc != "" {
				for _, j := range js {
					emit(runBinary(*sc, j))
				}
				return
			}
			// in-process: one worker process per lane
			part := filepath.Join(*dir, fmt.Sprintf("lane%d.ndjson", lane))
			f, err := os.Create(part)
			if err != nil {
				panic(err)
			}
			w := bufio.NewWriter(f)
			for _, j := range js {
				b, _ := json.Marshal(j)
				w.Write(b)
				w.WriteByte('\n')
			}
			w.Flush()
			f.Close()
			self, _ := os.Executable()
			cmd := exec.Command(self, "-worker", "-jobs", part, "-dir", *dir)
			var se bytes.Buffer
			cmd.Stderr = &se
			b, err := cmd.Output()
			done := map[int]bool{}
			s := bufio.NewScanner(bytes.NewReader(b))
			s.Buffer(make([]byte, 1<<20), 1<<28)
			for s.Scan() {
				var r Result
				if json.Unmarshal(s.Bytes(), &r) == nil {
					done[r.ID] = true
				}
				mu.Lock()
				out.Write(s.Bytes())
				out.WriteByte('\n')
				mu.Unlock()
			}
			if err != nil {
				// the worker died (os.Exit / log.Fatal / panic inside the linter): report the
				// first unfinished job as crashed, the rest as not run
				first := true
				for _, j := range js {
					if done[j.ID] {
						continue
					}
					r := Result{ID: j.ID, Exit: -1, Probs: []Prob{}}
					if first {
						r.Err = "worker died: " + err.Error() + ": " + tail(se.String())
						first = false
					} else {
						r.Err = "not run: worker died earlier"
					}
					emit(r)
				}
				mu.Lock()
				failed = true
				mu.Unlock()
			}
			os.Remove(part)
		}(lane, lanes[lane])
	}
	wg.Wait()
	_ = failed
}
