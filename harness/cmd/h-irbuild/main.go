// h-irbuild drives the real go/ir builder for property C18.
//
// It loads a Go module (generated multi-package program or a std subset) once, then builds
// fresh ir.Programs from it under several scenarios -- BuildSerially, parallel Program.Build,
// one goroutine per Package.Build in seeded order, repeated Build, Program.Build from 4
// goroutines -- optionally with concurrent on-demand Program.MethodValue callers and seeded
// yields, while go/ir's `verif` hooks log every hand-off event (VERIF trace, NDJSON).
//
// Observations taken from outside the hooked code:
//   - WriteFunction dump of every function (normalised for value numbering), compared
//     across scenarios, runs and seeds;
//   - when Package.Build / Program.Build / MethodValue returns, every shared function
//     reachable from the built code is marked built and has its body;
//   - every function with syntax has non-nil Blocks after Build.
//
// Output: one JSON document (-out) with per-run summaries and violations; the event log of
// all runs (separated by "reset" records) in -trace.
package main

import (
	"bytes"
	"crypto/sha1"
	"encoding/hex"
	"encoding/json"
	"flag"
	"fmt"
	"go/ast"
	"go/types"
	"math/rand"
	"os"
	"regexp"
	"runtime"
	"sort"
	"strconv"
	"strings"
	"sync"
	"time"

	"golang.org/x/tools/go/packages"
	"honnef.co/go/tools/go/ir"
)

type Violation struct {
	Kind string `json:"kind"`
	What string `json:"what"`
	Fn   string `json:"fn"`
}

type RunResult struct {
	Label      string      `json:"label"`
	Mode       string      `json:"mode"`
	Create     string      `json:"create"`
	Scenario   string      `json:"scenario"`
	Run        int         `json:"run"`
	Seed       int64       `json:"seed"`
	Funcs      int         `json:"funcs"`
	Shared     int         `json:"shared"`
	WithSyntax int         `json:"with_syntax"`
	MVCalls    int         `json:"mv_calls"`
	DumpHash   string      `json:"dump_hash"`
	Violations []Violation `json:"violations"`
	dumps      map[string][]string
	texts      map[string][]string
	params     map[string][]string
	insts      map[string]bool
}

type Mismatch struct {
	Group string `json:"group"`
	Base  string `json:"base"`
	Other string `json:"other"`
	Fn    string `json:"fn"`
	A     string `json:"a"`
	B     string `json:"b"`
	// parameter names of the function in both builds, and whether it is a generic instance
	// (used to recognise the documented order-dependence of the type canonicaliser)
	PA       []string `json:"pa"`
	PB       []string `json:"pb"`
	Instance bool     `json:"instance"`
	Count    int      `json:"count"`
}

type Output struct {
	Packages   []string    `json:"packages"`
	Runs       []RunResult `json:"runs"`
	Mismatches []Mismatch  `json:"mismatches"`
	WallMS     int64       `json:"wall_ms"`
}

var (
	flagDir       = flag.String("dir", ".", "module directory")
	flagPatterns  = flag.String("patterns", "./...", "comma separated package patterns")
	flagCreate    = flag.String("create", "all", "comma list of: all (every package from syntax) | direct (initial packages from syntax, their direct imports from types, nothing else)")
	flagModes     = flag.String("modes", "0,I", "comma list of builder modes: 0 | I (InstantiateGenerics) | N (NaiveForm), combinable e.g. IN")
	flagScenarios = flag.String("scenarios", "serial,parallel,perpkg,again,conc4", "comma list")
	flagRuns      = flag.Int("runs", 2, "runs per (mode, create, scenario) except serial")
	flagSeed      = flag.Int64("seed", 1, "seed")
	flagTrace     = flag.String("trace", "", "event log (NDJSON)")
	flagYield     = flag.String("yield", "150,200,2000", "permille,maxMicros,creatorMicros for seeded yields (empty = none)")
	flagOnDemand  = flag.Int("ondemand", 3, "concurrent on-demand MethodValue goroutines")
	flagMVMax     = flag.Int("mvmax", 60, "max MethodValue calls per on-demand goroutine")
	flagOut       = flag.String("out", "", "result JSON (default stdout)")
	flagGate      = flag.String("gate", "", "JSON file with forced-schedule cases (gate mode); -out receives the per-case results")
	flagWatchdog  = flag.Int("watchdog", 0, "seconds after which a single run that has not finished is reported as hung (exit 4, goroutine dump)")
	flagInitial   = flag.String("initial", "", "comma list of package paths that are 'initial' for -create direct (default: all packages matched by the patterns)")
)

func main() {
	flag.Parse()
	t0 := time.Now()
	cfg := &packages.Config{
		Dir: *flagDir,
		Mode: packages.NeedName | packages.NeedFiles | packages.NeedCompiledGoFiles | packages.NeedImports |
			packages.NeedDeps | packages.NeedTypes | packages.NeedSyntax | packages.NeedTypesInfo | packages.NeedTypesSizes,
		Env: os.Environ(),
	}
	initial, err := packages.Load(cfg, strings.Split(*flagPatterns, ",")...)
	if err != nil {
		fatal("load: %v", err)
	}
	nerr := 0
	packages.Visit(initial, nil, func(p *packages.Package) {
		for _, e := range p.Errors {
			fmt.Fprintln(os.Stderr, "package error:", p.PkgPath, e)
			nerr++
		}
	})
	if nerr > 0 {
		fatal("%d package errors (generator or loader problem)", nerr)
	}
	sort.Slice(initial, func(i, j int) bool { return initial[i].PkgPath < initial[j].PkgPath })
	if *flagInitial != "" {
		want := map[string]bool{}
		for _, s := range strings.Split(*flagInitial, ",") {
			want[s] = true
		}
		var sel []*packages.Package
		for _, p := range initial {
			if want[p.PkgPath] {
				sel = append(sel, p)
			}
		}
		initial = sel
	}
	if len(initial) == 0 {
		fatal("no packages")
	}
	if *flagTrace != "" {
		if err := ir.VerifOpen(*flagTrace); err != nil {
			fatal("trace: %v", err)
		}
	} else {
		ir.VerifOpen("")
	}
	if *flagGate != "" {
		res := runGate(initial, *flagGate)
		ir.VerifClose()
		data, _ := json.Marshal(map[string]any{"gate": res, "wall_ms": time.Since(t0).Milliseconds()})
		if err := os.WriteFile(*flagOut, data, 0o644); err != nil {
			fatal("%v", err)
		}
		return
	}
	out := Output{}
	for _, p := range initial {
		out.Packages = append(out.Packages, p.PkgPath)
	}
	rng := rand.New(rand.NewSource(*flagSeed))
	for _, create := range strings.Split(*flagCreate, ",") {
		for _, mode := range strings.Split(*flagModes, ",") {
			group := create + "/" + mode
			var base *RunResult
			for _, sc := range strings.Split(*flagScenarios, ",") {
				n := *flagRuns
				if sc == "serial" {
					n = 1
				}
				for r := 0; r < n; r++ {
					seed := rng.Int63()
					res := runOne(initial, create, mode, sc, r, seed)
					if base == nil {
						base = res
					} else {
						out.Mismatches = append(out.Mismatches, compare(group, base, res)...)
					}
					out.Runs = append(out.Runs, *res)
				}
			}
		}
	}
	ir.VerifClose()
	out.WallMS = time.Since(t0).Milliseconds()
	data, _ := json.Marshal(&out)
	if *flagOut != "" {
		if err := os.WriteFile(*flagOut, data, 0o644); err != nil {
			fatal("%v", err)
		}
	} else {
		os.Stdout.Write(data)
	}
}

func fatal(f string, args ...any) {
	fmt.Fprintf(os.Stderr, "h-irbuild: "+f+"\n", args...)
	os.Exit(3)
}

func parseMode(s string) ir.BuilderMode {
	var m ir.BuilderMode
	for _, c := range s {
		switch c {
		case 'I':
			m |= ir.InstantiateGenerics
		case 'N':
			m |= ir.NaiveForm
		case 'D':
			m |= ir.GlobalDebug
		case '0':
		default:
			fatal("bad mode %q", s)
		}
	}
	return m
}

// createProgram populates a fresh Program.
//
//	all:    every package reachable from the initial ones is created from syntax
//	direct: initial packages from syntax, their direct imports from type information only,
//	        deeper dependencies not at all (their methods are created on demand: objectMethods)
func createProgram(initial []*packages.Package, create string, mode ir.BuilderMode) (*ir.Program, []*ir.Package) {
	prog := ir.NewProgram(initial[0].Fset, mode)
	var pkgs []*ir.Package
	switch create {
	case "all":
		var order []*packages.Package
		packages.Visit(initial, nil, func(p *packages.Package) { order = append(order, p) })
		for _, p := range order {
			if p.Types != nil && !p.IllTyped {
				pkgs = append(pkgs, prog.CreatePackage(p.Types, p.Syntax, p.TypesInfo, true))
			}
		}
	case "direct":
		isInitial := map[*packages.Package]bool{}
		for _, p := range initial {
			isInitial[p] = true
		}
		done := map[*packages.Package]bool{}
		for _, p := range initial {
			var imps []string
			for path := range p.Imports {
				imps = append(imps, path)
			}
			sort.Strings(imps)
			for _, path := range imps {
				q := p.Imports[path]
				if !isInitial[q] && !done[q] {
					done[q] = true
					prog.CreatePackage(q.Types, nil, nil, true)
				}
			}
		}
		for _, p := range initial {
			pkgs = append(pkgs, prog.CreatePackage(p.Types, p.Syntax, p.TypesInfo, true))
		}
	default:
		fatal("bad -create %q", create)
	}
	return prog, pkgs
}

// selections returns the method selections of every non-generic named type declared in the
// packages that have syntax (T and *T), in a deterministic order.
func selections(prog *ir.Program, pkgs []*ir.Package) []*types.Selection {
	var sels []*types.Selection
	for _, p := range pkgs {
		names := p.Pkg.Scope().Names()
		for _, name := range names {
			tn, ok := p.Pkg.Scope().Lookup(name).(*types.TypeName)
			if !ok || tn.IsAlias() {
				continue
			}
			named, ok := tn.Type().(*types.Named)
			if !ok || named.TypeParams().Len() > 0 || types.IsInterface(named) {
				continue
			}
			for _, T := range []types.Type{named, types.NewPointer(named)} {
				mset := prog.MethodSets.MethodSet(T)
				for i := 0; i < mset.Len(); i++ {
					sel := mset.At(i)
					if sel.Obj().(*types.Func).Signature().TypeParams() != nil {
						continue
					}
					sels = append(sels, sel)
				}
			}
		}
	}
	return sels
}

type runCtx struct {
	mu   sync.Mutex
	viol []Violation
}

func (rc *runCtx) add(kind, fn, f string, args ...any) {
	rc.mu.Lock()
	defer rc.mu.Unlock()
	if len(rc.viol) < 20 {
		rc.viol = append(rc.viol, Violation{Kind: kind, Fn: fn, What: fmt.Sprintf(f, args...)})
	}
}

func hasBodySyntax(fn *ir.Function) bool {
	switch s := fn.Syntax().(type) {
	case *ast.FuncDecl:
		return s.Body != nil
	case *ast.FuncLit:
		return true
	}
	return false
}

// needsBody reports whether a *built* fn must have blocks: it has a body in the source, or
// it is a wrapper / thunk / bound / instantiation wrapper.
func needsBody(fn *ir.Function) bool {
	if hasBodySyntax(fn) {
		return true
	}
	s := fn.Synthetic
	return strings.HasPrefix(s, "wrapper for") || strings.HasPrefix(s, "thunk for") ||
		strings.HasPrefix(s, "bound method wrapper") || strings.HasPrefix(s, "instantiation wrapper")
}

// checkSharedBuilt verifies BuiltAtReturn from outside: starting from the given functions
// (which are built, the caller has just returned from Build), every shared function reachable
// through instruction operands -- transitively through shared functions only -- is built.
func checkSharedBuilt(rc *runCtx, when string, roots []*ir.Function) {
	seen := map[*ir.Function]bool{}
	var visit func(fn *ir.Function, viaShared bool)
	visit = func(fn *ir.Function, top bool) {
		if seen[fn] {
			return
		}
		seen[fn] = true
		if !top {
			if !ir.VerifShared(fn) {
				return // another package's function, or private: not covered by the hand-off
			}
			if !ir.VerifBuilt(fn) {
				rc.add("BuiltAtReturn", fn.String(), "%s: shared function %s (%s) is not built", when, fn, fn.Synthetic)
				return
			}
			if needsBody(fn) && fn.Blocks == nil {
				rc.add("BuiltAtReturn", fn.String(), "%s: shared function %s (%s) is marked built but has no blocks", when, fn, fn.Synthetic)
				return
			}
		}
		var buf [10]*ir.Value
		for _, b := range fn.Blocks {
			for _, instr := range b.Instrs {
				for _, op := range instr.Operands(buf[:0]) {
					if g, ok := (*op).(*ir.Function); ok {
						visit(g, false)
					}
				}
			}
		}
		for _, a := range fn.AnonFuncs {
			visit(a, true)
		}
	}
	for _, fn := range roots {
		visit(fn, true)
	}
}

func pkgRoots(p *ir.Package) []*ir.Function {
	var roots []*ir.Function
	roots = append(roots, p.Functions...)
	return roots
}

var (
	reSpaces = regexp.MustCompile(`[ \t]+`)
	reValue  = regexp.MustCompile(`\bt[0-9]+\b`)
)

// normalise makes a WriteFunction dump independent of value numbering and column padding.
func normalise(s string) string {
	s = reSpaces.ReplaceAllString(s, " ")
	names := map[string]string{}
	return reValue.ReplaceAllStringFunc(s, func(m string) string {
		n, ok := names[m]
		if !ok {
			n = "v" + strconv.Itoa(len(names))
			names[m] = n
		}
		return n
	})
}

func fnKey(fn *ir.Function) string {
	k := fn.String()
	if fn.Synthetic != "" {
		k += " {" + fn.Synthetic + "}"
	}
	if ta := fn.TypeArgs(); len(ta) > 0 {
		var ss []string
		for _, t := range ta {
			ss = append(ss, types.TypeString(t, nil))
		}
		k += " [" + strings.Join(ss, ",") + "]"
	}
	return k
}

// collect enumerates every function of the program: package members, methods of all named
// types (through MethodValue, in deterministic order), anonymous functions and everything
// referenced from instructions.
func collect(rc *runCtx, prog *ir.Program, pkgs []*ir.Package, res *RunResult) {
	seen := map[*ir.Function]bool{}
	var order []*ir.Function
	var visit func(fn *ir.Function)
	visit = func(fn *ir.Function) {
		if fn == nil || seen[fn] {
			return
		}
		seen[fn] = true
		order = append(order, fn)
		var buf [10]*ir.Value
		for _, b := range fn.Blocks {
			for _, instr := range b.Instrs {
				for _, op := range instr.Operands(buf[:0]) {
					if g, ok := (*op).(*ir.Function); ok {
						visit(g)
					}
				}
			}
		}
		for _, a := range fn.AnonFuncs {
			visit(a)
		}
	}
	for _, p := range pkgs {
		for _, fn := range p.Functions {
			visit(fn)
		}
	}
	for _, sel := range selections(prog, pkgs) {
		visit(prog.MethodValue(sel))
	}
	res.dumps = map[string][]string{}
	res.texts = map[string][]string{}
	res.params = map[string][]string{}
	res.insts = map[string]bool{}
	created := map[*ir.Package]bool{}
	for _, p := range pkgs {
		created[p] = true
	}
	for _, fn := range order {
		if ir.VerifShared(fn) {
			res.Shared++
		}
		// only functions that belong to the built packages or are shared/synthetic must be built
		owned := fn.Pkg == nil || created[fn.Pkg]
		if p := fn.Parent(); p != nil {
			for p.Parent() != nil {
				p = p.Parent()
			}
			owned = p.Pkg == nil || created[p.Pkg]
		}
		if !owned {
			continue
		}
		if !ir.VerifBuilt(fn) {
			rc.add("NotBuilt", fn.String(), "after Build: %s (%s) is not marked built", fn, fn.Synthetic)
		}
		if hasBodySyntax(fn) {
			res.WithSyntax++
			if fn.Blocks == nil {
				rc.add("NoBlocks", fn.String(), "after Build: function with syntax %s has nil Blocks", fn)
			}
		} else if needsBody(fn) && fn.Blocks == nil {
			rc.add("NoBlocks", fn.String(), "after Build: %s (%s) has nil Blocks", fn, fn.Synthetic)
		}
		var buf bytes.Buffer
		ir.WriteFunction(&buf, fn)
		txt := normalise(buf.String())
		h := sha1.Sum([]byte(txt))
		k := fnKey(fn)
		res.dumps[k] = append(res.dumps[k], hex.EncodeToString(h[:8]))
		res.texts[k] = append(res.texts[k], txt)
		if _, ok := res.params[k]; !ok {
			ps := []string{}
			for _, p := range fn.Params {
				ps = append(ps, p.Name())
			}
			ps = append(ps, "|") // then the names carried by the (canonicalised) signature
			for i := 0; i < fn.Signature.Params().Len(); i++ {
				ps = append(ps, fn.Signature.Params().At(i).Name())
			}
			res.params[k] = ps
			res.insts[k] = len(fn.TypeArgs()) > 0
		}
	}
	res.Funcs = len(res.dumps)
	var keys []string
	for k := range res.dumps {
		sort.Strings(res.dumps[k])
		sort.Strings(res.texts[k])
		keys = append(keys, k)
	}
	sort.Strings(keys)
	hh := sha1.New()
	for _, k := range keys {
		fmt.Fprintf(hh, "%s=%s\n", k, strings.Join(res.dumps[k], ","))
	}
	res.DumpHash = hex.EncodeToString(hh.Sum(nil)[:8])
}

func compare(group string, base, other *RunResult) []Mismatch {
	var out []Mismatch
	if base.DumpHash == other.DumpHash {
		return nil
	}
	keys := map[string]bool{}
	for k := range base.dumps {
		keys[k] = true
	}
	for k := range other.dumps {
		keys[k] = true
	}
	var ks []string
	for k := range keys {
		ks = append(ks, k)
	}
	sort.Strings(ks)
	for _, k := range ks {
		a, b := strings.Join(base.dumps[k], ","), strings.Join(other.dumps[k], ",")
		if a != b && len(out) < 60 {
			m := Mismatch{Group: group, Base: base.Label, Other: other.Label, Fn: k, PA: base.params[k], PB: other.params[k],
				Instance: base.insts[k] || other.insts[k], Count: len(base.dumps[k])*1000 + len(other.dumps[k])}
			if m.PA == nil {
				m.PA = []string{}
			}
			if m.PB == nil {
				m.PB = []string{}
			}
			if len(base.texts[k]) > 0 {
				m.A = base.texts[k][0]
			}
			if len(other.texts[k]) > 0 {
				m.B = other.texts[k][0]
			}
			out = append(out, m)
		}
	}
	return out
}

// watchdog reports a run that does not terminate (a sleeping timer also keeps the runtime's
// own "all goroutines are asleep" detector quiet, so this is the only reporter).
func watchdog(label string) (stop func()) {
	if *flagWatchdog <= 0 {
		return func() {}
	}
	t := time.AfterFunc(time.Duration(*flagWatchdog)*time.Second, func() {
		buf := make([]byte, 1<<20)
		n := runtime.Stack(buf, true)
		fmt.Fprintf(os.Stderr, "HANG: run %s did not finish within %ds\n%s\n", label, *flagWatchdog, buf[:n])
		os.Exit(4)
	})
	return func() { t.Stop() }
}

func runOne(initial []*packages.Package, create, modeS, scenario string, run int, seed int64) *RunResult {
	res := &RunResult{Mode: modeS, Create: create, Scenario: scenario, Run: run, Seed: seed}
	res.Label = fmt.Sprintf("%s/%s/%s#%d", create, modeS, scenario, run)
	defer watchdog(res.Label)()
	rc := &runCtx{}
	mode := parseMode(modeS)
	if scenario == "serial" {
		mode |= ir.BuildSerially
	}
	ir.VerifReset(res.Label)
	if *flagYield != "" && scenario != "serial" {
		parts := strings.Split(*flagYield, ",")
		v := make([]int, 3)
		for i := range v {
			if i < len(parts) {
				v[i], _ = strconv.Atoi(parts[i])
			}
		}
		ir.VerifYield(seed, v[0], v[1], v[2])
	} else {
		ir.VerifYield(seed, 0, 0, 0)
	}
	prog, pkgs := createProgram(initial, create, mode)
	rng := rand.New(rand.NewSource(seed))

	// on-demand MethodValue callers
	var wg sync.WaitGroup
	stop := make(chan struct{})
	startOnDemand := func() {
		if *flagOnDemand <= 0 || scenario == "serial" {
			return
		}
		sels := selections(prog, pkgs)
		if len(sels) == 0 {
			return
		}
		for g := 0; g < *flagOnDemand; g++ {
			perm := rng.Perm(len(sels))
			if len(perm) > *flagMVMax {
				perm = perm[:*flagMVMax]
			}
			wg.Add(1)
			go func(perm []int) {
				defer wg.Done()
				for _, i := range perm {
					fn := prog.MethodValue(sels[i])
					rc.mu.Lock()
					res.MVCalls++
					rc.mu.Unlock()
					if fn != nil && ir.VerifShared(fn) {
						checkSharedBuilt(rc, "MethodValue return", []*ir.Function{fn})
						if !ir.VerifBuilt(fn) {
							rc.add("BuiltAtReturn", fn.String(), "MethodValue returned %s (%s) which is not built", fn, fn.Synthetic)
						} else if needsBody(fn) && fn.Blocks == nil {
							rc.add("BuiltAtReturn", fn.String(), "MethodValue returned %s (%s) without blocks", fn, fn.Synthetic)
						}
					}
				}
			}(perm)
		}
	}

	switch scenario {
	case "serial":
		prog.Build()
	case "parallel":
		startOnDemand()
		prog.Build()
		for _, p := range pkgs {
			checkSharedBuilt(rc, "Program.Build return", pkgRoots(p))
		}
	case "perpkg":
		startOnDemand()
		order := rng.Perm(len(pkgs))
		var pw sync.WaitGroup
		for _, i := range order {
			pw.Add(1)
			go func(p *ir.Package) {
				defer pw.Done()
				p.Build()
				checkSharedBuilt(rc, "Package.Build return ("+p.Pkg.Path()+")", pkgRoots(p))
			}(pkgs[i])
		}
		pw.Wait()
	case "again":
		startOnDemand()
		prog.Build()
		for _, p := range pkgs {
			checkSharedBuilt(rc, "Program.Build return", pkgRoots(p))
		}
		wg.Wait()
		ir.VerifReset("collect-first " + res.Label)
		first := &RunResult{}
		collect(rc, prog, pkgs, first)
		ir.VerifReset("again " + res.Label)
		prog.Build()
		for _, p := range pkgs {
			p.Build()
		}
		ir.VerifReset("collect-second " + res.Label)
		second := &RunResult{}
		collect(rc, prog, pkgs, second)
		if first.DumpHash != second.DumpHash {
			rc.add("Idempotent", "", "a second Build changed the IR (%s -> %s)", first.DumpHash, second.DumpHash)
		}
	case "conc4":
		startOnDemand()
		var bw sync.WaitGroup
		for g := 0; g < 4; g++ {
			bw.Add(1)
			go func() {
				defer bw.Done()
				prog.Build()
				for _, p := range pkgs {
					checkSharedBuilt(rc, "concurrent Program.Build return", pkgRoots(p))
				}
			}()
		}
		bw.Wait()
	default:
		fatal("bad scenario %q", scenario)
	}
	close(stop)
	wg.Wait()
	ir.VerifReset("collect " + res.Label)
	collect(rc, prog, pkgs, res)
	res.Violations = rc.viol
	if res.Violations == nil {
		res.Violations = []Violation{}
	}
	return res
}
