package main

// Forced schedules (R): the blocking gate of go/ir's verif hooks stops every controlled
// builder before each critical section of the hand-off (memo lookup, start / end of building a
// shared function, markDone, every step of task.wait, return); a controller releases exactly
// one builder at a time, in the order given by a behaviour that TLC emitted for the same
// program (specs/MCIRBuild.tla, GenMode).  The run is therefore one specific interleaving of
// the spec's atomic actions on the real builder.  The events of the run are logged as usual
// (validated against IRBuild by the caller) and the outside observations are made at the
// moment each Package.Build returns, while the other builder is still held at its gate.

import (
	"encoding/json"
	"fmt"
	"os"
	"strings"
	"sync"
	"time"

	"golang.org/x/tools/go/packages"
	"honnef.co/go/tools/go/ir"
)

type GateCase struct {
	ID       int    `json:"id"`
	Prog     string `json:"prog"`     // package path prefix: <module>/<prog>/{lib,u1,u2}
	Schedule []int  `json:"schedule"` // spec builder ids (1 = u1, 2 = u2), one per spec step
}

type GateResult struct {
	ID         int         `json:"id"`
	Prog       string      `json:"prog"`
	Label      string      `json:"label"`
	Steps      int         `json:"steps"`    // gate-to-gate segments executed
	Followed   int         `json:"followed"` // schedule entries that could be followed literally
	Deferred   int         `json:"deferred"` // entries postponed because the builder was not enabled
	Order      []int       `json:"order"`    // the interleaving that was executed
	DumpHash   string      `json:"dump_hash"`
	BaseHash   string      `json:"base_hash"`
	Violations []Violation `json:"violations"`
}

type arrival struct {
	pt ir.VerifPoint
	sb int
	ch chan struct{}
}

type gateCtl struct {
	mu     sync.Mutex
	prefix string
	arrive chan arrival
	finish chan int
	off    bool
}

func (c *gateCtl) specBuilder(pt ir.VerifPoint) int {
	c.mu.Lock()
	defer c.mu.Unlock()
	if c.off {
		return 0
	}
	switch pt.BL {
	case "pkg:" + c.prefix + "/u1":
		return 1
	case "pkg:" + c.prefix + "/u2":
		return 2
	}
	return 0
}

func gateBlocks(pt ir.VerifPoint) bool {
	switch pt.Ev {
	case "pkgbuild_begin", "markdone", "waitvisit?", "waitreturn":
		return true
	case "ref?":
		return !pt.InMV
	case "buildfn", "done?":
		return pt.Sh == 1
	}
	return false
}

func (c *gateCtl) gate(pt ir.VerifPoint) {
	sb := c.specBuilder(pt)
	if sb == 0 || !gateBlocks(pt) {
		return
	}
	ch := make(chan struct{})
	c.arrive <- arrival{pt, sb, ch}
	<-ch
}

func findPkg(all []*packages.Package, path string) *packages.Package {
	var found *packages.Package
	packages.Visit(all, nil, func(p *packages.Package) {
		if p.PkgPath == path {
			found = p
		}
	})
	return found
}

func runGate(initial []*packages.Package, casesPath string) []GateResult {
	data, err := os.ReadFile(casesPath)
	if err != nil {
		fatal("%v", err)
	}
	var cases []GateCase
	if err := json.Unmarshal(data, &cases); err != nil {
		fatal("gate cases: %v", err)
	}
	base := map[string]string{}
	var out []GateResult
	for _, gc := range cases {
		lib, u1, u2 := findPkg(initial, gc.Prog+"/lib"), findPkg(initial, gc.Prog+"/u1"), findPkg(initial, gc.Prog+"/u2")
		if lib == nil || u1 == nil || u2 == nil {
			fatal("gate: packages of %s not loaded", gc.Prog)
		}
		three := []*packages.Package{lib, u1, u2}
		mode := ir.InstantiateGenerics
		if _, ok := base[gc.Prog]; !ok {
			// serial reference build of the same program
			ir.VerifReset("collect gate-base " + gc.Prog)
			ir.VerifGate = nil
			prog, pkgs := createProgram(three, "all", mode|ir.BuildSerially)
			prog.Build()
			res := &RunResult{}
			collect(&runCtx{}, prog, pkgs, res)
			base[gc.Prog] = res.DumpHash
		}
		out = append(out, runGateCase(three, gc, mode, base[gc.Prog]))
	}
	ir.VerifGate = nil
	return out
}

func runGateCase(three []*packages.Package, gc GateCase, mode ir.BuilderMode, baseHash string) GateResult {
	res := GateResult{ID: gc.ID, Prog: gc.Prog, BaseHash: baseHash, Violations: []Violation{}}
	res.Label = fmt.Sprintf("gate %s#%d", gc.Prog, gc.ID)
	rc := &runCtx{}
	ir.VerifReset(res.Label)
	ir.VerifYield(0, 0, 0, 0)
	prog, pkgs := createProgram(three, "all", mode)
	ctl := &gateCtl{prefix: gc.Prog, arrive: make(chan arrival), finish: make(chan int)}
	ir.VerifGate = ctl.gate
	pkgs[0].Build() // the library itself is not a controlled builder (gate passes it through)
	for i, p := range pkgs[1:] {
		go func(sb int, p *ir.Package) {
			p.Build()
			checkSharedBuilt(rc, "Package.Build return ("+p.Pkg.Path()+") under forced schedule", pkgRoots(p))
			ctl.finish <- sb
		}(i+1, p)
	}
	waiting := map[int]arrival{}
	finished := map[int]bool{}
	doneTask := map[int]bool{}
	next := func(timeout time.Duration) bool {
		select {
		case a := <-ctl.arrive:
			waiting[a.sb] = a
		case sb := <-ctl.finish:
			finished[sb] = true
		case <-time.After(timeout):
			return false
		}
		return true
	}
	hang := func(what string) {
		rc.add("Deadlock", "", "%s: %s; executed order %v", res.Label, what, res.Order)
	}
	for len(waiting)+len(finished) < 2 {
		if !next(300 * time.Second) {
			hang("builders did not reach their first gate")
			goto end
		}
	}
	{
		enabled := func(sb int) bool {
			a, ok := waiting[sb]
			if !ok {
				return false
			}
			// task.wait blocks on u.done: only enabled once u's markDone has been released
			return a.pt.Ev != "waitvisit?" || doneTask[a.pt.Y]
		}
		sched := append([]int(nil), gc.Schedule...)
		for len(finished) < 2 {
			pick := 0
			for i, sb := range sched {
				if enabled(sb) {
					pick = sb
					if i == 0 {
						res.Followed++
					} else {
						res.Deferred++
					}
					sched = append(sched[:i], sched[i+1:]...)
					break
				}
			}
			if pick == 0 {
				for _, sb := range []int{1, 2} {
					if enabled(sb) {
						pick = sb
						break
					}
				}
			}
			if pick == 0 {
				var st []string
				for sb, a := range waiting {
					st = append(st, fmt.Sprintf("builder %d blocked before %s(y=%d)", sb, a.pt.Ev, a.pt.Y))
				}
				hang("no builder can move: " + strings.Join(st, ", ") + " (task.wait would block forever)")
				break
			}
			a := waiting[pick]
			delete(waiting, pick)
			if a.pt.Ev == "markdone" {
				doneTask[a.pt.B] = true
			}
			res.Order = append(res.Order, pick)
			res.Steps++
			close(a.ch)
			if !next(300 * time.Second) {
				hang(fmt.Sprintf("builder %d did not reach its next gate after %s", pick, a.pt.Ev))
				break
			}
		}
	}
end:
	// stop controlling (abandoned goroutines of a deadlocked case stay blocked at their gates)
	ctl.mu.Lock()
	ctl.off = true
	ctl.mu.Unlock()
	ir.VerifGate = nil
	if len(finished) == 2 {
		ir.VerifReset("collect " + res.Label)
		r := &RunResult{}
		collect(rc, prog, pkgs, r)
		res.DumpHash = r.DumpHash
		if r.DumpHash != baseHash {
			rc.add("IRDiffers", "", "%s: IR differs from the serial build (%s vs %s)", res.Label, r.DumpHash, baseHash)
		}
	}
	res.Violations = append(res.Violations, rc.viol...)
	return res
}
