// h-cache binds specs/DiskCache.tla to the real lintcmd/cache (built with -tags verif).
//
//	h-cache run   -cases f.ndjson -real real.json [-j N] -dir scratch
//	    replays TLC-generated behaviours (one JSON case per line, steps as emitted by
//	    DiskCache!hist) against the real cache and prints one JSON result per case:
//	    mode "gor": every model process is a goroutine with its own cache handle (own
//	        symlink to the one directory), parked at the verifStep gates; the scheduler
//	        releases exactly the step the behaviour names and snapshots the directory
//	        after every step (compared with the model's Obs: drift);
//	    mode "seq": single-process behaviours; every Put runs in a child process fed one
//	        byte per Read and SIGKILLed on arrival at the gate the behaviour crashes at;
//	        lookups / Trim run in-process on a fresh cache.Open; faults are applied with
//	        os.Truncate / os.Remove / os.Chtimes.
//	    Results of all completed lookups are reported raw; the verdict is formed by the caller.
//	h-cache child -dir D -key HEX -val HEX -killat N   (N-th gate arrival kills; 0 = never)
//	h-cache snap  -dir D -real real.json                (abstract snapshot of a directory)
//	h-cache lookup -dir D -real real.json -key K         (GetFile+read and GetBytes, fresh Open)
//	h-cache stress -dir D -real real.json -seed S -procs N -ops M   (multi-process random variant)
package main

import (
	"bufio"
	"bytes"
	"crypto/sha256"
	"encoding/hex"
	"encoding/json"
	"errors"
	"flag"
	"fmt"
	"io"
	"math/rand"
	"os"
	"os/exec"
	"path/filepath"
	"runtime"
	"strconv"
	"strings"
	"sync"
	"syscall"
	"time"

	"honnef.co/go/tools/lintcmd/cache"
)

// ---------------------------------------------------------------- realisation

type Real struct {
	Vals []string `json:"vals"` // hex of the real bytes of value v (index v-1)
	Keys []string `json:"keys"` // hex action ids (index k-1)
	vals [][]byte
	keys []cache.ActionID
	outs []cache.OutputID
}

func loadReal(path string) *Real {
	var r Real
	b, err := os.ReadFile(path)
	must(err)
	must(json.Unmarshal(b, &r))
	for _, h := range r.Vals {
		v, err := hex.DecodeString(h)
		must(err)
		r.vals = append(r.vals, v)
		r.outs = append(r.outs, sha256.Sum256(v))
	}
	for _, h := range r.Keys {
		k, err := hex.DecodeString(h)
		must(err)
		var id cache.ActionID
		copy(id[:], k)
		r.keys = append(r.keys, id)
	}
	return &r
}

func must(err error) {
	if err != nil {
		fmt.Fprintln(os.Stderr, "h-cache:", err)
		os.Exit(3)
	}
}

func (r *Real) dataPath(dir string, v int) string {
	o := r.outs[v-1]
	return filepath.Join(dir, fmt.Sprintf("%02x", o[0]), fmt.Sprintf("%x-d", o))
}
func (r *Real) indexPath(dir string, k int) string {
	id := r.keys[k-1]
	return filepath.Join(dir, fmt.Sprintf("%02x", id[0]), fmt.Sprintf("%x-a", id))
}

// symbols: real byte 'a'+s-1 <-> model byte s; 0 <-> hole; anything else 99
func symbols(b []byte) []int {
	out := make([]int, len(b))
	for i, c := range b {
		switch {
		case c == 0:
			out[i] = 0
		case c >= 'a' && c <= 'z':
			out[i] = int(c-'a') + 1
		default:
			out[i] = 99
		}
	}
	return out
}

// ---------------------------------------------------------------- snapshot (abstract Obs)

type DObs struct {
	X int    `json:"x"`
	B []int  `json:"b"`
	M string `json:"m"`
}
type AObs struct {
	X   int    `json:"x"`
	St  string `json:"st"`
	ID  int    `json:"id"`
	Out int    `json:"out"`
	M   string `json:"m"`
}
type Obs struct {
	D     []DObs   `json:"d"`
	A     []AObs   `json:"a"`
	S     string   `json:"s"`
	Extra []string `json:"extra,omitempty"`
}

func mclass(t time.Time) string {
	age := time.Since(t)
	switch {
	case age < time.Hour:
		return "fresh"
	case age > 5*24*time.Hour+time.Hour:
		return "old"
	}
	return "mid"
}

const entrySize = 2 + 1 + 64 + 1 + 64 + 1 + 20 + 1 + 20 + 1

func snapshot(dir string, r *Real) Obs { return snapshotX(dir, r, true) }

func snapshotX(dir string, r *Real, extra bool) Obs {
	var o Obs
	known := map[string]bool{}
	for v := range r.vals {
		p := r.dataPath(dir, v+1)
		known[p] = true
		fi, err := os.Stat(p)
		if err != nil {
			o.D = append(o.D, DObs{0, []int{}, "-"})
			continue
		}
		b, _ := os.ReadFile(p)
		o.D = append(o.D, DObs{1, symbols(b), mclass(fi.ModTime())})
	}
	for k := range r.keys {
		p := r.indexPath(dir, k+1)
		known[p] = true
		fi, err := os.Stat(p)
		if err != nil {
			o.A = append(o.A, AObs{0, "-", 0, 0, "-"})
			continue
		}
		b, _ := os.ReadFile(p)
		a := AObs{X: 1, M: mclass(fi.ModTime())}
		switch {
		case len(b) == 0:
			a.St = "empty"
		case len(b) < entrySize:
			a.St = "torn"
		case len(b) == entrySize && b[0] == 'v' && b[1] == '1' && b[entrySize-1] == '\n':
			a.St = "full"
			a.ID, a.Out = 99, 99
			for i, id := range r.keys {
				if string(b[3:3+64]) == hex.EncodeToString(id[:]) {
					a.ID = i + 1
				}
			}
			for i, out := range r.outs {
				if string(b[3+64+1:3+64+1+64]) == hex.EncodeToString(out[:]) {
					a.Out = i + 1
					sz, _ := strconv.Atoi(strings.TrimSpace(string(b[3+64+1+64+1 : 3+64+1+64+1+20])))
					if sz != len(r.vals[i]) {
						a.Out = 98
					}
				}
			}
		default:
			a.St = "garbage"
		}
		o.A = append(o.A, a)
	}
	st, err := os.ReadFile(filepath.Join(dir, "trim.txt"))
	switch {
	case err != nil:
		o.S = "none"
	default:
		o.S = "old"
		if t, err := strconv.ParseInt(strings.TrimSpace(string(st)), 10, 64); err == nil && time.Since(time.Unix(t, 0)) < 24*time.Hour {
			o.S = "fresh"
		}
	}
	if !extra {
		return o
	}
	// anything unexpected in the directory
	ents, _ := os.ReadDir(dir)
	for _, e := range ents {
		if e.IsDir() && len(e.Name()) == 2 {
			sub, _ := os.ReadDir(filepath.Join(dir, e.Name()))
			for _, f := range sub {
				if !known[filepath.Join(dir, e.Name(), f.Name())] {
					o.Extra = append(o.Extra, e.Name()+"/"+f.Name())
				}
			}
		} else if e.Name() != "trim.txt" {
			o.Extra = append(o.Extra, e.Name())
		}
	}
	return o
}

func obsEqual(a, b Obs) bool {
	x, _ := json.Marshal(a)
	y, _ := json.Marshal(b)
	return bytes.Equal(x, y)
}

// ---------------------------------------------------------------- the slow reader

type oneByteReader struct {
	data []byte
	pos  int
}

func (r *oneByteReader) Read(p []byte) (int, error) {
	if r.pos >= len(r.data) {
		return 0, io.EOF
	}
	if len(p) == 0 {
		return 0, nil
	}
	p[0] = r.data[r.pos]
	r.pos++
	return 1, nil
}
func (r *oneByteReader) Seek(off int64, whence int) (int64, error) {
	if off != 0 || whence != 0 {
		return 0, errors.New("only Seek(0,0)")
	}
	r.pos = 0
	return 0, nil
}

// ---------------------------------------------------------------- cases

type Res struct {
	Kind string `json:"kind"`
	B    []int  `json:"b"`
}
type Step struct {
	P   int    `json:"p"`
	A   string `json:"a"`
	O   string `json:"o"`
	K   int    `json:"k"`
	V   int    `json:"v"`
	N   int    `json:"n"`
	Obs Obs    `json:"obs"`
	R   Res    `json:"r"`
}
type Case struct {
	ID        int    `json:"id"`
	Mode      string `json:"mode"`
	Steps     []Step `json:"steps"`
	TornLen   int    `json:"tornlen"`    // concrete length for an abstract "torn" index truncation (1..entrySize-1)
	InprocPut bool   `json:"inproc_put"` // seq mode: Puts that complete run in-process instead of in a child
}

type Lookup struct {
	Step  int    `json:"step"`
	P     int    `json:"p"`
	Op    string `json:"op"`
	K     int    `json:"k"`
	Kind  string `json:"kind"`
	B     []int  `json:"b"`
	Raw   string `json:"raw"`
	Err   string `json:"err,omitempty"`
	Model Res    `json:"model"`
	V     int    `json:"v,omitempty"` // putfile: the value the Put stored
}
type Drift struct {
	Step int    `json:"step"`
	What string `json:"what"`
	Exp  any    `json:"exp,omitempty"`
	Got  any    `json:"got,omitempty"`
}
type Result struct {
	ID       int      `json:"id"`
	Steps    int      `json:"steps"`
	Drift    *Drift   `json:"drift,omitempty"`
	Lookups  []Lookup `json:"lookups"`
	Children int      `json:"children,omitempty"`
	Error    string   `json:"error,omitempty"`
}

var gateOf = map[string]string{
	"c_stat": "copy.stat", "c_verify": "copy.verify", "c_open": "copy.open", "c_write": "copy.write",
	"c_last": "copy.last", "c_chtimes": "copy.chtimes",
	"i_open": "index.open", "i_write": "index.write", "i_trunc": "index.truncate", "i_chtimes": "index.chtimes",
	"g_open": "get.open", "g_read": "get.read", "gi_ustat": "used.stat", "gi_uchtimes": "used.chtimes",
	"gd_ustat": "used.stat", "gd_uchtimes": "used.chtimes", "ret_name": "outputfile.return", "cl_read": "client.open",
	"t_stamp": "trim.readstamp", "t_readdir": "trim.readdir", "t_stat": "trim.stat", "t_rm": "trim.remove",
	"t_wstamp": "trim.writestamp",
}

// ---------------------------------------------------------------- gates (goroutine mode)

type gateEv struct{ name, path string }
type opResult struct {
	kind string
	raw  []byte
	err  string
}
type proc struct {
	dir     string // its own symlink to the shared directory
	subdirs map[string]bool
	arrive  chan gateEv
	release chan bool
	done    chan opResult
	parked  bool
	running bool
	at      gateEv
}

const marker = "/@p"

var procs sync.Map // symlink dir -> *proc

func gate(name, path string) {
	i := strings.Index(path, marker)
	if i < 0 {
		return
	}
	end := strings.IndexByte(path[i+1:], '/')
	key := path
	if end >= 0 {
		key = path[:i+1+end]
	}
	v, ok := procs.Load(key)
	if !ok {
		return
	}
	p := v.(*proc)
	if name == "trim.readdir" && !p.subdirs[filepath.Base(path)] {
		return // one of the subdirectories that hold no modelled file
	}
	p.arrive <- gateEv{name, path}
	if !<-p.release {
		runtime.Goexit() // the model process crashed here (or the behaviour ended)
	}
}

func doOp(p *proc, r *Real, o string, k, v int, gated bool) (res opResult) {
	c, err := cache.Open(p.dir)
	if err != nil {
		return opResult{kind: "error", err: err.Error()}
	}
	switch o {
	case "put":
		_, _, err := c.Put(r.keys[k-1], &oneByteReader{data: r.vals[v-1]})
		if err != nil {
			return opResult{kind: "puterr", err: err.Error()}
		}
		return opResult{kind: "putdone"}
	case "getfile":
		file, _, err := cache.GetFile(c, r.keys[k-1])
		if err != nil {
			return opResult{kind: "miss", err: err.Error()}
		}
		if gated {
			gate("client.open", file)
		}
		b, err := os.ReadFile(file) // what runner.loadFacts / Result.Load do with the returned name
		if err != nil {
			if os.IsNotExist(err) {
				return opResult{kind: "enoent", err: err.Error()}
			}
			return opResult{kind: "readerr", err: err.Error()}
		}
		return opResult{kind: "bytes", raw: b}
	case "getbytes":
		b, _, err := cache.GetBytes(c, r.keys[k-1])
		if err != nil {
			return opResult{kind: "miss", err: err.Error()}
		}
		return opResult{kind: "bytes", raw: b}
	case "trim":
		c.Trim()
		return opResult{kind: "trimdone"}
	}
	return opResult{kind: "error", err: "unknown op " + o}
}

// ---------------------------------------------------------------- faults

func keepMtime(path string, f func()) {
	fi, err := os.Stat(path)
	f()
	if err == nil {
		os.Chtimes(path, fi.ModTime(), fi.ModTime())
	}
}

func applyFault(dir string, r *Real, s Step, tornLen int) error {
	switch s.A {
	case "truncate":
		switch s.O {
		case "d":
			p := r.dataPath(dir, s.V)
			var err error
			keepMtime(p, func() { err = os.Truncate(p, int64(s.N)) })
			return err
		case "a":
			p := r.indexPath(dir, s.K)
			n := 0
			if s.N == 1 {
				n = tornLen
				if n <= 0 || n >= entrySize {
					n = entrySize - 1
				}
			}
			var err error
			keepMtime(p, func() { err = os.Truncate(p, int64(n)) })
			return err
		case "s":
			p := filepath.Join(dir, "trim.txt")
			b, err := os.ReadFile(p)
			if err != nil {
				return err
			}
			return os.WriteFile(p, b[:len(b)/2], 0666)
		}
	case "delete":
		switch s.O {
		case "d":
			return os.Remove(r.dataPath(dir, s.V))
		case "a":
			return os.Remove(r.indexPath(dir, s.K))
		case "s":
			return os.Remove(filepath.Join(dir, "trim.txt"))
		}
	case "foreign":
		b, err := os.ReadFile(r.indexPath(dir, s.N))
		if err != nil {
			return err
		}
		p := r.indexPath(dir, s.K)
		keepMtime(p, func() { err = os.WriteFile(p, b, 0666) })
		return err
	case "age":
		old := time.Now().Add(-6 * 24 * time.Hour)
		for v := range r.vals {
			os.Chtimes(r.dataPath(dir, v+1), old, old)
		}
		for k := range r.keys {
			os.Chtimes(r.indexPath(dir, k+1), old, old)
		}
		p := filepath.Join(dir, "trim.txt")
		if _, err := os.Stat(p); err == nil {
			return os.WriteFile(p, []byte(fmt.Sprintf("%d", time.Now().Add(-48*time.Hour).Unix())), 0666)
		}
		return nil
	}
	return fmt.Errorf("unknown fault %s/%s", s.A, s.O)
}

// ---------------------------------------------------------------- goroutine-mode replay

const stepTimeout = 300 * time.Second

func runGor(c Case, r *Real, scratch string) (res Result) {
	res.ID, res.Lookups = c.ID, []Lookup{}
	base, err := os.MkdirTemp(scratch, "case-")
	if err != nil {
		res.Error = err.Error()
		return
	}
	defer os.RemoveAll(base)
	dir := filepath.Join(base, "cache")
	os.Mkdir(dir, 0777)
	if _, err := cache.Open(dir); err != nil {
		res.Error = err.Error()
		return
	}
	subdirs := map[string]bool{}
	for v := range r.vals {
		subdirs[filepath.Base(filepath.Dir(r.dataPath(dir, v+1)))] = true
	}
	for k := range r.keys {
		subdirs[filepath.Base(filepath.Dir(r.indexPath(dir, k+1)))] = true
	}
	ps := map[int]*proc{}
	getp := func(i int) *proc {
		if p, ok := ps[i]; ok {
			return p
		}
		p := &proc{dir: filepath.Join(base, fmt.Sprintf("@p%d", i)), subdirs: subdirs}
		os.Symlink(dir, p.dir)
		procs.Store(p.dir, p)
		ps[i] = p
		return p
	}
	defer func() {
		for _, p := range ps {
			if p.parked {
				p.release <- false
				p.parked = false
			}
			procs.Delete(p.dir)
		}
	}()
	drift := func(i int, what string, exp, got any) {
		if res.Drift == nil {
			res.Drift = &Drift{i, what, exp, got}
		}
	}
	// wait until p parks at its next gate or finishes its operation
	wait := func(i int, p *proc, s Step) bool {
		select {
		case ev := <-p.arrive:
			p.parked, p.at = true, ev
		case or := <-p.done:
			p.running = false
			if s.O == "getfile" || s.O == "getbytes" {
				res.Lookups = append(res.Lookups, Lookup{Step: i, P: s.P, Op: s.O, K: s.K, Kind: or.kind, B: symbols(or.raw),
					Raw: hex.EncodeToString(or.raw), Err: or.err, Model: s.R})
			}
			if or.kind != s.R.Kind || (or.kind == "bytes" && fmt.Sprint(symbols(or.raw)) != fmt.Sprint(s.R.B)) {
				drift(i, "operation result differs from the model", s.R, Res{or.kind, symbols(or.raw)})
			}
		case <-time.After(stepTimeout):
			res.Error = fmt.Sprintf("step %d: process %d neither parked nor finished", i, s.P)
			return false
		}
		return true
	}
	for i, s := range c.Steps {
		res.Steps = i + 1
		switch {
		case s.P == 0:
			if err := applyFault(dir, r, s, c.TornLen); err != nil {
				drift(i, "fault could not be applied: "+err.Error(), nil, nil)
			}
		case s.A == "start":
			p := getp(s.P)
			if p.running {
				drift(i, "process still running at start", nil, nil)
				continue
			}
			p.arrive, p.release, p.done = make(chan gateEv), make(chan bool), make(chan opResult, 1)
			p.running = true
			go func(p *proc, s Step) {
				var or opResult
				finished := false
				defer func() {
					if !finished { // Goexit at a gate: crashed / abandoned
						or = opResult{kind: "crashed"}
					}
					p.done <- or
				}()
				or = doOp(p, r, s.O, s.K, s.V, true)
				finished = true
			}(p, s)
			if !wait(i, p, s) {
				return
			}
		case s.A == "crash":
			p := getp(s.P)
			if p.parked {
				p.release <- false
				<-p.done
				p.parked, p.running = false, false
			} else {
				drift(i, "crash of a process that is not parked", nil, nil)
			}
		default:
			p := getp(s.P)
			if !p.parked {
				drift(i, "process has no pending gate for "+s.A, nil, nil)
				continue
			}
			if want := gateOf[s.A]; want != p.at.name {
				drift(i, "gate differs from the model's action", s.A+"="+want, p.at.name)
			}
			p.parked = false
			p.release <- true
			if !wait(i, p, s) {
				return
			}
		}
		if got := snapshotX(dir, r, i == len(c.Steps)-1); !obsEqual(got, s.Obs) {
			drift(i, "directory differs from the model after "+s.A, s.Obs, got)
		}
	}
	return
}

// ---------------------------------------------------------------- sequential (child-process) replay

func runSeq(c Case, r *Real, scratch, self string) (res Result) {
	res.ID, res.Lookups = c.ID, []Lookup{}
	base, err := os.MkdirTemp(scratch, "seq-")
	if err != nil {
		res.Error = err.Error()
		return
	}
	defer os.RemoveAll(base)
	dir := filepath.Join(base, "cache")
	os.Mkdir(dir, 0777)
	if _, err := cache.Open(dir); err != nil {
		res.Error = err.Error()
		return
	}
	drift := func(i int, what string, exp, got any) {
		if res.Drift == nil {
			res.Drift = &Drift{i, what, exp, got}
		}
	}
	var sublist []string
	for v := range r.vals {
		sublist = append(sublist, filepath.Base(filepath.Dir(r.dataPath(dir, v+1))))
	}
	for k := range r.keys {
		sublist = append(sublist, filepath.Base(filepath.Dir(r.indexPath(dir, k+1))))
	}
	subdirs := strings.Join(sublist, ",")
	i := 0
	for i < len(c.Steps) {
		s := c.Steps[i]
		last := i
		switch {
		case s.P == 0:
			if err := applyFault(dir, r, s, c.TornLen); err != nil {
				drift(i, "fault could not be applied: "+err.Error(), nil, nil)
			}
		case s.A == "start":
			// the unit: start, m process steps, then either completion or crash
			j, m, crashed := i+1, 0, false
			for j < len(c.Steps) && c.Steps[j].P == s.P && c.Steps[j].A != "start" {
				if c.Steps[j].A == "crash" {
					crashed = true
					j++
					break
				}
				m++
				j++
				if c.Steps[j-1].R.Kind != "none" {
					break
				}
			}
			last = j - 1
			complete := !crashed && c.Steps[last].R.Kind != "none"
			var or opResult
			if s.O == "put" && complete && c.InprocPut {
				or = doOp(&proc{dir: dir}, r, s.O, s.K, s.V, false)
			} else if s.O == "put" {
				killat := 0
				if !complete {
					killat = m + 1
				}
				cmd := exec.Command(self, "child", "-dir", dir, "-key", r.Keys[s.K-1], "-val", r.Vals[s.V-1], "-killat", strconv.Itoa(killat))
				out, err := cmd.CombinedOutput()
				res.Children++
				switch {
				case complete && err == nil:
					or = opResult{kind: "putdone"}
				case !complete && err != nil && strings.Contains(err.Error(), "killed"):
					or = opResult{kind: "crashed"}
				default:
					or = opResult{kind: "childerr", err: fmt.Sprint(err, " ", string(out))}
				}
			} else if complete {
				or = doOp(&proc{dir: dir}, r, s.O, s.K, s.V, false)
			} else {
				// a lookup / trim that crashes part-way: lookups leave nothing behind but mtimes; run Trim in a child
				cmd := exec.Command(self, "child", "-dir", dir, "-op", s.O, "-key", keyOrEmpty(r, s.K), "-subdirs", subdirs, "-killat", strconv.Itoa(m+1))
				cmd.Run()
				res.Children++
				or = opResult{kind: "crashed"}
			}
			exp := c.Steps[last].R
			if s.O == "put" && complete && or.kind == "putdone" {
				// what lintcmd/runner does right after a successful Put: it keeps OutputFile(out) as the name of the
				// stored content (writeCache* return c.OutputFile(out)) and reads it later
				lk := Lookup{Step: last, P: s.P, Op: "putfile", K: s.K, V: s.V, Kind: "bytes", Model: Res{"bytes", symbols(r.vals[s.V-1])}}
				raw, err := os.ReadFile(r.dataPath(dir, s.V))
				if err != nil {
					lk.Kind, lk.Err = "readerr", err.Error()
					if os.IsNotExist(err) {
						lk.Kind = "enoent"
					}
				}
				lk.B, lk.Raw = symbols(raw), hex.EncodeToString(raw)
				res.Lookups = append(res.Lookups, lk)
			}
			if s.O == "getfile" || s.O == "getbytes" {
				if complete {
					res.Lookups = append(res.Lookups, Lookup{Step: last, P: s.P, Op: s.O, K: s.K, Kind: or.kind, B: symbols(or.raw),
						Raw: hex.EncodeToString(or.raw), Err: or.err, Model: exp})
				}
			}
			if or.kind != exp.Kind || (or.kind == "bytes" && fmt.Sprint(symbols(or.raw)) != fmt.Sprint(exp.B)) {
				drift(last, "operation result differs from the model", exp, Res{or.kind, symbols(or.raw)})
				if or.kind == "childerr" {
					res.Error = or.err
					return
				}
			}
		default:
			drift(i, "stray step "+s.A, nil, nil)
		}
		if got := snapshot(dir, r); !obsEqual(got, c.Steps[last].Obs) {
			drift(last, "directory differs from the model after "+c.Steps[last].A, c.Steps[last].Obs, got)
		}
		i = last + 1
		res.Steps = i
	}
	return
}

func keyOrEmpty(r *Real, k int) string {
	if k >= 1 && k <= len(r.Keys) {
		return r.Keys[k-1]
	}
	return ""
}

// ---------------------------------------------------------------- child

func childMain(args []string) {
	fs := flag.NewFlagSet("child", flag.ExitOnError)
	dir := fs.String("dir", "", "")
	key := fs.String("key", "", "")
	val := fs.String("val", "", "")
	op := fs.String("op", "put", "")
	subdirs := fs.String("subdirs", "", "comma-separated subdirectories that hold modelled files (Trim)")
	killat := fs.Int("killat", 0, "")
	fs.Parse(args)
	sub := map[string]bool{}
	for _, x := range strings.Split(*subdirs, ",") {
		sub[x] = true
	}
	n := 0
	count := func(name, path string) {
		if name == "trim.readdir" && !sub[filepath.Base(path)] {
			return
		}
		n++
		if *killat > 0 && n == *killat {
			syscall.Kill(os.Getpid(), syscall.SIGKILL)
			select {}
		}
	}
	cache.VerifSetGate(count)
	c, err := cache.Open(*dir)
	must(err)
	var id cache.ActionID
	kb, _ := hex.DecodeString(*key)
	copy(id[:], kb)
	switch *op {
	case "put":
		vb, err := hex.DecodeString(*val)
		must(err)
		_, _, err = c.Put(id, &oneByteReader{data: vb})
		must(err)
	case "getfile":
		if f, _, err := cache.GetFile(c, id); err == nil {
			count("client.open", f)
			os.ReadFile(f)
		}
	case "getbytes":
		cache.GetBytes(c, id)
	case "trim":
		c.Trim()
	}
	fmt.Println(n)
}

// ---------------------------------------------------------------- run

func runMain(args []string) {
	fs := flag.NewFlagSet("run", flag.ExitOnError)
	casesPath := fs.String("cases", "", "")
	realPath := fs.String("real", "", "")
	j := fs.Int("j", 4, "")
	scratch := fs.String("dir", "", "")
	fs.Parse(args)
	r := loadReal(*realPath)
	self, err := os.Executable()
	must(err)
	cache.VerifSetGate(gate)
	f, err := os.Open(*casesPath)
	must(err)
	defer f.Close()
	sc := bufio.NewScanner(f)
	sc.Buffer(make([]byte, 1<<20), 1<<28)
	in := make(chan Case)
	var mu sync.Mutex
	w := bufio.NewWriter(os.Stdout)
	var wg sync.WaitGroup
	total, drifts, lookups, children := 0, 0, 0, 0
	for range *j {
		wg.Add(1)
		go func() {
			defer wg.Done()
			for c := range in {
				var res Result
				if c.Mode == "seq" {
					res = runSeq(c, r, *scratch, self)
				} else {
					res = runGor(c, r, *scratch)
				}
				b, _ := json.Marshal(res)
				mu.Lock()
				total++
				if res.Drift != nil {
					drifts++
				}
				lookups += len(res.Lookups)
				children += res.Children
				w.Write(b)
				w.WriteByte('\n')
				mu.Unlock()
			}
		}()
	}
	for sc.Scan() {
		var c Case
		if err := json.Unmarshal(sc.Bytes(), &c); err != nil {
			must(fmt.Errorf("bad case line: %v", err))
		}
		in <- c
	}
	close(in)
	wg.Wait()
	b, _ := json.Marshal(map[string]any{"summary": true, "cases": total, "drifts": drifts, "lookups": lookups, "children": children})
	w.Write(b)
	w.WriteByte('\n')
	w.Flush()
}

// ---------------------------------------------------------------- snap / lookup

func snapMain(args []string) {
	fs := flag.NewFlagSet("snap", flag.ExitOnError)
	dir := fs.String("dir", "", "")
	realPath := fs.String("real", "", "")
	fs.Parse(args)
	b, _ := json.Marshal(snapshot(*dir, loadReal(*realPath)))
	fmt.Println(string(b))
}

func lookupMain(args []string) {
	fs := flag.NewFlagSet("lookup", flag.ExitOnError)
	dir := fs.String("dir", "", "")
	realPath := fs.String("real", "", "")
	k := fs.Int("key", 1, "")
	fs.Parse(args)
	r := loadReal(*realPath)
	out := map[string]any{}
	for _, o := range []string{"getfile", "getbytes"} {
		or := doOp(&proc{dir: *dir}, r, o, *k, 0, false)
		out[o] = map[string]any{"kind": or.kind, "b": symbols(or.raw), "raw": hex.EncodeToString(or.raw), "err": or.err}
	}
	b, _ := json.Marshal(out)
	fmt.Println(string(b))
}

// ---------------------------------------------------------------- stress (multi-process, random)

// stress worker: random Put / GetFile+read / GetBytes / Trim on a shared directory. Key k is only ever
// stored with values from its candidate set (every value whose index is congruent to k modulo the number
// of keys), so any bytes returned for k outside that set are wrong bytes. No file is aged, so Trim never
// removes anything (the stat->remove window is covered by the gate-driven replays).
func stressWorker(args []string) {
	fs := flag.NewFlagSet("stressworker", flag.ExitOnError)
	dir := fs.String("dir", "", "")
	realPath := fs.String("real", "", "")
	seed := fs.Int64("seed", 1, "")
	ops := fs.Int("ops", 100, "")
	fs.Parse(args)
	r := loadReal(*realPath)
	rng := rand.New(rand.NewSource(*seed))
	c, err := cache.Open(*dir)
	must(err)
	allowed := func(k int, b []byte) bool {
		for v := range r.vals {
			if v%len(r.keys) == k%len(r.keys) && bytes.Equal(r.vals[v], b) {
				return true
			}
		}
		return false
	}
	nl, bad := 0, 0
	for i := 0; i < *ops; i++ {
		k := rng.Intn(len(r.keys))
		switch rng.Intn(6) {
		case 0, 1:
			var cands []int
			for v := range r.vals {
				if v%len(r.keys) == k {
					cands = append(cands, v)
				}
			}
			v := cands[rng.Intn(len(cands))]
			c.Put(r.keys[k], &oneByteReader{data: r.vals[v]})
		case 2, 3:
			if f, _, err := cache.GetFile(c, r.keys[k]); err == nil {
				b, err := os.ReadFile(f)
				nl++
				if err != nil || !allowed(k, b) {
					bad++
					fmt.Printf("{\"bad\":\"getfile\",\"k\":%d,\"raw\":%q,\"err\":%q}\n", k+1, hex.EncodeToString(b), fmt.Sprint(err))
				}
			}
		case 4:
			if b, _, err := cache.GetBytes(c, r.keys[k]); err == nil {
				nl++
				if !allowed(k, b) {
					bad++
					fmt.Printf("{\"bad\":\"getbytes\",\"k\":%d,\"raw\":%q}\n", k+1, hex.EncodeToString(b))
				}
			}
		case 5:
			os.Remove(filepath.Join(*dir, "trim.txt"))
			c.Trim()
		}
	}
	fmt.Printf("{\"hits\":%d,\"bad\":%d}\n", nl, bad)
}

func stressMain(args []string) {
	fs := flag.NewFlagSet("stress", flag.ExitOnError)
	dir := fs.String("dir", "", "")
	realPath := fs.String("real", "", "")
	seed := fs.Int64("seed", 1, "")
	np := fs.Int("procs", 4, "")
	ops := fs.Int("ops", 200, "")
	rounds := fs.Int("rounds", 3, "")
	fs.Parse(args)
	self, _ := os.Executable()
	rng := rand.New(rand.NewSource(*seed))
	hits, bad, killed := 0, 0, 0
	var lines []string
	for round := 0; round < *rounds; round++ {
		var wg sync.WaitGroup
		var mu sync.Mutex
		for p := 0; p < *np; p++ {
			wg.Add(1)
			ws := rng.Int63()
			kill := time.Duration(0)
			if p%2 == 1 { // every other worker is killed somewhere in the middle of its run
				kill = time.Duration(5+rng.Intn(60)) * time.Millisecond
			}
			go func() {
				defer wg.Done()
				cmd := exec.Command(self, "stressworker", "-dir", *dir, "-real", *realPath, "-seed", fmt.Sprint(ws), "-ops", fmt.Sprint(*ops))
				var out bytes.Buffer
				cmd.Stdout = &out
				if err := cmd.Start(); err != nil {
					return
				}
				if kill > 0 {
					time.AfterFunc(kill, func() { cmd.Process.Kill() })
				}
				err := cmd.Wait()
				mu.Lock()
				defer mu.Unlock()
				if err != nil {
					killed++
				}
				for _, l := range strings.Split(out.String(), "\n") {
					var o map[string]any
					if json.Unmarshal([]byte(l), &o) != nil {
						continue
					}
					if _, ok := o["bad"].(string); ok {
						lines = append(lines, l)
					}
					if h, ok := o["hits"].(float64); ok {
						hits += int(h)
						bad += int(o["bad"].(float64))
					}
				}
			}()
		}
		wg.Wait()
	}
	b, _ := json.Marshal(map[string]any{"hits": hits, "bad": bad, "killed": killed, "lines": lines})
	fmt.Println(string(b))
}

// ---------------------------------------------------------------- unstable source (outside the TLC-enumerated space)

// changingReader yields `first` on the first pass and `second` (same length) after the first Seek back,
// i.e. the source changes between put's hashing pass and copyFile's copying pass.
type changingReader struct {
	first, second []byte
	seeks, pos    int
}

func (r *changingReader) Read(p []byte) (int, error) {
	src := r.first
	if r.seeks >= 2 {
		src = r.second
	}
	if r.pos >= len(src) {
		return 0, io.EOF
	}
	if len(p) == 0 {
		return 0, nil
	}
	p[0] = src[r.pos]
	r.pos++
	return 1, nil
}
func (r *changingReader) Seek(off int64, whence int) (int64, error) {
	r.seeks++
	r.pos = 0
	return 0, nil
}

func unstableMain(args []string) {
	fs := flag.NewFlagSet("unstable", flag.ExitOnError)
	scratch := fs.String("dir", "", "")
	only := fs.Bool("only-put", false, "perform just the changing Put (-v1 -> -v2, -key) on the existing directory -dir")
	v1f := fs.String("v1", "", "")
	v2f := fs.String("v2", "", "")
	keyf := fs.String("key", "", "")
	fs.Parse(args)
	if *only {
		c, err := cache.Open(*scratch)
		must(err)
		var id cache.ActionID
		kb, _ := hex.DecodeString(*keyf)
		copy(id[:], kb)
		_, _, perr := c.Put(id, &changingReader{first: []byte(*v1f), second: []byte(*v2f)})
		fmt.Println(perr)
		return
	}
	type out struct {
		Scenario string            `json:"scenario"`
		V1       string            `json:"v1"`
		V2       string            `json:"v2"`
		PutErr   string            `json:"put_err"`
		Lookups  map[string]string `json:"lookups"`
		Kinds    map[string]string `json:"kinds"`
	}
	var id cache.ActionID
	id[0] = 0x40
	var results []out
	for _, pair := range [][2]string{{"ab", "ax"}, {"ab", "xb"}, {"abc", "abd"}, {"abc", "xbc"}, {"abc", "axc"}} {
		for _, pre := range []string{"fresh", "data-removed", "data-truncated-1", "data-truncated-0"} {
			dir, err := os.MkdirTemp(*scratch, "unst-")
			must(err)
			c, err := cache.Open(dir)
			must(err)
			v1, v2 := []byte(pair[0]), []byte(pair[1])
			o := sha256.Sum256(v1)
			dp := filepath.Join(dir, fmt.Sprintf("%02x", o[0]), fmt.Sprintf("%x-d", o))
			if pre != "fresh" {
				_, _, err := c.Put(id, &oneByteReader{data: v1})
				must(err)
				switch pre {
				case "data-removed":
					must(os.Remove(dp))
				case "data-truncated-1":
					must(os.Truncate(dp, 1))
				case "data-truncated-0":
					must(os.Truncate(dp, 0))
				}
			}
			_, _, perr := c.Put(id, &changingReader{first: v1, second: v2})
			res := out{Scenario: pre, V1: pair[0], V2: pair[1], PutErr: fmt.Sprint(perr), Lookups: map[string]string{}, Kinds: map[string]string{}}
			for _, op := range []string{"getfile", "getbytes"} {
				or := doOp(&proc{dir: dir}, &Real{keys: []cache.ActionID{id}}, op, 1, 0, false)
				res.Kinds[op] = or.kind
				res.Lookups[op] = string(or.raw)
			}
			results = append(results, res)
			os.RemoveAll(dir)
		}
	}
	b, _ := json.Marshal(results)
	fmt.Println(string(b))
}

func main() {
	if len(os.Args) < 2 {
		fmt.Fprintln(os.Stderr, "usage: h-cache run|child|snap|lookup|stress ...")
		os.Exit(2)
	}
	switch os.Args[1] {
	case "run":
		runMain(os.Args[2:])
	case "child":
		childMain(os.Args[2:])
	case "snap":
		snapMain(os.Args[2:])
	case "lookup":
		lookupMain(os.Args[2:])
	case "stress":
		stressMain(os.Args[2:])
	case "unstable":
		unstableMain(os.Args[2:])
	case "stressworker":
		stressWorker(os.Args[2:])
	default:
		os.Exit(2)
	}
}
