// h-merge replays TLC-enumerated merge cases (specs/Merge.tla) through the real
// `staticcheck -merge`: every case is encoded as a `-f binary` gob stream (one lintResult
// per run, structurally identical to lintcmd.lintResult), fed on stdin or split over files,
// and the text (and, for end-sensitive cases, JSON) output is compared with Merged(runs).
//
// usage: h-merge -sc <staticcheck binary> -cases <ndjson> -desc <json> [-j N] [-dir scratch]
// output: one JSON line per mismatching case on stdout, then a summary line {"summary":...}.
package main

import (
	"bufio"
	"bytes"
	"encoding/gob"
	"encoding/json"
	"flag"
	"fmt"
	"go/token"
	"os"
	"os/exec"
	"path/filepath"
	"regexp"
	"sort"
	"strings"
	"sync"

	"honnef.co/go/tools/lintcmd"
	"honnef.co/go/tools/lintcmd/runner"
	"honnef.co/go/tools/simple"
	"honnef.co/go/tools/staticcheck"
	"honnef.co/go/tools/stylecheck"
	"honnef.co/go/tools/unused"
)

// mirrors lintcmd.diagnostic / lintcmd.lintResult (gob matches by field name and kind)
type diagnostic struct {
	runner.Diagnostic
	Severity  uint8
	MergeIf   int
	BuildName string
}
type lintResult struct {
	CheckedFiles []string
	Diagnostics  []diagnostic
	Warnings     []string
}

type Desc struct {
	ID     int    `json:"id"`
	File   string `json:"file"`
	Line   int    `json:"line"`
	EndCol int    `json:"endcol"`
	Cat    string `json:"cat"`
	Msg    string `json:"msg"`
	All    bool   `json:"all"`
}

type Run struct {
	Name    string   `json:"name"`
	Checked []string `json:"checked"`
	Diags   []int    `json:"diags"`
}
type MergedEntry struct {
	ID    int      `json:"id"`
	Names []string `json:"names"`
}
type Case struct {
	Idx    int           `json:"idx"`
	Runs   []Run         `json:"runs"`
	Merged []MergedEntry `json:"merged"`
}

type Mismatch struct {
	Idx      int      `json:"idx"`
	Mode     string   `json:"mode"`
	Format   string   `json:"format"`
	Want     []string `json:"want"`
	Got      []string `json:"got"`
	ExitCode int      `json:"exit"`
	Stderr   string   `json:"stderr,omitempty"`
}

var lineRe = regexp.MustCompile(`^(\S+):(\d+):(\d+): (.*?)(?: \[([^\]]*)\])? \((\w+)\)$`)

var descs = map[int]Desc{}

func encodeRun(r Run) []byte {
	lr := lintResult{CheckedFiles: append([]string(nil), r.Checked...)}
	for _, id := range r.Diags {
		d := descs[id]
		m := 0
		if d.All {
			m = 1
		}
		diag := diagnostic{Diagnostic: runner.Diagnostic{
			Position: token.Position{Filename: d.File, Line: d.Line, Column: 1},
			Category: d.Cat, Message: d.Msg}, MergeIf: m, BuildName: r.Name}
		if d.EndCol != 0 {
			diag.End = token.Position{Filename: d.File, Line: d.Line, Column: d.EndCol}
		}
		lr.Diagnostics = append(lr.Diagnostics, diag)
	}
	var buf bytes.Buffer
	if err := gob.NewEncoder(&buf).Encode(lr); err != nil {
		panic(err)
	}
	return buf.Bytes()
}

func runMerge(sc, dir string, c Case, mode, format string) (out string, code int, stderr string) {
	args := []string{"-merge", "-f", format}
	var stdin bytes.Buffer
	if mode == "stdin" {
		for _, r := range c.Runs {
			stdin.Write(encodeRun(r))
		}
	} else {
		// one file per run ("files") or runs 1..n-1 in the first file and the last alone ("split")
		var blobs [][]byte
		if mode == "files" || len(c.Runs) < 2 {
			for _, r := range c.Runs {
				blobs = append(blobs, encodeRun(r))
			}
		} else {
			var first []byte
			for _, r := range c.Runs[:len(c.Runs)-1] {
				first = append(first, encodeRun(r)...)
			}
			blobs = [][]byte{first, encodeRun(c.Runs[len(c.Runs)-1])}
		}
		for i, b := range blobs {
			p := filepath.Join(dir, fmt.Sprintf("c%d_%d.bin", c.Idx, i))
			if err := os.WriteFile(p, b, 0o644); err != nil {
				panic(err)
			}
			defer os.Remove(p)
			args = append(args, p)
		}
	}
	if sc == "" {
		return runInProc(dir, c.Idx, args, stdin.Bytes())
	}
	cmd := exec.Command(sc, args...)
	cmd.Dir = dir
	cmd.Stdin = &stdin
	var so, se bytes.Buffer
	cmd.Stdout, cmd.Stderr = &so, &se
	err := cmd.Run()
	code = 0
	if ee, ok := err.(*exec.ExitError); ok {
		code = ee.ExitCode()
	} else if err != nil {
		code = -1
		se.WriteString(err.Error())
	}
	return so.String(), code, se.String()
}

// runInProc runs the same code path as cmd/staticcheck's main (lintcmd.Command with the same
// analyzers, ParseFlags, Execute) inside this process, with os.Stdin/os.Stdout redirected to
// files.  Only one merge runs at a time per process (os.Stdout is global); parallelism comes
// from worker processes.
func runInProc(dir string, idx int, args []string, stdin []byte) (out string, code int, stderr string) {
	inPath := filepath.Join(dir, fmt.Sprintf("w%d_in_%d", os.Getpid(), idx))
	outPath := filepath.Join(dir, fmt.Sprintf("w%d_out_%d", os.Getpid(), idx))
	if err := os.WriteFile(inPath, stdin, 0o644); err != nil {
		panic(err)
	}
	defer os.Remove(inPath)
	defer os.Remove(outPath)
	fin, err := os.Open(inPath)
	if err != nil {
		panic(err)
	}
	fout, err := os.Create(outPath)
	if err != nil {
		panic(err)
	}
	oldIn, oldOut := os.Stdin, os.Stdout
	os.Stdin, os.Stdout = fin, fout
	cmd := lintcmd.NewCommand("staticcheck")
	cmd.ParseFlags(args)
	cmd.AddAnalyzers(simple.Analyzers...)
	cmd.AddAnalyzers(staticcheck.Analyzers...)
	cmd.AddAnalyzers(stylecheck.Analyzers...)
	cmd.AddAnalyzers(unused.Analyzer)
	code = cmd.Execute()
	os.Stdin, os.Stdout = oldIn, oldOut
	fin.Close()
	fout.Close()
	b, _ := os.ReadFile(outPath)
	return string(b), code, ""
}

func wantText(c Case) []string {
	var want []string
	for _, m := range c.Merged {
		d := descs[m.ID]
		names := append([]string(nil), m.Names...)
		sort.Strings(names)
		want = append(want, fmt.Sprintf("%s:%d:1 %s %s [%s]", d.File, d.Line, d.Cat, d.Msg, strings.Join(names, ",")))
	}
	sort.Strings(want)
	return want
}

func gotText(out string) []string {
	var got []string
	for _, l := range strings.Split(strings.TrimRight(out, "\n"), "\n") {
		if l == "" {
			continue
		}
		m := lineRe.FindStringSubmatch(l)
		if m == nil {
			got = append(got, "UNPARSED "+l)
			continue
		}
		got = append(got, fmt.Sprintf("%s:%s:%s %s %s [%s]", m[1], m[2], m[3], m[6], m[4], m[5]))
	}
	sort.Strings(got)
	return got
}

func wantJSON(c Case) []string {
	var want []string
	for _, m := range c.Merged {
		d := descs[m.ID]
		want = append(want, fmt.Sprintf("%s:%d:1-%d %s %s", d.File, d.Line, d.EndCol, d.Cat, d.Msg))
	}
	sort.Strings(want)
	return want
}

func gotJSON(out string) []string {
	var got []string
	dec := json.NewDecoder(strings.NewReader(out))
	for dec.More() {
		var v struct {
			Code     string
			Location struct {
				File         string
				Line, Column int
			}
			End struct {
				File         string
				Line, Column int
			}
			Message string
		}
		if err := dec.Decode(&v); err != nil {
			got = append(got, "UNPARSED "+err.Error())
			break
		}
		got = append(got, fmt.Sprintf("%s:%d:%d-%d %s %s", v.Location.File, v.Location.Line, v.Location.Column, v.End.Column, v.Code, v.Message))
	}
	sort.Strings(got)
	return got
}

func eq(a, b []string) bool { return strings.Join(a, "\x00") == strings.Join(b, "\x00") }

func main() {
	sc := flag.String("sc", "", "staticcheck binary")
	casesPath := flag.String("cases", "", "ndjson cases")
	descPath := flag.String("desc", "", "descriptor table json")
	j := flag.Int("j", 16, "parallelism")
	worker := flag.Bool("worker", false, "internal: in-process worker")
	dir := flag.String("dir", "", "scratch dir")
	flag.Parse()

	b, err := os.ReadFile(*descPath)
	if err != nil {
		panic(err)
	}
	var dl []Desc
	if err := json.Unmarshal(b, &dl); err != nil {
		panic(err)
	}
	for _, d := range dl {
		descs[d.ID] = d
	}

	if *sc == "" && !*worker {
		fanOut(*casesPath, *descPath, *dir, *j)
		return
	}
	if *worker {
		*j = 1
	}
	f, err := os.Open(*casesPath)
	if err != nil {
		panic(err)
	}
	sc2 := bufio.NewScanner(f)
	sc2.Buffer(make([]byte, 1<<20), 1<<26)
	ch := make(chan Case, 64)
	var mu sync.Mutex
	enc := json.NewEncoder(os.Stdout)
	n, bad, invocations, nonEmpty := 0, 0, 0, 0
	var wg sync.WaitGroup
	modes := []string{"stdin", "files", "split"}
	for w := 0; w < *j; w++ {
		wg.Add(1)
		go func() {
			defer wg.Done()
			for c := range ch {
				mode := modes[c.Idx%len(modes)]
				out, code, se := runMerge(*sc, *dir, c, mode, "text")
				want, got := wantText(c), gotText(out)
				inv := 1
				var mm []Mismatch
				if !eq(want, got) || code < 0 || code > 1 {
					mm = append(mm, Mismatch{c.Idx, mode, "text", want, got, code, se})
				}
				endSensitive := false
				for _, r := range c.Runs {
					for _, id := range r.Diags {
						if descs[id].EndCol != 0 {
							endSensitive = true
						}
					}
				}
				if endSensitive {
					out, code, se := runMerge(*sc, *dir, c, mode, "json")
					inv++
					want, got := wantJSON(c), gotJSON(out)
					if !eq(want, got) || code < 0 || code > 1 {
						mm = append(mm, Mismatch{c.Idx, mode, "json", want, got, code, se})
					}
				}
				mu.Lock()
				n++
				invocations += inv
				if len(c.Merged) > 0 {
					nonEmpty++
				}
				for _, m := range mm {
					bad++
					enc.Encode(m)
				}
				mu.Unlock()
			}
		}()
	}
	for sc2.Scan() {
		var c Case
		if err := json.Unmarshal(sc2.Bytes(), &c); err != nil {
			panic(err)
		}
		ch <- c
	}
	close(ch)
	wg.Wait()
	enc.Encode(map[string]any{"summary": true, "cases": n, "mismatches": bad, "invocations": invocations, "nonempty": nonEmpty})
}

// fanOut splits the case file over j worker processes (in-process merges) and merges their reports.
func fanOut(casesPath, descPath, dir string, j int) {
	f, err := os.Open(casesPath)
	if err != nil {
		panic(err)
	}
	sc := bufio.NewScanner(f)
	sc.Buffer(make([]byte, 1<<20), 1<<26)
	outs := make([]*bufio.Writer, j)
	files := make([]*os.File, j)
	for i := range outs {
		files[i], err = os.Create(filepath.Join(dir, fmt.Sprintf("part%d.ndjson", i)))
		if err != nil {
			panic(err)
		}
		outs[i] = bufio.NewWriter(files[i])
	}
	n := 0
	for sc.Scan() {
		outs[n%j].Write(sc.Bytes())
		outs[n%j].WriteByte('\n')
		n++
	}
	for i := range outs {
		outs[i].Flush()
		files[i].Close()
	}
	self, _ := os.Executable()
	results := make([][]byte, j)
	var wg sync.WaitGroup
	for i := 0; i < j; i++ {
		wg.Add(1)
		go func(i int) {
			defer wg.Done()
			cmd := exec.Command(self, "-worker", "-cases", files[i].Name(), "-desc", descPath, "-dir", dir)
			cmd.Stderr = os.Stderr
			b, err := cmd.Output()
			if err != nil {
				fmt.Fprintln(os.Stderr, "worker failed:", err)
				os.Exit(3)
			}
			results[i] = b
		}(i)
	}
	wg.Wait()
	tot := map[string]int{}
	enc := json.NewEncoder(os.Stdout)
	for _, b := range results {
		s := bufio.NewScanner(bytes.NewReader(b))
		s.Buffer(make([]byte, 1<<20), 1<<26)
		for s.Scan() {
			var m map[string]any
			if err := json.Unmarshal(s.Bytes(), &m); err != nil {
				panic(err)
			}
			if m["summary"] == true {
				for _, k := range []string{"cases", "mismatches", "invocations", "nonempty"} {
					tot[k] += int(m[k].(float64))
				}
				continue
			}
			os.Stdout.Write(s.Bytes())
			os.Stdout.Write([]byte("\n"))
		}
	}
	enc.Encode(map[string]any{"summary": true, "cases": tot["cases"], "mismatches": tot["mismatches"], "invocations": tot["invocations"], "nonempty": tot["nonempty"]})
}
