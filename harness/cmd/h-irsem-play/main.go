package main

import (
	"fmt"
	"go/ast"
	"go/parser"
	"go/token"
	"go/types"
	"os"
	"sort"

	"honnef.co/go/tools/go/ir"
	"honnef.co/go/tools/go/ir/irutil"
)

func main() {
	src, _ := os.ReadFile(os.Args[1])
	modes := map[string]ir.BuilderMode{"naive": ir.NaiveForm | ir.InstantiateGenerics, "lifted": ir.InstantiateGenerics}
	which := os.Args[2]
	fset := token.NewFileSet()
	f, err := parser.ParseFile(fset, "p.go", src, parser.ParseComments)
	if err != nil {
		panic(err)
	}
	pkg, _, err := irutil.BuildPackage(&types.Config{}, fset, types.NewPackage("main", "main"), []*ast.File{f}, modes[which])
	if err != nil {
		panic(err)
	}
	var names []string
	for n := range pkg.Members {
		names = append(names, n)
	}
	sort.Strings(names)
	var dump func(fn *ir.Function)
	dump = func(fn *ir.Function) {
		fn.WriteTo(os.Stdout)
		for _, a := range fn.AnonFuncs {
			dump(a)
		}
	}
	for _, n := range names {
		if fn, ok := pkg.Members[n].(*ir.Function); ok {
			if len(os.Args) > 3 && os.Args[3] != n {
				continue
			}
			dump(fn)
		}
	}
	fmt.Println()
}
