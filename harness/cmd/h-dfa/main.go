// h-dfa binds specs/Dataflow.tla and specs/Lattices.tla (property C13) to the real code in
// analysis/dfa.
//
//	h-dfa dense   -cases f.ndjson [-seed N] [-j N]
//	    replays every TLC-emitted case (graph, lattice, transfer tables, entry facts, expected
//	    least fixpoint) through the REAL generic dense.Forward over graph.Graph -- with int,
//	    string and compact node ids, permuted node/out-edge orders, and facts carried plainly,
//	    in a dfa.DenseMapLattice and in a dfa.MapLattice -- and compares In / Edge with the
//	    spec's LFP.  One JSON line per mismatch, then {"summary":...}.
//	h-dfa lattice -out f.json
//	    dumps the nilness merge table from the real code (export hook) and the results of the
//	    real MapLattice / DenseMapLattice Merge and Equals on all pairs of representations, for
//	    TLC (specs/LatticeObs.tla); also evaluates the four laws on all triples directly.
//	h-dfa sparse  -out f.json -runs N -src a.go ...
//	    builds the sources with go/ir, runs the REAL sparse.Forward with a toy constant
//	    propagation N times per function, and exports the def-use equations (operands and
//	    tabulated transfer functions) with the observed mappings, for TLC (specs/SparseObs.tla).
package main

import (
	"bufio"
	"encoding/json"
	"flag"
	"fmt"
	"go/ast"
	"go/constant"
	"go/parser"
	"go/token"
	"go/types"
	"iter"
	"math/rand"
	"os"
	"runtime"
	"sort"
	"strings"
	"sync"

	"honnef.co/go/tools/analysis/dfa"
	"honnef.co/go/tools/analysis/dfa/dense"
	"honnef.co/go/tools/analysis/dfa/sparse"
	"honnef.co/go/tools/analysis/facts/nilness"
	"honnef.co/go/tools/go/ir"
	"honnef.co/go/tools/go/ir/irutil"
	"honnef.co/go/tools/internal/xtools-internal/graph"
)

// ---------------------------------------------------------------------------------------------
// element lattices (harness-side, stateless as dfa.Semilattice requires)
// ---------------------------------------------------------------------------------------------

type latMax struct{} // chains: Merge = max, Ident = 0

func (latMax) Ident() int           { return 0 }
func (latMax) Equals(a, b int) bool { return a == b }
func (latMax) Merge(a, b int) int   { return max(a, b) }

type latOr struct{} // powerset as bit set: Merge = or

func (latOr) Ident() int           { return 0 }
func (latOr) Equals(a, b int) bool { return a == b }
func (latOr) Merge(a, b int) int   { return a | b }

// Order-dual encodings: the identity (bottom) is NOT Go's zero value, the zero value is the top
// element.  A solver that substitutes the zero value of Fact for Ident() (e.g. for a predecessor it
// has not visited yet) is invisible with the encodings above and visible with these.
type latMin1 struct{} // chain2 encoded as 1-e: Merge = min, Ident = 1

func (latMin1) Ident() int           { return 1 }
func (latMin1) Equals(a, b int) bool { return a == b }
func (latMin1) Merge(a, b int) int   { return min(a, b) }

type latMin2 struct{} // chain3 encoded as 2-e: Merge = min, Ident = 2

func (latMin2) Ident() int           { return 2 }
func (latMin2) Equals(a, b int) bool { return a == b }
func (latMin2) Merge(a, b int) int   { return min(a, b) }

type latAnd struct{} // powerset of 2 encoded as complement bit set ("must" analysis): Merge = and, Ident = 3

func (latAnd) Ident() int           { return 3 }
func (latAnd) Equals(a, b int) bool { return a == b }
func (latAnd) Merge(a, b int) int   { return a & b }

func dualInt(k int) codec[int] {
	return codec[int]{"dual", func(e, _ int) int { return k - e }, func(f int) int { return k - f }}
}
func complInt() codec[int] {
	return codec[int]{"compl", func(e, _ int) int { return ^e & 3 }, func(f int) int { return ^f & 3 }}
}

type latFlat struct{} // flat constant lattice: 0 bottom, 1..5 constants, 6 top

func (latFlat) Ident() int           { return 0 }
func (latFlat) Equals(a, b int) bool { return a == b }
func (latFlat) Merge(a, b int) int {
	switch {
	case a == 0:
		return b
	case b == 0:
		return a
	case a == b:
		return a
	}
	return 6
}

type VN = nilness.ValueNilness

func vn(e int) VN { return VN{Inner: nilness.Nilness(e), Outer: nilness.Nilness(e)} }
func unvn(v VN) int {
	if v.Inner != v.Outer {
		return -100 - int(v.Inner)*10 - int(v.Outer)
	}
	return int(v.Outer)
}

// ---------------------------------------------------------------------------------------------
// dense
// ---------------------------------------------------------------------------------------------

type Case struct {
	Idx   int       `json:"idx"`
	N     int       `json:"n"`
	Succs [][]int   `json:"succs"` // 1-based
	Lat   string    `json:"lat"`
	Tf    [][][]int `json:"tf"`    // tf[u-1][v-1][x]
	Entry []int     `json:"entry"` // -1 = absent
	LFP   struct {
		In  []int   `json:"in"`
		Out [][]int `json:"out"`
	} `json:"lfp"`
}

type Mismatch struct {
	Idx     int    `json:"idx"`
	Variant string `json:"variant"`
	What    string `json:"what"`
	From    int    `json:"from"`
	To      int    `json:"to"`
	Got     int    `json:"got"`
	Want    int    `json:"want"`
	Msg     string `json:"msg,omitempty"`
}

// a graph over arbitrary comparable ids, NOT marked compact
type anyGraph[ID comparable] struct {
	nodes []ID
	out   map[ID][]ID
}

func (g *anyGraph[ID]) NumNodes() int { return len(g.nodes) }
func (g *anyGraph[ID]) Nodes() iter.Seq[ID] {
	return func(yield func(ID) bool) {
		for _, n := range g.nodes {
			if !yield(n) {
				return
			}
		}
	}
}
func (g *anyGraph[ID]) Out(n ID) iter.Seq[ID] {
	return func(yield func(ID) bool) {
		for _, m := range g.out[n] {
			if !yield(m) {
				return
			}
		}
	}
}

// a compact graph (ids 0..n-1, IsCompact marker)
type compactG struct{ anyGraph[int] }

func (g *compactG) IsCompact() {}

var _ graph.CompactGraph = (*compactG)(nil)

type codec[F any] struct {
	name string
	enc  func(e, salt int) F
	dec  func(F) int
}

func plainInt() codec[int] {
	return codec[int]{"plain", func(e, _ int) int { return e }, func(f int) int { return f }}
}
func plainVN() codec[VN] { return codec[VN]{"plain", func(e, _ int) VN { return vn(e) }, unvn} }

// facts as slices: the element sits at index 1, index 0 and any tail hold the identity; the
// representation (nil / short / padded) varies with salt so that Equals sees trailing identities
func sliceCodec[E any](enc func(int) E, dec func(E) int) codec[[]E] {
	return codec[[]E]{"densemap",
		func(e, salt int) []E {
			switch {
			case e == 0 && salt%3 == 0:
				return nil
			case e == 0 && salt%3 == 1:
				return []E{enc(0)}
			case e == 0:
				return []E{enc(0), enc(0), enc(0)}
			case salt%2 == 0:
				return []E{enc(0), enc(e)}
			}
			return []E{enc(0), enc(e), enc(0)}
		},
		func(f []E) int {
			r := 0
			for i, x := range f {
				d := dec(x)
				if i == 1 {
					r = d
				} else if d != 0 {
					return -200 - i
				}
			}
			return r
		}}
}

// facts as maps: key "k" holds the element; the identity is never stored
func mapCodec[E any](enc func(int) E, dec func(E) int) codec[map[string]E] {
	return codec[map[string]E]{"map",
		func(e, salt int) map[string]E {
			if e == 0 {
				if salt%2 == 0 {
					return nil
				}
				return map[string]E{}
			}
			return map[string]E{"k": enc(e)}
		},
		func(f map[string]E) int {
			if len(f) == 0 {
				return 0
			}
			if len(f) != 1 {
				return -300
			}
			v, ok := f["k"]
			if !ok {
				return -301
			}
			if d := dec(v); d != 0 {
				return d
			}
			return -302 // the identity stored explicitly
		}}
}

type variant struct {
	ids     string // "int", "string", "compact"
	permute bool
}

func replayOne[L dfa.Semilattice[F], F any](c *Case, cd codec[F], rng *rand.Rand, report func(Mismatch)) int {
	runs := 0
	for _, v := range []variant{{"int", false}, {"string", true}, {"compact", false}, {"int", true}} {
		vname := fmt.Sprintf("%s/%s/%s/perm=%v", c.Lat, cd.name, v.ids, v.permute)
		func() {
			defer func() {
				if r := recover(); r != nil {
					report(Mismatch{Idx: c.Idx, Variant: vname, What: "panic", Msg: fmt.Sprint(r)})
				}
			}()
			order := make([]int, c.N)
			for i := range order {
				order[i] = i + 1
			}
			succs := make([][]int, c.N)
			for i := range succs {
				succs[i] = append([]int(nil), c.Succs[i]...)
			}
			if v.permute {
				rng.Shuffle(len(order), func(i, j int) { order[i], order[j] = order[j], order[i] })
				for i := range succs {
					s := succs[i]
					rng.Shuffle(len(s), func(a, b int) { s[a], s[b] = s[b], s[a] })
				}
			}
			salt := rng.Intn(1000)
			tf := func(from, to int, x int) int { return c.Tf[from-1][to-1][x] }
			check := func(in func(u int) F, edge func(u, v int) F) {
				for u := 1; u <= c.N; u++ {
					if got := cd.dec(in(u)); got != c.LFP.In[u-1] {
						report(Mismatch{Idx: c.Idx, Variant: vname, What: "In", From: u, Got: got, Want: c.LFP.In[u-1]})
					}
					for i, w := range c.Succs[u-1] {
						if got := cd.dec(edge(u, w)); got != c.LFP.Out[u-1][i] {
							report(Mismatch{Idx: c.Idx, Variant: vname, What: "Edge", From: u, To: w, Got: got, Want: c.LFP.Out[u-1][i]})
						}
					}
				}
			}
			switch v.ids {
			case "string":
				name := func(u int) string { return fmt.Sprintf("n%d", u) }
				num := map[string]int{}
				g := &anyGraph[string]{out: map[string][]string{}}
				for _, u := range order {
					g.nodes = append(g.nodes, name(u))
					num[name(u)] = u
					for _, w := range succs[u-1] {
						g.out[name(u)] = append(g.out[name(u)], name(w))
					}
				}
				entry := map[string]F{}
				for u, e := range c.Entry {
					if e >= 0 {
						entry[name(u+1)] = cd.enc(e, salt+u)
					}
				}
				calls := 0
				a := dense.Forward[L](graph.Graph[string](g), entry, func(from, to string, f F) F {
					calls++
					return cd.enc(tf(num[from], num[to], cd.dec(f)), salt+calls)
				})
				check(func(u int) F { return a.In(name(u)) }, func(u, w int) F { return a.Edge(name(u), name(w)) })
			default:
				// int ids are u-1 when not permuted; when permuted ids are arbitrary distinct ints
				id := func(u int) int { return u - 1 }
				if v.permute {
					id = func(u int) int { return 10*u + 7 }
				}
				num := map[int]int{}
				ag := anyGraph[int]{out: map[int][]int{}}
				for _, u := range order {
					ag.nodes = append(ag.nodes, id(u))
					num[id(u)] = u
					for _, w := range succs[u-1] {
						ag.out[id(u)] = append(ag.out[id(u)], id(w))
					}
				}
				var g graph.Graph[int] = &ag
				if v.ids == "compact" {
					g = &compactG{ag}
				}
				entry := map[int]F{}
				for u, e := range c.Entry {
					if e >= 0 {
						entry[id(u+1)] = cd.enc(e, salt+u)
					}
				}
				calls := 0
				a := dense.Forward[L](g, entry, func(from, to int, f F) F {
					calls++
					return cd.enc(tf(num[from], num[to], cd.dec(f)), salt+calls)
				})
				check(func(u int) F { return a.In(id(u)) }, func(u, w int) F { return a.Edge(id(u), id(w)) })
			}
			runs++
		}()
	}
	return runs
}

func replayCase(c *Case, rng *rand.Rand, report func(Mismatch)) int {
	n := 0
	switch c.Lat {
	case "chain2", "chain3":
		n += replayOne[latMax](c, plainInt(), rng, report)
		if c.Lat == "chain2" {
			n += replayOne[latMin1](c, dualInt(1), rng, report)
		} else {
			n += replayOne[latMin2](c, dualInt(2), rng, report)
		}
		n += replayOne[dfa.DenseMapLattice[int, latMax]](c, sliceCodec(func(e int) int { return e }, func(e int) int { return e }), rng, report)
		n += replayOne[dfa.MapLattice[string, int, latMax]](c, mapCodec(func(e int) int { return e }, func(e int) int { return e }), rng, report)
		if c.Lat == "chain2" {
			d := func(e int) int { return 1 - e }
			n += replayOne[dfa.DenseMapLattice[int, latMin1]](c, sliceCodec(d, d), rng, report)
		} else {
			d := func(e int) int { return 2 - e }
			n += replayOne[dfa.DenseMapLattice[int, latMin2]](c, sliceCodec(d, d), rng, report)
		}
	case "pow2":
		{
			d := func(e int) int { return ^e & 3 }
			n += replayOne[dfa.DenseMapLattice[int, latAnd]](c, sliceCodec(d, d), rng, report)
			n += replayOne[dfa.MapLattice[string, int, latAnd]](c, mapCodec(d, d), rng, report)
		}
		n += replayOne[latOr](c, plainInt(), rng, report)
		n += replayOne[latAnd](c, complInt(), rng, report)
		n += replayOne[dfa.DenseMapLattice[int, latOr]](c, sliceCodec(func(e int) int { return e }, func(e int) int { return e }), rng, report)
		n += replayOne[dfa.MapLattice[string, int, latOr]](c, mapCodec(func(e int) int { return e }, func(e int) int { return e }), rng, report)
	case "nil5":
		n += replayOne[nilness.VerifLattice](c, plainVN(), rng, report)
		n += replayOne[dfa.DenseMapLattice[VN, nilness.VerifLattice]](c, sliceCodec(vn, unvn), rng, report)
		n += replayOne[dfa.MapLattice[string, VN, nilness.VerifLattice]](c, mapCodec(vn, unvn), rng, report)
	default:
		report(Mismatch{Idx: c.Idx, What: "unknown lattice " + c.Lat})
	}
	return n
}

func cmdDense(args []string) {
	fs := flag.NewFlagSet("dense", flag.ExitOnError)
	cases := fs.String("cases", "", "ndjson file of cases")
	seed := fs.Int64("seed", 1, "seed for permutations")
	j := fs.Int("j", runtime.NumCPU(), "workers")
	fs.Parse(args)
	f, err := os.Open(*cases)
	if err != nil {
		fmt.Fprintln(os.Stderr, err)
		os.Exit(2)
	}
	defer f.Close()
	var all []*Case
	sc := bufio.NewScanner(f)
	sc.Buffer(make([]byte, 1<<20), 1<<26)
	for sc.Scan() {
		if len(sc.Bytes()) == 0 {
			continue
		}
		c := &Case{}
		if err := json.Unmarshal(sc.Bytes(), c); err != nil {
			fmt.Fprintln(os.Stderr, "bad case:", err)
			os.Exit(2)
		}
		all = append(all, c)
	}
	var mu sync.Mutex
	out := bufio.NewWriter(os.Stdout)
	nm, runs := 0, 0
	report := func(m Mismatch) {
		mu.Lock()
		defer mu.Unlock()
		nm++
		if nm <= 2000 {
			b, _ := json.Marshal(m)
			out.Write(b)
			out.WriteByte('\n')
		}
	}
	var wg sync.WaitGroup
	ch := make(chan *Case, 256)
	for w := 0; w < *j; w++ {
		wg.Add(1)
		go func(w int) {
			defer wg.Done()
			n := 0
			for c := range ch {
				rng := rand.New(rand.NewSource(*seed*1000003 + int64(c.Idx)))
				n += replayCase(c, rng, report)
			}
			mu.Lock()
			runs += n
			mu.Unlock()
		}(w)
	}
	for _, c := range all {
		ch <- c
	}
	close(ch)
	wg.Wait()
	b, _ := json.Marshal(map[string]any{"summary": true, "cases": len(all), "solver_runs": runs, "mismatches": nm})
	out.Write(b)
	out.WriteByte('\n')
	out.Flush()
}

// ---------------------------------------------------------------------------------------------
// lattice
// ---------------------------------------------------------------------------------------------

type PairObs struct {
	Lat    string `json:"lat"`
	A      []int  `json:"a"`
	B      []int  `json:"b"`
	ARep   int    `json:"arep"` // maps: 0 = nil map when empty, 1 = empty non-nil map
	BRep   int    `json:"brep"`
	Merge  []int  `json:"merge"`
	Equals bool   `json:"equals"`
	Err    string `json:"err"`
}

func seqs(size, maxLen int) [][]int {
	out := [][]int{{}}
	prev := [][]int{{}}
	for l := 1; l <= maxLen; l++ {
		var cur [][]int
		for _, p := range prev {
			for e := 0; e < size; e++ {
				cur = append(cur, append(append([]int{}, p...), e))
			}
		}
		out = append(out, cur...)
		prev = cur
	}
	return out
}

func densePairs[E any, L dfa.Semilattice[E]](lat string, size, maxLen int, enc func(int) E, dec func(E) int, obs *[]PairObs, lawFail *[]string) {
	var l dfa.DenseMapLattice[E, L]
	reps := seqs(size, maxLen)
	mk := func(s []int, nilIfEmpty bool) []E {
		if len(s) == 0 && nilIfEmpty {
			return nil
		}
		o := make([]E, len(s))
		for i, e := range s {
			o[i] = enc(e)
		}
		return o
	}
	un := func(f []E) []int {
		o := make([]int, len(f))
		for i, e := range f {
			o[i] = dec(e)
		}
		return o
	}
	for _, a := range reps {
		for _, b := range reps {
			po := PairObs{Lat: lat, A: a, B: b, Merge: []int{}}
			func() {
				defer func() {
					if r := recover(); r != nil {
						po.Err = fmt.Sprint(r)
					}
				}()
				po.Merge = un(l.Merge(mk(a, true), mk(b, false)))
				po.Equals = l.Equals(mk(a, false), mk(b, true))
			}()
			*obs = append(*obs, po)
		}
	}
	// the four laws, directly on the real code, all triples, judged by the real Equals
	eq := func(x, y []E) bool { return l.Equals(x, y) }
	for _, a := range reps {
		x := mk(a, true)
		if !eq(l.Merge(x, x), x) {
			*lawFail = append(*lawFail, fmt.Sprintf("%s densemap idempotence %v", lat, a))
		}
		if !eq(l.Merge(x, l.Ident()), x) || !eq(l.Merge(l.Ident(), x), x) {
			*lawFail = append(*lawFail, fmt.Sprintf("%s densemap identity %v", lat, a))
		}
		for _, b := range reps {
			y := mk(b, false)
			if !eq(l.Merge(x, y), l.Merge(y, x)) {
				*lawFail = append(*lawFail, fmt.Sprintf("%s densemap commutativity %v %v", lat, a, b))
			}
			for _, c := range reps {
				z := mk(c, true)
				if !eq(l.Merge(x, l.Merge(y, z)), l.Merge(l.Merge(x, y), z)) {
					*lawFail = append(*lawFail, fmt.Sprintf("%s densemap associativity %v %v %v", lat, a, b, c))
				}
			}
		}
	}
}

func mapPairs[E any, L dfa.Semilattice[E]](lat string, size, nkeys int, enc func(int) E, dec func(E) int, obs *[]PairObs, lawFail *[]string) {
	var l dfa.MapLattice[int, E, L]
	// total functions keys -> elems (0 = missing)
	var reps [][]int
	for _, s := range seqs(size, nkeys) {
		if len(s) == nkeys {
			reps = append(reps, s)
		}
	}
	mk := func(s []int, rep int) map[int]E {
		m := map[int]E{}
		for k, e := range s {
			if e != 0 {
				m[k] = enc(e)
			}
		}
		if len(m) == 0 && rep == 0 {
			return nil
		}
		return m
	}
	un := func(m map[int]E) []int {
		o := make([]int, nkeys)
		for k, e := range m {
			if k < 0 || k >= nkeys {
				return []int{-1}
			}
			d := dec(e)
			if d == 0 {
				d = -2 // identity stored explicitly: not allowed by the type's contract
			}
			o[k] = d
		}
		return o
	}
	for _, a := range reps {
		for _, b := range reps {
			for rep := 0; rep < 2; rep++ {
				po := PairObs{Lat: lat, A: a, B: b, ARep: rep, BRep: 1 - rep, Merge: []int{}}
				func() {
					defer func() {
						if r := recover(); r != nil {
							po.Err = fmt.Sprint(r)
						}
					}()
					po.Merge = un(l.Merge(mk(a, rep), mk(b, 1-rep)))
					po.Equals = l.Equals(mk(a, rep), mk(b, 1-rep))
				}()
				*obs = append(*obs, po)
			}
		}
	}
	eq := func(x, y map[int]E) bool { return l.Equals(x, y) }
	for _, a := range reps {
		x := mk(a, 0)
		if !eq(l.Merge(x, x), x) {
			*lawFail = append(*lawFail, fmt.Sprintf("%s map idempotence %v", lat, a))
		}
		if !eq(l.Merge(x, l.Ident()), x) || !eq(l.Merge(l.Ident(), x), x) {
			*lawFail = append(*lawFail, fmt.Sprintf("%s map identity %v", lat, a))
		}
		for _, b := range reps {
			y := mk(b, 1)
			if !eq(l.Merge(x, y), l.Merge(y, x)) {
				*lawFail = append(*lawFail, fmt.Sprintf("%s map commutativity %v %v", lat, a, b))
			}
			for _, c := range reps {
				z := mk(c, 0)
				if !eq(l.Merge(x, l.Merge(y, z)), l.Merge(l.Merge(x, y), z)) {
					*lawFail = append(*lawFail, fmt.Sprintf("%s map associativity %v %v %v", lat, a, b, c))
				}
			}
		}
	}
}

func cmdLattice(args []string) {
	fs := flag.NewFlagSet("lattice", flag.ExitOnError)
	out := fs.String("out", "", "output JSON")
	fs.Parse(args)
	names := nilness.VerifNilnessNames()
	n := len(names)
	table := make([][]int, n)
	for a := 0; a < n; a++ {
		table[a] = make([]int, n)
		for b := 0; b < n; b++ {
			table[a][b] = int(nilness.VerifLatticeMerge(nilness.Nilness(a), nilness.Nilness(b)))
		}
	}
	// the lattice type the analysis instantiates the solver with: Merge/Equals/Ident on ValueNilness
	var nl nilness.VerifLattice
	vnMerge := [][]int{}
	for a := 0; a < n; a++ {
		row := []int{}
		for b := 0; b < n; b++ {
			m := nl.Merge(VN{Inner: nilness.Nilness(a), Outer: nilness.Nilness(b)}, VN{Inner: nilness.Nilness(b), Outer: nilness.Nilness(a)})
			// both components go through the same table: Inner = a^b, Outer = b^a
			row = append(row, int(m.Inner)*10+int(m.Outer))
		}
		vnMerge = append(vnMerge, row)
	}
	identOK := nl.Equals(nl.Ident(), VN{}) && unvn(nl.Ident()) == 0
	var dObs, mObs []PairObs
	var lawFail []string
	id := func(e int) int { return e }
	densePairs[int, latMax]("chain2", 2, 3, id, id, &dObs, &lawFail)
	densePairs[int, latMax]("chain3", 3, 2, id, id, &dObs, &lawFail)
	densePairs[int, latOr]("pow2", 4, 2, id, id, &dObs, &lawFail)
	densePairs[VN, nilness.VerifLattice]("nil5", 5, 2, vn, unvn, &dObs, &lawFail)
	mapPairs[int, latMax]("chain2", 2, 2, id, id, &mObs, &lawFail)
	mapPairs[int, latMax]("chain3", 3, 2, id, id, &mObs, &lawFail)
	mapPairs[int, latOr]("pow2", 4, 2, id, id, &mObs, &lawFail)
	mapPairs[VN, nilness.VerifLattice]("nil5", 5, 2, vn, unvn, &mObs, &lawFail)
	// the same lattices in their order-dual encodings: Ident() is not the zero value of the element type, so a
	// missing key / a position past the end of the shorter slice must be read as Ident(), not as the zero value
	d1, d2, cp := func(e int) int { return 1 - e }, func(e int) int { return 2 - e }, func(e int) int { return ^e & 3 }
	densePairs[int, latMin1]("chain2", 2, 3, d1, d1, &dObs, &lawFail)
	densePairs[int, latMin2]("chain3", 3, 2, d2, d2, &dObs, &lawFail)
	densePairs[int, latAnd]("pow2", 4, 2, cp, cp, &dObs, &lawFail)
	mapPairs[int, latMin1]("chain2", 2, 2, d1, d1, &mObs, &lawFail)
	mapPairs[int, latMin2]("chain3", 3, 2, d2, d2, &mObs, &lawFail)
	mapPairs[int, latAnd]("pow2", 4, 2, cp, cp, &mObs, &lawFail)
	if lawFail == nil {
		lawFail = []string{}
	}
	doc := map[string]any{"nil_names": names, "nil_table": table, "nil_vn_merge": vnMerge, "nil_ident_ok": identOK,
		"dense": dObs, "map": mObs, "law_failures": lawFail}
	b, _ := json.Marshal(doc)
	if err := os.WriteFile(*out, b, 0o644); err != nil {
		fmt.Fprintln(os.Stderr, err)
		os.Exit(2)
	}
	fmt.Fprintf(os.Stderr, "lattice: %d dense pairs, %d map pairs, %d direct law failures\n", len(dObs), len(mObs), len(lawFail))
}

// ---------------------------------------------------------------------------------------------
// sparse: toy constant propagation over the flat lattice 0 (bottom), 1..5 (constants 0..4 mod 5), 6 (top)
// ---------------------------------------------------------------------------------------------

const flatTop = 6

func constState(v int64) int { return int(((v%5)+5)%5) + 1 }

func isInt(t types.Type) bool {
	b, ok := t.Underlying().(*types.Basic)
	return ok && b.Info()&types.IsInteger != 0
}

// the toy transfer function: reads only the states of the instruction's operands
func toyTransfer(ins *sparse.Instance[latFlat, int], instr ir.Instruction) []sparse.Mapping[int] {
	v, ok := instr.(ir.Value)
	if !ok {
		return nil
	}
	switch in := instr.(type) {
	case *ir.BinOp:
		if isInt(in.Type()) && (in.Op == token.ADD || in.Op == token.SUB || in.Op == token.MUL) {
			a, b := ins.Value(in.X), ins.Value(in.Y)
			switch {
			case a == 0 || b == 0:
				return sparse.Ms(sparse.M(v, 0, sparse.Decision{}))
			case a == flatTop || b == flatTop:
				return sparse.Ms(sparse.M(v, flatTop, sparse.Decision{}))
			}
			x, y := int64(a-1), int64(b-1)
			var r int64
			switch in.Op {
			case token.ADD:
				r = x + y
			case token.SUB:
				r = x - y
			default:
				r = x * y
			}
			return sparse.Ms(sparse.M(v, constState(r), sparse.Decision{}))
		}
	case *ir.UnOp:
		if isInt(in.Type()) && in.Op == token.SUB {
			a := ins.Value(in.X)
			if a == 0 || a == flatTop {
				return sparse.Ms(sparse.M(v, a, sparse.Decision{}))
			}
			return sparse.Ms(sparse.M(v, constState(-int64(a-1)), sparse.Decision{}))
		}
	}
	return sparse.Ms(sparse.M(v, flatTop, sparse.Decision{}))
}

type SNode struct {
	Name   string `json:"name"`
	Kind   string `json:"kind"` // "preset", "phi", "table"
	Ops    []int  `json:"ops"`  // 1-based node numbers (phi: one per edge, duplicates kept; table: distinct variable operands)
	Table  []int  `json:"table"`
	Preset int    `json:"preset"`
	Refs   []int  `json:"refs"` // Referrers() of the instruction that are values (diagnostics)
}

type SFn struct {
	Name     string  `json:"name"`
	N        int     `json:"n"`
	Nodes    []SNode `json:"nodes"`
	Observed [][]int `json:"observed"` // distinct result vectors over the runs
	Runs     int     `json:"runs"`
	Instrs   int     `json:"instrs"`
	Phis     int     `json:"phis"`
	Loops    bool    `json:"loops"`
}

func exportSparse(fn *ir.Function, runs int, seed int64) (*SFn, error) {
	sf := &SFn{Name: fn.RelString(nil), Runs: runs, Observed: [][]int{}}
	num := map[ir.Value]int{}
	var vals []ir.Value
	add := func(v ir.Value) int {
		if i, ok := num[v]; ok {
			return i
		}
		vals = append(vals, v)
		num[v] = len(vals)
		return len(vals)
	}
	var instrs []ir.Instruction
	for _, b := range fn.Blocks {
		for _, in := range b.Instrs {
			instrs = append(instrs, in)
			if v, ok := in.(ir.Value); ok {
				add(v)
			}
		}
	}
	sf.Instrs = len(instrs)
	isInstr := map[ir.Value]bool{}
	for v := range num {
		isInstr[v] = true
	}
	// presets: every non-instruction operand (constants, parameters, free variables, functions, globals)
	preset := map[ir.Value]int{}
	rng := rand.New(rand.NewSource(seed))
	var rands []*ir.Value
	for _, in := range instrs {
		rands = in.Operands(rands[:0])
		for _, p := range rands {
			o := *p
			if o == nil || isInstr[o] {
				continue
			}
			if _, ok := preset[o]; ok {
				continue
			}
			st := 0
			switch o := o.(type) {
			case *ir.Const:
				if o.Value != nil && o.Value.Kind() == constant.Int && isInt(o.Type()) {
					if x, ok := constant.Int64Val(o.Value); ok {
						st = constState(x)
					} else {
						st = flatTop
					}
				} else {
					st = flatTop
				}
			case *ir.Parameter:
				if isInt(o.Type()) && rng.Intn(3) == 0 {
					st = 1 + rng.Intn(5)
				} else {
					st = flatTop
				}
			default:
				st = 0 // never Set: reads as the identity
			}
			preset[o] = st
			add(o)
		}
	}
	sf.N = len(vals)
	sf.Nodes = make([]SNode, len(vals))
	mkInstance := func() *sparse.Instance[latFlat, int] {
		ins := &sparse.Instance[latFlat, int]{Transfer: toyTransfer, Mapping: map[ir.Value]sparse.Mapping[int]{}}
		return ins
	}
	for i, v := range vals {
		nd := SNode{Name: v.Name(), Ops: []int{}, Table: []int{}, Refs: []int{}}
		if !isInstr[v] {
			nd.Kind = "preset"
			nd.Preset = preset[v]
			sf.Nodes[i] = nd
			continue
		}
		in := v.(ir.Instruction)
		if refs := in.Referrers(); refs != nil {
			for _, r := range *refs {
				if rv, ok := r.(ir.Value); ok {
					nd.Refs = append(nd.Refs, num[rv])
				}
			}
		}
		if phi, ok := v.(*ir.Phi); ok {
			nd.Kind = "phi"
			sf.Phis++
			for _, e := range phi.Edges {
				nd.Ops = append(nd.Ops, num[e])
			}
			sf.Nodes[i] = nd
			continue
		}
		nd.Kind = "table"
		// distinct operands that carry a state
		var ops []ir.Value
		seen := map[ir.Value]bool{}
		rands = in.Operands(rands[:0])
		for _, p := range rands {
			if o := *p; o != nil && !seen[o] {
				if _, known := num[o]; known {
					seen[o] = true
					ops = append(ops, o)
				}
			}
		}
		// does the toy transfer depend on the operands at all?  (only BinOp/UnOp do)
		dep := false
		switch v.(type) {
		case *ir.BinOp, *ir.UnOp:
			dep = true
		}
		if !dep || len(ops) > 2 {
			ops = nil
		}
		for _, o := range ops {
			nd.Ops = append(nd.Ops, num[o])
		}
		size := 1
		for range ops {
			size *= 7
		}
		for idx := 0; idx < size; idx++ {
			tmp := mkInstance()
			k := idx
			for _, o := range ops {
				tmp.Set(o, k%7)
				k /= 7
			}
			ms := toyTransfer(tmp, in)
			if len(ms) != 1 || ms[0].Value != v {
				return nil, fmt.Errorf("toy transfer returned %d mappings for %s", len(ms), v.Name())
			}
			nd.Table = append(nd.Table, ms[0].State)
		}
		sf.Nodes[i] = nd
	}
	for _, b := range fn.Blocks {
		for _, s := range b.Succs {
			if s.Index <= b.Index {
				sf.Loops = true
			}
		}
	}
	// the real solver, several times (its worklist is a Go map: every run pops in another order)
	seenRes := map[string]bool{}
	for r := 0; r < runs; r++ {
		ins := mkInstance()
		for v, st := range preset {
			if st != 0 {
				ins.Set(v, st)
			}
		}
		ins.Forward(fn)
		res := make([]int, len(vals))
		for i, v := range vals {
			res[i] = ins.Value(v)
		}
		key := fmt.Sprint(res)
		if !seenRes[key] {
			seenRes[key] = true
			sf.Observed = append(sf.Observed, res)
		}
	}
	return sf, nil
}

func cmdSparse(args []string) {
	fs := flag.NewFlagSet("sparse", flag.ExitOnError)
	out := fs.String("out", "", "output JSON")
	runs := fs.Int("runs", 20, "solver runs per function")
	seed := fs.Int64("seed", 1, "seed for parameter presets")
	var srcs []string
	fs.Func("src", "import-free Go source file (repeatable)", func(s string) error { srcs = append(srcs, s); return nil })
	fs.Parse(args)
	var fns []*SFn
	var errs []string
	for _, file := range srcs {
		func() {
			defer func() {
				if r := recover(); r != nil {
					errs = append(errs, fmt.Sprintf("PANIC %s: %v", file, r))
				}
			}()
			fset := token.NewFileSet()
			af, err := parser.ParseFile(fset, file, nil, parser.SkipObjectResolution)
			if err != nil {
				errs = append(errs, err.Error())
				return
			}
			pkg := types.NewPackage("ex.test/"+af.Name.Name, af.Name.Name)
			ipkg, _, err := irutil.BuildPackage(&types.Config{}, fset, pkg, []*ast.File{af}, 0)
			if err != nil {
				errs = append(errs, err.Error())
				return
			}
			var names []string
			for _, f := range ipkg.Functions {
				if f.Synthetic == "" && f.Blocks != nil {
					names = append(names, f.Name())
				}
			}
			sort.Strings(names)
			for i, nm := range names {
				f := ipkg.Func(nm)
				sf, err := exportSparse(f, *runs, *seed*7919+int64(i))
				if err != nil {
					errs = append(errs, err.Error())
					continue
				}
				sf.Name = af.Name.Name + "." + nm
				fns = append(fns, sf)
			}
		}()
	}
	if errs == nil {
		errs = []string{}
	}
	b, _ := json.Marshal(map[string]any{"fns": fns, "errors": errs})
	if err := os.WriteFile(*out, b, 0o644); err != nil {
		fmt.Fprintln(os.Stderr, err)
		os.Exit(2)
	}
	fmt.Fprintf(os.Stderr, "sparse: %d functions, %d errors\n", len(fns), len(errs))
}

func main() {
	if len(os.Args) < 2 {
		fmt.Fprintln(os.Stderr, "usage: h-dfa dense|lattice|sparse ...")
		os.Exit(2)
	}
	switch os.Args[1] {
	case "dense":
		cmdDense(os.Args[2:])
	case "lattice":
		cmdLattice(os.Args[2:])
	case "sparse":
		cmdSparse(os.Args[2:])
	default:
		fmt.Fprintln(os.Stderr, "unknown subcommand", strings.Join(os.Args[1:], " "))
		os.Exit(2)
	}
}
