// Package absyn is the Go side of the abstract pattern / tree syntax of specs/Matcher.tla and
// specs/PatternFilter.tla: JSON decoding of TLC-emitted values, rendering of abstract patterns
// to the concrete pattern language (in the sugared, the explicit and a mixed spelling),
// construction of real go/ast trees from abstract trees, and canonical printing of the values
// the real matcher binds (Matcher.State) so that they can be compared with the spec's environment.
package absyn

import (
	"encoding/json"
	"fmt"
	"go/ast"
	"go/token"
	"math/rand"
	"sort"
	"strings"
)

// N is one abstract node: a pattern, a tree or a bound value.  All three are records with a
// kind `k`; the other fields depend on the kind (see the module comments of the specs).
type N struct {
	K    string `json:"k"`
	S    string `json:"s,omitempty"`    // str: the string; lit: value; tok
	Nm   string `json:"n,omitempty"`    // ref/bind: binding name; tree id: identifier
	Sub  *N     `json:"sub,omitempty"`  // bind
	Name *N     `json:"name,omitempty"` // pattern id/sym/builtin: the name pattern
	X    *N     `json:"x,omitempty"`
	Y    *N     `json:"y,omitempty"`
	F    *N     `json:"f,omitempty"`
	Args *N     `json:"args,omitempty"`
	H    *N     `json:"h,omitempty"`
	T    *N     `json:"t,omitempty"`
	A    *N     `json:"a,omitempty"`
	Alts []*N   `json:"alts,omitempty"`
	Es   []*N   `json:"es,omitempty"`
	Op   string `json:"op,omitempty"`  // tree bin/un: operator
	O    *N     `json:"o,omitempty"`   // pattern bin/un/assign: operator pattern
	Sym  string `json:"sym,omitempty"` // tree id: resolved symbol (PatternFilter)
	Sel  *N     `json:"sel,omitempty"`
	Lit  string `json:"lit,omitempty"`
	Ty   string `json:"ty,omitempty"`  // generic node (PatternFilter): node type name
	Fs   []*N   `json:"fs,omitempty"`  // generic node: fields
	Lo   *N     `json:"lo,omitempty"`  // slice (pattern and tree): Low; in a tree possibly {k: absent}
	Hi   *N     `json:"hi,omitempty"`  // slice: High
	Max  *N     `json:"max,omitempty"` // slice: Max
}

func Decode(raw json.RawMessage) (*N, error) {
	n := &N{}
	if err := json.Unmarshal(raw, n); err != nil {
		return nil, err
	}
	return n, nil
}

// ---------------------------------------------------------------------------------------
// patterns -> concrete syntax
// ---------------------------------------------------------------------------------------

// Spelling selects how bindings, Any and lists are written.
type Spelling int

const (
	Sugar    Spelling = iota // x, x@(...), _, [a b], h:t
	Explicit                 // (Binding "x" nil), (Binding "x" (...)), (Any), (List h t)
	Mixed                    // per node, chosen by the supplied random source
)

func (s Spelling) String() string { return [...]string{"sugar", "explicit", "mixed"}[s] }

type Renderer struct {
	Sp  Spelling
	Rng *rand.Rand
	// Ops maps abstract operator names to pattern tokens (default "+").
	Sym func(string) string // abstract symbol -> concrete symbol string (PatternFilter)
}

func (r *Renderer) sugar() bool {
	switch r.Sp {
	case Sugar:
		return true
	case Explicit:
		return false
	}
	return r.Rng.Intn(2) == 0
}

// Pattern renders p as a complete pattern (the root has to be a node in parentheses).
func (r *Renderer) Pattern(p *N) string { return r.pat(p, true) }

// pat renders p; node=true demands a form that starts with '(' (root, operand of x@).
func (r *Renderer) pat(p *N, node bool) string {
	switch p.K {
	case "any":
		if node || !r.sugar() {
			return "(Any)"
		}
		return "_"
	case "str":
		return fmt.Sprintf("%q", p.S)
	case "ref":
		if node || !r.sugar() {
			return fmt.Sprintf("(Binding %q nil)", p.Nm)
		}
		return p.Nm
	case "bind":
		// x@<node> is only available below the root and only if the operand has a node form
		if !node && r.sugar() && p.Sub.K != "str" && p.Sub.K != "symname" {
			return p.Nm + "@" + r.pat(p.Sub, true)
		}
		return fmt.Sprintf("(Binding %q %s)", p.Nm, r.pat(p.Sub, false))
	case "id":
		return "(Ident " + r.pat(p.Name, false) + ")"
	case "bin":
		return "(BinaryExpr " + r.pat(p.X, false) + " " + r.pat(p.O, false) + " " + r.pat(p.Y, false) + ")"
	case "call":
		return "(CallExpr " + r.pat(p.F, false) + " " + r.pat(p.Args, false) + ")"
	case "slice":
		return "(SliceExpr " + r.pat(p.X, false) + " " + r.pat(p.Lo, false) + " " + r.pat(p.Hi, false) + " " + r.pat(p.Max, false) + ")"
	case "nil":
		if node || !r.sugar() {
			return "(List nil nil)"
		}
		return "[]"
	case "cons":
		if node || !r.sugar() {
			return "(List " + r.pat(p.H, false) + " " + r.pat(p.T, false) + ")"
		}
		// proper list: [a b c]; otherwise h:t (the head of h:t must not be a string or a list)
		if els, ok := properList(p); ok && (r.Sp == Sugar || r.Rng.Intn(3) != 0) {
			parts := make([]string, len(els))
			for i, e := range els {
				parts[i] = r.pat(e, false)
			}
			return "[" + strings.Join(parts, " ") + "]"
		}
		switch p.H.K {
		case "str", "nil", "cons":
			return "(List " + r.pat(p.H, false) + " " + r.pat(p.T, false) + ")"
		}
		h := r.pat(p.H, false)
		if strings.HasPrefix(h, "[") {
			return "(List " + h + " " + r.pat(p.T, false) + ")"
		}
		return h + ":" + r.pat(p.T, false)
	case "or":
		parts := make([]string, len(p.Alts))
		for i, a := range p.Alts {
			parts[i] = r.pat(a, false)
		}
		return "(Or " + strings.Join(parts, " ") + ")"
	case "not":
		return "(Not " + r.pat(p.A, false) + ")"
	// ---- PatternFilter kinds
	case "node":
		parts := []string{"(" + p.Ty}
		for _, f := range p.Fs {
			parts = append(parts, r.pat(f, false))
		}
		return strings.Join(parts, " ") + ")"
	case "sel":
		return "(SelectorExpr " + r.pat(p.X, false) + " " + r.pat(p.Sel, false) + ")"
	case "un":
		return "(UnaryExpr " + r.pat(p.O, false) + " " + r.pat(p.X, false) + ")"
	case "lit":
		return "(BasicLit " + r.pat(p.X, false) + " " + r.pat(p.Y, false) + ")"
	case "idx":
		return "(IndexExpr " + r.pat(p.X, false) + " " + r.pat(p.Y, false) + ")"
	case "assign":
		return "(AssignStmt " + r.pat(p.X, false) + " " + r.pat(p.O, false) + " " + r.pat(p.Y, false) + ")"
	case "sym":
		return "(Symbol " + r.pat(p.Name, false) + ")"
	case "builtin":
		return "(Builtin " + r.pat(p.Name, false) + ")"
	case "obj":
		return "(Object " + r.pat(p.Name, false) + ")"
	case "intlit":
		return "(IntegerLiteral " + r.pat(p.Name, false) + ")"
	case "symname": // a string that names an abstract symbol
		if r.Sym != nil {
			return fmt.Sprintf("%q", r.Sym(p.S))
		}
		return fmt.Sprintf("%q", p.S)
	case "pnil": // the nil atom (pattern.Nil); it has no node form: as the root or the operand of x@ the parser rejects it
		return "nil"
	}
	panic("absyn: unknown pattern kind " + p.K)
}

func properList(p *N) ([]*N, bool) {
	var els []*N
	for p.K == "cons" {
		els = append(els, p.H)
		p = p.T
	}
	return els, p.K == "nil"
}

// ---------------------------------------------------------------------------------------
// trees -> go/ast
// ---------------------------------------------------------------------------------------

// Builder constructs go/ast trees directly (no parser: the shape is exactly the abstract one).
// With Rng set it wraps sub-expressions in ParenExpr at random; the matcher is specified to be
// insensitive to that (automatic unnesting, doc.go).
type Builder struct {
	Rng      *rand.Rand
	ParenPct int // probability (in %) of wrapping an expression in parentheses
}

func (b *Builder) Expr(t *N) ast.Expr {
	var e ast.Expr
	switch t.K {
	case "absent":
		// an optional child that is not there: the nil ast.Expr (never wrapped)
		return nil
	case "slice":
		s := &ast.SliceExpr{X: b.Expr(t.X), Low: b.Expr(t.Lo), High: b.Expr(t.Hi), Max: b.Expr(t.Max)}
		s.Slice3 = s.Max != nil
		e = s
	case "id":
		e = &ast.Ident{Name: t.Nm}
	case "bin":
		e = &ast.BinaryExpr{X: b.Expr(t.X), Op: TokenOf(t.Op), Y: b.Expr(t.Y)}
	case "call":
		c := &ast.CallExpr{Fun: b.Expr(t.F)}
		for _, a := range t.Args.Es {
			c.Args = append(c.Args, b.Expr(a))
		}
		e = c
	default:
		panic("absyn: cannot build tree kind " + t.K)
	}
	if b.Rng != nil && b.Rng.Intn(100) < b.ParenPct {
		e = &ast.ParenExpr{X: e}
	}
	return e
}

// TokenOf maps an operator spelling to its token.
func TokenOf(op string) token.Token {
	for t := token.ADD; t <= token.ELLIPSIS; t++ {
		if t.String() == op {
			return t
		}
	}
	panic("absyn: unknown operator " + op)
}

// ---------------------------------------------------------------------------------------
// canonical printing of values
// ---------------------------------------------------------------------------------------

// Canon prints an abstract value (tree, list or string) canonically.
func Canon(v *N) string {
	switch v.K {
	case "id":
		return v.Nm
	case "bin":
		return "(" + v.Op + " " + Canon(v.X) + " " + Canon(v.Y) + ")"
	case "tok":
		return "tok:" + v.S
	case "call":
		return "(call " + Canon(v.F) + " " + Canon(v.Args) + ")"
	case "list":
		parts := make([]string, len(v.Es))
		for i, e := range v.Es {
			parts[i] = Canon(e)
		}
		return "[" + strings.Join(parts, " ") + "]"
	case "str":
		return fmt.Sprintf("%q", v.S)
	case "slice":
		return "(slice " + Canon(v.X) + " " + Canon(v.Lo) + " " + Canon(v.Hi) + " " + Canon(v.Max) + ")"
	case "absent": // a name bound to an absent child: the key is in Matcher.State, the value is nil
		return "<nil>"
	case "unbound":
		return "<unbound>"
	}
	panic("absyn: cannot print value kind " + v.K)
}

// CanonReal prints a value bound by the real matcher in the same notation.  Wrappers that the
// matcher unnests (ParenExpr, ExprStmt) are transparent.
func CanonReal(v any) string {
	switch v := v.(type) {
	case nil:
		return "<nil>"
	case *ast.Ident:
		return v.Name
	case *ast.ParenExpr:
		return CanonReal(v.X)
	case *ast.ExprStmt:
		return CanonReal(v.X)
	case *ast.BinaryExpr:
		op := v.Op.String()
		return "(" + op + " " + CanonReal(v.X) + " " + CanonReal(v.Y) + ")"
	case *ast.CallExpr:
		return "(call " + CanonReal(v.Fun) + " " + CanonReal(v.Args) + ")"
	case *ast.SliceExpr:
		if v.Slice3 != (v.Max != nil) {
			return fmt.Sprintf("<SliceExpr Slice3=%v Max=%v>", v.Slice3, v.Max)
		}
		// a nil ast.Expr (absent Low / High / Max) converts to the nil `any`: printed "<nil>" by the first case
		return "(slice " + CanonReal(v.X) + " " + CanonReal(v.Low) + " " + CanonReal(v.High) + " " + CanonReal(v.Max) + ")"
	case []ast.Expr:
		parts := make([]string, len(v))
		for i, e := range v {
			parts[i] = CanonReal(e)
		}
		return "[" + strings.Join(parts, " ") + "]"
	case string:
		return fmt.Sprintf("%q", v)
	case token.Token:
		return "tok:" + v.String()
	}
	return fmt.Sprintf("<%T>", v)
}

// HasAbsent reports whether an abstract tree has an absent optional child.
func HasAbsent(t *N) bool {
	if t == nil {
		return false
	}
	if t.K == "absent" {
		return true
	}
	for _, c := range []*N{t.X, t.Y, t.F, t.Args, t.Lo, t.Hi, t.Max} {
		if HasAbsent(c) {
			return true
		}
	}
	for _, c := range t.Es {
		if HasAbsent(c) {
			return true
		}
	}
	return false
}

// EnvString prints an environment (name -> canonical value), sorted by name.
func EnvString(m map[string]string) string {
	keys := make([]string, 0, len(m))
	for k := range m {
		keys = append(keys, k)
	}
	sort.Strings(keys)
	var sb strings.Builder
	for i, k := range keys {
		if i > 0 {
			sb.WriteString(" ")
		}
		sb.WriteString(k + "=" + m[k])
	}
	return sb.String()
}
