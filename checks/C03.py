"""C03 - Analysis is total on buildable code: no crash, no spurious failure.

Spec side.  specs/GoAtoms.tla enumerates the cases context x construct atom x nested atom and carries the
coverage argument (ASSUMEs checked by TLC: every go/ast statement and expression form, every builtin incl.
unsafe, every go/ir instruction kind is covered by some atom; the instruction-kind claims are validated
O-style against what the real IR builder emitted for the realised packages, harness/cmd/h-irkinds).
specs/Runner.tla carries the failure semantics of the runner (an action is failed iff it was broken at
construction, a dependency failed, or exec reported an error; NoSpuriousFailure / FailurePropagates);
the event log of every staticcheck run of this check is evaluated by specs/RunnerMon.tla, a sample is
validated step by step against specs/RunnerTrace.tla.

Code side.  checks/goatoms.py realises each case as a Go function, ~50 per package; `go build` must accept
every package (else INCONCLUSIVE: generator bug).  The real staticcheck (simple, staticcheck, stylecheck,
unused and, via -debug.run-quickfix-analyzers, quickfix; default -go) is run with tracing.  Any of
  * abnormal exit / panic / hang,
  * a problem of category compile or config,
  * a package reported failed, an exec_err / loadfail event (an analyzer returning an error is swallowed by
    runAnalyzers and is visible only in the event log),
  * a monitor of RunnerMon firing (failed flag without cause, ...)
is a VIOLATION; crashes are bisected to a single generated function and keyed by its abstract case.
Corpora: packages of the repository itself (a subset in the quick tier) and, in the thorough tier, the
testdata packages of the repository that `go build` accepts standalone.
"""
import json
import os
import re
import shutil
import subprocess
import time

import goatoms
import runnertrace as rt
import vlib
from vlib import Inconclusive

PER_PKG = 50
MODULE = "ex.test/atoms"


def tlc_cases(ctx, cfg):
    r = vlib.run_tlc(ctx, "GoAtoms", cfg, workers=1, timeout=1800, extra_files={"irkinds.json": "[]"})
    if r.violated:
        raise Inconclusive("GoAtoms (%s): %s\n%s" % (cfg, r.violated, r.out[-2500:]))
    m = re.search(r'^"ATOMS (.*)"$', r.out, re.M)
    atoms = None
    if m:
        atoms = json.loads(json.loads('"' + m.group(1) + '"'))
    return r, atoms


def check_tables(atoms):
    if atoms is None:
        raise Inconclusive("GoAtoms did not print its atom table")
    spec = {a["name"]: a["container"] for a in atoms}
    impl = {n: c for n, (c, _) in goatoms.ATOMS.items()}
    if spec != impl:
        raise Inconclusive("atom tables differ: only in spec %s, only in goatoms.py %s, container flags %s"
                           % (sorted(set(spec) - set(impl)), sorted(set(impl) - set(spec)),
                              sorted(n for n in spec if n in impl and spec[n] != impl[n])))


class Gen:
    def __init__(self, ctx, name):
        self.ctx = ctx
        self.dir = ctx.tmp(name)
        with open(os.path.join(self.dir, "go.mod"), "w") as f:
            f.write("module %s\n\ngo 1.26\n" % MODULE)
        self.uid = 0
        self.npk = 0
        self.pkgs = {}       # package dir name -> list of cases

    def add(self, cases):
        """realise cases in packages of PER_PKG; returns list of package names"""
        names = []
        for k in range(0, len(cases), PER_PKG):
            cs = cases[k:k + PER_PKG]
            self.npk += 1
            pk = "g%04d" % self.npk
            os.makedirs(os.path.join(self.dir, pk))
            with open(os.path.join(self.dir, pk, "g.go"), "w") as f:
                f.write(goatoms.render_package(pk, cs, self.uid))
            self.uid += len(cs)
            self.pkgs[pk] = cs
            names.append(pk)
        return names

    def build(self, names):
        for k in range(0, len(names), 40):
            rc, so, se = vlib.sh(["go", "build"] + ["./" + n for n in names[k:k + 40]], cwd=self.dir, env=vlib.go_env(), timeout=3000)
            if rc != 0:
                raise Inconclusive("generator bug: go build rejects generated packages:\n%s" % (so + se)[-3000:])


class SC:
    def __init__(self, ctx, binary):
        self.ctx = ctx
        self.bin = binary
        self.n = 0
        self.cache = os.path.join(ctx.scratch, "sc-cache-shared")
        os.makedirs(self.cache, exist_ok=True)
        self.runs = 0
        import threading
        self.lock = threading.Lock()

    def run(self, cwd, patterns, trace=True, timeout=1800, fresh_cache=True, extra_args=()):
        with self.lock:
            self.n += 1
            self.runs += 1
            n = self.n
        cache = os.path.join(self.ctx.scratch, "sc-cache", "c%d" % n) if fresh_cache else self.cache
        os.makedirs(cache, exist_ok=True)
        tr = os.path.join(self.ctx.tmp("traces"), "t%d.ndjson" % n) if trace else None
        extra = {"STATICCHECK_CACHE": cache}
        if tr:
            extra["VERIF_TRACE_RUNNER"] = tr
        env = vlib.go_env(extra)
        for k in ("VERIF_TRACE", "VERIF_YIELD_SEED", "VERIF_YIELD_SEED_RUNNER"):
            env.pop(k, None)
        argv = [self.bin, "-debug.run-quickfix-analyzers", "-checks", "all", "-f", "json"] + list(extra_args) + list(patterns)
        t0 = time.time()
        hung = False
        try:
            p = subprocess.run(argv, cwd=cwd, env=env, stdout=subprocess.PIPE, stderr=subprocess.PIPE, text=True, timeout=timeout)
            rc, so, se = p.returncode, p.stdout, p.stderr
        except subprocess.TimeoutExpired:
            rc, so, se, hung = -1, "", "", True
        finally:
            if fresh_cache:
                shutil.rmtree(cache, ignore_errors=True)
        probs = []
        for line in so.splitlines():
            try:
                probs.append(json.loads(line))
            except Exception:
                probs.append({"code": "UNPARSED", "message": line})
        return {"argv": argv[1:], "cwd": cwd, "rc": rc, "problems": probs, "stderr": se, "hung": hung, "trace": tr,
                "wall": time.time() - t0, "patterns": list(patterns)}


def crash_signature(stderr):
    m = re.search(r"^(panic: .*|fatal error: .*)$", stderr, re.M)
    if not m:
        return None
    sig = m.group(1)
    fr = re.findall(r"^(honnef\.co/go/tools/[^\s(]+)", stderr, re.M)
    where = next((f for f in fr if "/lintcmd/runner" not in f), fr[0] if fr else "")
    return (sig[:200] + " @ " + where).strip()


def crashed(res):
    return res["hung"] or res["rc"] not in (0, 1) or "panic: " in res["stderr"] or "fatal error: " in res["stderr"]


def judge_output(ctx, res, what, case_of, stats):
    """compile/config problems and failed packages of a run that did not crash"""
    bad = [p for p in res["problems"] if p.get("code") in ("compile", "config", "UNPARSED")]
    for p in bad[:5]:
        f = (p.get("location") or {}).get("file", "")
        case = case_of(f, (p.get("location") or {}).get("line", 0))
        ctx.violation(vlib.canon_key({"compile": case or os.path.basename(f), "msg": p.get("message", "")[:80]}),
                      "%s: staticcheck reports a %s problem for code that `go build` accepts: %s (%s)"
                      % (what, p.get("code"), p.get("message"), f),
                      {"kind": "compile", "what": what, "case": case, "problem": p, "argv": res["argv"]})
    stats["problems_reported"] = stats.get("problems_reported", 0) + len(res["problems"])
    if res["stderr"].strip():
        warn = [l for l in res["stderr"].splitlines() if l.strip()]
        stats.setdefault("stderr_lines", []).extend(warn[:3])


def bisect(ctx, gen_factory, sc, cases, sig0, budget):
    """find single cases that crash staticcheck; returns (list of (case, signature, stderr), rest_is_clean).
    Descend into a crashing half until one function is left; then drop every case that shares the culprit's
    atom (a crash of a single atom is reported once, not once per context) and look again."""
    def run(cs):
        budget[0] -= 1
        g = gen_factory()
        g.add(cs)     # subsets of packages that `go build` accepted: no need to build again
        r = sc.run(g.dir, ["./..."], trace=False, timeout=900)
        shutil.rmtree(g.dir, ignore_errors=True)
        return r
    out = []
    clean = False
    remaining = list(cases)
    while remaining and budget[0] > 0 and len(out) < 6:
        r = run(remaining)
        if not crashed(r):
            clean = True
            break
        cur = remaining
        while len(cur) > 1 and budget[0] > 0:
            h = len(cur) // 2
            rl = run(cur[:h])
            if crashed(rl):
                cur, r = cur[:h], rl
            else:
                cur = cur[h:]
                r = None
        if len(cur) != 1:
            break
        if r is None:
            r = run(cur)
            if not crashed(r):
                break      # only crashes in combination with other functions of the package: give up on reduction
        c = cur[0]
        out.append((c, "hang" if r["hung"] else (crash_signature(r["stderr"]) or "exit %s" % r["rc"]), r["stderr"][:3000]))
        if c["b"] == "none":
            remaining = [x for x in remaining if x["a"] != c["a"] and x["b"] != c["a"]]
        else:
            remaining = [x for x in remaining if not (x["a"] == c["a"] and x["b"] == c["b"])]
    return out, clean or not remaining


def lint_generated(ctx, sc, gen, names, stats, label, traces, poisoned):
    """run staticcheck over generated packages in batches; handle crashes by bisection"""
    batch = 4
    batches = [names[k:k + batch] for k in range(0, len(names), batch)]

    def one(b):
        return b, sc.run(gen.dir, ["./" + n for n in b], timeout=2400)
    results = vlib.pmap(one, batches, workers=4)
    budget = [40 if ctx.quick else 200]
    bis_n = [0]

    def factory():
        bis_n[0] += 1
        return Gen(ctx, "bisect-%s-%d" % (label, bis_n[0]))
    for b, r in results:
        stats["packages_linted"] = stats.get("packages_linted", 0) + len(b)
        stats["functions_linted"] = stats.get("functions_linted", 0) + sum(len(gen.pkgs[n]) for n in b)
        if crashed(r):
            allc = [c for n in b for c in gen.pkgs[n]]
            cases = [c for c in allc if c["a"] not in poisoned and c["b"] not in poisoned]
            found, clean = bisect(ctx, factory, sc, cases, crash_signature(r["stderr"]), budget)
            explained = clean and len(cases) < len(allc)   # the batch only crashes through an atom already reported
            if not found and not explained:
                ctx.violation(vlib.canon_key({"crash-batch": crash_signature(r["stderr"]) or r["rc"]}),
                              "%s: staticcheck %s on generated packages %s (could not be reduced to one function): %s"
                              % (label, "hung" if r["hung"] else "crashed", b, crash_signature(r["stderr"]) or r["stderr"][:200].replace("\n", " ")),
                              {"kind": "crash", "packages": b, "stderr": r["stderr"][:4000], "rc": r["rc"]})
            for case, sig, stderr in found:
                atom = case["a"] if case["b"] == "none" else None
                if atom:
                    poisoned.add(atom)
                ctx.violation(vlib.canon_key({"a": case["a"], "b": case["b"], "sig": sig.split(" @ ")[0]}),
                              "%s: staticcheck crashes on a function that `go build` accepts: case %s/%s/%s: %s"
                              % (label, case["ctx"], case["a"], case["b"], sig),
                              {"kind": "crash", "ctx": case["ctx"], "a": case["a"], "b": case["b"], "signature": sig,
                               "source": goatoms.render_function(case, 1), "stderr": stderr})
            stats["crashing_batches"] = stats.get("crashing_batches", 0) + 1
            continue

        def case_of(path, line):
            pk = os.path.basename(os.path.dirname(path))
            return {"package": pk} if pk in gen.pkgs else None
        judge_output(ctx, r, label, case_of, stats)
        if r["trace"] and os.path.exists(r["trace"]):
            for t in rt.analyse_file(r["trace"], "%s:%s" % (label, "+".join(b))):
                t.meta = {"kind": "generated", "packages": b}
                traces.append(t)
    return results


def judge_traces(ctx, traces, stats, strict_sample):
    """property-level reading of the event logs + monitors + strict refinement on a sample"""
    if not traces:
        raise Inconclusive("no event log was recorded")
    for t in traces:
        meta = getattr(t, "meta", {})
        for ev, pkg, an, text in t.errors[:10]:
            ctx.violation(vlib.canon_key({"error": ev, "an": an, "text": re.sub(r"/\S+?\.go:\d+(:\d+)?", "<pos>", text)[:80]}),
                          "%s in %s%s on buildable code: %s" % (ev, pkg, ("/" + an) if an else "", text[:300]),
                          {"kind": "analyzer-error", "event": ev, "pkg": pkg, "analyzer": an, "text": text, "meta": meta})
        if t.failed_pkgs or t.graph["cfailed"]:
            ctx.violation(vlib.canon_key({"failed": sorted(os.path.basename(p) for p in (t.failed_pkgs or t.graph["cfailed"]))[:3]}),
                          "packages marked failed on buildable code: %s" % (t.failed_pkgs or t.graph["cfailed"])[:5],
                          {"kind": "failed", "failed": t.failed_pkgs, "cfailed": t.graph["cfailed"], "meta": meta})
        if not t.complete:
            ctx.violation(vlib.canon_key({"incomplete": t.label}), "run did not reach Finalize: %s" % t.label,
                          {"kind": "incomplete", "meta": meta})
    # monitors, in batches that keep one TLC run at a moderate size
    batch, size = [], 0
    groups = []
    for t in traces:
        batch.append(t)
        size += len(t.raw)
        if size > 60000:
            groups.append(batch)
            batch, size = [], 0
    if batch:
        groups.append(batch)

    def mon(g):
        return g, rt.run_monitor(ctx, g, timeout=3000)
    for g, (mres, mst) in vlib.pmap(mon, groups, workers=3):
        stats["tlc_states"] = stats.get("tlc_states", 0) + mst["states"]
        stats["tlc_transitions"] = stats.get("tlc_transitions", 0) + mst["transitions"]
        stats["events_monitored"] = stats.get("events_monitored", 0) + mst["events"]
        for t, m in zip(g, mres):
            if not m["ok"]:
                ctx.violation(vlib.canon_key({"monitor": m["monitor"], "ev": (m.get("event") or {}).get("ev")}),
                              "event log of %s violates %s of Runner.tla at %s" % (t.label, m["monitor"], m.get("event")),
                              {"kind": "trace", "monitor": m["monitor"], "event": m.get("event"), "context": m.get("context"),
                               "meta": getattr(t, "meta", {})})
    pick = sorted(traces, key=lambda t: len(t.strict))[:strict_sample]
    sres, sst = rt.run_strict(ctx, pick, big=True, timeout=3000)
    stats["tlc_states"] = stats.get("tlc_states", 0) + sst["states"]
    stats["tlc_transitions"] = stats.get("tlc_transitions", 0) + sst["transitions"]
    stats["strict_traces"] = len(pick)
    for t, s in zip(pick, sres):
        if s.get("ok") is False:
            stats.setdefault("drift", []).append({"trace": t.label, "rejected": s.get("event"), "at": s.get("at")})
            ctx.note("drift: %s is not a behaviour of Runner.tla at event #%s %s" % (t.label, s.get("at"), s.get("event")))


def negative_selftest(ctx, traces):
    import copy
    base = min((t for t in traces if t.complete and not t.errors), key=lambda t: len(t.raw), default=None)
    if base is None:
        raise Inconclusive("no clean trace for the negative self-test")
    t1 = copy.deepcopy(base)
    i = next(i for i, e in enumerate(t1.raw) if e["ev"] == "exec_end" and e["a"] != "" and not e["flag"])
    t1.raw[i]["flag"] = True        # a failed analyzer without any error event
    t2 = copy.deepcopy(base)
    j = next(i for i, e in enumerate(t2.raw) if e["ev"] == "finalize")
    t2.raw[j]["l"] = [t2.graph["pkgs"][0]]   # Run reports a failed package nobody marked failed
    res, _ = rt.run_monitor(ctx, [t1, t2, base], timeout=3000)
    got = [r.get("monitor") for r in res]
    if got[0] != "NoSpuriousFailure" or got[1] != "FailurePropagates" or res[2]["ok"] is not True:
        raise Inconclusive("negative self-test: RunnerMon verdicts %s" % got)
    return 2


# ---------------------------------------------------------------------------------------------------
# corpora
# ---------------------------------------------------------------------------------------------------

REPO_QUICK = ["./internal/sync", "./config", "./lintcmd/version"]
REPO_THOROUGH = ["./analysis/...", "./lintcmd/...", "./go/ir/...", "./pattern/...", "./unused/...", "./config/...",
                 "./internal/...", "./simple/s1000", "./staticcheck/sa4023", "./stylecheck/st1000", "./quickfix/qf1001"]


def corpus_repo(ctx, sc, stats, traces):
    pats = REPO_QUICK if (ctx.quick or os.environ.get("VERIF_CAP")) else REPO_THOROUGH
    rc, so, se = vlib.sh(["go", "build"] + pats, cwd=vlib.REPO, env=vlib.go_env(), timeout=3000)
    if rc != 0:
        raise Inconclusive("repository packages do not build: %s" % (so + se)[-1500:])
    groups = [pats] if ctx.quick else [[p] for p in pats]

    def one(g):
        return g, sc.run(vlib.REPO, g, timeout=3600, fresh_cache=False)
    for g, r in vlib.pmap(one, groups, workers=2):
        stats["repo_runs"] = stats.get("repo_runs", 0) + 1
        if crashed(r):
            ctx.violation(vlib.canon_key({"repo-crash": g, "sig": crash_signature(r["stderr"])}),
                          "staticcheck %s on the repository's own packages %s: %s" % ("hung" if r["hung"] else "crashed", g, crash_signature(r["stderr"]) or r["stderr"][:300]),
                          {"kind": "crash", "patterns": g, "stderr": r["stderr"][:4000], "rc": r["rc"]})
            continue
        judge_output(ctx, r, "repository", lambda f, l: {"file": os.path.relpath(f, vlib.REPO) if f else ""}, stats)
        if r["trace"] and os.path.exists(r["trace"]):
            for t in rt.analyse_file(r["trace"], "repo:" + " ".join(g)):
                t.meta = {"kind": "repo", "patterns": g}
                stats["repo_packages"] = stats.get("repo_packages", 0) + len(t.graph["initial"])
                traces.append(t)


# std packages (the property's quantifier names std+cmd): small ones, chosen so that their import graphs contain
# GOROOT-vendored packages, whose import path as written in the source (golang.org/x/...) differs from the
# package path (vendor/golang.org/x/...), assembly stubs and internal/ packages
STD_QUICK = ["vendor/golang.org/x/crypto/chacha20", "vendor/golang.org/x/net/dns/dnsmessage", "container/list",
             "unicode/utf16", "encoding/base32", "text/tabwriter"]
STD_THOROUGH = STD_QUICK + ["vendor/golang.org/x/text/unicode/bidi", "vendor/golang.org/x/net/http/httpguts", "net/textproto",
                            "mime", "encoding/json", "go/scanner", "text/template/parse", "crypto/sha256", "sort", "bufio",
                            "regexp/syntax", "archive/tar", "compress/flate", "math/big", "sync", "context"]


def corpus_std(ctx, sc, stats, traces):
    pats = STD_QUICK if (ctx.quick or os.environ.get("VERIF_CAP")) else STD_THOROUGH
    rc, so, se = vlib.sh(["go", "build"] + pats, cwd=vlib.REPO, env=vlib.go_env(), timeout=3000)
    if rc != 0:
        raise Inconclusive("std packages do not build: %s" % (so + se)[-1500:])
    groups = [pats] if ctx.quick else [pats[i:i + 6] for i in range(0, len(pats), 6)]

    def one(g):
        return g, sc.run(vlib.REPO, g, timeout=3600, fresh_cache=False)
    for g, r in vlib.pmap(one, groups, workers=2):
        stats["std_runs"] = stats.get("std_runs", 0) + 1
        if crashed(r):
            ctx.violation(vlib.canon_key({"std-crash": g, "sig": crash_signature(r["stderr"])}),
                          "staticcheck %s on the std packages %s: %s" % ("hung" if r["hung"] else "crashed", g, crash_signature(r["stderr"]) or r["stderr"][:300]),
                          {"kind": "crash", "patterns": g, "stderr": r["stderr"][:4000], "rc": r["rc"]})
            continue
        judge_output(ctx, r, "std", lambda f, l: {"file": f.split("/src/", 1)[-1] if f else ""}, stats)
        if r["trace"] and os.path.exists(r["trace"]):
            for t in rt.analyse_file(r["trace"], "std:" + " ".join(g)):
                t.meta = {"kind": "std", "patterns": g}
                stats["std_packages"] = stats.get("std_packages", 0) + len(t.graph["initial"])
                traces.append(t)


def corpus_testdata(ctx, sc, stats, traces, nmax):
    """testdata packages that compile standalone (copied into a scratch module each)"""
    cands = []
    for root, dirs, files in os.walk(vlib.REPO):
        if "/testdata/" not in root + "/" or "/.git" in root:
            continue
        gos = [f for f in files if f.endswith(".go") and not f.endswith("_test.go")]
        if gos and not dirs:
            cands.append(root)
    cands.sort()
    chosen = vlib.sample(ctx, cands, nmax)
    d = ctx.tmp("testdata")
    with open(os.path.join(d, "go.mod"), "w") as f:
        f.write("module ex.test/td\n\ngo 1.26\n")
    ok = []
    for i, src in enumerate(chosen):
        dst = os.path.join(d, "t%03d" % i)
        os.makedirs(dst)
        for fn in os.listdir(src):
            if fn.endswith(".go") and not fn.endswith("_test.go"):
                shutil.copy(os.path.join(src, fn), dst)
    # which compile standalone?
    rc, so, se = vlib.sh(["go", "build", "-gcflags=-e", "./..."], cwd=d, env=vlib.go_env(), timeout=3000)
    badpk = set(re.findall(r"^# ex\.test/td/(t\d+)", so + se, re.M)) | set(re.findall(r"^(t\d+)/", so + se, re.M)) \
        | set(re.findall(r"ex\.test/td/(t\d+)", se))
    for i, src in enumerate(chosen):
        if "t%03d" % i in badpk:
            shutil.rmtree(os.path.join(d, "t%03d" % i), ignore_errors=True)
        else:
            ok.append(("t%03d" % i, src))
    rc, so, se = vlib.sh(["go", "build", "./..."], cwd=d, env=vlib.go_env(), timeout=3000)
    if rc != 0:
        ctx.note("testdata corpus: could not isolate the compiling subset (%s); skipped" % (so + se)[-300:])
        return
    stats["testdata_candidates"] = len(chosen)
    stats["testdata_compiling"] = len(ok)
    groups = [ok[k:k + 6] for k in range(0, len(ok), 6)]

    def one(g):
        return g, sc.run(d, ["./" + n for n, _ in g], timeout=3600, fresh_cache=False)
    for g, r in vlib.pmap(one, groups, workers=3):
        if crashed(r):
            # reduce to one package
            culprit = None
            for n, src in g:
                r1 = sc.run(d, ["./" + n], trace=False, timeout=1800, fresh_cache=False)
                if crashed(r1):
                    culprit = (n, src, r1)
                    break
            n, src, r1 = culprit or (g[0][0], g[0][1], r)
            ctx.violation(vlib.canon_key({"testdata": os.path.relpath(src, vlib.REPO), "sig": (crash_signature(r1["stderr"]) or "").split(" @ ")[0]}),
                          "staticcheck crashes on testdata package %s (compiles standalone): %s"
                          % (os.path.relpath(src, vlib.REPO), crash_signature(r1["stderr"]) or r1["stderr"][:300]),
                          {"kind": "crash", "testdata": os.path.relpath(src, vlib.REPO), "stderr": r1["stderr"][:4000]})
            continue
        names = dict(g)
        judge_output(ctx, r, "testdata", lambda f, l: {"testdata": os.path.relpath(names.get(os.path.basename(os.path.dirname(f)), f), vlib.REPO)}, stats)
        if r["trace"] and os.path.exists(r["trace"]):
            for t in rt.analyse_file(r["trace"], "testdata:" + "+".join(n for n, _ in g)):
                t.meta = {"kind": "testdata", "dirs": [os.path.relpath(s, vlib.REPO) for _, s in g]}
                traces.append(t)


# ---------------------------------------------------------------------------------------------------


def run(ctx):
    ctx.level = "exploration"
    if ctx.replay:
        return replay(ctx)
    stats = {}
    sc_bin = vlib.go_build_repo(ctx, "./cmd/staticcheck", tags="verif")
    irk = vlib.go_build_harness(ctx, "cmd/h-irkinds")
    sc = SC(ctx, sc_bin)

    # 1. cases from the spec
    r1, atoms = tlc_cases(ctx, "GoAtoms_singles.cfg")
    check_tables(atoms)
    singles = r1.cases
    if len(singles) != 6 * len(goatoms.ATOMS):
        raise Inconclusive("GoAtoms emitted %d single cases for %d atoms" % (len(singles), len(goatoms.ATOMS)))
    r2, _ = tlc_cases(ctx, "GoAtoms_pairs.cfg" if ctx.quick else "GoAtoms_pairsall.cfg")
    pairs_all = r2.cases
    stats["cases_enumerated"] = len(singles) + len(pairs_all)
    try:
        capn = int(os.environ.get("VERIF_CAP", "0"))   # caps the thorough tier (to exercise its path cheaply)
    except ValueError:
        capn = 0
    if ctx.quick:
        pairs = vlib.sample(ctx, pairs_all, 1600)
    elif capn:
        pairs = vlib.sample(ctx, pairs_all, capn)
    else:
        full = [c for c in pairs_all if c["ctx"] in ("func", "generic")]
        rest = [c for c in pairs_all if c["ctx"] not in ("func", "generic")]
        pairs = full + vlib.sample(ctx, rest, 4000)

    # 2. realise + go build (the toolchain decides what "buildable" means)
    gen = Gen(ctx, "atoms")
    singles.sort(key=lambda c: (c["ctx"], c["a"]))
    s_names = gen.add(singles)
    gen.build(s_names)

    # 3. O-style validation of the spec's instruction-kind claims on the realised singles
    rc, so, se = vlib.sh([irk, "-dir", gen.dir] + ["./" + n for n in s_names], env=vlib.go_env(), timeout=1800)
    if rc != 0 and ("panic: " in se or "fatal error: " in se):
        # the real IR builder crashed inside the observer: the lint runs below meet the same crash through the
        # buildir pass and judge it; the coverage observation is skipped for this run
        ctx.note("IR-kind observation skipped: the builder crashed in h-irkinds (%s)" % (crash_signature(se) or se[-300:]))
        stats["ir_kinds_observed"] = None
    elif rc != 0:
        raise Inconclusive("h-irkinds failed: %s" % se[-1500:])
    else:
        ro = vlib.run_tlc(ctx, "GoAtoms", "GoAtoms_obs.cfg", workers=1, timeout=900, extra_files={"irkinds.json": so.strip()}, case_prefix="IROBS ")
        if ro.violated or not ro.cases:
            raise Inconclusive("the realised cases do not reach every go/ir instruction kind of GoAtoms.tla (coverage hole): %s\n%s"
                               % (ro.cases[:1], ro.out[-1200:]))
        stats["ir_kinds_observed"] = len(json.loads(so))
        stats["ir_optional_seen"] = ro.cases[0].get("optional_seen")

    # 4. lint singles, then pairs (atoms that crash alone are not combined again)
    traces = []
    poisoned = set()
    lint_generated(ctx, sc, gen, s_names, stats, "singles", traces, poisoned)
    pairs = [c for c in pairs if c["a"] not in poisoned and c["b"] not in poisoned]
    stats["pairs_skipped_poisoned_atoms"] = sorted(poisoned)
    p_names = gen.add(pairs)
    gen.build(p_names)
    lint_generated(ctx, sc, gen, p_names, stats, "pairs", traces, poisoned)
    n_gen_traces = len(traces)

    # 5. corpora
    corpus_repo(ctx, sc, stats, traces)
    corpus_std(ctx, sc, stats, traces)
    if not ctx.quick:
        corpus_testdata(ctx, sc, stats, traces, max(6, capn // 20) if capn else 150)

    # 6. event logs
    judge_traces(ctx, traces, stats, strict_sample=2 if ctx.quick else 8)
    nneg = negative_selftest(ctx, traces)

    distinct_nontrivial = len(set((c["ctx"], c["a"], c["b"]) for c in singles + pairs))
    ctx.coverage = {
        "evaluations": stats.get("functions_linted", 0),
        "distinct_nontrivial": distinct_nontrivial,
        "rule": "cases = (context, atom, nested atom) enumerated by TLC from GoAtoms.tla; every case is distinct and non-trivial "
                "(a compilable function exercising the atom's forms, linted by all analyzers); quick: all singles + seeded sample "
                "of pairs, thorough: all pairs in func/generic + sample elsewhere; plus corpora",
        "samples": [singles[0], pairs[0] if pairs else None,
                    {"source": goatoms.render_function(pairs[0] if pairs else singles[0], 1)[:1200]}],
        "cases_enumerated_by_tlc": stats.get("cases_enumerated"),
        "tlc_goatoms_states": r1.distinct + r2.distinct,
        "atoms": len(goatoms.ATOMS),
        "packages_linted": stats.get("packages_linted", 0),
        "staticcheck_runs": sc.runs,
        "ir_kinds_observed": stats.get("ir_kinds_observed"),
        "ir_optional_seen": stats.get("ir_optional_seen"),
        "event_logs": len(traces),
        "event_logs_generated_code": n_gen_traces,
        "events_monitored": stats.get("events_monitored", 0),
        "states": stats.get("tlc_states", 0) + r1.distinct + r2.distinct,
        "transitions": stats.get("tlc_transitions", 0),
        "traces_validated_against_impl": len(traces),
        "strict_traces": stats.get("strict_traces", 0),
        "problems_reported": stats.get("problems_reported", 0),
        "repo_packages": stats.get("repo_packages", 0),
        "std_packages": stats.get("std_packages", 0),
        "testdata_compiling": stats.get("testdata_compiling"),
        "poisoned_atoms": sorted(poisoned),
        "negative_selftests": nneg,
        "drift": stats.get("drift", []),
        "trusted_base": ["go toolchain (go build decides buildability)", "TLC", "checks/goatoms.py templates"],
    }
    ctx.assumptions = [
        "totality is decided for the enumerated construct atoms and their ordered pairs; constructs outside GoAtoms.tla's Required set are not covered",
        "module go version 1.26 (default -go = module): new(expr), range-over-func, min/max/clear are in the language",
        "an analyzer error is observed through the runner's event log (runAnalyzers drops analyzer errors silently)",
    ]


def replay(ctx):
    doc = json.load(open(ctx.replay))
    case = doc["case"]
    sc_bin = vlib.go_build_repo(ctx, "./cmd/staticcheck", tags="verif")
    sc = SC(ctx, sc_bin)
    if case.get("kind") == "crash" and case.get("a"):
        g = Gen(ctx, "replay")
        names = g.add([{"ctx": case["ctx"], "a": case["a"], "b": case["b"]}])
        g.build(names)
        r = sc.run(g.dir, ["./..."], trace=False, timeout=900)
        if crashed(r):
            ctx.violation(doc["key"], doc["what"], case)
        return
    if case.get("kind") == "crash" and case.get("testdata"):
        d = ctx.tmp("td")
        with open(os.path.join(d, "go.mod"), "w") as f:
            f.write("module ex.test/td\n\ngo 1.26\n")
        os.makedirs(os.path.join(d, "t"))
        src = os.path.join(vlib.REPO, case["testdata"])
        for fn in os.listdir(src):
            if fn.endswith(".go") and not fn.endswith("_test.go"):
                shutil.copy(os.path.join(src, fn), os.path.join(d, "t"))
        r = sc.run(d, ["./t"], trace=False, timeout=1800)
        if crashed(r):
            ctx.violation(doc["key"], doc["what"], case)
        return
    raise Inconclusive("replay of %s cases re-runs the whole check: use bin/check C03" % case.get("kind"))
