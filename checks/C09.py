"""C09 — Pattern bindings: alternatives are atomic, names bind consistently.

Spec: specs/Matcher.tla (+ MCMatcherBase / MCMatcher / MCMatcherFull / MCMatcherWide / MCMatcherRand).
Two semantics over abstract trees and patterns: the declarative `Den` (what doc.go promises) and the
operational frame-stack mechanism `Op` transcribed from pattern/match.go.  TLC checks, for every
(pattern, tree) pair of the families, that Op = Den (OpEqualsDen) and the laws of C09 on Den
(VisibleIsSuccessfulPath, ConsistentRecall, NotLeavesNoBindings, AtomicAlternatives, StaticWFSound)
and prints every pair with its expected result.

Conformance (R): harness/cmd/h-pattern renders every abstract pattern to the concrete pattern
language in the sugared, the explicit and a seeded mixed spelling, builds every abstract tree as a real
go/ast expression (plain; seeded: with ParenExpr / ExprStmt wrappers), runs the REAL pattern.Parser and
pattern.Match and compares (matched?, Matcher.State) with Den.  A panic of the matcher on a (statically)
well-formed pattern is a violation.

Families: quick/full exhaustive families (MCMatcher*.tla), 64-name wide Ors (MCMatcherWide), the
absent-optional-children family (MCMatcherSlice / MCMatcherSliceFull: slice patterns x slice trees with
every combination of present / absent Low and High; a name that meets an absent child is bound to the
value Absent -- a key of Matcher.State with a nil value -- and recalled like any other value), and
VERIF_SEED-generated deeper patterns whose expected result TLC computes (MCMatcherRand, module text
generated here).
"""
import json
import os

import vlib
from vlib import Inconclusive

NAMES = ["x", "y"]
IDENTS = ["a", "b"]
INVS = ["StaticWFSound", "OpEqualsDen", "VisibleIsSuccessfulPath", "ConsistentRecall", "NotLeavesNoBindings", "AtomicAlternatives"]


# ---------------------------------------------------------------------------------------------
# seeded generation of deeper abstract patterns / trees (as TLA+ text; TLC decides well-formedness
# and computes the expected results)
# ---------------------------------------------------------------------------------------------

def gen_tree(rng, depth):
    if depth <= 0 or rng.random() < 0.25:
        return ("id", rng.choice(IDENTS))
    r = rng.random()
    if r < 0.5:
        return ("bin", rng.choice(["+", "+", "-"]), gen_tree(rng, depth - 1), gen_tree(rng, depth - 1))
    if r < 0.7:   # s[lo:hi:max] with absent children (None)
        lo = gen_tree(rng, depth - 1) if rng.random() < 0.5 else None
        hi = gen_tree(rng, depth - 1) if rng.random() < 0.5 else None
        mx = gen_tree(rng, 0) if hi is not None and rng.random() < 0.2 else None
        return ("slice", gen_tree(rng, min(depth - 1, 1)), lo, hi, mx)
    n = rng.choice([0, 1, 1, 2, 2, 3])
    return ("call", gen_tree(rng, min(depth - 1, 1)), [gen_tree(rng, depth - 1) for _ in range(n)])


def tree_tla(t):
    if t is None:
        return "Absent"
    if t[0] == "slice":
        return "TSlice(%s)" % ", ".join(tree_tla(c) for c in t[1:])
    if t[0] == "id":
        return 'TId("%s")' % t[1]
    if t[0] == "bin":
        return 'TBinO("%s", %s, %s)' % (t[1], tree_tla(t[2]), tree_tla(t[3]))
    return "TCall(%s, <<%s>>)" % (tree_tla(t[1]), ", ".join(tree_tla(a) for a in t[2]))


class PatGen:
    """Patterns are derived from a tree (so that a good share matches) and then perturbed with
    failing alternatives, Nots, bindings and recalls; or generated freely."""

    def __init__(self, rng):
        self.rng = rng

    def name(self):
        return self.rng.choice(NAMES)

    def leaf(self):
        r = self.rng.random()
        if r < 0.25:
            return "PAny"
        if r < 0.6:
            return 'Ref("%s")' % self.name()
        if r < 0.8:
            return 'PId(PStr("%s"))' % self.rng.choice(IDENTS + ["zz"])
        return 'PId(Ref("%s"))' % self.name()

    def wrap(self, p, depth):
        """decorate a pattern that matches with binding / alternative / negation structure"""
        r = self.rng.random()
        if depth <= 0 or r < 0.35:
            return p
        if r < 0.55:
            return 'Bind("%s", %s)' % (self.name(), p)
        if r < 0.7:   # failing first alternative that binds before it fails
            return "Or2(%s, %s)" % (self.failing(depth - 1), p)
        if r < 0.8:
            return "Or2(%s, %s)" % (p, self.free(depth - 1))
        if r < 0.9:
            return "Not(Not(%s))" % p
        return "Or2(Not(%s), %s)" % (p, self.free(depth - 1))

    def failing(self, depth):
        b = self.rng.choice(['Bind("%s", PAny)' % self.name(), 'Ref("%s")' % self.name(), self.free(depth)])
        if self.rng.random() < 0.5:
            return "PBin(%s, PId(PStr(\"zz\")))" % b
        return "PCall(%s, PCons(%s, PCons(PId(PStr(\"zz\")), PNil)))" % (self.leaf(), b)

    def opt(self, t, depth):
        """a pattern for an optional child (t is None: the child is absent)"""
        r = self.rng.random()
        if t is not None and r < 0.5:
            return self.from_tree(t, depth)
        if r < 0.65:
            return 'Ref("%s")' % self.name()
        if r < 0.75:
            return "PNull" if t is None or self.rng.random() < 0.3 else "PAny"
        if r < 0.82:
            return 'Bind("%s", PAny)' % self.name()
        if r < 0.88:
            return 'Or2(PNull, %s)' % self.leaf()
        if r < 0.93:
            return 'Not(%s)' % self.rng.choice(["PNull", 'Ref("%s")' % self.name()])
        return "PAny"

    def op(self):
        r = self.rng.random()
        if r < 0.5:
            return 'PStr("+")'
        if r < 0.65:
            return "PAny"
        if r < 0.8:
            return 'Ref("%s")' % self.name()
        if r < 0.9:
            return 'Bind("%s", Or2(PStr("+"), PStr("-")))' % self.name()
        return 'PStr("-")'

    def from_tree(self, t, depth):
        r = self.rng.random()
        if depth <= 0 or r < 0.2:
            return self.wrap(self.leaf() if self.rng.random() < 0.6 else "PAny", depth)
        if t[0] == "id":
            s = self.rng.choice(['PStr("%s")' % t[1], "PAny", 'Ref("%s")' % self.name(),
                                 'Bind("%s", Or2(PStr("a"), PStr("b")))' % self.name()])
            return self.wrap("PId(%s)" % s, depth)
        if t[0] == "bin":
            return self.wrap("PBinO(%s, %s, %s)" % (self.from_tree(t[2], depth - 1), self.op(), self.from_tree(t[3], depth - 1)), depth)
        if t[0] == "slice":
            return self.wrap("PSlice(%s, %s, %s, %s)" % (self.from_tree(t[1], depth - 1), self.opt(t[2], depth - 1),
                                                         self.opt(t[3], depth - 1), self.opt(t[4], depth - 1)), depth)
        args = t[2]
        r = self.rng.random()
        if r < 0.2:
            lp = self.rng.choice(["PAny", 'Ref("%s")' % self.name()])
        elif len(args) == 1 and r < 0.4:
            lp = self.from_tree(args[0], depth - 1)       # a node pattern matches a one-element list
        else:
            k = self.rng.randint(0, len(args))
            tail = "PNil" if k == len(args) else self.rng.choice(["PAny", 'Ref("%s")' % self.name()])
            lp = tail
            for a in reversed(args[:k]):
                lp = "PCons(%s, %s)" % (self.from_tree(a, depth - 1), lp)
        return self.wrap("PCall(%s, %s)" % (self.from_tree(t[1], depth - 1), lp), depth)

    def free(self, depth):
        r = self.rng.random()
        if depth <= 0 or r < 0.25:
            return self.leaf()
        if r < 0.4:
            return "PBinO(%s, %s, %s)" % (self.free(depth - 1), self.op(), self.free(depth - 1))
        if r < 0.47:
            return "PCall(%s, %s)" % (self.free(depth - 1), self.lst(depth - 1))
        if r < 0.53:
            return "PSlice(%s, %s, %s, %s)" % (self.leaf(), self.opt(None, depth - 1), self.opt(None, depth - 1),
                                               self.rng.choice(["PAny", "PAny", "PNull", 'Ref("%s")' % self.name()]))
        if r < 0.65:
            return "Or2(%s, %s)" % (self.free(depth - 1), self.free(depth - 1))
        if r < 0.75:
            return "[k |-> \"or\", alts |-> <<%s, %s, %s>>]" % (self.free(depth - 1), self.free(depth - 1), self.free(depth - 1))
        if r < 0.87:
            return "Not(%s)" % self.free(depth - 1)
        return 'Bind("%s", %s)' % (self.name(), self.free(depth - 1))

    def lst(self, depth):
        r = self.rng.random()
        if depth <= 0 or r < 0.3:
            return self.rng.choice(["PAny", "PNil", 'Ref("%s")' % self.name()])
        if r < 0.85:
            return "PCons(%s, %s)" % (self.free(depth - 1), self.lst(depth - 1))
        return self.free(depth - 1)


def rand_module(ctx, n_pat, n_tree):
    rng = ctx.rng
    trees = []
    seen = set()
    while len(trees) < n_tree:
        t = gen_tree(rng, rng.choice([1, 2, 2, 3]))
        s = tree_tla(t)
        if s not in seen:
            seen.add(s)
            trees.append(t)
    g = PatGen(rng)
    pats = set()
    tries = 0
    while len(pats) < n_pat and tries < 50 * n_pat:
        tries += 1
        if rng.random() < 0.65:
            p = g.from_tree(rng.choice(trees), rng.choice([3, 4, 4, 5]))
        else:
            p = g.free(rng.choice([3, 4]))
        if "Ref(" in p or "Bind(" in p:
            pats.add(p)
    pats = sorted(pats)
    text = ["--------------------------- MODULE MCMatcherRand ---------------------------",
            "\\* generated by checks/C09.py, seed %d" % ctx.seed,
            "EXTENDS MCMatcherBase", "",
            "RandRaw == {", ",\n".join("  " + p for p in pats), "}", "",
            "RandTreeSet == {", ",\n".join("  " + tree_tla(t) for t in trees), "}", "",
            "RandPats  == SetToSeq({ q \\in RandRaw : WellFormed(q) })",
            "RandTrees == SetToSeq(RandTreeSet)",
            "SpecRand  == GenInit(RandPats, RandTrees) /\\ [][MatchCall(RandPats, RandTrees)]_vars",
            "============================================================================="]
    return "\n".join(text) + "\n", len(pats), len(trees)


# ---------------------------------------------------------------------------------------------

def tlc_gen(ctx, module, cfg, what, extra=None, timeout=3000):
    r = vlib.run_tlc(ctx, module, cfg, workers=int(os.environ.get("VERIF_TLC_WORKERS", "8")), timeout=timeout, keep_cases=False, extra_files=extra)
    vlib.tlc_require_ok(r, what)
    if r.distinct == 0:
        raise Inconclusive("TLC explored no state for %s" % what)
    return r


def replay(ctx, helper, files, seed, wrap=25):
    rc, so, se = vlib.sh([helper, "-seed", str(seed), "-wrap", str(wrap), "-j", str(min(vlib.NCPU, 12))] + files, timeout=7200)
    if rc != 0:
        raise Inconclusive("h-pattern failed rc=%d: %s" % (rc, se[-2000:]))
    mism, summary = [], None
    for line in so.splitlines():
        o = json.loads(line)
        if "summary" in o:
            summary = o["summary"]
        else:
            mism.append(o)
    if summary is None:
        raise Inconclusive("h-pattern printed no summary")
    return mism, summary


def case_of(m):
    """replayable abstract case of a mismatch"""
    return {"d": "case", "p": m["p"], "t": m["t"], "ok": m["want_ok"], "want_env": m["want_env"],
            "pattern": m["pattern"], "spelling": m["spelling"], "wrap": m.get("wrap", ""), "tree": m["tree"],
            "observed": {"kind": m["kind"], "ok": m.get("got_ok"), "env": m.get("got_env"), "detail": m.get("detail", "")}}


def report(ctx, mism, summary):
    """property-level mismatches -> violations (one per abstract (pattern, tree)); parser-level
    differences of the two spellings are drift"""
    seen = set()
    drift = 0
    # interleave the kinds so that the first reports show every way the code deviates
    by_kind = {}
    for m in mism:
        by_kind.setdefault(m["kind"], []).append(m)
    order = []
    while any(by_kind.values()):
        for k in sorted(by_kind):
            if by_kind[k]:
                order.append(by_kind[k].pop(0))
    for m in order:
        if m["kind"] == "parse-diff":
            drift += 1
            ctx.note("drift: spellings parse differently: %s (%s)" % (m["pattern"], m.get("detail", "")[:200]))
            continue
        if m["kind"] == "parse":
            raise Inconclusive("renderer produced a pattern the parser rejects: %s: %s" % (m["pattern"], m.get("detail")))
        key = vlib.canon_key({"p": m["p"], "kind": m["kind"]})      # one report per abstract pattern and kind
        if key in seen:
            continue
        seen.add(key)
        if m["kind"] == "panic":
            what = "pattern.Match panics (%s) on well-formed %s matched against %s" % (m.get("detail"), m["pattern"], m["tree"])
        elif m["kind"] == "ok":
            what = "pattern.Match(%s, %s) = %s, the pattern language says %s (bindings seen: {%s}, expected: {%s})" % (
                m["pattern"], m["tree"], m["got_ok"], m["want_ok"], m.get("got_env", ""), m["want_env"])
        else:
            what = "after matching %s against %s the visible bindings are {%s}, those of the successful path are {%s}" % (
                m["pattern"], m["tree"], m.get("got_env", ""), m["want_env"])
        ctx.violation(key, what, case_of(m))
        if len(ctx.violations) >= 20:
            ctx.note("stopping after 20 violations; h-pattern counted %d mismatches: %s" % (summary["mismatches"], summary["by_kind"]))
            break
    return drift


def write_inline(ctx, name, cases):
    p = os.path.join(ctx.tmp("inline"), name)
    with open(p, "w") as f:
        for c in cases:
            f.write(json.dumps({"d": "case", "p": c["p"], "t": c["t"], "ok": c["ok"], "env": c["env"]}) + "\n")
    return p


NEG_CASES = [
    # (Or (BinaryExpr x@(Ident "a") "+" (Ident "zz")) y) on a+b: correct expectation {y = a+b}
    {"p": {"k": "or", "alts": [{"k": "bin", "x": {"k": "bind", "n": "x", "sub": {"k": "id", "name": {"k": "str", "s": "a"}}},
                                 "o": {"k": "str", "s": "+"}, "y": {"k": "id", "name": {"k": "str", "s": "zz"}}},
                                {"k": "ref", "n": "y"}]},
     "t": {"k": "bin", "op": "+", "x": {"k": "id", "n": "a"}, "y": {"k": "id", "n": "b"}},
     "ok": True,
     "env": {"x": {"k": "unbound"}, "y": {"k": "bin", "op": "+", "x": {"k": "id", "n": "a"}, "y": {"k": "id", "n": "b"}}}},
]


# (SliceExpr _ x x _) on a[:]: x is BOUND, to the absent child (State has the key, the value is nil)
NEG_ABSENT = {"p": {"k": "slice", "x": {"k": "any"}, "lo": {"k": "ref", "n": "x"}, "hi": {"k": "ref", "n": "x"}, "max": {"k": "any"}},
              "t": {"k": "slice", "x": {"k": "id", "n": "a"}, "lo": {"k": "absent"}, "hi": {"k": "absent"}, "max": {"k": "absent"}},
              "ok": True, "env": {"x": {"k": "absent"}, "y": {"k": "unbound"}}}


def negative_selftest(ctx, helper):
    """the comparison must accept the correct expectation and reject each corrupted one"""
    good = NEG_CASES[0]
    bad1 = json.loads(json.dumps(good))
    bad1["env"]["x"] = {"k": "id", "n": "a"}           # pretend the failed alternative's binding is visible
    bad2 = json.loads(json.dumps(good))
    bad2["ok"] = False
    bad3 = json.loads(json.dumps(good))
    bad3["env"]["y"] = {"k": "id", "n": "a"}           # wrong subtree
    bad4 = json.loads(json.dumps(NEG_ABSENT))
    bad4["env"]["x"] = {"k": "unbound"}                # "bound to an absent child" must not pass for "unbound"
    bad5 = json.loads(json.dumps(NEG_ABSENT))
    bad5["env"]["x"] = {"k": "id", "n": "a"}
    m_good, s_good = replay(ctx, helper, [write_inline(ctx, "good.ndjson", [good])], 1, wrap=100)
    if s_good["pairs"] != 1 or s_good["match_calls"] < 6:
        raise Inconclusive("negative self-test: the good case was not run in all spellings/wrappers: %s" % s_good)
    m_good2, s_good2 = replay(ctx, helper, [write_inline(ctx, "good2.ndjson", [NEG_ABSENT])], 1, wrap=100)
    if s_good2["pairs"] != 1 or s_good2["pairs_binding_absent"] != 1 or s_good2["pairs_tree_with_absent_child"] != 1:
        raise Inconclusive("negative self-test: the absent-child case was not recognised as such: %s" % s_good2)
    m_good = m_good + m_good2
    rejected = 0
    for i, b in enumerate((bad1, bad2, bad3, bad4, bad5)):
        m_bad, _ = replay(ctx, helper, [write_inline(ctx, "bad%d.ndjson" % i, [b])], 1, wrap=100)
        if m_bad:
            rejected += 1
    # on a tree with the defects the good case itself mismatches; the self-test is about the comparison
    if rejected != 5:
        raise Inconclusive("negative self-test: %d of 5 corrupted expectations were accepted by the comparison" % (5 - rejected))
    return {"good_case_mismatches": len(m_good), "corrupted_rejected": rejected}


def name_limit(ctx, helper):
    rc, so, se = vlib.sh([helper, "-limit"], timeout=300)
    if rc != 0:
        raise Inconclusive("h-pattern -limit failed: %s" % se[-1000:])
    o = json.loads(so.splitlines()[-1])["limit"]
    if not o["n64_parses"]:
        ctx.violation(vlib.canon_key({"limit": 64}), "a pattern with 64 names is rejected: %s" % o["n64_err"], {"limit": o})
    if o["n65_parses"]:
        ctx.note("a pattern with 65 names is accepted by the parser (outside the property's quantifier)")
    return o


def deviations(ctx, only=None):
    """vacuity self-test: each named deviation of the mechanism must be refuted by TLC"""
    out = {}
    for dev, inv in (("drop", "OpEqualsDen"), ("bare", "OpEqualsDen"), ("zero", "OpEqualsDen"), ("keep", "OpEqualsDen"),
                     ("nonnil", "OpEqualsDen")):
        if only and dev not in only:
            continue
        module = "MCMatcherSlice" if dev == "nonnil" else "MCMatcher"
        r = vlib.run_tlc(ctx, module, "MCMatcher_dev_%s.cfg" % dev, workers=4, timeout=1800, keep_cases=False)
        if not r.violated:
            raise Inconclusive("self-test: deviation %s of the mechanism is not refuted by TLC (the invariants are vacuous?)" % dev)
        out[dev] = str(r.violated)
    return out


def run(ctx):
    ctx.level = "model_checking"
    helper = vlib.go_build_harness(ctx, "cmd/h-pattern")

    if ctx.replay:
        doc = json.load(open(ctx.replay))
        c = doc["case"]
        if "limit" in c:
            name_limit(ctx, helper)
            return
        env = {}
        # the expected environment is stored printed; re-derive it with TLC? -- the replay file carries the
        # abstract case, TLC recomputes Den for exactly this pair
        text = ("--------------------------- MODULE MCMatcherRand ---------------------------\n"
                "EXTENDS MCMatcherBase, Json\n"
                "RandPats == <<JsonDeserialize(\"p.json\")>>\nRandTrees == <<JsonDeserialize(\"t.json\")>>\n"
                "SpecRand == GenInit(RandPats, RandTrees) /\\ [][MatchCall(RandPats, RandTrees)]_vars\n"
                "=============================================================================\n")
        r = tlc_gen(ctx, "MCMatcherRand", "MCMatcher_rand.cfg", "replay",
                    extra={"MCMatcherRand.tla": text, "p.json": json.dumps(c["p"]), "t.json": json.dumps(c["t"])})
        mism, summary = replay(ctx, helper, [os.path.join(r.dir, "tlc.out")], ctx.seed, wrap=100)
        report(ctx, mism, summary)
        return

    runs = []
    if ctx.quick:
        runs.append(("MCMatcher", "MCMatcher_quick.cfg", None, "quick families"))
    else:
        extra = extra_slice = None
        cap = int(os.environ.get("VERIF_C09_FULL_PATS", "0"))     # smoke-testing the thorough path: first n patterns only
        if cap:
            full = open(os.path.join(vlib.SPECS, "MCMatcherFull.tla")).read()
            full = full.replace("FullPats  == SetToSeq(", "FullPats  == SubSeq(SetToSeq(").replace(
                "\\cup FamL \\cup FamD)", "\\cup FamL \\cup FamD), 1, %d)" % cap)
            if "SubSeq(SetToSeq(" not in full or ", 1, %d)" % cap not in full:
                raise Inconclusive("cannot cap MCMatcherFull")
            sf = open(os.path.join(vlib.SPECS, "MCMatcherSliceFull.tla")).read()
            sf2 = sf.replace("SliceFullPats  == SetToSeq(FamNf)", "SliceFullPats  == SubSeq(SetToSeq(FamNf), 1, %d)" % cap)
            if sf2 == sf:
                raise Inconclusive("cannot cap MCMatcherSliceFull")
            extra = {"MCMatcherFull.tla": full}
            extra_slice = {"MCMatcherSliceFull.tla": sf2}
            ctx.note("thorough families capped to the first %d patterns (VERIF_C09_FULL_PATS)" % cap)
        runs.append(("MCMatcherFull", "MCMatcher_full.cfg", extra, "full families"))
    runs.append(("MCMatcherWide", "MCMatcher_wide.cfg", None, "64 names"))
    if ctx.quick:
        runs.append(("MCMatcherSlice", "MCMatcher_slice.cfg", None, "absent optional children (slice family)"))
    else:
        runs.append(("MCMatcherSliceFull", "MCMatcher_slicefull.cfg", extra_slice, "absent optional children (full slice family)"))
    n_rand = int(os.environ.get("VERIF_C09_RAND", "250" if ctx.quick else "4000"))
    text, n_rp, n_rt = rand_module(ctx, n_rand, 30 if ctx.quick else 60)
    runs.append(("MCMatcherRand", "MCMatcher_rand.cfg", {"MCMatcherRand.tla": text}, "seeded deeper patterns"))

    results = vlib.pmap(lambda a: tlc_gen(ctx, a[0], a[1], a[3], extra=a[2]), runs, workers=3)
    files = [os.path.join(r.dir, "tlc.out") for r in results]
    mism, summary = replay(ctx, helper, files, ctx.seed)
    pairs_expected = sum(r.distinct for r in results) - summary["patterns"]
    if summary["pairs"] != pairs_expected:
        raise Inconclusive("h-pattern replayed %d pairs, TLC decided %d" % (summary["pairs"], pairs_expected))
    if summary["expected_matches"] * 10 < summary["pairs"]:
        raise Inconclusive("vacuous: only %d of %d pairs are expected to match" % (summary["expected_matches"], summary["pairs"]))
    if summary["pairs_binding_absent"] < 100:
        raise Inconclusive("vacuous: only %d pairs bind a name to an absent child" % summary["pairs_binding_absent"])
    drift = report(ctx, mism, summary)

    neg = negative_selftest(ctx, helper)
    limit = name_limit(ctx, helper)
    # quick: only the (cheap) deviation of the absent-children family; thorough: all five
    dev = deviations(ctx) if not ctx.quick else deviations(ctx, only=("nonnil",))

    ctx.coverage = {
        "states": sum(r.distinct for r in results),
        "transitions": sum(r.generated for r in results),
        "traces_validated_against_impl": summary["match_calls"],
        "exhaustive": not os.environ.get("VERIF_C09_FULL_PATS"),
        "tlc": [{"module": a[0], "config": a[1], "what": a[3], "states": r.distinct, "wall_s": round(r.wall, 1)} for a, r in zip(runs, results)],
        "invariants": INVS,
        "patterns": summary["patterns"], "trees": summary["trees"], "pairs_replayed": summary["pairs"],
        "pairs_expected_to_match": summary["expected_matches"], "real_match_calls": summary["match_calls"],
        "pairs_tree_with_absent_child": summary["pairs_tree_with_absent_child"],
        "pairs_binding_a_name_to_absent": summary["pairs_binding_absent"],
        "spellings": ["sugar", "explicit", "mixed(seeded)"], "tree_variants": ["plain", "paren(seeded)", "exprstmt(seeded)"],
        "seeded_patterns_generated": n_rp, "seeded_trees": n_rt,
        "mismatches": summary["mismatches"], "mismatches_by_kind": summary["by_kind"], "drift_spelling_parse": drift,
        "negative_selftest": neg, "name_limit": limit, "deviations_refuted_by_tlc": dev,
        "samples": summary["samples"][:4],
        "trusted_base": ["TLC 1.8.0", "go toolchain", "go/ast as the tree representation"],
    }
    ctx.assumptions = [
        "abstract trees: Ident, BinaryExpr (+,-), CallExpr with 0..3 arguments, SliceExpr with present or absent (nil) Low/High/Max, nesting depth <= 3; wrappers ParenExpr/ExprStmt by seeded rendering",
        "abstract patterns: Any, name, name@p / (Binding), (Ident s), (BinaryExpr x op y), (CallExpr f args), (SliceExpr x lo hi max), the atom nil, [] / h:t lists, Or (2-3, wide: up to 64 alternatives), Not; strings, tokens and Absent (nil) as bound values",
        "absent optional children are modelled for SliceExpr only (IfStmt.Init/Else, ForStmt parts etc. reach Binding.Match through the same matchNodeAST field loop); the atom nil is kept out of list patterns / call arguments (nil slice vs empty slice is not modelled)",
        "well-formedness is the static condition WellFormed of Matcher.tla (no defining occurrence where the name may already be bound); TLC checks that it implies Den never meets a rebinding",
        "type-aware nodes (Symbol, Builtin, Object, IntegerLiteral) and the remaining ast node types are outside the model (they bind like Any / like the modelled node patterns)",
    ]
