"""C14 — Dominance queries are exact on every CFG the builder produces.

Spec: specs/Dom.tla (definition PathDom by reachability-after-removal from the right root + the
laws), specs/DomGen.tla (TLC enumerates every rooted ordered digraph up to a bound exactly once
per isomorphism class and EMITS it; on every graph it also checks the oracle against its pairwise
definition, the forest-order facts and an independent Kildall characterisation, and model-checks
specs/DomLT.tla, a statement-by-statement transcription of buildDomTree/numberDomTree),
specs/DomObs.tla (observation validation).

Conformance (O): every emitted graph is realised as Go source (labels, goto, opaque conditions,
switch for multiway nodes, a deferred recover() for the second root), built by the REAL go/ir
builder; harness/cmd/h-irexport-dom exports the CFG the builder actually produced together with
all dominance answers of the public API; TLC (DomObs) evaluates the definition on every recorded
function, one function per TLC state.  Corpora: the repository's own packages and its testdata
packages (functions <= 60 blocks).  A recorded answer that contradicts the definition is a
VIOLATION.
"""
import json
import os
import re

import vlib
from vlib import Inconclusive

MAXBLOCKS = 60
WORKERS = int(os.environ.get("VERIF_TLC_WORKERS", min(vlib.NCPU, 8)))
# VERIF_CAP=<n>: smoke-run of a tier with the generator bounds lowered by one node, samples capped at n
# and a small corpus (to exercise the thorough path without paying for it)
CAP = int(os.environ.get("VERIF_CAP", "0"))

# ---------------------------------------------------------------------------------------------
# realisation: abstract graph -> Go function
# ---------------------------------------------------------------------------------------------

STYLES = ("plain", "else", "neg", "and", "or")


def realise(case, name, style_of, layout=None):
    """case = {n, succs (1-based lists), recover}.  Node k becomes `Lk: sink(k); <branch>`.
    The recover node (if any) is not written: the builder creates it for the deferred call.
    layout: the order in which the nodes are written (node 1, the entry, first); the builder numbers blocks in
    source order, so a permuted layout gives block indices that disagree with the depth-first order."""
    n, succs, rec = case["n"], case["succs"], case["recover"]
    targeted = set(t for k in range(1, n + 1) if k != rec for t in succs[k - 1])
    out = ["func %s(c func(int) bool, v func(int) int, sink func(int)) {" % name]
    if rec:
        out.append("\tdefer func() { recover() }()")
    for k in (layout or range(1, n + 1)):
        if k == rec:
            continue
        if k in targeted:
            out.append("L%d:" % k)
        out.append("\tsink(%d)" % k)
        s = succs[k - 1]
        if len(s) == 0:
            out.append("\treturn")
        elif len(s) == 1:
            out.append("\tgoto L%d" % s[0])
        elif len(s) == 2:
            st = style_of(k)
            if st == "plain":
                out += ["\tif c(%d) {" % k, "\t\tgoto L%d" % s[0], "\t}", "\tgoto L%d" % s[1]]
            elif st == "else":
                out += ["\tif c(%d) {" % k, "\t\tgoto L%d" % s[0], "\t} else {", "\t\tgoto L%d" % s[1], "\t}"]
            elif st == "neg":
                out += ["\tif !c(%d) {" % k, "\t\tgoto L%d" % s[1], "\t}", "\tgoto L%d" % s[0]]
            elif st == "and":
                out += ["\tif c(%d) && c(-%d) {" % (k, k), "\t\tgoto L%d" % s[0], "\t}", "\tgoto L%d" % s[1]]
            else:
                out += ["\tif c(%d) || c(-%d) {" % (k, k), "\t\tgoto L%d" % s[0], "\t}", "\tgoto L%d" % s[1]]
        else:
            out.append("\tswitch v(%d) {" % k)
            for j, t in enumerate(s[:-1]):
                out += ["\tcase %d:" % j, "\t\tgoto L%d" % t]
            out += ["\tdefault:", "\t\tgoto L%d" % s[-1], "\t}"]
    out.append("}")
    return "\n".join(out) + "\n"


def write_sources(ctx, cases, tag, per_file=1500, styles=True):
    """Returns (list of source files, {function name: (case, source)})."""
    d = ctx.tmp("src-" + tag)
    files, index = [], {}
    for fi in range(0, len(cases), per_file):
        chunk = cases[fi:fi + per_file]
        pkg = "p%s%d" % (tag, fi // per_file)
        parts = ["package %s\n" % pkg]
        for j, c in enumerate(chunk):
            name = "g%s_%d" % (tag, fi + j)
            if styles:
                rnd = ctx.rng.random
                pick = {}

                def style_of(k, pick=pick, rnd=rnd):
                    if k not in pick:
                        r = rnd()
                        pick[k] = "plain" if r < 0.5 else STYLES[1 + int((r - 0.5) * 8) % 4]
                    return pick[k]
            else:
                def style_of(k):
                    return "plain"
            layout = None
            if c.get("shuffle"):
                rest = list(range(2, c["n"] + 1))
                ctx.rng.shuffle(rest)
                layout = [1] + rest
            src = realise(c, name, style_of, layout)
            index["ex.test/%s.%s" % (pkg, name)] = (c, src)
            parts.append(src)
        path = os.path.join(d, pkg + ".go")
        with open(path, "w") as f:
            f.write("\n".join(parts))
        files.append(path)
    return files, index


# ---------------------------------------------------------------------------------------------
# export through the real builder + TLC observation validation
# ---------------------------------------------------------------------------------------------

def run_export(ctx, helper, args, out, cwd=None, timeout=3000):
    rc, so, se = vlib.sh([helper, "-out", out, "-maxblocks", str(MAXBLOCKS)] + args, cwd=cwd, env=vlib.go_env(), timeout=timeout)
    if rc != 0:
        raise Inconclusive("h-irexport-dom failed rc=%d: %s" % (rc, se[-3000:]))
    with open(out) as f:
        doc = json.load(f)
    return doc


def validate(ctx, fns, what, workers=None, timeout=3000, shard=20000):
    """TLC (DomObs) on recorded functions.  Returns (states, generated, failures) where failures is
    a list of {idx, name, kind, bad, fn}."""
    failures = []
    states = gen = 0
    wall = 0.0
    for s0 in range(0, len(fns), shard):
        part = fns[s0:s0 + shard]
        doc = json.dumps({"fns": part})
        r = vlib.run_tlc(ctx, "DomObs", "DomObs.cfg", workers=workers or WORKERS, timeout=timeout,
                         extra_files={"dom_obs.json": doc}, extra_args=["-continue"])
        wall += r.wall
        if r.distinct < len(part) + 1:
            raise Inconclusive("DomObs (%s): TLC visited %d states for %d recorded functions:\n%s" % (what, r.distinct, len(part), r.out[-2000:]))
        if r.violated and not r.cases:
            raise Inconclusive("DomObs (%s): TLC reports %s without a witness line:\n%s" % (what, r.violated, r.out[-3000:]))
        if r.cases and not r.violated:
            raise Inconclusive("DomObs (%s): witness lines without a violated invariant" % what)
        states += r.distinct
        gen += r.generated
        for c in r.cases:
            c["fn"] = part[c["idx"] - 1]
            failures.append(c)
    return states, gen, failures, wall


def fn_key(fn):
    """Canonical key of a recorded artefact: graph + answers, not names."""
    return vlib.canon_key({k: fn[k] for k in ("n", "succs", "recover", "dom", "idom", "dominees", "preorder", "postorder")})


def report_failures(ctx, failures, origin, index=None):
    unusable = [f for f in failures if f["kind"] == "unusable"]
    nrep = 0
    for f in failures:
        if f["kind"] != "law":
            continue
        nrep += 1
        if nrep > 12:
            ctx.note("%s: %d more rejected functions not written as replays" % (origin, len([x for x in failures if x["kind"] == "law"]) - 12))
            break
        fn = f["fn"]
        laws = sorted(set(w["law"] for w in f["bad"]))
        case = {"origin": origin, "function": fn["name"], "mode": fn["mode"], "record": fn, "witnesses": f["bad"][:40], "laws": laws}
        if index and fn["name"] in index:
            case["abstract"], case["source"] = index[fn["name"]]
        w = f["bad"][0]
        ctx.violation(fn_key(fn), "%s: %s contradicts path-based dominance on the built CFG of %s (%s; e.g. a=%s b=%s; %d blocks)"
                      % (origin, "/".join(laws), fn["name"], fn["mode"], w.get("a"), w.get("b"), fn["n"]), case)
    return unusable


def corrupt(fn, how):
    """Negative self-test material: one recorded answer is changed."""
    g = json.loads(json.dumps(fn))
    if how == "dominates+":
        have = set(map(tuple, g["dom"]))
        for a in range(1, g["n"] + 1):
            for b in range(1, g["n"] + 1):
                if (a, b) not in have:
                    g["dom"].append([a, b])
                    return g
    if how == "dominates-":
        for i, p in enumerate(g["dom"]):
            if p[0] != p[1]:
                del g["dom"][i]
                return g
    if how == "idom":
        for b in range(g["n"], 0, -1):
            if g["idom"][b - 1] not in (0, 1) and g["idom"][g["idom"][b - 1] - 1] != 0:
                old = g["idom"][b - 1]
                g["idom"][b - 1] = g["idom"][old - 1]
                return g
        for b in range(g["n"], 0, -1):
            if g["idom"][b - 1] != 0:
                g["idom"][b - 1] = 0
                return g
    if how == "dominees":
        for a in range(g["n"]):
            if g["dominees"][a]:
                g["dominees"][a] = g["dominees"][a][:-1]
                return g
    if how == "preorder":
        # swap the first two blocks: the entry no longer comes first (base has no second root)
        if g["n"] >= 2:
            g["preorder"] = [g["preorder"][1], g["preorder"][0]] + g["preorder"][2:]
            return g
    if how == "postorder":
        if g["n"] >= 2:
            g["postorder"] = g["postorder"][:-2] + [g["postorder"][-1], g["postorder"][-2]]
            return g
    return None


NEG_HOWS = ["dominates+", "dominates-", "idom", "dominees", "preorder", "postorder"]
NEG_WANT = {"dominates+": "Dominates", "dominates-": "Dominates", "idom": "Idom", "dominees": "Dominees",
            "preorder": "DomPreorder", "postorder": "DomPostorder"}


# a hand-written record with correct answers (independent of the code under test):
#   1 -> 2,3   2 -> 4   3 -> 4   4 -> 5,6   5 -> 4   6 -> (return)
NEG_BASE = {
    "name": "NEGBASE", "mode": "synthetic", "n": 6,
    "succs": [[2, 3], [4], [4], [5, 6], [4], []], "preds": [[], [1], [1], [2, 3, 5], [4], [4]],
    "recover": 0, "idom": [0, 1, 1, 1, 4, 4], "dominees": [[2, 3, 4], [], [], [5, 6], [], []],
    "dom": [[1, 1], [1, 2], [1, 3], [1, 4], [1, 5], [1, 6], [2, 2], [3, 3], [4, 4], [4, 5], [4, 6], [5, 5], [6, 6]],
    "preorder": [1, 2, 3, 4, 5, 6], "postorder": [2, 3, 5, 6, 4, 1],
    "count": 1, "others": [], "comments": ["", "", "", "", "", ""], "index_ok": True, "err": "",
}


def negative_records(fns):
    """The hand-written base record (must be accepted) and corrupted copies of it, one per kind of
    answer (each must be rejected for the right law); they travel through the same TLC run as the
    real records."""
    out = [json.loads(json.dumps(NEG_BASE))]
    for h in NEG_HOWS:
        g = corrupt(NEG_BASE, h)
        if g is None:
            raise Inconclusive("negative self-test: cannot corrupt %s" % h)
        g["name"] = "NEG:%s" % h
        out.append(g)
    return out


def split_negatives(failures, negs):
    """Remove the expected rejections of the corrupted records; complain if one was accepted."""
    got = {f["fn"]["name"]: f for f in failures if f["fn"]["name"].startswith("NEG")}
    if "NEGBASE" in got:
        raise Inconclusive("negative self-test: the correct hand-written record was rejected: %s" % got["NEGBASE"]["bad"][:3])
    for g in negs:
        if g["name"] == "NEGBASE":
            continue
        h = g["name"].split(":")[1]
        f = got.get(g["name"])
        if f is None or f["kind"] != "law" or NEG_WANT[h] not in set(w["law"] for w in f["bad"]):
            raise Inconclusive("negative self-test: corrupted %s answer was accepted (%s)" % (h, f))
    return [f for f in failures if not f["fn"]["name"].startswith("NEG")]


# ---------------------------------------------------------------------------------------------

def testdata_dirs():
    dirs = set()
    for root, _, files in os.walk(vlib.REPO):
        if "/testdata" not in root or "/.git" in root:
            continue
        if any(f.endswith(".go") for f in files):
            dirs.add(root)
    return sorted(dirs)


def shuffled(cases):
    """The same graphs written with their nodes in a seeded random order (entry first)."""
    return [dict(c, shuffle=True) for c in cases]


def big_cases(ctx, gen, n):
    """Graphs with up to 8 nodes from TLC's simulation mode on DomGen (random walks of the generator: every
    complete graph met is emitted); written with a shuffled layout.  The oracle facts are checked by TLC on each
    (DefinitionOK); the LT transcription is not evaluated at this size (DesignMax)."""
    r = vlib.run_tlc(ctx, "DomGen", "DomGen_sim8.cfg", workers=1, timeout=3000, simulate="num=%d" % (n * 2), depth=12, seed=ctx.seed)
    if r.violated:
        raise Inconclusive("DomGen simulation reports %s on the model" % r.violated)
    gen["DomGen_sim8.cfg"] = r
    seen, out = set(), []
    for c in r.cases:
        k = json.dumps([c["n"], c["succs"], c["recover"]])
        if k not in seen and c["n"] >= 5:
            seen.add(k)
            out.append(dict(c, shuffle=True))
    if len(out) < 50:
        raise Inconclusive("DomGen simulation produced only %d graphs with >= 5 nodes" % len(out))
    return vlib.sample(ctx, out, n)


def chain_cases(ctx, gen, layouts):
    """Every graph with <= 5 nodes on which step 4 of the dominator computation has a chain of deferred vertices to
    resolve (DomLT!LTDeferralChains, emitted by DomGen_chain5.cfg), each written in `layouts` seeded node orders: the
    order in which that step visits the blocks is observable on these graphs only."""
    r = vlib.run_tlc(ctx, "DomGen", "DomGen_chain5.cfg", workers=WORKERS, timeout=3000)
    vlib.tlc_require_ok(r, "DomGen/DomGen_chain5.cfg")
    if len(r.cases) < 100:
        raise Inconclusive("DomGen_chain5 emitted only %d graphs with deferral chains" % len(r.cases))
    gen["DomGen_chain5.cfg"] = r
    return [dict(c, shuffle=True) for c in r.cases for _ in range(layouts)]


def gen_cases(ctx, cfg, need_cases=True):
    extra = None
    if CAP:
        # capped smoke run: same config with the node bound lowered by one
        txt = open(os.path.join(vlib.SPECS, cfg)).read()
        txt = re.sub(r"MaxNodes = (\d+)", lambda m: "MaxNodes = %d" % max(2, int(m.group(1)) - 1), txt)
        extra = {cfg: txt}
    r = vlib.run_tlc(ctx, "DomGen", cfg, workers=WORKERS, timeout=6000, extra_files=extra)
    vlib.tlc_require_ok(r, "DomGen/" + cfg)
    if need_cases and not r.cases:
        raise Inconclusive("DomGen/%s emitted no graphs" % cfg)
    return r


def run(ctx):
    ctx.level = "model_checking"
    helper = vlib.go_build_harness(ctx, "cmd/h-irexport-dom")

    if ctx.replay:
        doc = json.load(open(ctx.replay))
        case = doc["case"]
        d = ctx.tmp("replay")
        if "source" in case:
            p = os.path.join(d, "r.go")
            with open(p, "w") as f:
                f.write("package r\n\n" + case["source"])
            out = run_export(ctx, helper, ["-both", "-src", p], os.path.join(d, "o.json"))
            if out["errors"]:
                raise Inconclusive("replay: builder errors: %s" % out["errors"][:3])
            fns = out["fns"]
        elif case.get("origin") == "repo-packages":
            pkg = case["function"].rsplit(".", 1)[0] if "/" not in case["function"].rsplit(".", 1)[-1] else case["function"]
            pkg = re.sub(r" \[.*\]$", "", case["pkg"]) if case.get("pkg") else pkg
            out = run_export(ctx, helper, ["-both", "-dir", vlib.REPO, "-pkgs", pkg], os.path.join(d, "o.json"), cwd=vlib.REPO)
            fns = [f for f in out["fns"] if f["name"] == case["function"]] or out["fns"]
        else:
            out = run_export(ctx, helper, ["-both", "-srcdir", case["function"].split(":")[0]], os.path.join(d, "o.json"))
            fns = [f for f in out["fns"] if f["name"] == case["function"]] or out["fns"]
        _, _, failures, _ = validate(ctx, fns, "replay", workers=2)
        report_failures(ctx, failures, case.get("origin", "replay"))
        return

    # 1. TLC: enumerate graphs, check the oracle and the LT transcription, emit cases
    gen = {}
    if ctx.quick:
        r4 = gen_cases(ctx, "DomGen_n4.cfg")
        rs = gen_cases(ctx, "DomGen_sw3.cfg")
        gen = {"DomGen_n4.cfg": r4, "DomGen_sw3.cfg": rs}
        small = [c for c in r4.cases if c["n"] - (1 if c["recover"] else 0) <= 3]
        four = [c for c in r4.cases if c["n"] - (1 if c["recover"] else 0) == 4]
        chosen = small + vlib.sample(ctx, four, 4000) + vlib.sample(ctx, rs.cases, 1500)
        chosen += shuffled(vlib.sample(ctx, four, 1200)) + big_cases(ctx, gen, 1000) + chain_cases(ctx, gen, 5)
        exhaustive_what = ("all %d rooted ordered digraphs with <= 3 nodes (out-degree <= 2, with/without recover) realised and validated; "
                           "seeded samples of the %d 4-node graphs and the %d one-switch graphs" % (len(small), len(four), len(rs.cases)))
        both = False
    else:
        r5 = gen_cases(ctx, "DomGen_n5.cfg")
        rs = gen_cases(ctx, "DomGen_sw.cfg")
        rs4 = gen_cases(ctx, "DomGen_sw4.cfg")
        rr = gen_cases(ctx, "DomGen_rec.cfg", need_cases=False)
        gen = {"DomGen_n5.cfg": r5, "DomGen_sw.cfg": rs, "DomGen_sw4.cfg": rs4, "DomGen_rec.cfg": rr}
        small = [c for c in r5.cases if c["n"] - (1 if c["recover"] else 0) <= 4]
        five = [c for c in r5.cases if c["n"] - (1 if c["recover"] else 0) == 5]
        chosen = small + rs.cases + vlib.sample(ctx, five, 30000) + vlib.sample(ctx, rs4.cases, 10000)
        chosen += shuffled(vlib.sample(ctx, five, 8000)) + big_cases(ctx, gen, 12000) + chain_cases(ctx, gen, 24)
        if CAP:
            chosen = vlib.sample(ctx, chosen, CAP)
        exhaustive_what = ("all %d rooted ordered digraphs with <= 4 nodes (out-degree <= 2, with/without recover) and all %d graphs with <= 3 nodes and one "
                           "switch of degree 3-4 realised and validated; seeded samples of the %d 5-node graphs and the %d 4-node one-switch graphs"
                           % (len(small), len(rs.cases), len(five), len(rs4.cases)))
        both = True
    ncases_emitted = sum(len(r.cases) for r in gen.values())
    gstates = sum(r.distinct for r in gen.values())
    ggen = sum(r.generated for r in gen.values())

    ctx.note("phase generate: %.0fs" % (__import__("time").time() - ctx.t0))
    # 2. realise + build with the real builder + export
    files, index = write_sources(ctx, chosen, "g")
    lst = os.path.join(ctx.tmp("src-g"), "files.txt")
    with open(lst, "w") as f:
        f.write("\n".join(files) + "\n")
    gdoc = run_export(ctx, helper, (["-both"] if both else []) + ["-dedup", "-src", "@" + lst], os.path.join(ctx.tmp("exp"), "gen.json"))
    hard = [e for e in gdoc["errors"] if not (e.startswith("PANIC") and "(lifted)" in e) and not e.startswith("FALLBACK")]
    if hard:
        # a generated program that does not build is a generator problem, never a violation
        raise Inconclusive("generated sources did not build: %s" % hard[:3])
    if gdoc["errors"]:
        # the builder itself crashed while lifting (it consumes the dominator tree); the answers were
        # exported from a naive-form build of the same sources and are judged below
        ctx.note("go/ir crashed while lifting %d generated packages; dominance answers taken from the naive-form build: %s"
                 % (len([e for e in gdoc["errors"] if e.startswith("PANIC")]), gdoc["errors"][0][:200]))
    if gdoc["total"] < (2 if both else 1) * len(chosen) and not gdoc["errors"]:
        raise Inconclusive("exported %d functions for %d generated graphs" % (gdoc["total"], len(chosen)))
    gfns = gdoc["fns"]

    ctx.note("phase export-generated: %.0fs" % (__import__("time").time() - ctx.t0))
    # 3. corpora: repository packages and testdata packages
    pats = ["./go/...", "./analysis/...", "./pattern/...", "./unused/..."] if ctx.quick else ["./..."]
    if CAP:
        pats = ["./go/ir/...", "./analysis/dfa/..."]
    pargs = ["-dedup", "-dir", vlib.REPO]
    if not ctx.quick:
        pargs += ["-both", "-tests"]
    for p in pats:
        pargs += ["-pkgs", p]
    pdoc = run_export(ctx, helper, pargs, os.path.join(ctx.tmp("exp"), "pkgs.json"), cwd=vlib.REPO)
    phard = [e for e in pdoc["errors"] if not (e.startswith("PANIC") and "(lifted)" in e) and not e.startswith("FALLBACK")]
    if phard:
        raise Inconclusive("building the repository's packages failed: %s" % phard[:3])
    if pdoc["errors"]:
        ctx.note("go/ir crashed while lifting the repository's packages; answers taken from the naive-form build")
    if pdoc["total"] < (500 if not CAP else 50):
        raise Inconclusive("corpus export found only %d functions" % pdoc["total"])
    dirs = testdata_dirs()
    if ctx.quick or CAP:
        dirs = vlib.sample(ctx, dirs, 100 if not CAP else 20)
    dl = os.path.join(ctx.tmp("exp"), "dirs.txt")
    with open(dl, "w") as f:
        f.write("\n".join(dirs) + "\n")
    targs = ["-dedup", "-srcdir", "@" + dl] + ([] if ctx.quick else ["-both"])
    tdoc = run_export(ctx, helper, targs, os.path.join(ctx.tmp("exp"), "td.json"))
    if tdoc["errors"]:
        ctx.note("testdata packages the builder could not build (not judged): %s" % tdoc["errors"][:3])

    ctx.note("phase export-corpora: %.0fs" % (__import__("time").time() - ctx.t0))
    # 4. TLC evaluates the definition on every recorded function (+ the corrupted records of the
    #    negative self-test, which must all be rejected)
    negs = negative_records(pdoc["fns"] + gfns)
    groups = (("generated", gfns), ("repo-packages", pdoc["fns"]), ("testdata", tdoc["fns"]), ("negative", negs))
    allf, origin = [], []
    for tag, fns in groups:
        allf += fns
        origin += [tag] * len(fns)
    st, gn, failures, wall = validate(ctx, allf, "all records")
    failures = split_negatives(failures, negs)
    o_of = {id(f): o for f, o in zip(allf, origin)}
    unusable = []
    for tag, _ in groups[:3]:
        unusable += report_failures(ctx, [f for f in failures if o_of[id(f["fn"])] == tag], tag, index if tag == "generated" else None)
    if unusable:
        # blocks that are unreachable from both roots / malformed records: builder-contract (C02), not C14
        ctx.note("records not meeting buildDomTree's precondition (all blocks reachable): %s" % [u["name"] for u in unusable[:5]])

    nrec = sum(1 for f in gfns if f["recover"])
    sizes = {}
    for f in allf:
        sizes[f["n"]] = sizes.get(f["n"], 0) + 1
    sample_fn = next((f for f in pdoc["fns"] if f["n"] >= 6), pdoc["fns"][-1])
    ctx.coverage = {
        "states": gstates + st,
        "transitions": ggen + gn,
        "traces_validated_against_impl": gdoc["total"] + pdoc["total"] + tdoc["total"],
        "exhaustive": False,
        "exhaustive_what": exhaustive_what,
        "generator": {c: {"states": r.distinct, "graphs_emitted": len(r.cases), "wall_s": round(r.wall, 1)} for c, r in gen.items()},
        "generator_invariants": ["DefinitionOK (pairwise definition, forest order, Kildall characterisation)",
                                 "LTCorrect (transcribed buildDomTree/numberDomTree satisfies all laws)", "LawsDiscriminate"],
        "abstract_graphs_emitted": ncases_emitted,
        "abstract_graphs_realised": len(chosen),
        "functions_built_from_generated_graphs": gdoc["total"],
        "distinct_generated_artefacts": len(gfns),
        "generated_artefacts_with_recover_root": nrec,
        "corpus_functions_repo_packages": pdoc["total"],
        "corpus_functions_testdata": tdoc["total"],
        "corpus_skipped_over_%d_blocks" % MAXBLOCKS: pdoc["skipped"] + tdoc["skipped"],
        "testdata_dirs_built": tdoc.get("dirs_built"), "testdata_dirs_skipped": tdoc.get("dirs_skipped"),
        "validation": {"artefacts": len(allf), "states": st, "wall_s": round(wall, 1),
                       "by_origin": {tag: len(fns) for tag, fns in groups},
                       "rejected": len([f for f in failures if f["kind"] == "law"])},
        "blocks_histogram": {str(k): sizes[k] for k in sorted(sizes)},
        "negative_selftests_rejected": len(negs) - 1,
        "samples": [chosen[len(chosen) // 2], {"source": index[sorted(index)[len(index) // 2]][1]},
                    {k: sample_fn[k] for k in ("name", "mode", "n", "succs", "recover", "idom", "dominees", "preorder", "postorder")}],
        "trusted_base": ["TLC", "go toolchain, go/types", "h-irexport-dom reads only exported go/ir API"],
    }
    ctx.assumptions = [
        "a control-flow path is a path along BasicBlock.Succs; the root of a block is the entry if it is reachable from it, else Function.Recover",
        "only CFGs the real builder produces are judged (no direct graph injection); identical (CFG, answers) artefacts are validated once",
        "generated graphs: bounds of the DomGen configs; corpus functions with more than %d blocks are skipped" % MAXBLOCKS,
    ]
