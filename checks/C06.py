"""C06 - Deterministic, schedule-independent, race-free linting.

Spec: specs/Runner.tla (two-level scheduler of lintcmd/runner: package DAG + analyzer DAG, atomic
pending counters, failed flags, unbuffered / buffered queues with blocked senders, one shared
semaphore, goroutine vs inline execution of analyzers).

1. TLC, exhaustive (specs/MCRunner.tla): every package DAG on <= 3 nodes x root sets x failure
   placements x capacities 1..3 with a live analyzer level (P3), every analyzer DAG on <= 3 nodes incl.
   a duplicated prerequisite (A3), two-level shapes (X*), and in the thorough tier every package DAG on
   4 nodes (P4), every analyzer DAG on 4 nodes (A4), diamonds over analyzer chains (X4).  Invariants:
   ExecAfterDeps, ExactlyOnce, SemBound, NoSpuriousFailure, FailurePropagates, ResultIsFunctionOfGraph,
   NoSendOnClosed, SendNeverBlocks, InlineUnderPackageToken; TLC's deadlock check; termination under
   weak fairness (Live*).
2. Conformance R+T on TLC-enumerated graphs (family H): each graph is realised as a Go module +
   synthetic analyzers and pushed through the REAL runner.Run (harness/cmd/h-runner) with the
   semaphore capacity of the case and seeded yields; the real results must equal the result the
   specification predicts (WantFinal), and the event log of every run must be accepted by
   specs/RunnerTrace.tla (strict refinement, Runner's invariants evaluated along the log) and by the
   monitors of specs/RunnerMon.tla.
3. Conformance T on the real `staticcheck` (all analyzers) over a 5-package fixture with fact
   producer -> consumer dependencies: event logs for GOMAXPROCS in {1,2,4,16} x yield seeds.
4. Property-level oracle: byte-identical text / JSON output and exit status across repeated runs x
   GOMAXPROCS x yield seeds x subsets and orders of the command-line patterns (the problems of a package
   must not depend on which other packages are named); a hang counts as a differing output.
5. A `-race` build of staticcheck on the same fixture (yields on, tracing off: the tracer would add
   synchronisation): any reported data race is a violation.
"""
import itertools
import json
import os
import re
import shutil
import subprocess
import time

import runnertrace as rt
import vlib
from vlib import Inconclusive

FIXTURE = {
    "go.mod": "module ex.test/m\n\ngo 1.22\n",
    "base/base.go": """package base

// Old is the old entry point.
//
// Deprecated: use New instead.
func Old() int { return 1 }

// New is the new entry point.
func New() int { return 2 }

// Pure has no side effects.
func Pure(x int) int { return x * 2 }

// T is a type with a deprecated method.
type T struct{ N int }

// Get returns N.
//
// Deprecated: read N directly.
func (t T) Get() int { return t.N }

func unusedBase() {}

// Conf has a deprecated field: a fact about an object that is not package-level.
type Conf struct {
	// Name is the name.
	Name string
	// Legacy is the old name.
	//
	// Deprecated: use Name.
	Legacy string
}

// Store has a deprecated interface method.
type Store interface {
	Load() int
	// Fetch is the old Load.
	//
	// Deprecated: use Load.
	Fetch() int
}

// KV wants an even number of arguments: a fact about a parameter.
func KV(name string, kv ...interface{}) int {
	if len(kv)%2 != 0 {
		panic("odd number of arguments")
	}
	return len(name) + len(kv)
}

// KVs forwards to KV: a second parameter fact that depends on the first.
func KVs(kv []interface{}) int { return KV("x", kv...) }
""",
    "util/util.go": """package util

// Twice is pure as well.
func Twice(x int) int { return x + x }

// Same compares a value with itself.
func Same(x int) bool {
	return x == x
}

type pair struct {
	a, b int
}

func mk() pair { return pair{a: 1, b: 2} }

// Sum uses pair.
func Sum() int {
	p := mk()
	return p.a + p.b
}
""",
    "mid/mid.go": """package mid

import (
	"ex.test/m/base"
	"ex.test/m/util"
)

// Wrap wraps pure functions of two dependencies and stays pure.
func Wrap(x int) int { return base.Pure(x) + util.Twice(x) }

// Use calls a deprecated function and discards a pure result.
func Use() int {
	base.Pure(3)
	return base.Old()
}

// Old2 reads a deprecated field, calls a deprecated interface method and passes an odd number of arguments.
func Old2(c base.Conf, s base.Store) int {
	return len(c.Legacy) + s.Fetch() + base.KV("a", 1, 2, 3) + base.KVs([]interface{}{1})
}

// Loop has a redundant condition.
func Loop(xs []int) int {
	n := 0
	for i := range xs {
		if xs[i] == xs[i] {
			n++
		}
	}
	return n
}
""",
    "top/top.go": """package top

import (
	"ex.test/m/base"
	"ex.test/m/mid"
)

// Run exercises facts that crossed two package boundaries.
func Run() int {
	mid.Wrap(1)
	var t base.T
	if t.Get() == 0 {
		return mid.Use()
	}
	return base.New()
}

func helper() int { return 0 }

// Redundant has a needlessly complex boolean.
func Redundant(b bool) bool {
	if b == true {
		return true
	}
	return false
}
""",
    "side/side.go": """package side

//lint:file-ignore SA4000 the same problem is also covered by a line directive below (two directives, one problem)

import "ex.test/m/util"

// Calc ignores the result of a pure function from a dependency.
func Calc(x int) int {
	util.Twice(x)
	var s []int
	for _, v := range []int{1, 2, 3} {
		s = append(s, v)
	}
	return len(s)
}

type unusedType struct{}

// Twin is covered by the file-wide directive and by its own line directive; both count as matched,
// whatever the order in which the directives are met.
func Twin(x int) bool {
	//lint:ignore SA4000 covered twice on purpose
	return x == x
}

// Thrice carries two line directives for one problem.
func Thrice(x int) bool {
	//lint:ignore SA4000 first of two
	//lint:ignore SA4000,S1008 second of two
	if x != x {
		return true
	}
	return false
}
""",
}
PKGS = ["base", "util", "mid", "top", "side"]
# triggers the fixture must produce (fact-based ones prove that facts crossed package boundaries)
EXPECT = [("mid/mid.go", "SA1019"), ("mid/mid.go", "SA5012"), ("mid/mid.go", "SA4017"), ("top/top.go", "SA4017"), ("top/top.go", "SA1019"),
          ("side/side.go", "SA4017"), ("base/base.go", "U1000"), ("util/util.go", "SA4000")]


def write_fixture(d):
    for name, text in FIXTURE.items():
        p = os.path.join(d, name)
        os.makedirs(os.path.dirname(p), exist_ok=True)
        with open(p, "w") as f:
            f.write(text)


class Env:
    """Everything a fixture run needs."""

    def __init__(self, ctx):
        import threading
        self.ctx = ctx
        self.fx = ctx.tmp("fixture")
        write_fixture(self.fx)
        self.n = 0
        self.lock = threading.Lock()

    def run(self, binary, patterns, fmt="text", gomaxprocs=None, yseed=None, trace=None, timeout=300, ylong=False):
        with self.lock:
            self.n += 1
            n = self.n
        cache = os.path.join(self.ctx.scratch, "sc-cache", "c%d" % n)
        os.makedirs(cache, exist_ok=True)
        extra = {"STATICCHECK_CACHE": cache}
        if gomaxprocs:
            extra["GOMAXPROCS"] = str(gomaxprocs)
        if yseed:
            extra["VERIF_YIELD_SEED_RUNNER"] = str(yseed)
        if yseed and ylong:
            # late completions (verifHoldBack): analyzers that usually finish long before another one starts
            # are no longer ordered before it by the scheduler's hand-off
            extra["VERIF_YIELD_LONG"] = "1"
        if trace:
            extra["VERIF_TRACE_RUNNER"] = trace
        env = vlib.go_env(extra)
        for k in ("VERIF_TRACE", "VERIF_YIELD_SEED"):
            env.pop(k, None)
        argv = [binary, "-checks", "all", "-f", fmt] + ["./" + p for p in patterns]
        t0 = time.time()
        try:
            p = subprocess.run(argv, cwd=self.fx, env=env, stdout=subprocess.PIPE, stderr=subprocess.PIPE,
                               text=True, timeout=timeout)
            rc, so, se = p.returncode, p.stdout, p.stderr
            hung = False
        except subprocess.TimeoutExpired as e:
            rc, so, se, hung = -1, (e.stdout or b"").decode(errors="replace") if isinstance(e.stdout, bytes) else (e.stdout or ""), "", True
        finally:
            shutil.rmtree(cache, ignore_errors=True)
        return {"argv": argv[1:], "gomaxprocs": gomaxprocs, "yseed": yseed, "ylong": bool(yseed and ylong), "fmt": fmt, "rc": rc, "out": so,
                "err": se, "hung": hung, "wall": time.time() - t0, "patterns": list(patterns)}


def pkg_of_line(fmt, line):
    if fmt == "json":
        try:
            f = json.loads(line)["location"]["file"]
        except Exception:
            return None
        return os.path.basename(os.path.dirname(f))
    m = re.match(r"^([^/:]+)/", line)
    return m.group(1) if m else None


def expected_for(baseline_out, fmt, patterns):
    keep = set(patterns)
    return "".join(l + "\n" for l in baseline_out.splitlines() if pkg_of_line(fmt, l) in keep)


# ---------------------------------------------------------------------------------------------------


def cap():
    """VERIF_CAP=<n> caps the case counts of the thorough tier (to exercise its code path cheaply)"""
    try:
        return int(os.environ.get("VERIF_CAP", "0"))
    except ValueError:
        return 0


def tlc_exhaustive(ctx):
    fams = ["P3", "A3", "Xq", "LiveQ"] if ctx.quick else ["P3", "A3", "X", "X4", "P4", "A4", "Live"]
    if not ctx.quick and cap():
        fams = ["A3", "X4", "LiveQ"]
    w = 4 if ctx.quick else 6

    def one(f):
        return f, vlib.run_tlc(ctx, "MCRunner", "MCRunner_%s.cfg" % f, workers=w, timeout=3000 if ctx.quick else 7200,
                               coverage=False, keep_cases=False)
    res = vlib.pmap(one, fams, workers=2)
    out = {}
    for f, r in res:
        vlib.tlc_require_ok(r, "Runner.tla family %s" % f)
        if r.distinct < 1000:
            raise Inconclusive("family %s explored only %d states" % (f, r.distinct))
        out[f] = {"states": r.distinct, "transitions": r.generated, "wall_s": round(r.wall, 1)}
    return out


def harness_binding(ctx, helper, nsample, seeds):
    """R + T on TLC-enumerated graphs through the real runner.Run."""
    r = vlib.run_tlc(ctx, "MCRunner", "MCRunner_Hq.cfg" if ctx.quick else "MCRunner_H.cfg", workers=1, timeout=1800)
    vlib.tlc_require_ok(r, "generation of family H")
    cases = [c for c in r.cases if "fail" not in c["desc"]["md"]]
    if len(cases) < 50:
        raise Inconclusive("family H produced only %d cases" % len(cases))
    # cover: every package shape x analyzer shape once, then a seeded sample
    cover, seen = [], set()
    for c in cases:
        k = (json.dumps(c["desc"]["d"]), json.dumps(c["desc"]["ad"]), json.dumps(c["desc"]["I"]))
        if k not in seen and not c["desc"]["B"]:
            seen.add(k)
            cover.append(c)
    rest = [c for c in cases if c not in cover]
    chosen = vlib.sample(ctx, cover, nsample // 2) + vlib.sample(ctx, rest, nsample - min(len(cover), nsample // 2))
    stats = {"cases_generated": len(r.cases), "cases_replayed": len(chosen), "runs": 0, "mismatches": 0,
             "gen_wall_s": round(r.wall, 1)}
    traces = []

    def one(seed):
        d = ctx.tmp("h-%d" % seed)
        with open(os.path.join(d, "cases.ndjson"), "w") as f:
            for i, c in enumerate(chosen):
                dd = dict(c["desc"])
                dd["idx"] = i
                f.write(json.dumps(dd) + "\n")
        tr = os.path.join(d, "trace.ndjson")
        env = vlib.go_env({"VERIF_TRACE_RUNNER": tr})
        if seed:
            env["VERIF_YIELD_SEED_RUNNER"] = str(seed)
        for k in ("VERIF_TRACE", "VERIF_YIELD_SEED"):
            env.pop(k, None)
        try:
            p = subprocess.run([helper, "-cases", os.path.join(d, "cases.ndjson"), "-dir", os.path.join(d, "w"), "-reps", "1"],
                               env=env, stdout=subprocess.PIPE, stderr=subprocess.PIPE, text=True, timeout=1800)
        except subprocess.TimeoutExpired:
            return seed, None, None, "timeout"
        return seed, p, tr, None

    for seed, p, tr, err in vlib.pmap(one, seeds, workers=4):
        if err or p.returncode != 0:
            # the real scheduler hung or crashed on a legal graph
            done = len(p.stdout.splitlines()) if p else 0
            case = chosen[min(done, len(chosen) - 1)] if chosen else {}
            ctx.violation(vlib.canon_key({"harness": case.get("desc"), "how": "hang/crash"}),
                          "runner.Run hung or crashed on a TLC-enumerated graph (yield seed %s): %s" % (seed, (err or p.stderr[-800:])),
                          {"kind": "harness", "desc": case.get("desc"), "seed": seed, "stderr": (p.stderr[-2000:] if p else "")})
            continue
        outs = [json.loads(l) for l in p.stdout.splitlines()]
        for o in outs:
            stats["runs"] += 1
            if o["kind"] != "main":
                continue
            c = chosen[o["case"]]
            want_failed = sorted(c["failed"])
            want = {pk: [[e["an"], " ".join(sorted(e["res"]))] for e in lst if e["res"]]
                    for pk, lst in (c["out"].items() if isinstance(c["out"], dict) else [])}
            if o["err"] or o["failed"] != want_failed or o["diags"] != want:
                stats["mismatches"] += 1
                ctx.violation(vlib.canon_key({"harness": c["desc"]}),
                              "runner.Run result differs from Runner.tla WantFinal (seed %s): got failed=%s diags=%s err=%r, want failed=%s diags=%s"
                              % (seed, o["failed"], o["diags"], o["err"], want_failed, want),
                              {"kind": "harness", "desc": c["desc"], "seed": seed, "observed": o, "want": {"failed": want_failed, "diags": want}})
        tis = rt.analyse_file(tr, "h-seed%s" % seed)
        if len(tis) != len(outs):
            raise Inconclusive("h-runner made %d runs but the trace has %d" % (len(outs), len(tis)))
        for ti, o in zip(tis, outs):
            ti.meta = {"kind": "harness", "seed": seed, "desc": chosen[o["case"]]["desc"], "run": o["run"], "run_kind": o["kind"]}
        traces.extend(tis)
    return traces, stats, chosen


def judge_traces(ctx, traces, big, stats, what):
    """strict refinement + monitors; VIOLATION for property monitors, drift otherwise."""
    if not traces:
        return
    mres, mst = rt.run_monitor(ctx, traces)
    sres, sst = rt.run_strict(ctx, traces, big=big)
    stats.setdefault("tlc_trace_states", 0)
    stats["tlc_trace_states"] += mst["states"] + sst["states"]
    stats.setdefault("trace_events", 0)
    stats["trace_events"] += sum(t.n_events for t in traces)
    stats.setdefault("traces", 0)
    stats["traces"] += len(traces)
    stats.setdefault("reordered_events", 0)
    stats["reordered_events"] += sum(t.reordered for t in traces)
    stats.setdefault("trace_wall_s", 0)
    stats["trace_wall_s"] = round(stats["trace_wall_s"] + mst["wall"] + sst["wall"], 1)
    for t, m, s in zip(traces, mres, sres):
        meta = getattr(t, "meta", {})
        if not m["ok"]:
            name = m["monitor"]
            case = {"kind": "trace", "what": what, "meta": meta, "monitor": name, "event": m.get("event"), "context": m.get("context")}
            if name in ("ExecAfterDeps", "ExactlyOnce", "ResultOrder", "Incomplete"):
                ctx.violation(vlib.canon_key({"monitor": name, "ev": (m.get("event") or {}).get("ev"), "what": what}),
                              "recorded run violates %s of Runner.tla at event %s (%s)" % (name, m.get("event"), t.label), case)
            elif name in ("NoSpuriousFailure", "FailurePropagates"):
                # failure semantics belong to C03; for C06 they matter as schedule-dependence of the result
                ctx.violation(vlib.canon_key({"monitor": name, "what": what}),
                              "recorded run violates %s of Runner.tla at event %s (%s)" % (name, m.get("event"), t.label), case)
            else:
                stats.setdefault("drift", []).append({"trace": t.label, "monitor": name, "event": m.get("event")})
                ctx.note("drift: monitor %s fired on %s at %s" % (name, t.label, m.get("event")))
        if s.get("ok") is False:
            stats.setdefault("drift", []).append({"trace": t.label, "rejected": s.get("event"), "invariant": s.get("invariant"), "at": s.get("at")})
            if s.get("invariant") in ("ExecAfterDeps", "ExactlyOnce", "ResultIsFunctionOfGraph"):
                ctx.violation(vlib.canon_key({"invariant": s["invariant"], "what": what}),
                              "recorded run reaches a state violating %s (%s)" % (s["invariant"], t.label),
                              {"kind": "trace", "what": what, "meta": meta, "strict": s})
            else:
                ctx.note("drift: %s is not a behaviour of Runner.tla: event #%s %s (invariant %s)"
                         % (t.label, s.get("at"), s.get("event"), s.get("invariant")))
        if t.notes:
            stats.setdefault("drift", []).append({"trace": t.label, "notes": t.notes})


def negative_selftests(ctx, traces):
    """A corrupted log must be rejected by RunnerTrace and flagged by RunnerMon."""
    import copy
    base = next((t for t in traces if len(t.strict) > 40 and t.complete and not t.graph["cfailed"] and not t.errors
                 and any(t.graph["pdeps"][p] for p in t.graph["pkgs"])
                 and any(e["ev"] == "release" for e in t.strict)), None)
    if base is None:
        raise Inconclusive("no trace suitable for the negative self-tests")
    # (a) strict: retarget one decrement
    t1 = copy.deepcopy(base)
    decs = [i for i, e in enumerate(t1.strict) if e["ev"] == "dec" and e["a"] == ""]
    i = decs[len(decs) // 2]
    others = [p for p in t1.graph["pkgs"] if p != t1.strict[i]["tp"]]
    t1.strict[i]["tp"] = others[0] if others else rt.ROOT
    # (b) strict: drop one release
    t2 = copy.deepcopy(base)
    rel = [i for i, e in enumerate(t2.strict) if e["ev"] == "release"]
    del t2.strict[rel[len(rel) // 2]]
    res, _ = rt.run_strict(ctx, [t1, t2, base], big=False)
    if res[0].get("ok") is not False or res[1].get("ok") is not False or res[2].get("ok") is not True:
        raise Inconclusive("negative self-test: RunnerTrace accepted a corrupted log (or rejected the original): %s" % res)
    # (c) monitor: a dependent's start moved before the exec_end of its dependency
    t3 = copy.deepcopy(base)
    dep_of = {p: t3.graph["pdeps"][p] for p in t3.graph["pkgs"]}
    tgt = next(p for p in t3.graph["pkgs"] if dep_of[p])
    d = dep_of[tgt][0]
    si = next(i for i, e in enumerate(t3.raw) if e["ev"] == "start" and e["p"] == tgt and e["a"] == "")
    di = next(i for i, e in enumerate(t3.raw) if e["ev"] == "exec_end" and e["p"] == d and e["a"] == "")
    ev = t3.raw.pop(si)
    t3.raw.insert(di, ev)
    # (d) monitor: an action executed twice
    t4 = copy.deepcopy(base)
    bi = next(i for i, e in enumerate(t4.raw) if e["ev"] == "exec_begin" and e["a"] != "")
    t4.raw.insert(bi + 1, dict(t4.raw[bi]))
    # (e) monitor: a failed flag without cause
    t5 = copy.deepcopy(base)
    ei = next(i for i, e in enumerate(t5.raw) if e["ev"] == "exec_end" and e["a"] != "" and not e["flag"])
    t5.raw[ei]["flag"] = True
    res, _ = rt.run_monitor(ctx, [t3, t4, t5, base])
    got = [r.get("monitor") for r in res]
    if got[:3] != ["ExecAfterDeps", "ExactlyOnce", "NoSpuriousFailure"] or res[3]["ok"] is not True:
        raise Inconclusive("negative self-test: RunnerMon verdicts %s" % got)
    return 5


# ---------------------------------------------------------------------------------------------------


def fixture_oracle(ctx, env, sc, race_bin, stats):
    """byte-identical output across runs x GOMAXPROCS x yields x pattern subsets/orders; race detector."""
    base = {}
    for fmt in ("text", "json"):
        for attempt in range(3):
            b = env.run(sc, PKGS, fmt=fmt, timeout=1800)
            if not b["hung"] and b["rc"] in (0, 1):
                base[fmt] = b
                break
            if b["hung"] or "panic: " in b["err"] or "fatal error: " in b["err"]:
                # the linter itself crashed / hung on a legal input: not an infrastructure problem
                first = re.search(r"^(panic: .*|fatal error: .*)$", b["err"], re.M)
                ctx.violation(vlib.canon_key({"baseline-crash": (first.group(1) if first else "hang")[:80]}),
                              "staticcheck %s on the fixture with default settings: %s"
                              % ("hung" if b["hung"] else "crashed", first.group(1) if first else ""),
                              {"kind": "output", "run": {k: b[k] for k in ("argv", "gomaxprocs", "yseed", "fmt")},
                               "hung": b["hung"], "stderr": b["err"][:4000]})
            else:
                raise Inconclusive("baseline fixture run failed: rc=%s %s" % (b["rc"], b["err"][-1500:]))
        if fmt not in base:
            return None, 0      # every attempt crashed: reported above, nothing to compare against
    lost = [(f, chk) for f, chk in EXPECT
            if not any(l.startswith(f + ":") and "(%s)" % chk in l for l in base["text"]["out"].splitlines())]
    if lost or "(compile)" in base["text"]["out"]:
        # a broken fixture (infrastructure) gives the same wrong answer every time; a scheduling defect does not
        again = env.run(sc, PKGS, fmt="text", timeout=1800)
        if again["out"] != base["text"]["out"] or again["rc"] != base["text"]["rc"]:
            ctx.violation(vlib.canon_key({"patterns": PKGS, "kind": "output"}),
                          "two runs of staticcheck on the fixture with default settings print different problems",
                          {"kind": "output", "run": {k: again[k] for k in ("argv", "gomaxprocs", "yseed", "fmt")},
                           "expected": base["text"]["out"], "observed": again["out"], "stderr": again["err"][-1500:]})
            return None, 0
        if ctx.violations:
            return None, 0
        raise Inconclusive("fixture does not produce its baseline (lost %s):\n%s" % (lost, base["text"]["out"]))
    tmo = max(240.0, 60 * base["text"]["wall"])
    stats["baseline_wall_s"] = round(base["text"]["wall"], 2)
    stats["baseline_problems"] = len(base["text"]["out"].splitlines())

    configs = []
    procs = [1, 2, 4, 16]
    yseeds = [0] + [ctx.seed * 100 + k for k in (1, 2, 3)]
    # (1) full pattern list: repeated runs x GOMAXPROCS x yield seeds
    reps = 1 if ctx.quick else 3
    for r_ in range(reps):
        for gp in procs:
            for ys in (yseeds if not ctx.quick else yseeds[:3]):
                configs.append((PKGS, "json" if (gp + ys + r_) % 2 else "text", gp, ys))
    # (2) subsets and orders of the patterns
    subsets = []
    for k in range(1, len(PKGS) + 1):
        for comb in itertools.combinations(PKGS, k):
            subsets.append(list(comb))
    perms = []
    for s in subsets:
        if len(s) > 1:
            for pm in itertools.permutations(s):
                if list(pm) != s:
                    perms.append(list(pm))
    if ctx.quick:
        sel = subsets + vlib.sample(ctx, perms, 10)
    elif cap():
        sel = subsets + vlib.sample(ctx, perms, cap())
    else:
        sel = subsets + perms
    for i, s in enumerate(sel):
        configs.append((s, "json" if i % 2 else "text", procs[ctx.rng.randrange(4)], yseeds[ctx.rng.randrange(len(yseeds))]))

    def one(cfg):
        pats, fmt, gp, ys = cfg
        return env.run(sc, pats, fmt=fmt, gomaxprocs=gp, yseed=ys or None, timeout=tmo)
    results = vlib.pmap(one, configs, workers=6)
    stats["oracle_runs"] = len(results)
    stats["pattern_lists"] = len(sel)
    for r in results:
        want = expected_for(base[r["fmt"]]["out"], r["fmt"], r["patterns"])
        want_rc = 1 if want else 0
        key = {"patterns": r["patterns"], "kind": "output"}
        if r["hung"]:
            ctx.violation(vlib.canon_key(dict(key, hung=True, gp=r["gomaxprocs"])),
                          "staticcheck did not terminate within %.0fs (GOMAXPROCS=%s, yield seed %s, patterns %s); the same input takes %.1fs"
                          % (tmo, r["gomaxprocs"], r["yseed"], r["patterns"], base["text"]["wall"]),
                          {"kind": "output", "run": {k: r[k] for k in ("argv", "gomaxprocs", "yseed", "fmt")}, "hung": True})
        elif r["out"] != want or r["rc"] != want_rc:
            ctx.violation(vlib.canon_key(key),
                          "output for patterns %s (GOMAXPROCS=%s, yield seed %s, -f %s) differs from the problems of the same packages in the baseline run"
                          % (r["patterns"], r["gomaxprocs"], r["yseed"], r["fmt"]),
                          {"kind": "output", "run": {k: r[k] for k in ("argv", "gomaxprocs", "yseed", "fmt")},
                           "expected": want, "observed": r["out"], "rc": r["rc"], "stderr": r["err"][-1500:]})

    # (3) race detector
    rconfigs = [(PKGS, "text", gp, ys, False) for gp in (2, 4, 16) for ys in (yseeds[:2] if ctx.quick else yseeds)]
    # the same with late completions, more seeds: whether two given analyzers overlap depends on the seed
    rconfigs += [(PKGS, "text", gp, ctx.seed * 1000 + 17 * k + gp, True) for gp in (4, 16) for k in range(6 if ctx.quick else 24)]
    if not ctx.quick:
        rconfigs += [(s, "text", 4, yseeds[1], False) for s in vlib.sample(ctx, subsets, 8)]

    def rone(cfg):
        pats, fmt, gp, ys, ylong = cfg
        return env.run(race_bin, pats, fmt=fmt, gomaxprocs=gp, yseed=ys or None, timeout=max(600.0, 20 * tmo), ylong=ylong)
    rres = vlib.pmap(rone, rconfigs, workers=4) if race_bin else []
    stats["race_runs"] = len(rres)
    stats["race_runs_late_completions"] = len([c for c in rconfigs if c[4]]) if race_bin else 0
    for r in rres:
        if "WARNING: DATA RACE" in r["err"] or r["rc"] == 66:
            m = re.search(r"WARNING: DATA RACE\n(.*?)\n\n", r["err"], re.S)
            first = (m.group(1) if m else r["err"])[:1500]
            where = re.findall(r"^\s+(\S+\(\))?\s*\n?\s+(/\S+\.go:\d+)", r["err"], re.M)
            ctx.violation(vlib.canon_key({"race": sorted(set(w[1].split("/")[-1] for w in where[:4]))}),
                          "data race reported by the race detector (GOMAXPROCS=%s, yield seed %s): %s" % (r["gomaxprocs"], r["yseed"], first[:300]),
                          {"kind": "race", "run": dict({k: r[k] for k in ("argv", "gomaxprocs", "yseed", "fmt")}, ylong=r.get("ylong", False)), "report": r["err"][:6000]})
        elif r["hung"]:
            ctx.violation(vlib.canon_key({"race-hang": r["gomaxprocs"]}), "race build hung (GOMAXPROCS=%s)" % r["gomaxprocs"],
                          {"kind": "race", "run": {k: r[k] for k in ("argv", "gomaxprocs", "yseed", "fmt")}, "hung": True})
        else:
            want = expected_for(base["text"]["out"], "text", r["patterns"])
            if r["out"] != want:
                ctx.violation(vlib.canon_key({"patterns": r["patterns"], "kind": "output"}),
                              "output of the -race build differs from the baseline", {"kind": "output", "run": r["argv"], "expected": want, "observed": r["out"], "stderr": r["err"][-1500:]})
    return base, tmo


def fixture_traces(ctx, env, sc, tmo):
    cfgs = [(1, 0), (2, ctx.seed * 100 + 1), (4, ctx.seed * 100 + 2), (16, 0)]
    if not ctx.quick:
        cfgs += [(1, ctx.seed * 100 + 3), (2, 0), (4, 0), (16, ctx.seed * 100 + 1), (16, ctx.seed * 100 + 2), (3, ctx.seed * 100 + 4)]
    d = ctx.tmp("fx-traces")

    def one(c):
        gp, ys = c
        tr = os.path.join(d, "t-%d-%d.ndjson" % (gp, ys))
        r = env.run(sc, PKGS, fmt="text", gomaxprocs=gp, yseed=ys or None, trace=tr, timeout=tmo)
        return c, tr, r
    out = []
    for (gp, ys), tr, r in vlib.pmap(one, cfgs, workers=4):
        if r["hung"]:
            ctx.violation(vlib.canon_key({"hung-traced": gp}), "traced staticcheck run hung (GOMAXPROCS=%s, yield seed %s)" % (gp, ys),
                          {"kind": "output", "run": r["argv"], "hung": True})
            continue
        tis = rt.analyse_file(tr, "staticcheck-P%d-y%d" % (gp, ys))
        for t in tis:
            t.meta = {"kind": "fixture", "gomaxprocs": gp, "yseed": ys}
        out.extend(tis)
    return out


def run(ctx):
    ctx.level = "model_checking"
    if ctx.replay:
        return replay(ctx)
    t0 = time.time()
    stats = {}
    # VERIF_SKIP=tlc,race (development only: mutation trials on a scratch worktree) leaves out the exhaustive TLC
    # runs / the -race build; the evidence then says so and the run must not be used for registration
    skip = set(x for x in os.environ.get("VERIF_SKIP", "").split(",") if x)
    # builds first (the slowest part is independent of TLC)
    sc = vlib.go_build_repo(ctx, "./cmd/staticcheck", tags="verif")
    helper = vlib.go_build_harness(ctx, "cmd/h-runner")
    race_bin = None if "race" in skip else vlib.go_build_repo(ctx, "./cmd/staticcheck", tags="verif", race=True)
    stats["build_wall_s"] = round(time.time() - t0, 1)

    import threading
    tlc_out = {}
    tlc_err = []

    def bg():
        try:
            if "tlc" in skip:
                tlc_out["skipped"] = {"states": 0, "transitions": 0, "wall_s": 0}
                return
            tlc_out.update(tlc_exhaustive(ctx))
        except Exception as e:   # re-raised in the main thread
            tlc_err.append(e)
    th = threading.Thread(target=bg)
    th.start()

    env = Env(ctx)
    base, tmo = fixture_oracle(ctx, env, sc, race_bin, stats)
    if base is None:
        th.join()
        ctx.coverage = {"states": 1, "transitions": 1, "traces_validated_against_impl": 0,
                        "samples": [{"note": "the baseline run of the fixture crashed; see the violation"}]}
        return
    htraces, hstats, chosen = harness_binding(ctx, helper, 24 if ctx.quick else (cap() or 160),
                                              [0, ctx.seed * 10 + 1] if ctx.quick else [0] + [ctx.seed * 10 + k for k in (1, 2, 3)])
    stats["harness"] = hstats
    judge_traces(ctx, htraces, False, stats, "harness")
    ftraces = fixture_traces(ctx, env, sc, tmo)
    judge_traces(ctx, ftraces, True, stats, "fixture")
    nneg = negative_selftests(ctx, htraces)
    th.join()
    if tlc_err:
        raise tlc_err[0]

    sample_trace = htraces[0] if htraces else None
    ctx.coverage = {
        "states": sum(v["states"] for v in tlc_out.values()),
        "transitions": sum(v["transitions"] for v in tlc_out.values()),
        "traces_validated_against_impl": stats.get("traces", 0) + hstats["runs"] + stats.get("oracle_runs", 0) + stats.get("race_runs", 0),
        "exhaustive": True,
        "tlc_families": tlc_out,
        "tlc_invariants": ["TypeOK", "ExecAfterDeps", "ExactlyOnce", "SemBound", "NoSpuriousFailure", "FailurePropagates",
                           "ResultIsFunctionOfGraph", "NoSendOnClosed", "SendNeverBlocks", "InlineUnderPackageToken",
                           "deadlock-freedom (CHECK_DEADLOCK)", "Terminates under WF (Live*)"],
        "event_logs_validated": stats.get("traces", 0),
        "events_validated": stats.get("trace_events", 0),
        "events_reordered_by_linearizer": stats.get("reordered_events", 0),
        "tlc_trace_states": stats.get("tlc_trace_states", 0),
        "harness": hstats,
        "oracle_runs": stats.get("oracle_runs", 0),
        "pattern_lists": stats.get("pattern_lists", 0),
        "race_runs": stats.get("race_runs", 0),
        "negative_selftests": nneg,
        "skipped": sorted(skip),
        "drift": stats.get("drift", []),
        "baseline_wall_s": stats.get("baseline_wall_s"),
        "samples": [
            {"harness_case": chosen[0] if chosen else None},
            {"trace_head": (sample_trace.strict[:12] if sample_trace else [])},
            {"fixture_baseline_text": base["text"]["out"].splitlines()[:6]},
        ],
        "trusted_base": ["TLC", "go toolchain incl. race detector", "checks/runnertrace.py (graph reconstruction, linearizer)"],
    }
    ctx.assumptions = [
        "exhaustive bounds: package DAGs <= 3 nodes with a live analyzer level (quick) / <= 4 nodes (thorough, analyzer level abstracted for n = 4); analyzer DAGs <= 3 (quick) / <= 4 (thorough); capacities 1..3",
        "the buffered analyzer queue is modelled as an unordered buffer; trigger order and feeder order are nondeterministic (supersets of the real behaviours)",
        "data-race freedom is decided for the executions observed under the race detector (runner hooks do not synchronise when tracing is off)",
        "a hook logs one sequence number per event; the linearizer only adds orderings that are real-time facts of the execution (see checks/runnertrace.py)",
    ]


def replay(ctx):
    doc = json.load(open(ctx.replay))
    case = doc["case"]
    kind = case.get("kind")
    sc = vlib.go_build_repo(ctx, "./cmd/staticcheck", tags="verif")
    env = Env(ctx)
    if kind == "output":
        run_ = case.get("run") if isinstance(case.get("run"), dict) else {"argv": case.get("run"), "gomaxprocs": None, "yseed": None, "fmt": "text"}
        pats = [a[2:] for a in run_["argv"] if a.startswith("./")]
        base = env.run(sc, PKGS, fmt=run_["fmt"], timeout=900)
        bad = 0
        for _ in range(8):
            r = env.run(sc, pats, fmt=run_["fmt"], gomaxprocs=run_["gomaxprocs"], yseed=run_["yseed"], timeout=max(240, 60 * base["wall"]))
            if r["hung"] or r["out"] != expected_for(base["out"], run_["fmt"], pats):
                bad += 1
        if bad:
            ctx.violation(doc["key"], doc["what"], case)
        return
    if kind == "race":
        race_bin = vlib.go_build_repo(ctx, "./cmd/staticcheck", tags="verif", race=True)
        run_ = case["run"]
        pats = [a[2:] for a in run_["argv"] if a.startswith("./")]
        for _ in range(6):
            r = env.run(race_bin, pats, gomaxprocs=run_["gomaxprocs"], yseed=run_["yseed"], timeout=1800, ylong=run_.get("ylong", False))
            if "WARNING: DATA RACE" in r["err"] or r["hung"]:
                ctx.violation(doc["key"], doc["what"], case)
                return
        return
    # harness / trace cases: re-run the whole binding for the recorded graph
    helper = vlib.go_build_harness(ctx, "cmd/h-runner")
    desc = case.get("desc") or (case.get("meta") or {}).get("desc")
    if desc:
        d = ctx.tmp("replay")
        dd = dict(desc)
        dd["idx"] = 0
        with open(os.path.join(d, "cases.ndjson"), "w") as f:
            f.write(json.dumps(dd) + "\n")
        seed = case.get("seed") or (case.get("meta") or {}).get("seed") or 0
        tr = os.path.join(d, "trace.ndjson")
        e = vlib.go_env({"VERIF_TRACE_RUNNER": tr})
        if seed:
            e["VERIF_YIELD_SEED_RUNNER"] = str(seed)
        try:
            p = subprocess.run([helper, "-cases", os.path.join(d, "cases.ndjson"), "-dir", os.path.join(d, "w"), "-reps", "8"],
                               env=e, stdout=subprocess.PIPE, stderr=subprocess.PIPE, text=True, timeout=1200)
        except subprocess.TimeoutExpired:
            ctx.violation(doc["key"], doc["what"], case)
            return
        if p.returncode != 0:
            ctx.violation(doc["key"], doc["what"], case)
            return
        want = case.get("want")
        for l in p.stdout.splitlines():
            o = json.loads(l)
            if want and o["kind"] == "main" and (o["failed"] != want["failed"] or o["diags"] != want["diags"]):
                ctx.violation(doc["key"], doc["what"], case)
                return
        tis = rt.analyse_file(tr, "replay")
        st = {}
        judge_traces(ctx, tis, False, st, "harness")
    else:
        st = {}
        tis = fixture_traces(ctx, env, sc, 600)
        judge_traces(ctx, tis, True, st, "fixture")
