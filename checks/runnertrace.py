"""Shared by C06 and C03: turn the NDJSON event logs of lintcmd/runner's `verif` hooks into input for
specs/RunnerTrace.tla (strict refinement of Runner.tla) and specs/RunnerMon.tla (property monitors on
the raw log), run TLC on batches of logs and report per log what happened.

Trusted base of the binding (kept small on purpose):
  * split_runs / build_graph: reads the graph the run announced itself (run_begin, node, anode, abegin)
    plus the error events of the log (mode / afail), nothing else;
  * linearize: the hooks take ONE sequence number per event, before release-type operations and after
    acquire-type operations.  That orders every pair of events that the scheduler's own
    synchronisation orders, but two facts that the model relies on are only known from the event
    contents: (R1) of all `dec x -> t` events the one whose goroutine then logs `enqueue t` was the last
    decrement of t; (R2) a sender blocked in `queue <- t` on the unbuffered package queue resumes only
    after Run's loop received t, so `recv t` precedes the sender's next event.  linearize() computes the
    linear extension of (program order per goroutine) + (spawn, enqueue<recv, close<loop end) + R1 + R2
    that is closest to the sequence-number order (Kahn's algorithm, smallest seq first).  Every edge is
    a real-time fact of the recorded execution, so a linear extension exists for every real log; the
    monitors (RunnerMon) run on the raw, un-reordered log.
"""
import heapq
import json
import os

import vlib
from vlib import Inconclusive

ROOT = "$root"
AROOT = "$aroot"

STRICT_EVENTS = {"recv", "acquire", "rootclose", "start", "exec_end", "release", "dec", "enqueue",
                 "acquire_maybe", "finalize"}
GRAPH_EVENTS = {"run_begin", "node", "anode"}
CACHE_EVENTS = {"key", "keydep", "miss", "store", "cache_end"}


def load_events(path):
    evs = []
    with open(path) as f:
        for line in f:
            line = line.strip()
            if not line:
                continue
            try:
                evs.append(json.loads(line))
            except Exception:
                # a torn last line (process killed / crashed while writing) is not an event
                continue
    evs.sort(key=lambda e: e["seq"])
    return evs


def resolve_owners(evs):
    """The tracer drops its (analyzer action -> owning package) table when runAnalyzers collects the
    diagnostics; a root handler running in its own goroutine (and the last `done` of the handler that
    enqueued the root) may log after that and then carries the owner "?".  Such an event belongs to the
    package of the previous event of the same goroutine about the same analyzer."""
    last = {}
    for e in evs:
        if e.get("an"):
            k = (e["g"], e["an"])
            if e["pkg"] == "?":
                if k in last:
                    e["pkg"] = last[k]
            else:
                last[k] = e["pkg"]
        if e.get("tan") and e.get("tpkg") == "?":
            e["tpkg"] = e["pkg"]
    return evs


def split_runs(evs):
    resolve_owners(evs)
    runs = {}
    for e in evs:
        runs.setdefault(e["run"], []).append(e)
    return [runs[k] for k in sorted(runs) if k != 0]


class TraceInfo:
    """One run: graph + strict (linearized) events + raw events + structural notes."""

    def __init__(self):
        self.graph = None
        self.strict = []
        self.raw = []
        self.notes = []          # structural oddities (drift-level)
        self.complete = False    # a finalize event was logged
        self.label = ""
        self.errors = []         # error events: (ev, pkg, an, text)
        self.failed_pkgs = []
        self.n_events = 0
        self.reordered = 0


def build_graph(run):
    g = {}
    rb = [e for e in run if e["ev"] == "run_begin"]
    if len(rb) != 1:
        raise Inconclusive("trace without exactly one run_begin (%d)" % len(rb))
    rb = rb[0]
    nodes = {e["pkg"]: e for e in run if e["ev"] == "node"}
    anodes_ev = {e["an"]: e for e in run if e["ev"] == "anode"}
    abegin = {e["pkg"]: e for e in run if e["ev"] == "abegin"}
    pkgs = sorted(nodes)
    initial = list(rb["l"])
    pdeps = {p: list(nodes[p]["l"]) for p in pkgs}
    ptrig = {p: [] for p in pkgs}
    for p in pkgs:
        for d in pdeps[p]:
            ptrig[d].append(p)
    for p in initial:
        ptrig[p].append(ROOT)
    cfailed = [p for p in pkgs if nodes[p]["flag"]]
    adeps = {a: list(anodes_ev[a]["l"]) for a in anodes_ev}
    facts = sorted(a for a in anodes_ev if anodes_ev[a]["flag"])
    perr = set((e["pkg"]) for e in run if e["ev"] in ("exec_err", "loadfail") and e["an"] == "")
    aerr = sorted(set((e["pkg"], e["an"]) for e in run if e["ev"] == "exec_err" and e["an"] != ""))
    mode, anodes, atrig, aroots, bufcap = {}, {}, {}, {}, {}
    for p in pkgs:
        if p in abegin:
            mode[p] = "run"
            roots = list(abegin[p]["l"])
            seen, stack = set(), list(roots)
            while stack:
                a = stack.pop()
                if a in seen:
                    continue
                seen.add(a)
                stack.extend(adeps.get(a, []))
            anodes[p] = sorted(seen)
            aroots[p] = roots
            tr = {a: [] for a in seen}
            for a in seen:
                cnt = {}
                for d in adeps.get(a, []):
                    cnt[d] = cnt.get(d, 0) + 1
                    tr[d].append([a, cnt[d]])
            for a in roots:
                tr[a].append([AROOT, 1])
            tr["_"] = []
            atrig[p] = tr
            bufcap[p] = len(seen)
        else:
            mode[p] = "fail" if p in perr else "hit"
            anodes[p] = []
            aroots[p] = []
            atrig[p] = {"_": []}
            bufcap[p] = 0
    g = {
        "pkgs": pkgs, "pdeps": dict(pdeps, _=[]), "ptrig": dict(ptrig, _=[]), "initial": initial,
        "cfailed": cfailed, "mode": dict(mode, _="hit"), "anodes": dict(anodes, _=[]),
        "adeps": dict({a: sorted(set(v)) for a, v in adeps.items()}, _=[]),
        "apend": dict({a: len(v) for a, v in adeps.items()}, _=0), "atrig": dict(atrig, _={"_": []}), "aroots": dict(aroots, _=[]),
        "afail": [list(x) for x in aerr], "facts": facts, "cap": rb["n"], "bufcap": dict(bufcap, _=0),
        "pacts": [{"p": p, "a": ""} for p in pkgs + [ROOT]],
        "aacts": [{"p": p, "a": a} for p in pkgs for a in anodes[p] + ([AROOT] if mode[p] == "run" else [])],
    }
    notes = []
    for p in pkgs:
        if p in abegin and abegin[p]["n"] != len(anodes[p]):
            notes.append("abegin %s: len(all)=%d but closure of root.deps has %d analyzers" % (p, abegin[p]["n"], len(anodes[p])))
        if nodes[p]["flag"] and nodes[p]["n"] == 0 and not any(nodes[d]["flag"] for d in pdeps[p]):
            notes.append("node %s failed at construction without errors or failed dependency" % p)
    return g, notes


def _rec(e):
    return {"ev": e["ev"], "p": e["pkg"], "a": e["an"], "tp": e["tpkg"], "ta": e["tan"],
            "flag": bool(e["flag"]), "n": int(e["n"])}


def linearize(run):
    """Return (ordered strict events, number of events that moved)."""
    kept = [e for e in run if e["ev"] in STRICT_EVENTS and e["pkg"] != "?"]
    idx = {id(e): i for i, e in enumerate(kept)}
    n = len(kept)
    succ = [[] for _ in range(n)]
    indeg = [0] * n

    def edge(a, b):
        if a is None or b is None or a == b:
            return
        succ[a].append(b)
        indeg[b] += 1

    # program order per goroutine (among kept events)
    last_of_g = {}
    for i, e in enumerate(kept):
        g = e["g"]
        if g in last_of_g:
            edge(last_of_g[g], i)
        last_of_g[g] = i
    key = lambda p, a: (p, a)
    first_handler_ev = {}      # action -> index of its start / rootclose
    for i, e in enumerate(kept):
        if e["ev"] in ("start", "rootclose"):
            first_handler_ev.setdefault(key(e["pkg"], e["an"]), i)
    enq_of = {}                # target -> index of enqueue
    for i, e in enumerate(kept):
        if e["ev"] == "enqueue":
            enq_of.setdefault(key(e["tpkg"], e["tan"]), i)
    for i, e in enumerate(kept):
        ev = e["ev"]
        if ev == "acquire":
            edge(i, first_handler_ev.get(key(e["pkg"], "")))
        elif ev == "acquire_maybe":
            edge(i, first_handler_ev.get(key(e["pkg"], e["an"])))
            edge(enq_of.get(key(e["pkg"], e["an"])), i)              # enqueue < receive (buffered)
        elif ev == "recv":
            j = enq_of.get(key(e["pkg"], ""))
            if j is not None:
                edge(j, i)                                            # enqueue < recv (rendezvous)
                # R2: recv precedes the sender's next event
                g = kept[j]["g"]
                for k in range(j + 1, n):
                    if kept[k]["g"] == g:
                        edge(i, k)
                        break
        elif ev == "rootclose":
            if e["an"] == AROOT:
                # close(queue) < end of the package's range loop < exec_end of the package
                for k in range(i + 1, n):
                    if kept[k]["ev"] == "exec_end" and kept[k]["pkg"] == e["pkg"] and kept[k]["an"] == "":
                        edge(i, k)
                        break
            else:
                for k in range(i + 1, n):
                    if kept[k]["ev"] == "finalize":
                        edge(i, k)
                        break
    # R1: the decrement of the enqueuer is the last decrement of that target
    decs = {}
    for i, e in enumerate(kept):
        if e["ev"] == "dec":
            decs.setdefault(key(e["tpkg"], e["tan"]), []).append(i)
    for t, lst in decs.items():
        j = enq_of.get(t)
        if j is None:
            continue
        who = key(kept[j]["pkg"], kept[j]["an"])
        last = [i for i in lst if key(kept[i]["pkg"], kept[i]["an"]) == who and i < j]
        if not last:
            continue
        z = last[-1]
        for i in lst:
            if i != z:
                edge(i, z)
    # Kahn, smallest sequence number first
    heap = [(kept[i]["seq"], i) for i in range(n) if indeg[i] == 0]
    heapq.heapify(heap)
    out = []
    while heap:
        _, i = heapq.heappop(heap)
        out.append(i)
        for j in succ[i]:
            indeg[j] -= 1
            if indeg[j] == 0:
                heapq.heappush(heap, (kept[j]["seq"], j))
    if len(out) != n:
        return [_rec(e) for e in kept], -1     # cycle: should be impossible; treated as drift by the caller
    moved = sum(1 for pos, i in enumerate(out) if pos != i)
    return [_rec(kept[i]) for i in out], moved


def raw_records(run):
    out = []
    for e in run:
        ev = e["ev"]
        if ev in GRAPH_EVENTS or ev in CACHE_EVENTS or ev == "abegin" or e["pkg"] == "?":
            continue
        r = _rec(e)
        r["l"] = [str(x) for x in (e.get("l") or [])]
        r["l2"] = []
        if ev == "collect":
            ll = e.get("ll") or []
            r["l2"] = [str(x) for x in (ll[0] if ll and ll[0] else [])]
        out.append(r)
    return out


def analyse_run(run, label=""):
    ti = TraceInfo()
    ti.label = label
    ti.n_events = len(run)
    ti.graph, ti.notes = build_graph(run)
    ti.strict, ti.reordered = linearize(run)
    if ti.reordered < 0:
        ti.notes.append("linearize: cyclic constraints")
        ti.reordered = 0
    ti.raw = raw_records(run)
    unk = sum(1 for e in run if e["pkg"] == "?")
    if unk:
        ti.notes.append("%d events with unknown owner dropped" % unk)
    ti.complete = any(e["ev"] == "finalize" for e in run)
    ti.errors = [(e["ev"], e["pkg"], e["an"], e.get("s", "")) for e in run if e["ev"] in ("exec_err", "loadfail")]
    fin = [e for e in run if e["ev"] == "finalize"]
    ti.failed_pkgs = list(fin[0]["l"]) if fin else []
    return ti


def analyse_file(path, label=""):
    evs = load_events(path)
    return [analyse_run(r, "%s#%d" % (label or os.path.basename(path), i + 1)) for i, r in enumerate(split_runs(evs))]


# ---------------------------------------------------------------------------------------------------
# TLC batches
# ---------------------------------------------------------------------------------------------------

def _reset(k, strict=True):
    r = {"ev": "reset", "p": "", "a": "", "tp": "", "ta": "", "flag": False, "n": k}
    if not strict:
        r["l"], r["l2"] = [], []
    return r


def _ndjson(recs):
    return "".join(json.dumps(r, separators=(",", ":")) + "\n" for r in recs)


import re
_HW = re.compile(r'"HIGHWATER", (\d+), (\d+)')
_MONRES = re.compile(r'"MONRESULT", (<<.*>>)>>')
_MONTUP = re.compile(r'<<(\d+), "(\w+)", (\d+)>>')


def _batch(traces, todo, strict):
    graphs, log, starts = [], [], []
    for k, i in enumerate(todo):
        graphs.append(traces[i].graph)
        log.append(_reset(k + 1, strict))
        starts.append(len(log))           # 1-based index of the reset line that opens trace k
        log.extend(traces[i].strict if strict else traces[i].raw)
    log.append(_reset(1, strict))
    return graphs, log, starts


def run_strict(ctx, traces, timeout=1200, big=False):
    """Validate traces (list of TraceInfo) against RunnerTrace (strict refinement).
    Returns (per-trace list, stats).  Per trace: {"ok": True} or {"ok": False, "at": index of the rejected /
    violating event within the strict log, "event": record, "invariant": name or None, "context": [...]}.
    TLC stops at the first log that is not accepted; the remaining logs are validated in further runs."""
    results = [None] * len(traces)
    todo = list(range(len(traces)))
    st = {"states": 0, "transitions": 0, "wall": 0.0, "rounds": 0, "events": 0}
    while todo:
        st["rounds"] += 1
        if st["rounds"] > 10:
            for i in todo:
                results[i] = {"ok": None, "skipped": True}
            break
        graphs, log, starts = _batch(traces, todo, True)
        r = vlib.run_tlc(ctx, "RunnerTrace", "RunnerTraceBig.cfg" if big else "RunnerTrace.cfg", workers=1,
                         timeout=timeout, keep_cases=False,
                         extra_files={"graphs.ndjson": _ndjson(graphs), "trace.ndjson": _ndjson(log),
                                      "raw.ndjson": _ndjson([_reset(1, False)])})
        st["states"] += r.distinct
        st["transitions"] += r.generated
        st["wall"] += r.wall
        if not r.violated:
            m = _HW.search(r.out)
            if not m or int(m.group(1)) != len(log) + 1:
                raise Inconclusive("RunnerTrace: no violation but the log was not consumed:\n%s" % r.out[-2000:])
            st["events"] += len(log)
            for i in todo:
                results[i] = {"ok": True}
            break
        inv = None
        mi = re.search(r"Invariant (\w+) is violated", r.out)
        hw = None
        if mi:
            inv = mi.group(1)
            ls = re.findall(r"/\\ l = (\d+)", r.out)
            if ls:
                hw = int(ls[-1]) - 1          # the event consumed by the step into the violating state
        if hw is None:
            m = _HW.search(r.out)
            if not m:
                raise Inconclusive("RunnerTrace: TLC stopped without a high-water mark:\n%s" % r.out[-3000:])
            hw = int(m.group(1))              # first event that could not be consumed
        if hw > len(log):
            raise Inconclusive("RunnerTrace: violation %s but the log was consumed:\n%s" % (r.violated, r.out[-2000:]))
        ev = log[hw - 1]
        cands = [j for j in range(len(todo)) if starts[j] < hw]
        k = max(cands) if cands else 0        # a rejected reset belongs to the log it ends
        i = todo[k]
        for j in todo[:k]:
            results[j] = {"ok": True}
        results[i] = {"ok": False, "at": hw - starts[k] - 1, "event": ev, "invariant": inv,
                      "context": log[max(starts[k], hw - 8):hw + 1]}
        st["events"] += hw
        todo = todo[k + 1:]
    return results, st


def run_monitor(ctx, traces, timeout=1200):
    """Evaluate RunnerMon on the raw logs (one TLC run).  Per trace: {"ok": True} or
    {"ok": False, "monitor": name, "at": index in the raw log of the trace, "event": record, "context": [...]}."""
    todo = list(range(len(traces)))
    graphs, log, starts = _batch(traces, todo, False)
    r = vlib.run_tlc(ctx, "RunnerMon", "RunnerMon.cfg", workers=1, timeout=timeout, keep_cases=False,
                     extra_files={"graphs.ndjson": _ndjson(graphs), "raw.ndjson": _ndjson(log),
                                  "trace.ndjson": _ndjson([_reset(1, True)])})
    st = {"states": r.distinct, "transitions": r.generated, "wall": r.wall, "events": len(log)}
    pos = r.out.find('"MONRESULT"')
    if pos < 0 or r.distinct < len(log):
        raise Inconclusive("RunnerMon did not consume the logs (%d states for %d events):\n%s" % (r.distinct, len(log), r.out[-3000:]))
    results = [{"ok": True} for _ in traces]
    # TLC pretty-prints the register over several lines
    end = r.out.find("\nError:", pos)
    for ri, name, at in _MONTUP.findall(r.out[pos:end if end > 0 else len(r.out)]):
        ri, at = int(ri), int(at)
        # the verdict is written at the reset line that ENDS the log: the log starts at the previous reset
        k = max(j for j in range(len(todo)) if starts[j] < ri)
        results[todo[k]] = {"ok": False, "monitor": name, "at": at - starts[k] - 1,
                            "event": log[at - 1] if 0 < at <= len(log) else None,
                            "context": log[max(starts[k], at - 8):at + 1]}
    if r.violated and all(x["ok"] for x in results):
        raise Inconclusive("RunnerMon: TLC reports %s without a monitor verdict:\n%s" % (r.violated, r.out[-3000:]))
    return results, st
