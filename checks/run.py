#!/usr/bin/env python3
"""bin/check <ID> [--tier quick|thorough] [--replay path] -> dispatch to checks/<ID>.py:run(ctx)."""
import argparse
import importlib
import os
import sys
import traceback

sys.path.insert(0, os.path.join(os.path.dirname(os.path.abspath(__file__)), "..", "lib"))
sys.path.insert(0, os.path.dirname(os.path.abspath(__file__)))
import vlib  # noqa: E402


def main():
    ap = argparse.ArgumentParser()
    ap.add_argument("id")
    ap.add_argument("--tier", default=os.environ.get("VERIF_TIER", "quick"), choices=["quick", "thorough"])
    ap.add_argument("--replay", default=None)
    ap.add_argument("--keep", action="store_true", help="keep the scratch directory")
    a = ap.parse_args()
    try:
        seed = int(os.environ.get("VERIF_SEED", "1"))
    except ValueError:
        seed = 1
    ctx = vlib.Ctx(a.id, a.tier, seed, a.replay)
    rc = 0
    # Checks never edit the tree under test, but go commands that run inside it under GOFLAGS=-mod=mod (go/packages
    # loading the repository's own packages with their tests) may append missing go.mod hashes to its go.sum.
    # Keep the module files byte-identical: remember them and put them back if a go command touched them.
    guard = {}
    for fn in ("go.mod", "go.sum"):
        try:
            guard[fn] = open(os.path.join(vlib.REPO, fn), "rb").read()
        except OSError:
            pass
    try:
        mod = importlib.import_module(a.id)
        mod.run(ctx)
        if not a.replay:
            ctx.write_evidence()
        rc = 1 if ctx.violations else 0
    except vlib.Inconclusive as e:
        print("INCONCLUSIVE property=%s %s" % (a.id, e), flush=True)
        rc = 2
    except Exception:
        traceback.print_exc()
        print("INCONCLUSIVE property=%s internal error in the check" % a.id, flush=True)
        rc = 2
    finally:
        for fn, data in guard.items():
            try:
                if open(os.path.join(vlib.REPO, fn), "rb").read() != data:
                    open(os.path.join(vlib.REPO, fn), "wb").write(data)
                    print("note: %s of the tree under test was touched by a go command and has been restored" % fn, flush=True)
            except OSError:
                pass
        if a.keep:
            print("scratch kept at", ctx.scratch)
        else:
            ctx.cleanup()
    print("RESULT property=%s tier=%s seed=%d rc=%d violations=%d wall=%.1fs" %
          (a.id, a.tier, seed, rc, len(ctx.violations), __import__("time").time() - ctx.t0), flush=True)
    sys.exit(rc)


if __name__ == "__main__":
    main()
