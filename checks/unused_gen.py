"""Shared by C07 and C17: realisation of Unused.tla graphs as Go source, and the driver for h-unused.

A graph (as emitted by TLC from specs/Unused.tla) is {"objs": [...], "edges": [...], "must": [...], "model": [...]}
with objects [k, ex, ow, sl, ty] and body references [r, a, b, c] (1-based object indices, 0 = none).
Every kind / relation has exactly one template here; the identifier references a template produces are
what `Refs` in the spec says (the observation pass through UnusedObs.tla cross-checks the two).

Objects are identified by the position (file, line, column) of their defining identifier, never by name:
`render` returns that map for every rendering (permuted or not).
"""
import itertools
import json
import os
import subprocess

import vlib
from vlib import Inconclusive

FILES = ["a.go", "b.go", "c.go"]
INNER = ("field", "embed", "tparam")
SLOT = {1: "a", 2: "b"}
SLOTSET = {1: [1], 2: [2], 3: [1, 2]}


class Graph:
    def __init__(self, case):
        self.objs = [None] + list(case["objs"])          # 1-based
        self.edges = list(case["edges"])
        self.must = sorted(case.get("must", []))
        self.model = case.get("model")
        self.n = len(case["objs"])

    # --- vocabulary helpers (mirror Unused.tla part 1) ---
    def idx(self):
        return range(1, self.n + 1)

    def kind(self, i):
        return self.objs[i]["k"]

    def of(self, owner, kinds):
        return [i for i in self.idx() if self.objs[i]["k"] in kinds and self.objs[i]["ow"] == owner]

    def generic(self, i):
        return bool(self.of(i, ("tparam",)))

    def res(self, t):
        if t == 0:
            return 0
        return self.objs[t]["ty"] if self.objs[t]["k"] == "alias" else t

    def cgms(self):
        return [i for i in self.idx() if self.objs[i]["k"] == "cgm"]

    def units(self):
        us = [i for i in self.idx() if self.objs[i]["k"] not in INNER and self.objs[i]["k"] != "cgm"]
        c = self.cgms()
        if c:
            us.append(c[0])
        return sorted(us)

    def unit_of(self, i):
        o = self.objs[i]
        if o["k"] == "cgm":
            return self.cgms()[0]
        if o["k"] in INNER:
            return o["ow"]
        return i

    def holders(self):
        return [i for i in self.idx() if self.objs[i]["k"] in ("func", "methv", "methp")]

    # --- names ---
    def name(self, i):
        o = self.objs[i]
        k, ex = o["k"], o["ex"]
        if k in ("methv", "methp"):
            return ("M" if ex else "m") + SLOT[o["sl"]]
        if k == "field":
            return ("F" if ex else "f") + SLOT[o["sl"]]
        if k == "embed":
            return self.name(o["ty"])
        if k == "tparam":
            return "P%d" % i
        pre = {"struct": "t", "named": "n", "iface": "i", "alias": "a", "func": "f", "var": "v", "const": "c", "cgm": "g"}[k]
        return (pre.upper() if ex else pre) + str(i)

    def tyref(self, t):
        """A type expression naming declared type t (instantiated if generic)."""
        return self.name(t) + ("[int]" if self.generic(t) else "")

    def tyexpr(self, t):
        return "int" if t == 0 else "*" + self.tyref(t)

    def zero(self, t):
        return "0" if t == 0 else "nil"

    def by_value_embed(self, t):
        r = self.res(t)
        return r == 0 or self.objs[r]["k"] == "iface"

    # --- statements for body references ---
    def callee(self, b):
        o = self.objs[b]
        if o["k"] == "func":
            return self.name(b) + ("[int]" if self.generic(b) else "")
        return "new(%s).%s" % (self.tyref(o["ow"]), self.name(b))

    def stmt(self, e):
        r, a, b, c = e["r"], e["a"], e["b"], e["c"]
        ob = self.objs[b]
        if r == "call":
            return self.callee(b) + "()"
        if r == "read":
            if ob["k"] == "field":
                return "_ = new(%s).%s" % (self.tyref(ob["ow"]), self.name(b))
            return "_ = " + self.name(b)
        if r == "write":
            if ob["k"] == "field":
                return "new(%s).%s = %s" % (self.tyref(ob["ow"]), self.name(b), self.zero(ob["ty"]))
            return "%s = %s" % (self.name(b), self.zero(ob["ty"]))
        if r == "conv":
            return "_ = (*%s)(nil)" % self.tyref(b)
        if r == "sconv":
            return "_ = %s(%s{})" % (self.tyref(c), self.tyref(b))
        if r == "assign":
            return "var _ %s = new(%s)" % (self.tyref(c), self.tyref(b))
        if r == "mval":
            return "_ = " + self.callee(b)
        if r == "inst":
            if ob["k"] == "func":
                return "_ = %s[int]" % self.name(b)
            return "var _ *%s[int]" % self.name(b)
        if r == "retfn":
            return "_ = func() func() { return %s }" % self.callee(b)
        if r == "lit":
            return "_ = %s{%s: %s}" % (self.tyref(ob["ow"]), self.name(b), self.zero(ob["ty"]))
        if r == "psel":
            s = self.objs[b]["ow"]
            if self.objs[c]["k"] == "field":
                return "_ = new(%s).%s" % (self.tyref(s), self.name(c))
            return "new(%s).%s()" % (self.tyref(s), self.name(c))
        raise Inconclusive("unknown relation %r" % r)

    def natural_ref(self, x):
        """A statement that refers to object x (used for the added reference of C17); None if impossible."""
        k = self.kind(x)
        if k in ("struct", "named", "iface", "alias"):
            return "_ = (*%s)(nil)" % self.tyref(x)
        if k in ("func", "methv", "methp"):
            return self.callee(x) + "()"
        if k == "field":
            return "_ = new(%s).%s" % (self.tyref(self.objs[x]["ow"]), self.name(x))
        if k == "embed":
            return "_ = new(%s).%s" % (self.tyref(self.objs[x]["ow"]), self.name(x))
        if k in ("var", "const", "cgm"):
            return "_ = " + self.name(x)
        return None

    # --- declarations: list of (line text, [(col, obj)]) per unit ---
    def share(self):
        """Unused.tla ShareSpec: pairs of objects that may be declared by one spec (`var a, b T`; `a, b T` in a struct)."""
        out = []
        for i in self.idx():
            for j in self.idx():
                a, b = self.objs[i], self.objs[j]
                if i < j and a["k"] == b["k"] and a["ty"] == b["ty"] and (a["k"] == "var" or (a["k"] == "field" and a["ow"] == b["ow"])):
                    out.append([i, j])
        return out

    def multi_line(self, prefix, objs, suffix):
        """One spec declaring several names: (text, marks)."""
        txt, marks = prefix, []
        for n, x in enumerate(objs):
            if n:
                txt += ", "
            marks.append((len(txt) + 1, x))
            txt += self.name(x)
        return (txt + suffix, marks)

    def unit_lines(self, u, extra_stmts=None, style="plain"):
        """Lines of top-level declaration u.  extra_stmts: {holder: [stmt]} appended to bodies.
        style "grouped": consecutive fields of the same type share one field spec."""
        o = self.objs[u]
        k = o["k"]
        L = []

        def line(prefix, obj=None, suffix=""):
            if obj is None:
                L.append((prefix + suffix, []))
            else:
                L.append((prefix + self.name(obj) + suffix, [(len(prefix) + 1, obj)]))

        def body(h):
            for e in self.edges:
                if e["a"] == h:
                    L.append(("\t" + self.stmt(e), []))
            for s in (extra_stmts or {}).get(h, []):
                L.append(("\t" + s, []))

        def tparams(x):
            tps = self.of(x, ("tparam",))
            return tps[0] if tps else None

        if k == "struct":
            tp = tparams(u)
            pre = "type "
            txt = pre + self.name(u)
            marks = [(len(pre) + 1, u)]
            if tp:
                txt += "["
                marks.append((len(txt) + 1, tp))
                txt += self.name(tp) + " any]"
            txt += " struct {"
            L.append((txt, marks))
            runs = []
            for f in self.of(u, ("field",)):
                if style == "grouped" and runs and self.objs[runs[-1][-1]]["ty"] == self.objs[f]["ty"]:
                    runs[-1].append(f)
                else:
                    runs.append([f])
            for run in runs:
                L.append(self.multi_line("\t", run, " " + self.tyexpr(self.objs[run[0]]["ty"])))
            for e in self.of(u, ("embed",)):
                t = self.objs[e]["ty"]
                pre = "\t" if self.by_value_embed(t) else "\t*"
                L.append((pre + self.tyref(t), [(len(pre) + 1, e)]))
            L.append(("}", []))
        elif k == "named":
            line("type ", u, " int")
        elif k == "iface":
            line("type ", u, " interface {")
            for s in SLOTSET[o["sl"]]:
                L.append(("\tm%s()" % SLOT[s], []))
            L.append(("}", []))
        elif k == "alias":
            t = o["ty"]
            line("type ", u, " = " + ("int" if t == 0 else self.tyref(t)))
        elif k == "func":
            tp = tparams(u)
            pre = "func "
            txt = pre + self.name(u)
            marks = [(len(pre) + 1, u)]
            if tp:
                txt += "["
                marks.append((len(txt) + 1, tp))
                txt += self.name(tp) + " any]"
            txt += "() {"
            L.append((txt, marks))
            body(u)
            L.append(("}", []))
        elif k in ("methv", "methp"):
            t = o["ow"]
            recv = self.name(t) + ("[_]" if self.generic(t) else "")
            pre = "func (r %s%s) " % ("*" if k == "methp" else "", recv)
            line(pre, u, "() {")
            body(u)
            L.append(("}", []))
        elif k == "var":
            line("var ", u, " " + self.tyexpr(o["ty"]))
        elif k == "const":
            line("const ", u, " = 1")
        elif k == "cgm":
            L.append(("const (", []))
            for n, g in enumerate(self.cgms()):
                line("\t", g, " = iota" if n == 0 else "")
            L.append((")", []))
        else:
            raise Inconclusive("object %d of kind %s is not a declaration unit" % (u, k))
        return L


def render(g, order=None, extra_stmts=None, extra_decls=None, pkgname="p", style="plain"):
    """Render graph g.  order: list of (unit, file index 0..2); default: units ascending in a.go.
    extra_decls: list of (file index, text) appended after the units of that file.
    style: "plain" = one name per spec; "grouped" = the objects related by Unused.tla's ShareSpec that are
    adjacent share one spec (`var a, b T`, `a, b T` inside a struct) - the same declaration graph.
    Returns (files: {name: text}, posmap: {(file, line, col): obj})."""
    if order is None:
        order = [(u, 0) for u in g.units()]
    if sorted(u for u, _ in order) != g.units():
        raise Inconclusive("order %r is not a permutation of the units %r" % (order, g.units()))
    per_file = {}
    for u, f in order:
        per_file.setdefault(f, []).append(u)
    for f, _ in (extra_decls or []):
        per_file.setdefault(f, [])
    if not per_file:
        per_file[0] = []
    files, posmap = {}, {}
    for f in sorted(per_file):
        lines = ["package " + pkgname, ""]
        groups = []
        for u in per_file[f]:
            if (style == "grouped" and groups and g.objs[u]["k"] == "var" and g.objs[groups[-1][-1]]["k"] == "var"
                    and g.objs[groups[-1][-1]]["ty"] == g.objs[u]["ty"]):
                groups[-1].append(u)
            else:
                groups.append([u])
        for grp in groups:
            if len(grp) > 1:
                ul = [g.multi_line("var ", grp, " " + g.tyexpr(g.objs[grp[0]]["ty"]))]
            else:
                ul = g.unit_lines(grp[0], extra_stmts, style)
            for text, marks in ul:
                lines.append(text)
                for col, obj in marks:
                    posmap[(FILES[f], len(lines), col)] = obj
            lines.append("")
        for ff, text in (extra_decls or []):
            if ff == f:
                lines.extend(text.split("\n"))
                lines.append("")
        files[FILES[f]] = "\n".join(lines) + "\n"
    return files, posmap


def splits(n, nfiles=3):
    """All ways to cut a sequence of n declarations into <= nfiles consecutive non-empty files."""
    out = []
    for k in range(1, min(nfiles, max(n, 1)) + 1):
        for cuts in itertools.combinations(range(1, n), k - 1):
            f, cur = [], 0
            for i in range(n):
                if cur < len(cuts) and i == cuts[cur]:
                    cur += 1
                f.append(cur)
            out.append(f)
    return out or [[]]


def graph_key(case):
    return vlib.canon_key({"objs": case["objs"], "edges": case["edges"]})


def shape_key(case):
    """Key of the *shape* of a graph: kinds, flags and relations, without the thinning-dependent ordering."""
    return graph_key(case)


# ---------------------------------------------------------------------------------------------
# module trees and the helper

def write_module(root, pkgs, modpath="ex.test/m"):
    """pkgs: {dirname: {filename: text}}"""
    os.makedirs(root, exist_ok=True)
    with open(os.path.join(root, "go.mod"), "w") as f:
        f.write("module %s\n\ngo 1.22\n" % modpath)
    for d, files in pkgs.items():
        pd = os.path.join(root, d)
        os.makedirs(pd, exist_ok=True)
        for name, text in files.items():
            with open(os.path.join(pd, name), "w") as f:
                f.write(text)


def run_helper(ctx, helper, moddir, flags, cache=None, timeout=3600):
    env = vlib.go_env({"STATICCHECK_CACHE": cache or ctx.tmp("sc-cache")})
    cmd = [helper, "-dir", moddir] + flags
    p = subprocess.run(cmd, env=env, stdout=subprocess.PIPE, stderr=subprocess.PIPE, timeout=timeout)
    if p.returncode != 0:
        raise Inconclusive("h-unused failed rc=%d on %s: %s" % (p.returncode, moddir, p.stderr.decode(errors="replace")[-3000:]))
    try:
        return json.loads(p.stdout)
    except Exception as e:
        raise Inconclusive("h-unused produced undecodable output on %s: %s" % (moddir, e))


def status_by_pkg(out):
    """{package id: {(file, line, col): (status, kind, name)}} from the raw results."""
    res = {}
    for raw in out.get("raw") or []:
        if raw.get("failed"):
            res[raw["id"]] = None
            continue
        m = {}
        for st in ("used", "unused", "quiet"):
            for o in raw.get(st) or []:
                key = (o["file"], o["line"], o["col"])
                # instantiated generics share a position: used wins, then unused, then quiet (as lintcmd does by key)
                if key in m and ("used", "unused", "quiet").index(m[key][0]) <= ("used", "unused", "quiet").index(st):
                    continue
                m[key] = (st, o["kind"], o["name"])
        res[raw["id"]] = m
    return res


def typed_errors(out):
    return {t["id"]: t.get("errors") or [] for t in out.get("typed") or []}


def obj_status(g, posmap, pkgdir, stmap):
    """Status of every graph object: 'used' | 'unused' | 'quiet' | 'absent'."""
    res = {}
    for (f, line, col), obj in posmap.items():
        ent = stmap.get((pkgdir + "/" + f, line, col))
        if ent is None:
            res[obj] = "absent"
        else:
            res[obj] = ent[0]
            short = ent[2].split(".")[-1]
            if short != g.name(obj):
                raise Inconclusive("position map is off: %s:%d:%d is %r, expected %r" % (f, line, col, ent[2], g.name(obj)))
    return res


# ---------------------------------------------------------------------------------------------
# TLC drivers

GEN_CFG = """SPECIFICATION Spec
CONSTANTS
  MaxObj = %(maxobj)d
  MaxEdge = %(maxedge)d
  MaxIface = 2
  KindSeq <- %(kinds)s
  RelSeq <- %(rels)s
  Build = FALSE
  SeedGraphs <- MCSeedsSmall
  Eager = FALSE
  ExKinds <- %(exkinds)s
  ThinFrom = %(thinfrom)d
  ThinMod = %(thinmod)d
  Seed = %(seed)d
  NeedRoot = %(root)s
%(cand)s
CONSTRAINT Thin
INVARIANTS Brackets BracketsSane Emit
CHECK_DEADLOCK FALSE
"""


def tlc_generate(ctx, name, **kw):
    """Run one generation config; returns (TLCResult, cases)."""
    kw = dict(kw)
    kw["root"] = "TRUE" if kw.get("root") else "FALSE"
    kw["cand"] = ("  CandOK <- %s" % kw["cand"]) if kw.get("cand") else ""
    cfg = GEN_CFG % kw
    r = vlib.run_tlc(ctx, "MCUnused", "gen_%s.cfg" % name, workers=4, timeout=3000,
                     extra_files={"gen_%s.cfg" % name: cfg})
    vlib.tlc_require_ok(r, "Unused generation %s" % name)
    # graphs dropped by the Thin constraint are emitted and checked but not counted as states
    if len(r.cases) < r.distinct - 1 or (kw["thinmod"] == 1 and len(r.cases) != r.distinct - 1):
        raise Inconclusive("TLC emitted %d cases for %d states (%s)" % (len(r.cases), r.distinct, name))
    return r, r.cases


def tla_value(x):
    """Python value -> TLA+ expression (records, sequences, strings, ints, booleans)."""
    if isinstance(x, bool):
        return "TRUE" if x else "FALSE"
    if isinstance(x, int):
        return str(x)
    if isinstance(x, str):
        return json.dumps(x)
    if isinstance(x, (list, tuple)):
        return "<<" + ", ".join(tla_value(v) for v in x) + ">>"
    if isinstance(x, dict):
        return "[" + ", ".join("%s |-> %s" % (k, tla_value(v)) for k, v in x.items()) + "]"
    raise Inconclusive("cannot render %r as a TLA+ value" % (x,))


def tlc_observe(ctx, records):
    """Observation pass: UnusedObs.tla evaluates the spec's definitions on recorded artefacts."""
    if not records:
        return {}, None
    text = "".join(json.dumps(r) + "\n" for r in records)
    r = vlib.run_tlc(ctx, "UnusedObs", "UnusedObs.cfg", workers=1, timeout=3000, extra_files={"obs.ndjson": text})
    vlib.tlc_require_ok(r, "UnusedObs")
    if len(r.cases) != len(records):
        raise Inconclusive("UnusedObs evaluated %d of %d artefacts" % (len(r.cases), len(records)))
    return {c["idx"]: c for c in r.cases}, r


def plans(quick):
    big = dict(maxobj=6, maxedge=3, exkinds="MCExBig", root=True)
    emb = dict(maxobj=8, maxedge=1, exkinds="MCExBig", root=True, kinds="MCKindsEmbed", rels="MCRelsEmbed", cand="MCCandEmbed",
               thinfrom=99, thinmod=1)
    if quick:
        return [("rembed", dict(emb, maxobj=8)), ("rall", dict(big, kinds="MCAllKinds", rels="MCAllRels", thinfrom=3, thinmod=8)),
                ("rimpl", dict(big, kinds="MCKindsImpl", rels="MCRelsImpl", thinfrom=4, thinmod=8)),
                ("rfld", dict(big, kinds="MCKindsFld", rels="MCRelsFld", thinfrom=4, thinmod=8)),
                ("rconv", dict(big, maxedge=2, kinds="MCKindsConv", rels="MCRelsConv", thinfrom=6, thinmod=6))]
    return [("rembed", emb), ("small", dict(maxobj=3, maxedge=2, exkinds="MCAllKindSet", root=False, kinds="MCAllKinds", rels="MCAllRels", thinfrom=99, thinmod=1)),
            ("rall", dict(big, kinds="MCAllKinds", rels="MCAllRels", thinfrom=3, thinmod=3)),
            ("rimpl", dict(big, kinds="MCKindsImpl", rels="MCRelsImpl", thinfrom=4, thinmod=3)),
            ("rfld", dict(big, kinds="MCKindsFld", rels="MCRelsFld", thinfrom=4, thinmod=3)),
            ("rval", dict(big, kinds="MCKindsVal", rels="MCRelsVal", thinfrom=4, thinmod=3)),
            ("rconv", dict(big, maxedge=2, kinds="MCKindsConv", rels="MCRelsConv", thinfrom=6, thinmod=2))]


def generate(ctx):
    """Generation machine: the abstract cases of this run (seeded sub-sample of the <= 6-object space)."""
    runs, cases, seen = [], [], set()
    for n, (name, kw) in enumerate(plans(ctx.quick or smoke())):
        r, cs = tlc_generate(ctx, name, seed=ctx.seed * 10 + n, **kw)
        runs.append(dict(kw, config=name, states=r.distinct, generated=r.generated, cases=len(cs), wall_s=round(r.wall, 1)))
        for c in cs:
            k = graph_key(c)
            if k not in seen:
                seen.add(k)
                c["cfg"] = name
                cases.append(c)
    return cases, runs


def mixed(c):
    """The rule model predicts both used and unused/quiet objects (used to aim the selection only)."""
    s = set(c.get("model") or [])
    return "used" in s and ("unused" in s or "quiet" in s)


def features(c):
    """What a graph exercises: kinds, relations, each reference with the kind and exported flag of its
    target(s), pairs of such references, and the member structure behind the relations with a narrow
    enabling condition (struct conversion, interface assignment, promoted selection)."""
    o = [None] + c["objs"]
    ks = sorted(set(x["k"] for x in c["objs"]))
    f = set(("k", k) for k in ks) | set(("ex", x["k"]) for x in c["objs"] if x["ex"])
    det = []
    for e in c["edges"]:
        d = (e["r"], o[e["b"]]["k"], o[e["b"]]["ex"]) + ((o[e["c"]]["k"], o[e["c"]]["ex"]) if e["c"] else ())
        if e["r"] == "sconv":
            d += (tuple(sorted(x["ex"] for x in c["objs"] if x["k"] == "field" and x["ow"] == e["b"])),)
        if e["r"] == "assign":
            d += (tuple(sorted((x["k"], x["ex"]) for x in c["objs"] if x["k"] in ("methv", "methp", "embed") and x["ow"] == e["b"])),)
        det.append(d)
        f.add(("e",) + d)
        f.add(("r", e["r"]))
        f.add(("ah", e["r"], o[e["a"]]["k"], o[e["a"]]["ex"]))
    for i in range(len(det)):
        for j in range(i + 1, len(det)):
            f.add(("e2",) + tuple(sorted((det[i], det[j]), key=repr)))
    f |= embed_features(c)
    # objects that can share one spec (ShareSpec), with which of the two is referenced from a body and whether
    # their declared type is referenced from anywhere else
    tgt = set(e["b"] for e in c["edges"]) | set(e["c"] for e in c["edges"] if e["c"])
    for i, j in (c.get("share") or []):
        ty = o[i]["ty"]
        others = [n for n, x in enumerate(c["objs"], 1) if n not in (i, j) and x["ty"] == ty and ty] + [ty for _ in [0] if ty in tgt]
        f.add(("share", o[i]["k"], i in tgt, j in tgt, ty != 0, bool(others)))
    return f


def embed_features(c):
    """Structure of the embedding relation between structs: cycles (incl. self-embedding), whether a cycle
    member has an exported / unexported field, whether a struct outside the cycle embeds a member or is embedded
    by one, and where the body references point (rule 6.5 walks this relation with cycle cuts)."""
    o = [None] + c["objs"]
    structs = [i for i in range(1, len(o)) if o[i]["k"] == "struct"]
    emb = {s: set() for s in structs}
    for x in c["objs"]:
        if x["k"] == "embed" and x["ow"] in emb and x["ty"] in emb:
            emb[x["ow"]].add(x["ty"])
    if not any(emb.values()):
        return set()

    def reach(a):
        seen, todo = set(), list(emb[a])
        while todo:
            n = todo.pop()
            if n not in seen:
                seen.add(n)
                todo.extend(emb[n])
        return seen
    r = {s: reach(s) for s in structs}
    cyc = set(s for s in structs if s in r[s])
    if not cyc:
        return {("embed", "acyclic", max(len(v) for v in r.values()))}
    fld = lambda s: tuple(sorted(x["ex"] for x in c["objs"] if x["k"] == "field" and x["ow"] == s))
    outer_in = any(s not in cyc and emb[s] & cyc for s in structs)
    outer_out = any(s not in cyc and any(s in emb[m] for m in cyc) for s in structs)
    tgt = set(e["b"] for e in c["edges"])
    where = "cycle" if tgt & cyc else ("outside" if tgt & set(structs) else "none")
    return {("embcyc", len(cyc), tuple(sorted(fld(s) for s in cyc)), outer_in, outer_out, where,
             tuple(sorted(fld(s) for s in structs if s not in cyc)))}


def select_embed(ctx, cases, n):
    """Graphs of the embedding family with an embedding cycle, one per structural feature (embed_features),
    those first in which the cycle is entered from more than one place (a struct outside the cycle embeds a
    member), a member has an exported field and a body reference keeps one of the structs alive: that is where
    a walk with cycle cuts can give context-dependent answers."""
    by = {}
    idx = list(range(len(cases)))
    ctx.rng.shuffle(idx)
    for i in idx:
        if cases[i].get("cfg") != "rembed":
            continue
        for f in embed_features(cases[i]):
            if f[0] == "embcyc":
                by.setdefault(f, i)

    def score(f):
        return int(f[3]) + int(any(True in x for x in f[2])) + int(f[5] != "none")
    fs = sorted(by, key=lambda f: -score(f))   # stable: seeded order inside a score class
    return [cases[by[f]] for f in fs[:n]]


RARE = ("sconv", "assign", "psel", "inst", "share", "embcyc")


def select(ctx, cases, n, cover=2, rare_cover=10):
    """A feature cover (every kind, relation, kind x relation and relation pair `cover` times - `rare_cover`
    times when a relation with a narrow enabling condition is involved -, preferring graphs for which the
    rule model predicts mixed verdicts) plus a seeded sample."""
    def need(f):
        return rare_cover if any(r in repr(f) for r in RARE) else cover

    idx = list(range(len(cases)))
    ctx.rng.shuffle(idx)
    idx.sort(key=lambda i: -len(cases[i]["edges"]))   # stable: graphs with more references first
    from collections import Counter
    cov, chosen, chosen_set = Counter(), [], set()
    for i in idx:
        if len(chosen) >= n * 2 // 3:
            break
        fs = features(cases[i])
        if any(cov[f] < need(f) for f in fs):
            chosen.append(i)
            chosen_set.add(i)
            for f in fs:
                cov[f] += 1
    rest = [i for i in idx if i not in chosen_set]
    ctx.rng.shuffle(rest)
    rest.sort(key=lambda i: -int(mixed(cases[i])))
    chosen += rest[: max(0, n - len(chosen))]
    return [cases[i] for i in sorted(chosen)]


def cap(n):
    """VERIF_CAP=<k> caps the number of replayed cases (smoke runs of the thorough path)."""
    try:
        k = int(os.environ.get("VERIF_CAP", "0"))
    except ValueError:
        k = 0
    return min(n, k) if k > 0 else n


def smoke():
    """VERIF_CAP set: smoke run of the thorough path (small TLC configs, capped replays)."""
    return cap(10 ** 9) != 10 ** 9
