"""Shared plumbing of the IRSem-based checks (C01, C15): build the Go helper from the current /repo tree,
export real IR, run the program natively, feed both to TLC (specs/IRSem.tla) and collect the verdicts
that TLC prints for the terminal state(s) of every run."""
import json
import os
import shutil

import vlib
from vlib import Inconclusive

MODES = ["naive", "lifted", "naive+debug", "lifted+debug"]
CORPUS = os.path.join(vlib.HARNESS, "cmd", "h-irsem", "testdata", "corpus")


def mk(k, **kw):
    v = {"k": k, "i": 0, "a": 0, "b": 0, "c": 0, "t": "", "p": [], "e": []}
    v.update(kw)
    return v


def tok2val(tok):
    kind, _, body = tok.partition(":")
    if kind == "i":
        return mk("int", i=int(body))
    if kind == "b":
        return mk("bool", i=int(body))
    if kind == "s":
        return mk("str", p=[int(x) for x in body.split(".")] if body else [])
    raise Inconclusive("bad token in native output: %r" % tok)


def panic_val(tok):
    kind = tok.partition(":")[0]
    if kind == "i":
        return mk("iface", t="int", e=[tok2val(tok)])
    if kind == "s":
        return mk("iface", t="string", e=[tok2val(tok)])
    if kind == "b":
        return mk("iface", t="bool", e=[tok2val(tok)])
    if kind == "rt":
        return mk("iface", t="runtime.Error")
    return mk("iface", t="other")


def val2str(v):
    """compact rendering for reports"""
    k = v.get("k")
    if k == "int":
        return str(v["i"])
    if k == "bool":
        return "true" if v["i"] else "false"
    if k == "str":
        return repr(bytes(v["p"]).decode("utf-8", "replace"))
    if k == "iface":
        return "iface<%s>(%s)" % (v["t"], ",".join(val2str(e) for e in v["e"]))
    return "%s%s" % (k, [val2str(e) for e in v.get("e", [])] if v.get("e") else "")


def ev2str(e):
    return "%s(%s)" % (e["f"].replace("main.", ""), ",".join(val2str(a) for a in e["a"]))


def parse_native(text, name):
    """native stderr -> list of runs {fn, args, out, res, panic, pv}"""
    runs, cur = [], None
    for line in text.splitlines():
        parts = line.split(" ")
        if parts[0] == "CALL":
            if cur is not None and not cur["closed"]:
                raise Inconclusive("%s: native run of %s neither returned nor panicked" % (name, cur["fn"]))
            cur = {"fn": parts[1], "args": [tok2val(t) for t in parts[2:]], "out": [], "res": [], "panic": 0,
                   "pv": mk("iface"), "closed": False}
            runs.append(cur)
        elif parts[0] == "E" and cur is not None and not cur["closed"]:
            cur["out"].append({"f": "main." + parts[1], "a": [tok2val(t) for t in parts[2:]]})
        elif parts[0] == "RET" and cur is not None:
            cur["res"] = [tok2val(t) for t in parts[1:]]
            cur["closed"] = True
        elif parts[0] == "PANIC" and cur is not None:
            cur["panic"] = 1
            cur["pv"] = panic_val(parts[1]) if len(parts) > 1 else mk("iface", t="other")
            cur["closed"] = True
        else:
            raise Inconclusive("%s: unexpected native output line %r" % (name, line[:200]))
    if cur is not None and not cur["closed"]:
        raise Inconclusive("%s: native run of %s neither returned nor panicked (crash?)" % (name, cur["fn"]))
    for r in runs:
        del r["closed"]
    return runs


class Program:
    """One source program: exported IR in every mode + the native runs."""

    def __init__(self, name, src):
        self.name = name
        self.src = src          # source text
        self.progs = None       # list of exported Prog (one per mode)
        self.futs = None
        self.native = None      # list of native runs
        self.error = None


def prepare(ctx, helper, prog, maxvec=64, modes=MODES, native=True):
    """export + native run of one Program; fills prog.* ; returns prog"""
    d = ctx.tmp("irsem-" + prog.name)
    src = os.path.join(d, "prog.go")
    with open(src, "w") as f:
        f.write(prog.src)
    rc, so, se = vlib.sh([helper, "export", "-src", src, "-modes", ",".join(modes), "-out", os.path.join(d, "ir.json")],
                         env=vlib.go_env(), timeout=300)
    if rc != 0:
        prog.error = "export failed: " + (se or so)[-1500:]
        return prog
    doc = json.load(open(os.path.join(d, "ir.json")))
    prog.progs, prog.futs = doc["progs"], doc["futs"]
    if not native:
        return prog
    rc, so, se = vlib.sh([helper, "driver", "-src", src, "-out", os.path.join(d, "main_native.go"), "-max", str(maxvec)],
                         env=vlib.go_env(), timeout=120)
    if rc != 0:
        prog.error = "driver generation failed: " + (se or so)[-1500:]
        return prog
    with open(os.path.join(d, "go.mod"), "w") as f:
        f.write("module ex.test/irsem\n\ngo 1.23\n")
    rc, so, se = vlib.sh(["go", "build", "-o", "prog.bin", "."], cwd=d, env=vlib.go_env(), timeout=600)
    if rc != 0:
        prog.error = "native build failed: " + (se or so)[-2500:]
        return prog
    rc, so, se = vlib.sh(["timeout", "60", os.path.join(d, "prog.bin")], cwd=d, timeout=90)
    if rc != 0:
        prog.error = "native run failed rc=%d: %s" % (rc, se[-1500:])
        return prog
    prog.native = parse_native(se, prog.name)
    shutil.rmtree(d, ignore_errors=True)
    return prog


def fn_index(p, name):
    for i, f in enumerate(p["fns"]):
        if f["name"] == "main." + name:
            return i + 1
    return 0


def make_doc(programs, validate=True):
    """-> (doc, runmeta): doc for IRSem.tla; runmeta[i] = (program, mode, native run) of run i+1"""
    progs, runs, meta = [], [], []
    for pr in programs:
        for p in pr.progs:
            progs.append(p)
            pi = len(progs)
            for r in pr.native:
                fi = fn_index(p, r["fn"])
                if fi == 0:
                    raise Inconclusive("%s: function %s not in the exported IR" % (pr.name, r["fn"]))
                runs.append({"p": pi, "f": fi, "args": r["args"], "out": r["out"], "res": r["res"],
                             "panic": r["panic"], "pv": r["pv"], "cells": [], "gvals": []})
                meta.append((pr, p["mode"], r))
    return {"progs": progs, "runs": runs, "validate": 1 if validate else 0}, meta


def run_tlc_doc(ctx, doc, workers=8, timeout=1200, module="IRSem", cfg="IRSem.cfg"):
    r = vlib.run_tlc(ctx, module, cfg, workers=workers, timeout=timeout,
                     extra_files={"irsem_in.json": json.dumps(doc, separators=(",", ":"))}, deadlock=False)
    if r.violated:
        raise Inconclusive("TLC failed on %s (%s):\n%s" % (module, r.violated, r.out[-3000:]))
    per_run = {}
    for c in r.cases:
        per_run.setdefault(c["run"], []).append(c)
    shutil.rmtree(r.dir, ignore_errors=True)
    return r, per_run


def summarize(cases):
    """terminal states of one run -> one verdict: accept if some behaviour is accepted (map order),
    else the first non-accepting one"""
    if not cases:
        return "missing", None
    for c in cases:
        if c["v"] == "accept":
            return "accept", c
    for v in ("reject", "stuck", "unsup"):
        for c in cases:
            if c["v"] == v:
                return v, c
    return cases[0]["v"], cases[0]
