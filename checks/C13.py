"""C13 — Dataflow solvers reach the least fixpoint; lattices obey their laws.

Specs: specs/Lattices.tla (the semilattices, laws, monotone functions, map / dense-map liftings),
specs/Dataflow.tla (dense solver transcribed step by step: priority dequeue in reverse postorder,
dirty => Ident, skip when `in` unchanged, enqueue successors whose out changed; sparse solver with
the worklist as a set and a nondeterministic pick; LFP by Kleene iteration as a recursive operator;
invariants BelowLFP / AtTerminationLFP / QueueSound / WorklistSound / OracleLeast, action properties
StepMonotone / VariantDecreases = termination), specs/MCDataflow.tla (case spaces),
specs/LatticeObs.tla, specs/SparseObs.tla (observation validation).

Conformance:
  R dense    every case TLC enumerates (graph, lattice, transfer tables, entry facts) with the LFP
             TLC computed is run through the REAL generic dense.Forward (int / string / compact ids,
             permuted orders, facts plain / in DenseMapLattice / in MapLattice) and In / Edge are
             compared with the LFP;
  O lattices the nilness merge table DUMPED FROM THE REAL CODE and all pairs through the real
             MapLattice / DenseMapLattice are checked by TLC against the laws / the pointwise
             definition; the four laws are also evaluated on all triples on the real code;
  O sparse   generated Go functions (loops, phis) are built with go/ir, the REAL sparse.Forward
             runs a toy constant propagation several times (its worklist is a Go map); the def-use
             equations with tabulated transfer functions go to TLC, which computes the LFP and
             compares every observed mapping.
"""
import itertools
import json
import os
import re

import vlib
from vlib import Inconclusive

WORKERS = int(os.environ.get("VERIF_TLC_WORKERS", min(vlib.NCPU, 8)))
# VERIF_CAP=<n>: smoke-run of a tier: sample sizes capped at n, exhaustive configs with one node less
CAP = int(os.environ.get("VERIF_CAP", "0"))


def capped_cfg(cfg):
    if not CAP:
        return {}
    txt = open(os.path.join(vlib.SPECS, cfg)).read()
    txt = re.sub(r"MCN = (\d+)", lambda m: "MCN = %d" % max(1, int(m.group(1)) - 1), txt)
    return {cfg: txt}

# ---------------------------------------------------------------------------------------------
# lattice tables for the seeded case sampler (mirrors specs/Lattices.tla; TLC re-checks every
# sampled table with the invariant CaseMonotone, so a slip here is INCONCLUSIVE, never a verdict)
# ---------------------------------------------------------------------------------------------

NIL5 = [[0, 1, 2, 3, 4], [1, 1, 4, 3, 4], [2, 4, 2, 4, 4], [3, 3, 4, 3, 4], [4, 4, 4, 4, 4]]
LATS = {
    "chain2": [[max(a, b) for b in range(2)] for a in range(2)],
    "chain3": [[max(a, b) for b in range(3)] for a in range(3)],
    "pow2": [[a | b for b in range(4)] for a in range(4)],
    "nil5": NIL5,
}
_mono = {}


def mono_fns(lat):
    if lat not in _mono:
        t = LATS[lat]
        n = len(t)
        leq = [[t[a][b] == b for b in range(n)] for a in range(n)]
        out = []
        for f in itertools.product(range(n), repeat=n):
            if all(leq[f[x]][f[y]] for x in range(n) for y in range(n) if leq[x][y]):
                out.append(list(f))
        _mono[lat] = out
    return _mono[lat]


def sample_dense_case(rng, lat=None):
    lat = lat or rng.choice(["chain2", "chain3", "pow2", "nil5"])
    size = len(LATS[lat])
    n = rng.choice([3, 3, 4, 4, 4, 5])
    p = rng.choice([0.15, 0.3, 0.45])
    fns = mono_fns(lat)
    ident = list(range(size))
    succs, tf = [], []
    for u in range(1, n + 1):
        s = []
        row = []
        for v in range(1, n + 1):
            if rng.random() < p:
                s.append(v)
                if rng.random() < 0.12:
                    s.append(v)  # parallel edge
                row.append(rng.choice(fns))
            else:
                row.append(ident)
        rng.shuffle(s)
        succs.append(s)
        tf.append(row)
    haspred = set(v for s in succs for v in s)
    entry = []
    for u in range(1, n + 1):
        r = rng.random()
        if u not in haspred:
            entry.append(rng.randrange(size) if r < 0.6 else -1)
        else:
            # an entry fact on a block with predecessors is ignored by the equations (and by Forward)
            entry.append(rng.randrange(size) if r < 0.1 else -1)
    return {"n": n, "succs": succs, "lat": lat, "tf": tf, "entry": entry, "kind": ["un"] * n}


def sample_sparse_case(rng):
    lat = rng.choice(["chain2", "chain3", "pow2", "nil5"])
    size = len(LATS[lat])
    n = rng.choice([3, 3, 4])
    p = rng.choice([0.25, 0.4])
    fns = mono_fns(lat)
    ident = list(range(size))
    succs = [[v for v in range(1, n + 1) if rng.random() < p] for _ in range(n)]
    haspred = set(v for s in succs for v in s)
    kind, entry, tf = [], [], []
    for u in range(1, n + 1):
        k = rng.choice(["phi", "un", "strict"])
        if u not in haspred and rng.random() < 0.6:
            k = "param"
        kind.append(k)
        entry.append(rng.randrange(size) if k == "param" else -1)
        tf.append([rng.choice(fns) if (v == u and k in ("un", "strict")) else ident for v in range(1, n + 1)])
    return {"n": n, "succs": succs, "lat": lat, "tf": tf, "entry": entry, "kind": kind}


# ---------------------------------------------------------------------------------------------
# Go programs for the sparse binding
# ---------------------------------------------------------------------------------------------

def gen_sparse_program(rng, name):
    vars_ = ["x", "y", "z"]

    def expr(depth=0):
        r = rng.random()
        if r < 0.25:
            return str(rng.randrange(5))
        if r < 0.45:
            return rng.choice(vars_)
        if r < 0.55:
            return rng.choice(["p0", "p1"])
        if r < 0.62:
            return "-" + rng.choice(vars_)
        a = rng.choice(vars_ + ["p0"])
        b = rng.choice(vars_ + [str(rng.randrange(5))])
        return "%s %s %s" % (a, rng.choice(["+", "-", "*"]), b)

    counter = [0]

    def block(depth, ind):
        out = []
        for _ in range(rng.randrange(1, 4)):
            r = rng.random()
            pad = "\t" * ind
            if r < 0.5 or depth >= 3:
                out.append("%s%s = %s" % (pad, rng.choice(vars_), expr()))
            elif r < 0.7:
                out.append("%sif c() {" % pad)
                out += block(depth + 1, ind + 1)
                if rng.random() < 0.6:
                    out.append("%s} else {" % pad)
                    out += block(depth + 1, ind + 1)
                out.append("%s}" % pad)
            elif r < 0.85:
                out.append("%sfor c() {" % pad)
                out += block(depth + 1, ind + 1)
                out.append("%s}" % pad)
            else:
                counter[0] += 1
                i = "i%d" % counter[0]
                out.append("%sfor %s := 0; %s < p0; %s++ {" % (pad, i, i, i))
                out += block(depth + 1, ind + 1)
                if rng.random() < 0.3:
                    out.append("%s\tif c() {\n%s\t\tbreak\n%s\t}" % (pad, pad, pad))
                out.append("%s}" % pad)
        return out

    lines = ["func %s(p0, p1 int, c func() bool) int {" % name,
             "\tx, y, z := %d, %d, %s" % (rng.randrange(5), rng.randrange(5), rng.choice(["p1", "2", "0"]))]
    lines += block(0, 1)
    lines.append("\treturn x + y*z")
    lines.append("}")
    return "\n".join(lines) + "\n"


# ---------------------------------------------------------------------------------------------

def violated_invariants(r):
    return sorted(set(re.findall(r"Invariant (\S+) is violated", r.out)) |
                  set(re.findall(r"Action property (\S+) is violated", r.out)))


def lattice_binding(ctx, helper):
    d = ctx.tmp("lattice")
    out = os.path.join(d, "lattice_obs.json")
    rc, so, se = vlib.sh([helper, "lattice", "-out", out], timeout=600)
    if rc != 0:
        raise Inconclusive("h-dfa lattice failed: %s" % se[-2000:])
    text = open(out).read()
    obs = json.loads(text)
    r = vlib.run_tlc(ctx, "LatticeObs", "LatticeObs_quick.cfg" if ctx.quick else "LatticeObs.cfg", workers=2, timeout=1800,
                     extra_files={"lattice_obs.json": text}, extra_args=["-continue"])
    bad = violated_invariants(r)
    if r.violated and not bad:
        raise Inconclusive("LatticeObs: TLC failed: %s" % r.out[-2000:])
    model = [b for b in bad if b.startswith("Spec")]
    if model:
        raise Inconclusive("LatticeObs: the specification's own lattices fail %s (model problem)" % model)
    for b in bad:
        case = {"kind": "lattice", "invariant": b, "nil_table": obs["nil_table"], "law_failures": obs["law_failures"][:20],
                "witnesses": [c for c in r.cases][:3]}
        what = {"RealNilLaws": "the nilness merge table of the real code violates a semilattice law",
                "RealNilIsSpec": "the nilness merge table of the real code differs from the 5-point lattice",
                "RealNilComponents": "nilness lattice.Merge does not apply the table componentwise",
                "RealDenseMapAgrees": "dfa.DenseMapLattice Merge/Equals differs from the pointwise definition",
                "RealMapAgrees": "dfa.MapLattice Merge/Equals differs from the pointwise definition",
                "RealDirectLaws": "a lattice law fails on the real map/dense-map lattice: %s" % obs["law_failures"][:3]}.get(b, b)
        ctx.violation(vlib.canon_key({"lattice": b}), what, case)

    # negative self-test: an asymmetric table entry and a wrong merge result must be rejected
    neg = json.loads(text)
    neg["nil_table"][1][2] = 1
    neg["dense"][len(neg["dense"]) // 2]["merge"] = [1]
    neg["dense"][len(neg["dense"]) // 2]["a"] = [0]
    neg["dense"][len(neg["dense"]) // 2]["b"] = [0]
    rn = vlib.run_tlc(ctx, "LatticeObs", "LatticeObs_real.cfg", workers=2, timeout=1800,
                      extra_files={"lattice_obs.json": json.dumps(neg)}, extra_args=["-continue"])
    nb = violated_invariants(rn)
    if "RealNilLaws" not in nb or "RealDenseMapAgrees" not in nb:
        raise Inconclusive("negative self-test: corrupted lattice observations were accepted (%s)" % nb)
    return {"dense_pairs": len(obs["dense"]), "map_pairs": len(obs["map"]), "states": r.distinct, "wall_s": round(r.wall, 1),
            "nil_names": obs["nil_names"], "rejected_invariants": bad}


def dense_model_and_replay(ctx, helper, cfgs, nsample):
    cases_json = {"cases": [sample_dense_case(ctx.rng) for _ in range(nsample)]}
    allcases, states, gen, walls = [], 0, 0, {}
    for cfg in cfgs:
        r = vlib.run_tlc(ctx, "MCDataflow", cfg, workers=WORKERS, timeout=5400,
                         extra_files=dict(capped_cfg(cfg), **{"dataflow_cases.json": json.dumps(cases_json if cfg == cfgs[0] else {"cases": []})}))
        vlib.tlc_require_ok(r, "Dataflow (dense) " + cfg)
        states += r.distinct
        gen += r.generated
        walls[cfg] = {"states": r.distinct, "cases": len(r.cases), "wall_s": round(r.wall, 1)}
        allcases += r.cases
    if len(allcases) < nsample:
        raise Inconclusive("TLC emitted %d dense cases, fewer than the %d sampled ones" % (len(allcases), nsample))
    for i, c in enumerate(allcases):
        c["idx"] = i
    mism, summary = replay_dense(ctx, helper, allcases)
    report_dense(ctx, allcases, mism)
    # negative self-test: a corrupted expectation must be rejected
    neg = json.loads(json.dumps(next(c for c in allcases if any(x != 0 for x in c["lfp"]["in"]))))
    k = next(i for i, x in enumerate(neg["lfp"]["in"]) if x != 0)
    neg["lfp"]["in"][k] = 0
    nm, _ = replay_dense(ctx, helper, [neg])
    if not nm:
        raise Inconclusive("negative self-test: a corrupted expected fixpoint was accepted by the dense replay")
    return allcases, states, gen, walls, summary, len(mism)


def replay_dense(ctx, helper, cases):
    d = ctx.tmp("dense-replay")
    p = os.path.join(d, "cases-%d.ndjson" % len(os.listdir(d)))
    with open(p, "w") as f:
        for c in cases:
            f.write(json.dumps(c) + "\n")
    rc, so, se = vlib.sh([helper, "dense", "-cases", p, "-seed", str(ctx.seed), "-j", str(WORKERS)], timeout=7200)
    if rc != 0:
        raise Inconclusive("h-dfa dense failed rc=%d: %s" % (rc, se[-2000:]))
    mism, summary = [], None
    for line in so.splitlines():
        o = json.loads(line)
        if o.get("summary"):
            summary = o
        else:
            mism.append(o)
    if summary is None or summary["cases"] != len(cases):
        raise Inconclusive("h-dfa dense did not process all cases: %s" % summary)
    return mism, summary


def dense_case_key(c):
    return vlib.canon_key({k: c[k] for k in ("n", "succs", "lat", "tf", "entry")})


def report_dense(ctx, cases, mism):
    seen = set()
    for m in mism:
        c = cases[m["idx"]]
        if m["idx"] in seen:
            continue
        seen.add(m["idx"])
        if len(seen) > 12:
            ctx.note("%d mismatching dense cases in total; first 12 written as replays" % len(set(x["idx"] for x in mism)))
            break
        ctx.violation(dense_case_key(c),
                      "dense.Forward (%s) %s(%s%s) = %s, least fixpoint is %s%s" % (
                          m["variant"], m["what"], m["from"], "->%d" % m["to"] if m["what"] == "Edge" else "", m["got"], m["want"],
                          (" [" + m["msg"] + "]") if m.get("msg") else ""),
                      {"kind": "dense", "case": c, "observed": [x for x in mism if x["idx"] == m["idx"]][:10]})


def sparse_model(ctx, cfgs, nsample):
    cases_json = {"cases": [sample_sparse_case(ctx.rng) for _ in range(nsample)]}
    states = gen = 0
    walls = {}
    for cfg in cfgs:
        r = vlib.run_tlc(ctx, "MCDataflow", cfg, workers=WORKERS, timeout=5400,
                         extra_files=dict(capped_cfg(cfg), **{"dataflow_cases.json": json.dumps(cases_json if cfg == cfgs[0] else {"cases": []})}))
        vlib.tlc_require_ok(r, "Dataflow (sparse) " + cfg)
        states += r.distinct
        gen += r.generated
        walls[cfg] = {"states": r.distinct, "wall_s": round(r.wall, 1)}
    return states, gen, walls


def sparse_binding(ctx, helper, nfuncs, runs):
    d = ctx.tmp("sparse-src")
    files, srcs = [], {}
    per = 50
    for fi in range(0, nfuncs, per):
        pkg = "sp%d" % (fi // per)
        parts = ["package %s\n" % pkg]
        for j in range(fi, min(nfuncs, fi + per)):
            name = "s%d" % j
            src = gen_sparse_program(ctx.rng, name)
            srcs["%s.%s" % (pkg, name)] = src
            parts.append(src)
        p = os.path.join(d, pkg + ".go")
        with open(p, "w") as f:
            f.write("\n".join(parts))
        files.append(p)
    return sparse_validate(ctx, helper, files, srcs, runs)


def sparse_validate(ctx, helper, files, srcs, runs, negative=True):
    out = os.path.join(ctx.tmp("sparse-src"), "sparse_obs-%d.json" % len(files))
    cmd = [helper, "sparse", "-out", out, "-runs", str(runs), "-seed", str(ctx.seed)]
    for p in files:
        cmd += ["-src", p]
    rc, so, se = vlib.sh(cmd, timeout=3600)
    if rc != 0:
        raise Inconclusive("h-dfa sparse failed: %s" % se[-2000:])
    doc = json.load(open(out))
    if doc["errors"]:
        raise Inconclusive("sparse sources did not build / export: %s" % doc["errors"][:3])
    fns = doc["fns"]
    if negative:
        # negative self-test: one observed state of one function is changed; it must be rejected
        base = next((f for f in fns if f["phis"] >= 2 and f["loops"]), fns[0])
        neg = json.loads(json.dumps(base))
        neg["name"] = "NEG:" + base["name"]
        k = next(i for i, nd in enumerate(neg["nodes"]) if nd["kind"] == "phi") if base["phis"] else 0
        neg["observed"][0][k] = 6 if neg["observed"][0][k] != 6 else 0
        fns = fns + [neg]
    tables = {}
    for f in fns:
        for nd in f["nodes"]:
            if nd["kind"] == "table":
                tables[(len(nd["ops"]), tuple(nd["table"]))] = True
    tlist = [{"k": k, "table": list(t)} for (k, t) in sorted(tables)]
    r = vlib.run_tlc(ctx, "SparseObs", "SparseObs.cfg", workers=WORKERS, timeout=3600,
                     extra_files={"sparse_obs.json": json.dumps({"fns": fns, "tables": tlist})}, extra_args=["-continue"])
    if "TablesMonotone" in violated_invariants(r):
        raise Inconclusive("SparseObs: a tabulated toy transfer function is not monotone (harness problem)")
    if r.distinct < len(fns) + 1:
        raise Inconclusive("SparseObs: TLC visited %d states for %d functions:\n%s" % (r.distinct, len(fns), r.out[-2000:]))
    if r.violated and not r.cases:
        raise Inconclusive("SparseObs: TLC reports %s without a witness:\n%s" % (r.violated, r.out[-2000:]))
    negseen = False
    nbad = 0
    for c in r.cases:
        fn = fns[c["idx"] - 1]
        if fn["name"].startswith("NEG:"):
            negseen = c["kind"] == "notlfp"
            continue
        if c["kind"] == "unusable":
            raise Inconclusive("SparseObs: export of %s is unusable (toy transfer not monotone / malformed)" % fn["name"])
        nbad += 1
        if nbad > 12:
            continue
        ctx.violation(vlib.canon_key({"sparse": fn["nodes"], "observed": fn["observed"]}),
                      "sparse.Forward ended with a mapping that is not the least fixpoint for %s (%d values, %d distinct results over %d runs)"
                      % (fn["name"], fn["n"], len(fn["observed"]), fn["runs"]),
                      {"kind": "sparse", "function": fn["name"], "source": srcs.get(fn["name"], ""), "record": fn, "lfp": c["what"]["lfp"]})
    if negative and not negseen:
        raise Inconclusive("negative self-test: a corrupted sparse mapping was accepted")
    real = [f for f in fns if not f["name"].startswith("NEG:")]
    return {"functions": len(real), "solver_runs": sum(f["runs"] for f in real),
            "with_loops": sum(1 for f in real if f["loops"]), "phis": sum(f["phis"] for f in real),
            "values": sum(f["n"] for f in real), "functions_with_several_distinct_results": sum(1 for f in real if len(f["observed"]) > 1),
            "states": r.distinct, "generated": r.generated, "wall_s": round(r.wall, 1), "rejected": nbad,
            "sample": {"name": real[0]["name"], "source": srcs.get(real[0]["name"], ""), "observed": real[0]["observed"][0]}}


def run(ctx):
    ctx.level = "model_checking"
    helper = vlib.go_build_harness(ctx, "cmd/h-dfa")

    if ctx.replay:
        doc = json.load(open(ctx.replay))
        case = doc["case"]
        if case["kind"] == "dense":
            c = dict(case["case"])
            c["idx"] = 0
            mism, _ = replay_dense(ctx, helper, [c])
            report_dense(ctx, [c], mism)
        elif case["kind"] == "sparse":
            d = ctx.tmp("sparse-src")
            p = os.path.join(d, "r.go")
            pkg, name = case["function"].split(".")
            with open(p, "w") as f:
                f.write("package %s\n\n%s" % (pkg, case["source"]))
            sparse_validate(ctx, helper, [p], {case["function"]: case["source"]}, 50, negative=False)
        else:
            lattice_binding(ctx, helper)
        return

    # 1. lattice laws: spec lattices, dumped nilness table, real map / dense-map lattices
    lat = lattice_binding(ctx, helper)

    # 2. dense solver: model checking + replay of every emitted case through the real dense.Forward
    if ctx.quick:
        dcfgs, nd = ["MCDataflow_dense_quick.cfg"], 1000
        scfgs, ns = ["MCDataflow_sparse_quick.cfg"], 150
        nfuncs, runs = 120, 12
    else:
        dcfgs, nd = ["MCDataflow_dense_all4.cfg", "MCDataflow_dense_n3.cfg", "MCDataflow_dense_c3all.cfg"], 20000
        scfgs, ns = ["MCDataflow_sparse_all.cfg"], 3000
        nfuncs, runs = 1000, 25
    if CAP:
        nd, ns, nfuncs = min(nd, CAP), min(ns, CAP), min(nfuncs, max(20, CAP // 10))
    cases, dstates, dgen, dwalls, dsum, nmism = dense_model_and_replay(ctx, helper, dcfgs, nd)

    # 3. sparse solver: model checking of every pop order
    sstates, sgen, swalls = sparse_model(ctx, scfgs, ns)

    # 4. sparse solver: real sparse.Forward on generated functions, judged by TLC
    sp = sparse_binding(ctx, helper, nfuncs, runs)

    bylat = {}
    for c in cases:
        bylat[c["lat"]] = bylat.get(c["lat"], 0) + 1
    nontrivial = sum(1 for c in cases if any(x != 0 for x in c["lfp"]["in"]))
    ctx.coverage = {
        "states": dstates + sstates + sp["states"] + lat["states"],
        "transitions": dgen + sgen + sp["generated"],
        "traces_validated_against_impl": dsum["solver_runs"] + sp["solver_runs"] + lat["dense_pairs"] + lat["map_pairs"],
        "exhaustive": True,
        "exhaustive_what": "every case of the MCDataflow configs %s was model-checked and replayed through the real dense.Forward; "
                           "the seeded samples (%d dense, %d sparse-model cases, %d Go functions) are samples" % (dcfgs, nd, ns, nfuncs),
        "dense": {"configs": dwalls, "cases_replayed": len(cases), "cases_with_nonbottom_fixpoint": nontrivial, "by_lattice": bylat,
                  "real_solver_runs": dsum["solver_runs"], "mismatches": nmism,
                  "invariants": ["TypeOK", "CaseMonotone", "BelowLFP", "AtTerminationLFP", "QueueSound", "OracleLeast",
                                 "StepMonotone(action)", "VariantDecreases(action)=termination"]},
        "sparse_model": {"configs": swalls, "sampled_cases": ns, "invariants": ["BelowLFP", "AtTerminationLFP (every pop order)", "WorklistSound",
                                                                               "StepMonotone", "VariantDecreases"]},
        "sparse_real": {k: v for k, v in sp.items() if k != "sample"},
        "lattices": lat,
        "negative_selftests": ["lattice table + dense-map merge corrupted -> rejected", "dense expected LFP corrupted -> rejected",
                               "sparse observed mapping corrupted -> rejected"],
        "samples": [cases[len(cases) // 3], cases[-1], sp["sample"]],
        "trusted_base": ["TLC", "go toolchain", "h-dfa (toy lattices, toy constant propagation and its tabulation are harness code)"],
    }
    ctx.assumptions = [
        "entry facts apply to blocks without predecessors (documented contract of dense.Forward); Edge(from,to) is one fact per (from,to)",
        "sparse: a transfer function maps only its own instruction's value and reads only its operands' states",
        "bounds: exhaustive edge relations over <= 2 nodes (quick: chain2, nil5; thorough: all four lattices, and chain3 with all monotone functions) and <= 3 nodes (thorough, chain2, identity/gen); graphs with 3-5 nodes, parallel edges and arbitrary monotone tables are seeded samples",
    ]
