"""Realisation templates for specs/GoAtoms.tla (C03): abstract case (context, atom, nested atom) -> a
compilable Go function; cases are batched into packages.

The SPEC decides which cases exist and what they cover (GoAtoms.tla: Contexts, Atoms with their form
tags, Containers, the coverage invariant); this file only holds the Go text of each atom.  The two
tables are checked against each other at run time (same atom names, same container flags).

Conventions inside a function body: the standard variables
    x int, s string, p *T, i interface{}, xs []int, m map[string]int, ch chan int, f func(int) int,
    b bool, fl float64, c complex128, arr [4]int, e error, u uint8, t T, r interface{} (result), err error (result)
are in scope (parameters, captured variables or locals, depending on the context).  `@` is replaced by a
number unique to the atom instance (labels, local names), `{{HOLE}}` by the nested atom (containers only).
Every atom uses what it declares; bare `return` is legal in every context (results are named).
"""

PRELUDE = '''// Package {PKG} is generated from GoAtoms.tla cases.
package {PKG}

import "unsafe"

// Emb is embedded in T.
type Emb struct{{ Z int }}

// Zed is promoted through embedding.
func (e Emb) Zed() int {{ return e.Z }}

// SetZ has a pointer receiver.
func (e *Emb) SetZ(z int) {{ e.Z = z }}

// T is the struct type used by the atoms.
type T struct {{
	Emb
	A int
	B string
	P *T
	F func(int) int
}}

// Val has a value receiver.
func (t T) Val() int {{ return t.A }}

// Ptr has a pointer receiver.
func (t *T) Ptr() *T {{ return t }}

// I is a small interface.
type I interface{{ Val() int }}

// J embeds I.
type J interface {{
	I
	Ptr() *T
}}

// Num is a constraint.
type Num interface {{
	~int | ~int64 | ~float64
}}

// S2 and S3 have identical underlying types.
type S2 struct {{
	A int
	B string
}}

// S3 is convertible to S2.
type S3 struct {{
	A int
	B string
}}

// MyInt is a named basic type.
type MyInt int

// String makes MyInt a Stringer-like type.
func (v MyInt) String() string {{ return "n" }}

// Gen is a generic container.
type Gen[K comparable, V any] struct{{ m map[K]V }}

// Get looks a key up.
func (g *Gen[K, V]) Get(k K) (V, bool) {{
	v, ok := g.m[k]
	return v, ok
}}

// GenFn is a generic function with a core type.
func GenFn[X Num](a, b X) X {{ return a + b }}

// MapF maps a slice.
func MapF[A, B any](in []A, fn func(A) B) []B {{
	var out []B
	for _, v := range in {{
		out = append(out, fn(v))
	}}
	return out
}}

// ConvTo converts between type parameters.
func ConvTo[A, B Num](a A) B {{ return B(a) }}

// ---- operations on type parameters that need a core type or a uniform type set (GoAtoms.tla TParamForms)

// RecvLike has a core type although its terms differ in direction.
type RecvLike interface{{ <-chan int | chan int }}

// RecvLike2 lists the bidirectional channel first.
type RecvLike2 interface{{ chan int | <-chan int }}

// SendLike is the send-only counterpart.
type SendLike interface{{ chan<- int | chan int }}

// Drain ranges over and receives from a type parameter.
func Drain[C RecvLike](c C) (n int) {{
	for v := range c {{
		n += v
	}}
	v, ok := <-c
	if ok {{
		n += v
	}}
	select {{
	case w := <-c:
		n += w
	default:
	}}
	return n + len(c) + cap(c)
}}

// Drain2 is Drain with the terms in the other order.
func Drain2[C RecvLike2](c C) (n int) {{
	for v := range c {{
		n += v
	}}
	return n + <-c
}}

// Fill sends to a type parameter.
func Fill[C SendLike](c C, x int) {{
	c <- x
	select {{
	case c <- x + 1:
	default:
	}}
	close(c)
}}

// Bytes has no core type but allows indexing, slicing and ranging.
type Bytes interface{{ ~[]byte | ~string }}

// Count uses the byte-string operations.
func Count[B Bytes](b B) (n int) {{
	for i := 0; i < len(b); i++ {{
		n += int(b[i])
	}}
	if len(b) > 1 {{
		n += len(b[1:])
	}}
	return n + len(string(b)) + len([]byte(b))
}}

// MyInts is a named slice type.
type MyInts []int

// Slices has the core type []int.
type Slices interface{{ []int | MyInts }}

// Grow uses append, make, copy, index, slicing and range on a type parameter.
func Grow[S Slices](s S, e int) S {{
	s = append(s, e)
	s = append(s, s...)
	t := make(S, len(s), cap(s)+1)
	copy(t, s)
	for i, v := range t {{
		t[i] = v + 1
	}}
	clear(t[:1])
	return t[:len(t):cap(t)]
}}

// GrowE is generic in the element type.
func GrowE[S ~[]E, E any](s S, e E) S {{
	out := append(S(nil), s...)
	return append(out, e)[:1]
}}

// Maps has the core type map[string]int.
type Maps interface{{ ~map[string]int }}

// Keys uses range, lookup, update, delete, clear, make and len on a type parameter.
func Keys[M Maps](m M) (n int) {{
	for k, v := range m {{
		n += len(k) + v
	}}
	m["k"] = n
	if v, ok := m["k"]; ok {{
		n += v
	}}
	delete(m, "k")
	mm := make(M, 1)
	mm["a"] = m["a"]
	clear(m)
	return n + len(mm)
}}

// Funcs has the core type func(int) int.
type Funcs interface{{ ~func(int) int }}

// Apply calls a type parameter.
func Apply[F Funcs](f F, x int) int {{
	if f == nil {{
		return x
	}}
	g := F(func(y int) int {{ return y }})
	return f(x) + g(x)
}}

// PtrArr has the core type *[4]int.
type PtrArr interface{{ *[4]int }}

// SumP ranges over, indexes and slices a pointer to an array.
func SumP[P PtrArr](p P) (n int) {{
	for _, v := range p {{
		n += v
	}}
	for i := range p {{
		n += i
	}}
	return n + p[0] + len(p) + len(p[:2])
}}

// Ints converts between integer type parameters.
type Ints interface{{ ~int | ~int64 | ~uint8 }}

// Conv converts, shifts and compares.
func Conv[A, B Ints](a A) B {{
	if a > 3 {{
		a <<= 1
	}}
	return B(a) + B(min(a, 2)) - B(max(a, 1))
}}

// Structs has the core type struct{{ A int }}.
type Structs interface{{ struct{{ A int }} }}

// Lit builds a composite literal of a type parameter.
func Lit[S Structs](x int) S {{ return S{{A: x}} }}

// PtrTo is a pointer-constrained parameter.
func PtrTo[T any, PT interface{{ *T }}](v T) PT {{
	p := PT(new(T))
	*p = v
	return p
}}

func sink(args ...interface{{}}) {{}}

var seed = 1

func srcAll() (int, string, *T, interface{{}}, []int, map[string]int, chan int, func(int) int, bool, float64, complex128, [4]int, error, uint8, T) {{
	return seed, "s", &T{{}}, seed, []int{{seed}}, map[string]int{{"k": seed}}, make(chan int, 1), func(v int) int {{ return v }}, seed > 0, float64(seed), complex(float64(seed), 1), [4]int{{seed}}, nil, uint8(seed), T{{A: seed}}
}}

func variadic(vs ...int) int {{ return len(vs) }}

func two() (int, error) {{ return seed, nil }}

func seq(yield func(int) bool) {{
	for k := 0; k < 3; k++ {{
		if !yield(k) {{
			return
		}}
	}}
}}

func seq2(yield func(int, string) bool) {{
	if !yield(seed, "a") {{
		return
	}}
}}

var _ = unsafe.Sizeof(seed)
'''

PARAMS = "x int, s string, p *T, i interface{}, xs []int, m map[string]int, ch chan int, f func(int) int, b bool, fl float64, c complex128, arr [4]int, e error, u uint8, t T"
NAMES = "x, s, p, i, xs, m, ch, f, b, fl, c, arr, e, u, t"

CONTEXTS = {
    "func": '''// F@ realises case {CASE}.
func F@(''' + PARAMS + ''') (r interface{{}}, err error) {{
{BODY}
	sink(''' + NAMES + ''')
	return r, err
}}
''',
    "method": '''// M@ realises case {CASE}.
func (recv *T) M@(''' + PARAMS + ''') (r interface{{}}, err error) {{
	sink(recv)
{BODY}
	sink(''' + NAMES + ''')
	return r, err
}}
''',
    "closure": '''// C@ realises case {CASE}.
func C@(''' + PARAMS + ''') (interface{{}}, error) {{
	fn := func() (r interface{{}}, err error) {{
{BODY}
		sink(''' + NAMES + ''')
		return r, err
	}}
	return fn()
}}
''',
    "generic": '''// G@ realises case {CASE}.
func G@[Q any, W Num](q Q, w W, ''' + PARAMS + ''') (r interface{{}}, err error) {{
	sink(q, w)
{BODY}
	sink(''' + NAMES + ''')
	return r, err
}}

var _ = G@[string, int]
''',
    "init": '''// init realises case {CASE}.
func init() {{
	''' + NAMES + ''' := srcAll()
	var r interface{{}}
	var err error
{BODY}
	sink(''' + NAMES + ''', r, err)
}}
''',
    "pkgvar": '''// V@ realises case {CASE}.
var V@, E@ = func() (r interface{{}}, err error) {{
	''' + NAMES + ''' := srcAll()
{BODY}
	sink(''' + NAMES + ''')
	return r, err
}}()
''',
}

# name -> (is_container, go text)
ATOMS = {
    # ---- statements
    "assign": (False, "x = x + 1\nx, s = len(s), s + \"a\"\nx += 2\nx <<= 1\nx &^= 4\ns += \"b\""),
    "define": (False, "v@, w@ := x*2, s\nsink(v@, w@)"),
    "declstmt": (False, "var v@ int\nvar w@, z@ = 1.5, \"z\"\nconst k@ = 3\ntype loc@ struct{ a int }\nsink(v@, w@, z@, k@, loc@{a: x})"),
    "incdec": (False, "x++\nu--\narr[1]++\nm[\"k\"]++"),
    "exprstmt": (False, "f(x)\nt.Val()\n(p.Ptr())"),
    "empty_block": (True, ";\n{\n{{HOLE}}\n}"),
    "if_else": (True, "if x > 0 {\n{{HOLE}}\n} else if v@ := x * 2; v@ < -3 {\nx = v@\n} else {\nx--\n}"),
    "for3": (True, "for k@ := 0; k@ < 3; k@++ {\nif k@ == 1 {\ncontinue\n}\n{{HOLE}}\nif k@ == 2 {\nbreak\n}\n}"),
    "for_cond": (True, "for x < 10 {\nx++\n{{HOLE}}\n}"),
    "for_ever": (True, "for {\nx++\n{{HOLE}}\nif x > 5 {\nbreak\n}\n}"),
    "range_slice": (True, "for k@, v@ := range xs {\nsink(k@, v@)\n{{HOLE}}\n}\nfor k@ := range xs {\nsink(k@)\n}\nfor range xs {\nx++\n}"),
    "range_array": (True, "for k@, v@ := range arr {\nsink(k@, v@)\n{{HOLE}}\n}\nfor k@, v@ := range &arr {\nsink(k@, v@)\n}"),
    "range_string": (True, "for k@, v@ := range s {\nsink(k@, v@)\n{{HOLE}}\n}"),
    "range_map": (True, "for k@, v@ := range m {\nsink(k@, v@)\n{{HOLE}}\n}"),
    "range_chan": (True, "close(ch)\nfor v@ := range ch {\nsink(v@)\n{{HOLE}}\n}"),
    "range_int": (True, "for k@ := range 3 {\nsink(k@)\n{{HOLE}}\n}\nfor range x {\nx--\n}"),
    "range_func": (True, "for v@ := range seq {\nsink(v@)\n{{HOLE}}\n}\nfor k@, v@ := range seq2 {\nsink(k@, v@)\n}"),
    "switch_tag": (True, "switch x {\ncase 1, 2:\n{{HOLE}}\nfallthrough\ncase 3:\nx = 0\ndefault:\nx = -1\n}\nswitch v@ := x * 2; {\ncase v@ > 2:\nx = v@\n}"),
    "switch_string": (False, "switch s {\ncase \"a\":\nx = 1\ncase \"b\", \"c\":\nx = 2\n}"),
    "typeswitch": (True, "switch v@ := i.(type) {\ncase nil:\nx = 0\ncase int:\nx = v@\ncase string, []int:\nsink(v@)\ncase I:\nx = v@.Val()\n{{HOLE}}\ncase error:\nerr = v@\ndefault:\nsink(v@)\n}\nswitch i.(type) {\ncase *T:\nx++\n}"),
    "select": (True, "select {\ncase v@ := <-ch:\nx = v@\ncase v@, ok@ := <-ch:\nsink(v@, ok@)\ncase ch <- x:\n{{HOLE}}\ndefault:\nx++\n}"),
    "select_empty": (False, "if x == 66666 {\nselect {}\n}"),
    "select_block": (False, "go func() { ch <- 1 }()\nselect {\ncase <-ch:\n}"),
    "labeled": (True, "L@:\nfor k@ := 0; k@ < 3; k@++ {\nfor {\nif k@ == 1 {\ncontinue L@\n}\n{{HOLE}}\nbreak L@\n}\n}"),
    "goto": (False, "{\nn@ := 0\nG@:\nn@++\nif n@ < 3 {\ngoto G@\n}\nsink(n@)\n}"),
    "labeled_block_break": (False, "S@:\nswitch {\ncase b:\nfor {\nbreak S@\n}\n}\nQ@:\nselect {\ncase <-ch:\nbreak Q@\ndefault:\n}"),
    "return_early": (False, "if x == 12345 {\nreturn\n}\nif x == 12346 {\nr, err = s, e\nreturn\n}"),
    "defer_call": (True, "defer sink(x)\ndefer func() {\n{{HOLE}}\n}()\ndefer t.Val()\ndefer f(x)"),
    "go_call": (True, "go sink(x)\ngo func(v@ int) {\nsink(v@)\n{{HOLE}}\n}(x)\ngo p.Ptr()"),
    "send_recv": (False, "ch <- x\nv@ := <-ch\nw@, ok@ := <-ch\n<-ch\nsink(v@, w@, ok@)"),
    "panic_call": (False, "if x == 424242 {\npanic(\"boom\")\n}\nif b && x == 424243 {\npanic(e)\n}"),
    "recover_deferred": (False, "defer func() {\nif v@ := recover(); v@ != nil {\nr = v@\n}\n}()"),
    "recover_direct": (False, "r = recover()"),
    # ---- expressions
    "literals": (False, "sink(42, 0x2a, 0o17, 0b101, 1_000, 2.5, 1e3, 3i, 'c', '\\n', \"str\", `raw`, true, nil)"),
    "arith": (False, "x = (x + 3) * (x - 1) / (x | 1) % 7\nx = x&3 | x^5&^2\nx = -x + +x ^ ^x\nfl = fl*2.5 - fl/3\ns = s + s\nu = u << 3 >> 1\nx = x << u"),
    "compare_logic": (False, "b = x < 3 && x <= 4 || x > 5 && !(x >= 6) || x == 7 || x != 8\nb = b && s < \"z\" || fl > 0.5 || p == nil || i != nil || e == nil"),
    "const_expr": (False, "const k@ = 1 << 10\nconst f@ = 3.0 / 2\nconst s@ = \"a\" + \"b\"\nconst (\ni0@ = iota\ni1@\n)\nsink(k@, f@, s@, i0@, i1@, len(\"abc\"), unsafe.Sizeof(x))"),
    "complex_ops": (False, "c = complex(fl, 2)\nfl = real(c) + imag(c)\nc = c*c + 3i\nvar c64@ complex64 = complex64(c)\nsink(c64@, c == 0)"),
    "conversions": (False, "fl = float64(x)\nx = int(fl)\nu = uint8(x)\ns = string(rune(x))\nbs@ := []byte(s)\ns = string(bs@)\nrs@ := []rune(s)\ns = string(rs@)\nmi@ := MyInt(x)\nx = int(mi@)\nvar up@ unsafe.Pointer = unsafe.Pointer(p)\np = (*T)(up@)\nsink(uintptr(up@))"),
    "struct_conversion": (False, "s2@ := S2{A: x, B: s}\ns3@ := S3(s2@)\nps@ := (*S3)(&s2@)\nsink(s3@, ps@)"),
    "slice_array_conv": (False, "if len(xs) >= 4 {\na@ := [4]int(xs)\npa@ := (*[4]int)(xs)\nsink(a@, pa@)\n}"),
    "composite_struct": (False, "v@ := T{A: x, B: s}\nw@ := &T{Emb: Emb{Z: 1}, P: p}\nz@ := struct{ a, b int }{x, 2}\nvar zero@ T\nsink(v@, w@, z@, zero@, S2{}, Emb{x}, S2{A: 1, B: \"k\"})"),
    "composite_seq": (False, "a@ := [...]int{1, 2, x}\nb@ := []string{\"a\", s}\nc@ := [4]int{2: x}\nd@ := [][]int{{1}, {x, 2}}\ne@ := []*T{{A: 1}, {A: x}}\nf@ := []T{{A: 1}}\nsink(a@, b@, c@, d@, e@, f@, []int{})"),
    "composite_map": (False, "a@ := map[string]int{\"a\": 1, s: x}\nb@ := map[S2]string{{A: 1}: \"x\"}\nc@ := map[string][]int{\"k\": {1, 2}}\nsink(a@, b@, c@, map[int]bool{})"),
    "index": (False, "x = xs[0] + arr[1] + m[\"k\"] + int(s[0])\nv@, ok@ := m[s]\nxs[1] = x\narr[2] = x\nm[s] = x\npa@ := &arr\nx = pa@[3]\nsink(v@, ok@, (*pa@)[0])"),
    "slice_expr": (False, "a@ := xs[1:]\nb@ := xs[:2]\nc@ := xs[1:2:3]\nd@ := arr[:]\ne@ := s[1:]\npa@ := &arr\nf@ := pa@[1:3]\ng@ := xs[:]\nsink(a@, b@, c@, d@, e@, f@, g@)"),
    "selector": (False, "x = t.A + t.Z + p.A + p.Emb.Z + t.Zed()\np.SetZ(x)\nt.SetZ(x)\nt.A = x\np.P.P = p"),
    "method_values": (False, "mv@ := t.Val\nme@ := T.Val\nmp@ := (*T).Ptr\nmb@ := p.Ptr\nsink(mv@(), me@(t), mp@(p), mb@())\nvar iv@ I = t\nmi@ := iv@.Val\nsink(mi@(), I.Val(iv@))"),
    "interfaces": (False, "var iv@ I = t\nvar jv@ J = p\niv@ = jv@\nvar any@ interface{} = iv@\nx = iv@.Val() + jv@.Ptr().A\nif w@, ok@ := any@.(J); ok@ {\nsink(w@)\n}\nvar st@ interface{ String() string } = MyInt(x)\nsink(st@.String(), any@)"),
    "type_assert": (False, "if v@, ok@ := i.(int); ok@ {\nx = v@\n}\nif _, ok@ := i.(I); ok@ {\nx++\n}\nif x == 9999999 {\nx = i.(int)\ns = i.(interface{ String() string }).String()\n}"),
    "pointers": (False, "px@ := &x\n*px@ = *px@ + 1\npp@ := &px@\n**pp@ = 3\npf@ := &t.A\n*pf@++\npe@ := &xs[0]\n*pe@ = 2\nnp@ := new(int)\n*np@ = x\nsink(px@, pp@, pf@, pe@, np@)"),
    "new_expr": (False, "a@ := new(x + 1)\nb@ := new(s)\nc@ := new(T{A: x})\nsink(a@, b@, c@)"),
    "func_lit": (True, "fn@ := func(a int) (r interface{}, err error) {\n{{HOLE}}\nreturn a + x, nil\n}\nv@, err@ := fn@(1)\nsink(v@, err@)\nfunc() { x++ }()"),
    "closure_capture": (False, "cnt@ := 0\ninc@ := func() int {\ncnt@++\nreturn cnt@\n}\nfns@ := []func() int{inc@, func() int { return x }}\nfor _, g@ := range fns@ {\nsink(g@())\n}"),
    "calls": (False, "x = f(x)\nx = t.F(x)\nv@, err@ := two()\nsink(v@, err@)\nx = variadic()\nx = variadic(1, 2, x)\nx = variadic(xs...)\nsink(two())\nx = func(a, b int) int { return a + b }(x, 1)"),
    "generics_call": (False, "x = GenFn(x, 2)\nfl = GenFn[float64](fl, 1)\nys@ := MapF(xs, func(v int) string { return s })\ng@ := &Gen[string, int]{m: m}\nv@, ok@ := g@.Get(s)\nfl = ConvTo[int, float64](x)\nsink(ys@, v@, ok@)"),
    "generic_local": (False, "type pair@[A any] struct{ a A }\nv@ := pair@[int]{a: x}\nsink(v@.a)"),
    "tparam_chan": (False, "cc@ := make(chan int, 1)\nif x == 4444444 {\nx = Drain(cc@) + Drain((<-chan int)(cc@)) + Drain2(cc@) + Drain2((<-chan int)(cc@))\nFill(cc@, x)\nFill((chan<- int)(cc@), x)\n}"),
    "tparam_bytes_slice": (False, "x = Count(s) + Count([]byte(s))\nxs = Grow(xs, x)\nmi@ := Grow(MyInts(xs), 1)\nss@ := GrowE([]string{s}, s)\nsink(mi@, ss@)"),
    "tparam_map_func": (False, "x = Keys(map[string]int{s: x})\ntype mm@ map[string]int\nx += Keys(mm@{s: 1})\nx = Apply(f, x)\ntype ff@ func(int) int\nx += Apply(ff@(f), x)"),
    "tparam_ptr_conv": (False, "x = SumP(&arr)\nu = Conv[int, uint8](x)\nv@ := Conv[uint8, int64](u)\nl@ := Lit[struct{ A int }](x)\npt@ := PtrTo(x)\nsink(v@, l@.A, *pt@)"),
    "builtin_len_cap": (False, "x = len(xs) + cap(xs) + len(s) + len(arr) + len(m) + len(ch) + cap(ch) + len(&arr)"),
    "builtin_append_copy": (False, "xs = append(xs, 1, 2)\nxs = append(xs, xs...)\nbs@ := append([]byte(nil), s...)\nn@ := copy(xs, xs[1:])\nn@ += copy(bs@, s)\nsink(bs@, n@)"),
    "builtin_make": (False, "a@ := make([]int, x)\nb@ := make([]int, 1, 8)\nc@ := make(map[string]int)\nd@ := make(map[int]int, 4)\ne@ := make(chan int)\nf@ := make(chan T, 2)\nsink(a@, b@, c@, d@, e@, f@)"),
    "builtin_delete_clear": (False, "delete(m, \"k\")\nclear(m)\nclear(xs)"),
    "builtin_minmax": (False, "x = min(x, 3) + max(x, 1, 2)\nfl = min(fl, 2.5)\ns = max(s, \"a\")"),
    "builtin_print": (False, "if x == 31337 {\nprint(x, s)\nprintln(fl)\n}"),
    "builtin_close": (False, "cc@ := make(chan int)\nclose(cc@)"),
    "unsafe_ops": (False, "up@ := unsafe.Pointer(&arr[0])\nup@ = unsafe.Add(up@, 8)\nsl@ := unsafe.Slice(&arr[0], 2)\nsd@ := unsafe.SliceData(xs)\nst@ := unsafe.String(unsafe.StringData(s), len(s))\nsink(up@, sl@, sd@, st@, unsafe.Alignof(x), unsafe.Offsetof(t.B), unsafe.Sizeof(t))"),
    "shifts": (False, "var sh@ uint = uint(x) & 7\nx = 1 << sh@\nx = x >> sh@\nvar i64@ int64 = 1 << 40\ni64@ >>= sh@\nu = 1 << (sh@ & 3)\nsink(i64@, int8(x)<<1)"),
    "string_ops": (False, "for k@ := 0; k@ < len(s); k@++ {\nsink(s[k@])\n}\ns = s[:0] + string(s[0]) + s\nb = s == \"a\" || s < \"b\""),
    "nil_checks": (False, "if p != nil && p.P == nil {\nr = p\n}\nif xs == nil || m == nil || ch == nil || f == nil || i == nil {\nr = nil\n}\nvar np@ *T\nif x == 8888888 {\nsink(np@.A)\n}"),
    "return_ptr": (False, "if x == 777 {\nr = p\nreturn\n}\nif x == 778 {\nr = &t\nreturn\n}\nif x == 779 {\nr = xs\nreturn\n}"),
    "blank": (False, "_ = x\n_, _ = two()\nvar _ = s\n_ = xs[0]\n_ = *p\n_ = m[s]\nfor _, _ = range xs {\n}"),
    "array_value": (False, "a@ := arr\na@[0] = 1\nb@ := [2][2]int{{1, 2}, {3, x}}\nb@[1][0] = a@[0]\nsink(a@ == arr, b@, len(b@[0]))"),
    "struct_compare_copy": (False, "t2@ := t\nt2@.A++\ne1@ := Emb{1}\ne2@ := e1@\nsink(t2@.A, e1@ == e2@, S2{} == S2{A: x})"),
    "multi_assign_swap": (False, "x, xs[0] = xs[0], x\narr[0], arr[1] = arr[1], arr[0]\ns, r = \"q\", s"),
    "errors_iface": (False, "if e != nil {\nerr = e\ns = e.Error()\n}\nvar pe@ *T\nvar ie@ interface{} = pe@\nif ie@ != nil {\nr = ie@\n}"),
    "method_on_embedded_iface": (False, "var jv@ J = p\nvar iv@ I = jv@\nsink(jv@.Val(), iv@, J.Ptr(jv@))"),
    "infinite_select_loop": (False, "if x == 55555 {\nfor {\nselect {\ncase <-ch:\nreturn\ndefault:\n}\n}\n}"),
    "chan_dirs": (False, "var ro@ <-chan int = ch\nvar wo@ chan<- int = ch\nwo@ <- 1\nsink(<-ro@, len(ro@))"),
    "func_types": (False, "type ft@ func(int) int\nvar g@ ft@ = f\nvar h@ func(...int) int = variadic\nsink(g@(1), h@(1, 2), f != nil)"),
    "string_concat_loop": (False, "acc@ := \"\"\nfor k@ := 0; k@ < 3; k@++ {\nacc@ += s\n}\nsink(acc@)"),
}


def _indent(text, n=1):
    return "\n".join(("\t" * n + l if l else l) for l in text.split("\n"))


def render_body(case, uid):
    """Go statements for the case: atom a, with b in its hole (container) or after it."""
    ca, ta = ATOMS[case["a"]]
    a_txt = ta.replace("@", "a%d" % uid)
    if case["b"] == "none":
        return a_txt.replace("{{HOLE}}", "sink()")
    cb, tb = ATOMS[case["b"]]
    b_txt = tb.replace("@", "b%d" % uid).replace("{{HOLE}}", "sink()")
    if ca:
        return a_txt.replace("{{HOLE}}", b_txt)
    return a_txt + "\n" + b_txt


def render_function(case, uid):
    body = render_body(case, uid)
    depth = 2 if case["ctx"] == "closure" else 1
    tmpl = CONTEXTS[case["ctx"]]
    label = "%s/%s/%s" % (case["ctx"], case["a"], case["b"])
    tmpl = tmpl.replace("{{", "{").replace("}}", "}").replace("@", str(uid))
    return tmpl.replace("{CASE}", label).replace("{BODY}", _indent(body, depth))


def render_package(pkg, cases, first_uid):
    parts = [PRELUDE.replace("{{", "{").replace("}}", "}").replace("{PKG}", pkg)]
    for k, c in enumerate(cases):
        parts.append(render_function(c, first_uid + k))
    return "\n".join(parts)
