"""C05 — the on-disk cache never serves wrong bytes under crashes, truncation, deletion, concurrency.

Spec: specs/DiskCache.tla (+ MCDiskCache.tla): lintcmd/cache as a step-level state machine of the
cache directory (names -> inodes, data files as byte sequences, index entries incl. empty / torn
ones, mtimes old/fresh, trim.txt), one action per `verifStep` gate of put / copyFile /
putIndexEntry / get / used / OutputFile / GetFile (+ the client's open of the returned name) /
GetBytes / Trim; faults Crash at every pc and, at rest, Truncate / Delete / Age.

TLC (exhaustive, VIEW without the history): LookupSoundBytes, LookupSoundFileModTrimRace,
HitThenReadableModTrimRace, SizeImpliesComplete, IndexSound, NoLeak, TypeOK, no deadlock.
Generation configs (history on; one behaviour per distinct lookup-completion state):
  C  crash points      one process; every Put killed at every gate or completing; then lookups
  D  damage at rest    truncation of data files to every length / of index files (empty, torn ->
                       every concrete length) / deletion / foreign index entry; then lookups
  G  concurrency       two processes, crashes + ageing
  T  race witnesses    writer / reader / trimmer: every state in which a GetFile hit turned into
                       ENOENT or a prefix (the Trim stat->remove window; DESIGN section 6 row 10)
Conformance (R): harness/cmd/h-cache replays every chosen behaviour against the real cache built
from the current tree with -tags verif (C: child processes fed one byte per Read, SIGKILLed at the
gate; D: real Put + os.Truncate/os.Remove; G/T: goroutines parked at the gates, one step released
at a time, directory snapshot compared with the model's Obs after every step = drift detection).
Verdicts come only from the property-level oracle applied to the real lookups: bytes returned for
key k must be a value whose Put under k was started earlier in the behaviour, and a name returned
as a hit must be readable.  Plus: strace -e inject cross-check of the crash points, every concrete
index length, the real staticcheck on a fixture with a damaged cache (output must equal the cold
run's), a multi-process random variant (thorough).
"""
import hashlib
import json
import os
import re
import shutil
import subprocess

import vlib
from vlib import Inconclusive

ENTRY = 2 + 1 + 64 + 1 + 64 + 1 + 20 + 1 + 20 + 1   # lintcmd/cache entrySize
KEYS = [bytes([0x40]) + b"\x11" * 31, bytes([0x90]) + b"\x22" * 31]
GATES = ["c_stat", "c_verify", "c_open", "c_write", "c_last", "c_chtimes", "i_open", "i_write", "i_trunc", "i_chtimes",
         "g_open", "g_read", "gi_ustat", "gi_uchtimes", "gd_ustat", "gd_uchtimes", "ret_name", "cl_read",
         "t_stamp", "t_readdir", "t_stat", "t_rm", "t_wstamp"]
SHAPE_PREFIX = "trim-stat/getfile-hit/trim-remove/reput-create/open"
SHAPE_ENOENT = "trim-stat/getfile-hit/trim-remove/open-enoent"


def sym_bytes(v):
    return bytes(96 + s for s in v)


# ---------------------------------------------------------------------------------------------
# MCDiskCache.tla is the single source of truth for the value tables
# ---------------------------------------------------------------------------------------------

def parse_mc():
    txt = open(os.path.join(vlib.SPECS, "MCDiskCache.tla")).read()
    tables = {}
    for m in re.finditer(r"^(VB_\w+)\s*==\s*<<(.*)>>\s*$", txt, re.M):
        body = m.group(2).strip()
        vals = [[int(x) for x in re.findall(r"\d+", g)] for g in re.findall(r"<<([^<>]*)>>", body)]
        tables[m.group(1)] = vals
    cfgs = {}
    for m in re.finditer(r"^(\w+)_NP == (\d+)\s+\w+_NK == (\d+)\s+\w+_VB == (\w+)", txt, re.M):
        cfgs[m.group(1)] = {"np": int(m.group(2)), "nk": int(m.group(3)), "vb": tables[m.group(4)]}
    # the first-byte table that fixes Trim's visiting order
    for m in re.finditer(r"b = <<([\d, ]*)>> -> (\d+)", txt):
        v = [int(x) for x in re.findall(r"\d+", m.group(1))]
        if hashlib.sha256(sym_bytes(v)).digest()[0] != int(m.group(2)):
            raise Inconclusive("MCValByte(%s) in MCDiskCache.tla is not the first byte of sha256" % v)
    if "MCKeyByte(k) == IF k = 1 THEN %d ELSE %d" % (KEYS[0][0], KEYS[1][0]) not in txt:
        raise Inconclusive("MCKeyByte in MCDiskCache.tla differs from the action ids used by C05.py")
    for name, c in cfgs.items():
        firsts = [hashlib.sha256(sym_bytes(v)).digest()[0] for v in c["vb"]] + [k[0] for k in KEYS[:c["nk"]]]
        if len(set(firsts)) != len(firsts):
            raise Inconclusive("config %s: two modelled files share a subdirectory" % name)
    return cfgs


def write_real(ctx, cfg, name, vb_override=None):
    vb = vb_override or [sym_bytes(v) for v in cfg["vb"]]
    p = os.path.join(ctx.tmp("real"), name + ".json")
    with open(p, "w") as f:
        json.dump({"vals": [v.hex() for v in vb], "keys": [k.hex() for k in KEYS[:cfg["nk"]]]}, f)
    return p


# ---------------------------------------------------------------------------------------------
# oracle (property level) and schedule shapes
# ---------------------------------------------------------------------------------------------

def compact(steps):
    return [[s["p"], s["a"], s["o"], s["k"], s["v"], s["n"]] for s in steps]


def stored_before(steps, idx, k):
    """values whose Put under key k was started at or before step idx"""
    return sorted({s["v"] for s in steps[:idx + 1] if s["a"] == "start" and s["o"] == "put" and s["k"] == k})


def race_shape(steps, lk):
    """Names the schedule shape of a failing GetFile lookup: did a Trim unlink the data file the hit was
    reported for, between the hit (ret_name) and the client's open (cl_read)?  Computed from the abstract
    behaviour only, so the same defect met through another run maps to the same shape."""
    if lk["op"] != "getfile":
        return "other"
    idx, p = lk["step"], lk["p"]
    hit = None
    for j in range(idx - 1, -1, -1):
        if steps[j]["p"] == p and steps[j]["a"] == "ret_name":
            hit = j
            break
        if steps[j]["p"] == p and steps[j]["a"] == "start":
            break
    if hit is None or steps[idx]["a"] != "cl_read":
        return "other"
    # the value the reader resolved: the index entry as it was when the reader read it
    v_read = 0
    for j in range(hit, -1, -1):
        if steps[j]["p"] == p and steps[j]["a"] == "g_read":
            v_read = steps[j]["obs"]["a"][lk["k"] - 1]["out"]
            break
    for j in range(hit + 1, idx):
        if steps[j]["a"] == "t_rm" and steps[j]["p"] != p:
            before, after = steps[j - 1]["obs"]["d"], steps[j]["obs"]["d"]
            gone = [v + 1 for v in range(len(before)) if before[v]["x"] == 1 and after[v]["x"] == 0]
            if gone and (v_read == 0 or v_read in gone):
                return SHAPE_ENOENT if lk["kind"] == "enoent" else SHAPE_PREFIX
    return "other"


def judge_lookup(cfg, steps, lk, vb_real):
    """None if the real lookup result is allowed by the property, else a description."""
    if lk["op"] == "putfile":
        # DiskCache.tla PutPost: a Put that returned without error (single process, nothing in flight) leaves the
        # complete content in OutputFile(out); lintcmd/runner keeps that name and reads it later
        raw = bytes.fromhex(lk["raw"]) if lk["kind"] == "bytes" else None
        if raw == vb_real[lk["v"] - 1]:
            return None
        return "Put(key %d) returned without error but OutputFile(out), which lintcmd/runner reads next, %s" % (
            lk["k"], ("holds %r instead of %r" % (raw, vb_real[lk["v"] - 1])) if raw is not None else "cannot be read: " + lk.get("err", ""))
    if lk["kind"] == "miss":
        return None
    if lk["kind"] == "bytes":
        raw = bytes.fromhex(lk["raw"])
        ok = [vb_real[v - 1] for v in stored_before(steps, lk["step"], lk["k"])]
        if raw in ok:
            return None
        return "%s(key %d) returned %r; stored under that key: %r" % (lk["op"], lk["k"], raw, ok)
    if lk["kind"] in ("enoent", "readerr"):
        return "GetFile(key %d) reported a hit but the returned name cannot be read: %s" % (lk["k"], lk.get("err", ""))
    return "%s(key %d) ended with %s %s" % (lk["op"], lk["k"], lk["kind"], lk.get("err", ""))


# ---------------------------------------------------------------------------------------------
# TLC and replay
# ---------------------------------------------------------------------------------------------

def tlc_gen(ctx, name, workers, timeout=3000, simulate=None, depth=None, cfgfile=None):
    r = vlib.run_tlc(ctx, "MCDiskCache", cfgfile or ("MCDiskCache_%s.cfg" % name), workers=workers, timeout=timeout,
                     simulate=simulate, depth=depth, seed=ctx.seed if simulate else None)
    if not simulate:
        vlib.tlc_require_ok(r, "DiskCache generation config " + name)
    elif r.violated:
        raise Inconclusive("TLC simulation %s reports %s on the model:\n%s" % (name, r.violated, r.out[-2000:]))
    # several workers may emit the same state twice; de-duplicate by the behaviour itself
    seen, cases = set(), []
    for c in r.cases:
        k = json.dumps(compact(c))
        if k not in seen:
            seen.add(k)
            cases.append(c)
    return r, cases


def replay(ctx, helper, real, cases, j=None):
    d = ctx.tmp("replay")
    cpath = os.path.join(d, "cases-%d.ndjson" % len(os.listdir(d)))
    with open(cpath, "w") as f:
        for c in cases:
            f.write(json.dumps(c) + "\n")
    rc, so, se = vlib.sh([helper, "run", "-cases", cpath, "-real", real, "-j", str(j or min(vlib.NCPU, 8)), "-dir", ctx.tmp("hc")],
                         timeout=7200)
    if rc != 0:
        raise Inconclusive("h-cache run failed rc=%d: %s" % (rc, se[-2000:]))
    res, summary = {}, None
    for line in so.splitlines():
        o = json.loads(line)
        if o.get("summary"):
            summary = o
        else:
            res[o["id"]] = o
    if summary is None or summary["cases"] != len(cases):
        raise Inconclusive("h-cache did not process all cases: %s" % summary)
    dead = [o for o in res.values() if o.get("error")]
    if dead:
        raise Inconclusive("h-cache: dead driver in %d cases, e.g. %s" % (len(dead), dead[0]["error"][:500]))
    return res, summary


class Stats:
    def __init__(self):
        self.cases = self.lookups = self.hits = self.misses = self.children = self.steps = 0
        self.drifts = []
        self.failures = 0


def judge(ctx, st, kind, cfgname, cfg, cases, results, vb_real=None, report=True):
    """Apply the property-level oracle to every completed real lookup; record drift."""
    vb_real = vb_real or [sym_bytes(v) for v in cfg["vb"]]
    fails = []
    for c in cases:
        o = results[c["id"]]
        st.cases += 1
        st.steps += o["steps"]
        st.children += o.get("children", 0)
        if o.get("drift"):
            st.drifts.append({"config": cfgname, "case": c["id"], "drift": o["drift"]})
        for lk in o["lookups"]:
            if lk["op"] == "putfile":
                st.putfiles = getattr(st, "putfiles", 0) + 1
            else:
                st.lookups += 1
            st.hits += lk["kind"] == "bytes" and lk["op"] != "putfile"
            st.misses += lk["kind"] == "miss"
            why = judge_lookup(cfg, c["steps"], lk, vb_real)
            if why is None:
                continue
            shape = race_shape(c["steps"], lk)
            st.failures += 1
            case = {"kind": kind, "shape": shape, "config": cfgname, "mode": c["mode"], "tornlen": c.get("tornlen", 0),
                    "inproc_put": c.get("inproc_put", False), "schedule": compact(c["steps"]), "steps": c["steps"],
                    "lookup": lk, "model_predicts": lk["model"]}
            fails.append((why, case))
            if report:
                key = vlib.canon_key({"kind": kind, "config": cfgname, "schedule": case["schedule"], "lookup_step": lk["step"]})
                ctx.violation(key, why + " [" + kind + ", shape " + shape + "]", case)
    return fails


def repair_cases(all_steps):
    """Behaviours with two Puts of the same key and value and an environment fault between them."""
    out = []
    for steps in all_steps:
        puts = [(i, x) for i, x in enumerate(steps) if x["a"] == "start" and x.get("o") == "put"]
        for (i, a), (j, b) in zip(puts, puts[1:]):
            if a["k"] == b["k"] and a["v"] == b["v"] and any(x["p"] == 0 for x in steps[i:j]):
                out.append(steps)
                break
    return out


def mk_cases(steps_list, mode, start_id=0, tornlen=None, inproc_put=False):
    out = []
    for i, s in enumerate(steps_list):
        out.append({"id": start_id + i, "mode": mode, "steps": s, "tornlen": tornlen(i, s) if tornlen else 0, "inproc_put": inproc_put})
    return out


# ---------------------------------------------------------------------------------------------
# strace cross-check of the crash points (independent of the hooks)
# ---------------------------------------------------------------------------------------------

def strace_crosscheck(ctx, helper, points):
    """Kill the real Put (no gate kill) on entry to the n-th write(2) to the data file / the index file with
    strace -e inject, and compare the directory with the one the gate-driven kill leaves at the same point."""
    if shutil.which("strace") is None:
        raise Inconclusive("strace not available")
    val = sym_bytes([1, 2, 3])
    cfg = {"vb": [[1, 2, 3]], "nk": 1}
    real = write_real(ctx, cfg, "strace")
    out = hashlib.sha256(val).hexdigest()
    n_ok = 0
    for target, when in points:
        # gates of Put("abc") into an empty directory: stat, open, write, write, last, chtimes, i_open, i_write, ...
        killat = 2 + when if target == "d" else len(val) + 5
        snaps = []
        for how in ("strace", "gate"):
            d = os.path.join(ctx.tmp("strace"), "%s-%s-%d" % (how, target, when))
            os.makedirs(d)
            path = os.path.join(d, out[:2], out + "-d") if target == "d" else os.path.join(d, "%02x" % KEYS[0][0], KEYS[0].hex() + "-a")
            child = [helper, "child", "-dir", d, "-key", KEYS[0].hex(), "-val", val.hex(), "-killat", "0" if how == "strace" else str(killat)]
            if how == "strace":
                child = ["strace", "-f", "-qq", "-o", "/dev/null", "-e", "trace=write", "-P", path,
                         "-e", "inject=write:signal=KILL:when=%d" % when] + child
            p = subprocess.run(child, stdout=subprocess.PIPE, stderr=subprocess.PIPE, timeout=300)
            if p.returncode not in (-9, 137):
                raise Inconclusive("crash child (%s, %s write %d) was not killed: rc=%s %s" % (how, target, when, p.returncode, p.stderr[-500:]))
            rc, so, se = vlib.sh([helper, "snap", "-dir", d, "-real", real], timeout=120)
            if rc != 0:
                raise Inconclusive("h-cache snap failed: " + se[-500:])
            snaps.append(json.loads(so))
        if snaps[0] != snaps[1]:
            # the gate sequence of Put differs from the one this cross-check assumes (a changed tree may have more or
            # fewer gated operations before the write): drift of the binding, not a verdict; the crash replay below is
            # driven by the model's step names, not by this fixed count
            ctx.note("strace-injected kill and gate kill leave different directories at %s write %d: %s vs %s (the gate "
                     "sequence of Put is not the assumed one)" % (target, when, snaps[0], snaps[1]))
            continue
        expect_len = when - 1 if target == "d" else len(val)
        if len(snaps[0]["d"][0]["b"]) != expect_len:
            raise Inconclusive("strace kill at %s write %d left %s" % (target, when, snaps[0]))
        n_ok += 1
    return n_ok


# ---------------------------------------------------------------------------------------------
# end-to-end: the real staticcheck on a fixture with a damaged cache must print what a cold run prints
# ---------------------------------------------------------------------------------------------

FIXTURE = {
    "go.mod": "module ex.test/c5\n\ngo 1.22\n",
    "b/b.go": """package b

// Old is the old one.
//
// Deprecated: use New.
func Old() int { return 1 }

func New() int { return 2 }

func Pure(x int) int { return x + 1 }

func Cmp(x int) bool { return x == x }
""",
    "a/a.go": """package a

import "ex.test/c5/b"

func F(y int) bool {
	_ = b.Old()
	b.Pure(y)
	return y == y
}
""",
}


def gob_boundaries(b):
    """offsets at which a gob stream can be cut between two messages"""
    out, i = [], 0
    while i < len(b):
        c = b[i]
        if c < 128:
            n, i = c, i + 1
        else:
            k = 256 - c
            n, i = int.from_bytes(b[i + 1:i + 1 + k], "big"), i + 1 + k
        i += n
        if i < len(b):
            out.append(i)
    return out


def e2e(ctx, sc):
    mod = ctx.tmp("fx")
    for name, text in FIXTURE.items():
        os.makedirs(os.path.dirname(os.path.join(mod, name)), exist_ok=True)
        with open(os.path.join(mod, name), "w") as f:
            f.write(text)

    def run(cache):
        rc, so, se = vlib.sh([sc, "./..."], cwd=mod, env=vlib.go_env({"STATICCHECK_CACHE": cache}), timeout=900)
        return rc, so, se

    c0 = os.path.join(ctx.tmp("e2e"), "c0")
    os.makedirs(c0)
    rc, cold, se = run(c0)
    if rc != 1 or not all(x in cold for x in ("SA1019", "SA4017", "SA4000")) or "compile" in cold:
        raise Inconclusive("e2e fixture does not produce its baseline: rc=%d %s %s" % (rc, cold, se[-500:]))
    files = sorted(os.path.join(dp, f) for dp, _, fs in os.walk(c0) for f in fs if f.endswith(("-a", "-d")))
    rel = [os.path.relpath(f, c0) for f in files]
    idx, dat = [f for f in rel if f.endswith("-a")], [f for f in rel if f.endswith("-d")]
    if len(idx) < 4 or len(dat) < 2:
        raise Inconclusive("e2e: unexpected cache population %s" % rel)
    rc, warm, _ = run(c0)
    if warm != cold:
        ctx.violation(vlib.canon_key({"kind": "e2e", "damage": "none"}), "warm run prints something else than the cold run",
                      {"kind": "e2e", "shape": "warm", "damage": [], "cold": cold, "got": warm})
    damages = []   # (class, [(op, file, n)])
    for f in dat:
        size = os.path.getsize(os.path.join(c0, f))
        cuts = {0, 1, size // 2, size - 1}
        bounds = gob_boundaries(open(os.path.join(c0, f), "rb").read())
        cuts |= set(bounds if not ctx.quick else bounds[:2] + bounds[-2:])
        for n in sorted(c for c in cuts if 0 <= c < size):
            damages.append(("truncate-data", [("truncate", f, n)]))
        damages.append(("delete-data", [("remove", f, 0)]))
    for f in idx:
        for n in ((0, 1, ENTRY // 2, ENTRY - 1) if not ctx.quick else (0, ENTRY - 1)):
            damages.append(("truncate-index", [("truncate", f, n)]))
        damages.append(("delete-index", [("remove", f, 0)]))
    damages.append(("delete-all-data", [("remove", f, 0) for f in dat]))
    damages.append(("delete-all-index", [("remove", f, 0) for f in idx]))
    for _ in range(3 if ctx.quick else 10):
        sub = [f for f in rel if ctx.rng.random() < 0.4]
        damages.append(("delete-subset", [("remove", f, 0) for f in sub]))
    # what a killed writer leaves: a partial data file without / with an empty index entry
    for f in dat[:2]:
        size = os.path.getsize(os.path.join(c0, f))
        damages.append(("crash-partial-data", [("truncate", f, max(size - 1, 0))] + [("truncate", i, 0) for i in idx]))
    damages.append(("truncate-everything-by-one", [("truncate", f, os.path.getsize(os.path.join(c0, f)) - 1) for f in rel]))
    # beyond the property's list: index entries swapped between keys
    damages.append(("foreign-index", [("swap", idx[0], 0), ("swap", idx[1], 0)]))
    damages.append(("foreign-index", [("swap", idx[2], 0), ("swap", idx[3], 0)]))

    def one(item):
        i, (cls, ops) = item
        ci = os.path.join(ctx.tmp("e2e"), "c%d" % (i + 1))
        shutil.copytree(c0, ci)
        swaps = [f for op, f, _ in ops if op == "swap"]
        if swaps:
            a, b = open(os.path.join(ci, swaps[0]), "rb").read(), open(os.path.join(ci, swaps[1]), "rb").read()
            open(os.path.join(ci, swaps[0]), "wb").write(b)
            open(os.path.join(ci, swaps[1]), "wb").write(a)
        for op, f, n in ops:
            if op == "truncate":
                os.truncate(os.path.join(ci, f), n)
            elif op == "remove":
                os.remove(os.path.join(ci, f))
        rc, so, se = run(ci)
        shutil.rmtree(ci, ignore_errors=True)
        return cls, ops, so, se

    results = vlib.pmap(one, list(enumerate(damages)), workers=min(vlib.NCPU, 8))
    classes = {}
    for cls, ops, so, se in results:
        classes[cls] = classes.get(cls, 0) + 1
        if so != cold:
            case = {"kind": "e2e", "shape": cls, "damage": [list(o) for o in ops], "cold": cold, "got": so, "stderr": se[-1500:]}
            ctx.violation(vlib.canon_key({"kind": "e2e", "class": cls, "damage": [[o[0], o[1][-2:], o[2]] for o in ops]}),
                          "staticcheck with a damaged cache (%s) prints something else than a cold run" % cls, case)
    return len(results) + 1, classes


# ---------------------------------------------------------------------------------------------

def index_sweep_cases(dcases):
    """One behaviour `Put; Truncate(index, torn); lookup` per lookup kind, instantiated with every concrete length."""
    picked = {}
    for c in dcases:
        acts = [(s["a"], s["o"], s["n"]) for s in c if s["a"] in ("start", "truncate", "delete", "foreign", "age", "crash")]
        if len(acts) == 3 and acts[0][:2] == ("start", "put") and acts[1] == ("truncate", "a", 1) and acts[2][0] == "start" \
                and c[0]["k"] == c[-1]["k"] and c[1 + [s["a"] for s in c[1:]].index("truncate")]["k"] == c[0]["k"]:
            picked.setdefault(acts[2][1], c)
    return picked


def run_replay_file(ctx, helper, cfgs, doc):
    case = doc["case"]
    if case.get("kind") == "e2e":
        sc = vlib.go_build_repo(ctx, "./cmd/staticcheck")
        e2e(ctx, sc)
        return
    if case.get("kind") == "stress":
        stress(ctx, helper)
        return
    if case.get("kind") == "unstable-source":
        unstable_source(ctx, helper)
        return
    cfg = cfgs[case["config"]]
    real = write_real(ctx, cfg, "replay")
    c = {"id": 0, "mode": case["mode"], "steps": case["steps"], "tornlen": case.get("tornlen", 0), "inproc_put": case.get("inproc_put", False)}
    res, _ = replay(ctx, helper, real, [c], j=1)
    st = Stats()
    fails = judge(ctx, st, case["kind"], case["config"], cfg, [c], res)
    print("replayed: %d lookups, %d property failures, drift: %s" % (st.lookups, len(fails), st.drifts[:1]))


def unstable_source(ctx, helper):
    """Outside the TLC-enumerated space: the source handed to Put changes between put's hashing pass and copyFile's
    copying pass (Put must fail: "file content changed underfoot").  Whatever the directory looked like before
    (fresh / entry present with its data file removed or truncated, i.e. the property's at-rest faults), a later
    lookup must miss or return the first-pass content that an earlier successful Put stored; anything else is
    bytes that were never stored under the key (this is what verifying the hash before the last byte buys)."""
    rc, so, se = vlib.sh([helper, "unstable", "-dir", ctx.tmp("unstable")], timeout=600)
    if rc != 0:
        raise Inconclusive("h-cache unstable failed: " + se[-800:])
    res = json.loads(so)
    for o in res:
        if o["put_err"] == "<nil>":
            continue   # an implementation that reads the source once is not judged here
        for op in ("getfile", "getbytes"):
            kind, got = o["kinds"][op], o["lookups"][op]
            allowed = kind == "miss" or (kind == "bytes" and got == o["v1"] and o["scenario"] != "fresh")
            if not allowed:
                case = {"kind": "unstable-source", "shape": o["scenario"], "v1": o["v1"], "v2": o["v2"], "op": op, "result": kind, "bytes": got, "put_err": o["put_err"]}
                ctx.violation(vlib.canon_key({k: case[k] for k in ("kind", "shape", "v1", "v2", "op")}),
                              "after a failed Put (source changed underfoot, %s) %s returns %r (%s); stored: %r" % (o["scenario"], op, got, kind, o["v1"] if o["scenario"] != "fresh" else None), case)
    # ... and the writer dies (strace: SIGKILL on entry to its first ftruncate, i.e. at the start of the error
    # path) after the copy: whatever it committed before verifying the hash is now permanent.
    n = len(res)
    cfg = {"vb": [[1, 2, 3]], "nk": 1}
    real = write_real(ctx, cfg, "unstable")
    v1 = sym_bytes([1, 2, 3])
    out = hashlib.sha256(v1).hexdigest()
    for v2 in (b"abd", b"xbc"):
        for pre in ("data-removed", "data-truncated-1"):
            d = os.path.join(ctx.tmp("unstable"), "k-%s-%s" % (v2.decode(), pre))
            os.makedirs(d)
            p = subprocess.run([helper, "child", "-dir", d, "-key", KEYS[0].hex(), "-val", v1.hex(), "-killat", "0"], stdout=subprocess.PIPE, stderr=subprocess.PIPE, timeout=300)
            if p.returncode != 0:
                raise Inconclusive("unstable: preparing Put failed: %s" % p.stderr[-300:])
            dp = os.path.join(d, out[:2], out + "-d")
            if pre == "data-removed":
                os.remove(dp)
            else:
                os.truncate(dp, 1)
            p = subprocess.run(["strace", "-f", "-qq", "-o", "/dev/null", "-e", "trace=ftruncate", "-e", "inject=ftruncate:signal=KILL:when=1",
                                helper, "unstable", "-only-put", "-dir", d, "-v1", v1.decode(), "-v2", v2.decode(), "-key", KEYS[0].hex()],
                               stdout=subprocess.PIPE, stderr=subprocess.PIPE, timeout=300)
            if p.returncode in (-9, 137):
                how = "killed at ftruncate"
            elif p.returncode == 0 and b"changed underfoot" in p.stdout:
                how = "failed"
            elif p.returncode == 0:
                continue      # the Put succeeded: not judged
            else:
                raise Inconclusive("unstable: changing Put under strace: rc=%s %s" % (p.returncode, p.stderr[-300:]))
            rc, so, se = vlib.sh([helper, "lookup", "-dir", d, "-real", real, "-key", "1"], timeout=120)
            if rc != 0:
                raise Inconclusive("h-cache lookup failed: " + se[-300:])
            lk = json.loads(so)
            n += 1
            for op in ("getfile", "getbytes"):
                got = bytes.fromhex(lk[op]["raw"])
                if lk[op]["kind"] == "miss" or (lk[op]["kind"] == "bytes" and got == v1):
                    continue
                case = {"kind": "unstable-source", "shape": pre + "/" + how, "v1": v1.decode(), "v2": v2.decode(), "op": op,
                        "result": lk[op]["kind"], "bytes": got.decode("latin1")}
                ctx.violation(vlib.canon_key({k: case[k] for k in ("kind", "shape", "v1", "v2", "op")}),
                              "a writer whose source changed underfoot was %s (%s); %s now returns %r, stored: %r" % (how, pre, op, got, v1), case)
    return n


def overlap_cases(cases):
    """behaviours in which a second writer opens a data file while the first is in the middle of writing it"""
    out = []
    for c in cases:
        writing = {}
        hit = False
        for s in c:
            if s["a"] == "c_write":
                writing[s["p"]] = s["v"]
            elif s["a"] in ("c_last", "crash") or s["a"] == "start":
                writing.pop(s["p"], None)
            elif s["a"] == "c_open" and any(q != s["p"] and v == s["v"] for q, v in writing.items()):
                hit = True
        if hit:
            out.append(c)
    return out


STRESS_VB = [[], [1], [1, 2], [3, 4], [1, 2, 3], [4, 5, 6]]


def stress(ctx, helper):
    cfg = {"vb": STRESS_VB, "nk": 2}
    real = write_real(ctx, cfg, "stress")
    d = os.path.join(ctx.tmp("stress"), "dir")
    os.makedirs(d, exist_ok=True)
    rc, so, se = vlib.sh([helper, "stress", "-dir", d, "-real", real, "-seed", str(ctx.seed), "-procs", "6",
                          "-ops", "150" if ctx.quick else "600", "-rounds", "2" if ctx.quick else "6"], timeout=3000)
    if rc != 0:
        raise Inconclusive("h-cache stress failed: " + se[-1000:])
    o = json.loads(so.strip().splitlines()[-1])
    if o["bad"]:
        ctx.violation(vlib.canon_key({"kind": "stress", "lines": o["lines"][:3]}), "multi-process random run: a lookup returned bytes never stored under its key",
                      {"kind": "stress", "shape": "random", "seed": ctx.seed, "lines": o["lines"][:20]})
    if o["hits"] == 0:
        raise Inconclusive("stress run produced no hits")
    return o


def run(ctx):
    ctx.level = "model_checking"
    cfgs = parse_mc()
    helper = vlib.go_build_harness(ctx, "cmd/h-cache")

    if ctx.replay:
        run_replay_file(ctx, helper, cfgs, json.load(open(ctx.replay)))
        return

    sc = vlib.go_build_repo(ctx, "./cmd/staticcheck")
    quick = ctx.quick
    # VERIF_C05_CAP=n (development aid): thorough tier with at most n behaviours per binding and the quick
    # exhaustive config, to exercise the thorough code path on a busy machine. Unset in normal use.
    cap = int(os.environ.get("VERIF_C05_CAP", "0") or 0)

    def capped(xs):
        return xs if not cap else vlib.sample(ctx, xs, cap)

    # ---- 1. TLC: exhaustive invariants + generation configs, side by side
    jobs = [("exh", "Q" if quick or cap else "A"), ("gen", "C"), ("gen", "DQ" if quick else "D"), ("gen", "G"), ("gen", "T")]

    def tlc_job(job):
        what, name = job
        if what == "exh":
            r = vlib.run_tlc(ctx, "MCDiskCache", "MCDiskCache_%s.cfg" % name, workers=4 if quick else 8, timeout=5400,
                             coverage=not quick, heap="8g")
            vlib.tlc_require_ok(r, "DiskCache invariants (%s)" % name)
            return r, None
        return tlc_gen(ctx, name, workers=4 if name in ("DQ", "D") else 2)

    tl = dict(zip([j[1] for j in jobs], vlib.pmap(tlc_job, jobs, workers=len(jobs))))
    exh = tl["Q" if quick or cap else "A"][0]
    # vacuity: every disjunct of the next-state relation must be taken in the exhaustive config (Foreign needs
    # two keys; it is exercised by the D configs)
    if not quick:
        spec_lines = open(os.path.join(vlib.SPECS, "DiskCache.tla")).read().splitlines()
        never = []
        for m in re.finditer(r"<Steps line \d+, col \d+ to line \d+, col \d+ of module DiskCache \((\d+) \d+ \d+ \d+\)>: 0:0", exh.out):
            text = spec_lines[int(m.group(1)) - 1].strip()
            if "Foreign" not in text:
                never.append(text)
        if never:
            raise Inconclusive("exhaustive config never takes: %s" % never)
    states = sum(t[0].distinct for t in tl.values())
    transitions = sum(t[0].generated for t in tl.values())

    st = Stats()
    samples = []

    # ---- 2. crash points (C): child processes, one byte per Read, SIGKILL at the gate
    ccfg = cfgs["C"]
    c_all = tl["C"][1]
    c_sel = capped(c_all) if not quick else vlib.sample(ctx, c_all, 220)
    c_cases = mk_cases(c_sel, "seq")
    res, _ = replay(ctx, helper, write_real(ctx, ccfg, "C"), c_cases)
    judge(ctx, st, "crash", "C", ccfg, c_cases, res)
    n_crash_cases, n_children = len(c_cases), st.children
    crashed_puts = sum(1 for c in c_cases for s in c["steps"] if s["a"] == "crash")
    samples.append({"crash_case": compact(c_cases[len(c_cases) // 2]["steps"]), "lookups": res[c_cases[len(c_cases) // 2]["id"]]["lookups"]})
    n_strace = strace_crosscheck(ctx, helper, [("d", 1), ("d", 3), ("a", 1)] if quick else [("d", 1), ("d", 2), ("d", 3), ("a", 1)])

    # ---- 3. truncation / deletion at rest (D): real Put + os.Truncate / os.Remove; index files at every length
    dname = "DQ" if quick else "D"
    dcfg = cfgs[dname]
    d_all = tl[dname][1]
    d_sel = capped(d_all) if not quick else vlib.sample(ctx, d_all, 500)
    # always replay the behaviours in which a Put follows damage to what an earlier Put of the same key and value left
    # behind (the repair path; PutPost is observed right after it)
    have = set(id(x) for x in d_sel)
    d_sel = d_sel + [x for x in repair_cases(d_all) if id(x) not in have]
    d_cases = mk_cases(d_sel, "seq", tornlen=lambda i, s: ctx.rng.choice([1, 2, 3, 67, 68, 69, 132, 133, 134, 154, 155, ENTRY - 2, ENTRY - 1]), inproc_put=True)
    sweep = index_sweep_cases(d_all)
    if set(sweep) != {"getfile", "getbytes"}:
        raise Inconclusive("generation config %s has no `Put; truncate index; lookup` behaviour to sweep" % dname)
    nid = len(d_cases)
    for kind in sorted(sweep):
        for n in range(1, ENTRY):
            d_cases.append({"id": nid, "mode": "seq", "steps": sweep[kind], "tornlen": n, "inproc_put": True})
            nid += 1
    res, _ = replay(ctx, helper, write_real(ctx, dcfg, dname), d_cases)
    judge(ctx, st, "damage", dname, dcfg, d_cases, res)
    n_damage_cases = len(d_cases)
    samples.append({"damage_case": compact(d_cases[len(d_sel) // 3]["steps"]), "lookups": res[d_cases[len(d_sel) // 3]["id"]]["lookups"]})

    # ---- 4. concurrency (G, T): goroutines at the gates, directory compared with the model after every step
    gcfg = cfgs["G"]
    g_all = tl["G"][1]
    # every case in which two Puts of the same value overlap and a lookup hits is kept: the shape in which a careless rewrite shows
    g_overlap = overlap_cases(g_all)
    if not g_overlap:
        raise Inconclusive("config G generated no behaviour with overlapping writers")
    if quick:
        keep = vlib.sample(ctx, g_overlap, 120)
        ids = {id(c) for c in keep}
        g_sel = keep + vlib.sample(ctx, [c for c in g_all if id(c) not in ids], 380)
    else:
        g_sel = capped(g_all)
    g_cases = mk_cases(g_sel, "gor")
    res, _ = replay(ctx, helper, write_real(ctx, gcfg, "G"), g_cases)
    judge(ctx, st, "concurrency", "G", gcfg, g_cases, res)
    tcfg = cfgs["T"]
    t_cases = mk_cases(tl["T"][1], "gor")
    if not t_cases:
        raise Inconclusive("config T emitted no race witness: the model lost the Trim stat->remove window")
    rest, _ = replay(ctx, helper, write_real(ctx, tcfg, "T"), t_cases)
    t_before = st.failures
    judge(ctx, st, "concurrency", "T", tcfg, t_cases, rest)
    t_reproduced = st.failures - t_before
    samples.append({"race_witness": compact(t_cases[0]["steps"]), "lookups": rest[t_cases[0]["id"]]["lookups"]})
    n_conc = len(g_cases) + len(t_cases)
    sim_cases = 0
    if not quick:
        # larger world by simulation: 3 processes x 2 operations, 2 keys, 3 values
        r_sim, s_all = tlc_gen(ctx, "S", workers=4, simulate="num=%d" % (1500 if not cap else max(cap // 4, 5)), depth=200, timeout=3000)
        m = re.search(r"The number of states generated: (\d+)", r_sim.out)
        states += int(m.group(1)) if m else 0
        transitions += int(m.group(1)) if m else 0
        scfg = cfgs["S"]
        s_cases = mk_cases(s_all, "gor", tornlen=lambda i, s: 1 + (i * 7) % (ENTRY - 1))
        res, _ = replay(ctx, helper, write_real(ctx, scfg, "S"), s_cases)
        judge(ctx, st, "concurrency", "S", scfg, s_cases, res)
        sim_cases = len(s_cases)
        n_conc += sim_cases

    # ---- 5. negative self-tests of the binding
    neg = json.loads(json.dumps(next(c for c in g_cases if any(s["a"] == "c_open" for s in c["steps"]))))
    i_open = next(i for i, s in enumerate(neg["steps"]) if s["a"] == "c_open")
    neg["steps"][i_open]["obs"]["d"] = [{"x": 0, "b": [], "m": "-"} for _ in neg["steps"][i_open]["obs"]["d"]]
    nres, _ = replay(ctx, helper, write_real(ctx, gcfg, "G"), [neg], j=1)
    # (drift before the corrupted step means that the tree under test already leaves the model there: still detected)
    if not nres[neg["id"]].get("drift") or nres[neg["id"]]["drift"]["step"] > i_open:
        raise Inconclusive("negative self-test: a corrupted model state was not reported as drift at its step")
    # the oracle itself: the same behaviours replayed with a value table whose bytes differ from the ones the
    # oracle knows (as if the cache handed out other bytes) must be flagged
    wrong_vb = [bytes(b ^ 0x02 if i == len(v) - 1 else b for i, b in enumerate(sym_bytes(v))) for v in gcfg["vb"]]
    hitting = [c for c in g_cases if c["steps"][-1]["r"]["kind"] == "bytes"][:20]
    if not hitting:
        raise Inconclusive("no generated concurrency behaviour ends in a hit")
    gres_again, _ = replay(ctx, helper, write_real(ctx, gcfg, "Gneg", vb_override=wrong_vb), hitting, j=4)
    neg_fails = judge(ctx, Stats(), "concurrency", "G", gcfg, hitting, gres_again, report=False)
    if not neg_fails:
        raise Inconclusive("negative self-test: lookups returning bytes that were never stored were not flagged by the oracle")

    # ---- 6. end to end + multi-process random variant
    n_e2e, e2e_classes = e2e(ctx, sc)
    stress_out = stress(ctx, helper) if not quick else None
    n_unstable = unstable_source(ctx, helper)

    # ---- vacuity
    acted = {s["a"] for cs in (c_cases, d_cases, g_cases, t_cases) for c in cs for s in c["steps"]}
    want = set(GATES) | {"start", "crash", "truncate", "delete", "age", "foreign"}
    if want - acted:
        raise Inconclusive("replayed behaviours never take: %s" % sorted(want - acted))
    if st.hits == 0 or st.misses == 0 or crashed_puts == 0:
        raise Inconclusive("replays were vacuous: hits=%d misses=%d crashed puts=%d" % (st.hits, st.misses, crashed_puts))
    if st.drifts:
        ctx.note("conformance drift in %d of %d replayed behaviours (not a violation); first: %s"
                 % (len(st.drifts), st.cases, json.dumps(st.drifts[0])[:1500]))

    ctx.coverage = {
        "states": states,
        "transitions": transitions,
        "traces_validated_against_impl": st.cases + n_e2e + n_strace,
        "exhaustive": not quick,
        "tlc": {name: {"distinct": t[0].distinct, "generated": t[0].generated, "wall_s": round(t[0].wall, 1),
                       "cases": len(t[1]) if t[1] is not None else 0} for name, t in tl.items()},
        "invariants": ["TypeOK", "LookupSoundBytes", "LookupSoundFileModTrimRace", "HitThenReadableModTrimRace",
                       "SizeImpliesComplete", "IndexSound", "NoLeak", "deadlock-freedom"],
        "crash_cases_replayed": n_crash_cases, "crash_children": n_children, "crashed_puts": crashed_puts,
        "strace_inject_crosschecks": n_strace,
        "damage_cases_replayed": n_damage_cases, "index_lengths_swept": ENTRY - 1,
        "concurrency_cases_replayed": n_conc, "simulated_behaviours_replayed": sim_cases,
        "race_witnesses_from_model": len(t_cases), "race_witnesses_reproduced_on_code": t_reproduced,
        "steps_replayed": st.steps, "put_postconditions_observed": getattr(st, "putfiles", 0), "real_lookups_judged": st.lookups, "hits": st.hits, "misses": st.misses,
        "property_failures": st.failures,
        "drift": {"behaviours": len(st.drifts), "first": st.drifts[0] if st.drifts else None},
        "e2e_runs": n_e2e, "e2e_damage_classes": e2e_classes,
        "stress": stress_out, "unstable_source_scenarios": n_unstable, "overlapping_writer_behaviours": len(g_overlap),
        "samples": samples,
        "trusted_base": ["TLC", "go toolchain", "Linux VFS semantics of the scratch file system", "strace"],
    }
    ctx.assumptions = [
        "faults as the property lists them: process crash at any FS operation; truncation / deletion / ageing while no operation is in flight",
        "bounds: <= 3 processes, <= 3 operations per process, <= 2 keys, values of 0..3 bytes, mtimes old/fresh; OS crashes (lost page cache) and I/O errors are not modelled",
        "process crash inside a single write(2) / rename(2) is atomic",
        "the GetFile lookup is judged together with the client's later open of the returned name (as lintcmd/runner uses it)",
    ]
