"""C07 - U1000 is deletion-safe and catches every zero-reference object.

Spec: specs/Unused.tla (+ MCUnused.tla, UnusedObs.tla).  The spec defines the two brackets that do not
depend on U1000's own rules - MustReport(graph) and DeletionSafe(graph, D) under the deletion operator
fixed in DESIGN C07 - and TLC (generation machine) enumerates declaration graphs, checks on every one
that the brackets are consistent (DeletionSafe(MustReport): the property is satisfiable) and emits it.
Negative control: the invariant "every single object can be deleted" must FAIL in TLC.

Conformance (R + the property's own oracle go/types): every selected graph is rendered as Go source
(checks/unused_gen.py; it must type-check - otherwise INCONCLUSIVE), the REAL analyzer runs through the
REAL runner (harness/cmd/h-unused) and
  (i)  every reported object is deleted together with what is declared inside it (AST level, the
       operator of DESIGN C07: pure writes to removed variables are neutralised, imports that became
       unused are dropped) and go/types must accept the remainder          - else VIOLATION (false positive)
  (ii) MustReport(graph) must be a subset of the reported objects          - else VIOLATION (false negative)
  (O)  the reported set is handed back to TLC (UnusedObs.tla) which evaluates the spec's DeletionSafe on
       it; a disagreement with go/types is a model bug                     -> INCONCLUSIVE.
Corpora: unused/testdata, repository packages and the hand-written shapes module
(harness/cmd/h-unused/testdata/shapes: every numbered rule of unused.go in syntactic positions outside the
vocabulary of Unused.tla), with MustReport computed syntactically from types.Info.Uses (excluding what the
documented rules use for reasons other than references: init, main, blank, generated files, linkname, cgo
exports, lint:ignore).
"""
import json
import os
import shutil
from collections import Counter

import unused_gen as ug
import vlib
from vlib import Inconclusive

BATCH = 350


def analyse(ctx, helper, pkgs, tag, inject=None):
    """pkgs: {dir: files} -> {dir: (status map, del result, typed errors)} via h-unused -raw -del."""
    names = sorted(pkgs)
    batches = [names[i:i + BATCH] for i in range(0, len(names), BATCH)]

    def one(bi):
        mod = ctx.tmp("%s-mod%d" % (tag, bi))
        ug.write_module(mod, {d: pkgs[d] for d in batches[bi]})
        flags = ["-raw", "-del"]
        if inject:
            ip = os.path.join(ctx.tmp("inject"), "inject-%s-%d.json" % (tag, bi))
            with open(ip, "w") as f:
                json.dump({"ex.test/m/" + d: v for d, v in inject.items()}, f)
            flags += ["-inject", ip]
        out = ug.run_helper(ctx, helper, mod, flags)
        shutil.rmtree(mod, ignore_errors=True)
        return out

    res = {}
    for out in vlib.pmap(one, range(len(batches)), workers=3):
        st = ug.status_by_pkg(out)
        terr = ug.typed_errors(out)
        dels = {x["id"]: x for x in out.get("del") or []}
        for pid in terr:
            d = pid.split("/")[-1]
            if terr[pid] or st.get(pid) is None:
                raise Inconclusive("generated package %s does not type-check (generator bug): %s\n%s" % (d, terr[pid], pkgs.get(d)))
            res[d] = (st[pid], dels.get(pid))
    missing = [d for d in names if d not in res or res[d][1] is None]
    if missing:
        raise Inconclusive("no result for %d generated packages, e.g. %s" % (len(missing), missing[:3]))
    return res


def check_graphs(ctx, helper, cases):
    pkgs, plan = {}, []
    for ci, c in enumerate(cases):
        g = ug.Graph(c)
        files, pos = ug.render(g)
        d = "g%05d" % ci
        pkgs[d] = files
        plan.append((ci, d, pos, "plain"))
        # Unused.tla ShareSpec: the same graph with related objects declared by one spec
        if "share" in c and sorted(map(list, c["share"])) != g.share():
            raise Inconclusive("ShareSpec of the spec %s and of the renderer %s differ" % (c["share"], g.share()))
        if g.share():
            files2, pos2 = ug.render(g, style="grouped")
            if files2 != files:
                d2 = "h%05d" % ci
                pkgs[d2] = files2
                plan.append((ci, d2, pos2, "grouped"))
    res = analyse(ctx, helper, pkgs, "c07")
    stats = Counter()
    records, meta = [], {}
    nontrivial = 0
    for ci, d, pos, style in plan:
        c = cases[ci]
        g = ug.Graph(c)
        stm, dl = res[d]
        st = ug.obj_status(g, pos, d, stm)
        stats["graphs"] += style == "plain"
        stats["renderings"] += 1
        stats["renderings_grouped"] += style == "grouped"
        reported = sorted(o for o in st if st[o] == "unused")
        if reported:
            nontrivial += 1
        stats["reported_objects"] += len(reported)
        stats["must_objects"] += len(g.must)
        stats["removed_decls"] += dl["removed_decls"]
        stats["neutralised_writes"] += dl["neutralised_writes"]
        key = ug.graph_key(c) + ("-grouped" if style == "grouped" else "")
        # (ii) false negatives
        missed = [x for x in g.must if st.get(x) != "unused"]
        if missed:
            ctx.violation(key + "-miss",
                          "U1000 does not report %s (%s): unexported, package-level, no identifier refers to it (graph %s)" % (
                              [g.name(x) for x in missed], [st.get(x) for x in missed], key),
                          {"kind": "miss", "graph": c, "style": style, "missed": missed, "status": st, "files": pkgs[d]})
        # (i) false positives
        if dl.get("unmatched"):
            raise Inconclusive("reported objects without a defining identifier in %s: %s" % (d, dl["unmatched"]))
        if dl.get("unsupported"):
            stats["deletion_unsupported"] += 1
            ctx.note("graph %s: the deletion operator has no rule for reported %s; skipped" % (key, dl["unsupported"]))
            continue
        if dl.get("errors"):
            ctx.violation(key + "-del",
                          "deleting what U1000 reports (%s) breaks the package: %s (graph %s)" % (
                              [g.name(o) for o in reported], dl["errors"][:3], key),
                          {"kind": "del", "graph": c, "style": style, "reported": reported, "errors": dl["errors"], "files": pkgs[d], "after": dl.get("source")})
        if style != "plain":
            continue
        records.append({"t": "del", "idx": ci, "objs": c["objs"], "edges": c["edges"], "reported": reported, "variants": []})
        meta[ci] = (d, bool(dl.get("errors")), reported)
    # (O) the spec's DeletionSafe on the same deletion
    obs, tr = ug.tlc_observe(ctx, records)
    disagreements = []
    for ci, (d, broke, reported) in meta.items():
        o = obs[ci]
        if sorted(o["must"]) != ug.Graph(cases[ci]).must:
            raise Inconclusive("UnusedObs recomputed MustReport %s, the generation run said %s" % (o["must"], cases[ci].get("must")))
        stats["deletion_safe_cross_checks"] += 1
        if o["safe"] == broke:
            disagreements.append({"graph": cases[ci], "reported": reported, "spec_safe": o["safe"], "go_types_accepts": not broke, "files": pkgs[d]})
    return stats, nontrivial, tr, disagreements, (pkgs[plan[len(plan) // 2][1]] if plan else None)


# ---------------------------------------------------------------------------------------------
# corpora

REPO_PATTERNS_QUICK = "./unused ./pattern ./config ./analysis/edit ./internal/sync"
SHAPES = os.path.join(vlib.HARNESS, "cmd", "h-unused", "testdata", "shapes")


def corpus_key(tag, pid, obj):
    """Replay key of a corpus finding; for the shapes corpus it names the package."""
    k = vlib.canon_key(obj)
    return "shapes-%s-%s" % (pid.split("/")[-1], k) if tag == "shapes" else k


def check_corpus(ctx, helper, tag, moddir, patterns, min_pkgs):
    out = ug.run_helper(ctx, helper, moddir, ["-raw", "-del", "-must", "-patterns", patterns], cache=ctx.tmp("corp-cache"))
    stats = Counter()
    raw = {r["id"]: r for r in out.get("raw") or []}
    dels = {x["id"]: x for x in out.get("del") or []}
    for t in out.get("typed") or []:
        pid = t["id"]
        if t.get("errors") or pid not in raw or raw[pid].get("failed"):
            stats["skipped_not_building"] += 1
            continue
        stats["packages"] += 1
        rep = set((o["file"], o["line"], o["col"]) for o in raw[pid].get("unused") or [])
        stats["reported_objects"] += len(rep)
        if t.get("must_skipped"):
            stats["must_skipped_" + t["must_skipped"]] += 1
        for m in t.get("must") or []:
            stats["must_objects"] += 1
            if (m["file"], m["line"], m["col"]) not in rep:
                ctx.violation(corpus_key(tag, pid, {"corpus": tag, "pkg": pid, "obj": m["name"], "kind": m["kind"]}) + "-miss",
                              "U1000 does not report %s %s (%s:%d) in %s: unexported, package-level, no identifier refers to it" % (
                                  m["kind"], m["name"], m["file"], m["line"], pid),
                              {"kind": "corpus-miss", "corpus": tag, "pkg": pid, "object": m})
        dl = dels.get(pid)
        if dl is None:
            continue
        if dl.get("unmatched"):
            stats["unmatched"] += 1
            ctx.note("%s: reported objects without a defining identifier: %s" % (pid, dl["unmatched"][:3]))
            continue
        if dl.get("unsupported"):
            stats["deletion_unsupported"] += 1
            ctx.note("%s: the deletion operator has no rule for reported %s; skipped" % (pid, dl["unsupported"][:3]))
            continue
        stats["deletions_checked"] += 1
        stats["removed_decls"] += dl["removed_decls"]
        stats["neutralised_writes"] += dl["neutralised_writes"]
        stats["dropped_imports"] += dl["dropped_imports"]
        if dl.get("errors"):
            ctx.violation(corpus_key(tag, pid, {"corpus": tag, "pkg": pid}) + "-del",
                          "deleting what U1000 reports in %s breaks the package: %s" % (pid, dl["errors"][:3]),
                          {"kind": "corpus-del", "corpus": tag, "pkg": pid, "errors": dl["errors"], "after": dl.get("source"),
                           "reported": raw[pid].get("unused")})
    if stats["packages"] < min_pkgs:
        raise Inconclusive("corpus %s: only %d packages analysed" % (tag, stats["packages"]))
    return stats


def run_corpora(ctx, helper):
    src = os.path.join(vlib.REPO, "unused", "testdata", "src", "example.com")
    td = ctx.tmp("corp-testdata")
    shutil.copytree(src, td, dirs_exist_ok=True)
    with open(os.path.join(td, "go.mod"), "w") as f:
        f.write("module example.com\n\ngo 1.22\n")
    s1 = check_corpus(ctx, helper, "testdata", td, "./...", 40)
    s2 = check_corpus(ctx, helper, "repo", vlib.REPO, REPO_PATTERNS_QUICK if ctx.quick else "./...", 5)
    # the hand-written shapes module (both tiers: it is tiny); its std dependencies are already in the shared cache
    sd = ctx.tmp("corp-shapes")
    shutil.copytree(SHAPES, sd, dirs_exist_ok=True)
    s3 = check_corpus(ctx, helper, "shapes", sd, "./...", 35)
    if (s3["reported_objects"] < 100 or s3["must_objects"] < 50) and not ctx.violations:
        raise Inconclusive("corpus shapes: only %d reported / %d MustReport objects (the corpus is meant to contain unused objects)" % (
            s3["reported_objects"], s3["must_objects"]))
    return {"testdata": dict(s1), "repo": dict(s2), "shapes": dict(s3)}


# ---------------------------------------------------------------------------------------------
# negative self-tests

NEG_GRAPH = {"objs": [{"k": "func", "ex": True, "ow": 0, "sl": 0, "ty": 0}, {"k": "func", "ex": False, "ow": 0, "sl": 0, "ty": 0},
                      {"k": "func", "ex": False, "ow": 0, "sl": 0, "ty": 0}, {"k": "var", "ex": False, "ow": 0, "sl": 0, "ty": 0}],
             "edges": [{"r": "call", "a": 1, "b": 2, "c": 0}, {"r": "write", "a": 1, "b": 4, "c": 0}],
             "must": [3]}


def self_test(ctx, helper):
    """(1) the deletion oracle must reject the deletion of an object that is still called (injected into the
    reported set); (2) it must accept the deletion of a write-only variable (the operator neutralises the
    write) and of the zero-reference function; (3) TLC: DeletionSafe is not vacuous."""
    g = ug.Graph(NEG_GRAPH)
    files, pos = ug.render(g)
    inv = {o: k for k, o in pos.items()}
    f2 = inv[2]
    res = analyse(ctx, helper, {"neg1": files, "neg2": files}, "neg",
                  inject={"neg2": [{"file": "neg2/" + f2[0], "line": f2[1], "col": f2[2], "kind": "func", "name": "f2"}]})
    st = ug.obj_status(g, pos, "neg1", res["neg1"][0])
    if st != {1: "used", 2: "used", 3: "unused", 4: "unused"}:
        raise Inconclusive("self-test: unexpected verdicts %s" % st)
    d1, d2 = res["neg1"][1], res["neg2"][1]
    if d1.get("errors") or d1["neutralised_writes"] != 1 or d1["removed_decls"] != 2:
        raise Inconclusive("self-test: deleting a zero-reference function and a write-only variable should type-check: %s" % d1)
    if not d2.get("errors"):
        raise Inconclusive("self-test: go/types accepted the deletion of a function that is still called")
    neg = vlib.run_tlc(ctx, "MCUnused", "MCUnused_negdel.cfg", workers=2, timeout=1200)
    if neg.violated != "NegSingletonsSafe":
        raise Inconclusive("negative control: TLC did not refute 'every single object can be deleted' (%s)" % neg.violated)
    return 2


# ---------------------------------------------------------------------------------------------

import time


def lap(ctx, what):
    now = time.time()
    ctx.timing = getattr(ctx, "timing", {})
    ctx.timing[what] = round(now - getattr(ctx, "_lap", ctx.t0), 1)
    ctx._lap = now


def run(ctx):
    ctx.level = "exploration"
    helper = vlib.go_build_harness(ctx, "cmd/h-unused")

    if ctx.replay:
        doc = json.load(open(ctx.replay))
        case = doc["case"]
        if case.get("kind", "").startswith("corpus"):
            run_corpora(ctx, helper)
            return
        check_graphs(ctx, helper, [case["graph"]])
        return

    lap(ctx, "build")
    n_self = self_test(ctx, helper)
    lap(ctx, "self_test")
    cases, gen_runs = ug.generate(ctx)
    lap(ctx, "tlc_generation")
    chosen = ug.select(ctx, cases, ug.cap(400 if ctx.quick else 10000))
    stats, nontrivial, tr, disagreements, sample_src = check_graphs(ctx, helper, chosen)
    lap(ctx, "graphs")
    corp = run_corpora(ctx, helper)
    lap(ctx, "corpora")

    evaluations = stats["graphs"] + sum(corp[t].get("packages", 0) for t in ("testdata", "repo", "shapes")) + n_self
    ctx.coverage = {
        "evaluations": evaluations,
        "distinct_nontrivial": nontrivial,
        "rule": "cases = declaration graphs enumerated by TLC from Unused.tla (generation machine, <= 6 objects, <= 3 references, <= 2 interfaces; "
                "seeded sub-sampling by the Thin constraint; thorough adds every graph with <= 3 objects / <= 2 references), the brackets are "
                "checked by TLC on every enumerated graph; selected graphs (feature cover + seeded sample) are rendered, analysed by the real "
                "analyzer through the real runner, the reported objects are deleted and go/types judges the remainder; MustReport must be "
                "reported; evaluations = packages analysed (generated + corpora); a graph is non-trivial if U1000 reports at least one object",
        "samples": [{"graph": chosen[len(chosen) // 2], "source": sample_src}, {"corpora": corp}],
        "exhaustive": False,
        "states": sum(r["states"] for r in gen_runs),
        "transitions": sum(r["generated"] for r in gen_runs),
        "tlc": {"generation": gen_runs, "invariants": ["Brackets", "BracketsSane"],
                "negative_control": {"config": "MCUnused_negdel.cfg", "violated": "NegSingletonsSafe"},
                "observation": {"module": "UnusedObs", "artefacts": tr.distinct - 1 if tr else 0}},
        "graphs_enumerated_and_bracket_checked": sum(r["cases"] for r in gen_runs),
        "graphs_replayed": stats["graphs"],
        "phase_wall_s": ctx.timing,
        "replay": dict(stats),
        "spec_vs_gotypes_disagreements": len(disagreements),
        "traces_validated_against_impl": evaluations,
        "trusted_base": ["TLC", "go/types (the property's oracle for 'still type-checks')", "go/packages", "checks/unused_gen.py templates (every package is type-checked first)"],
    }
    ctx.assumptions = [
        "deletion operator of DESIGN C07: a reported object goes with everything declared inside it (for a type: fields, methods, type parameters); "
        "pure writes v = e / v op= e / v++ to a removed variable are neutralised; imports that became unused are dropped; an implicitly repeated "
        "constant expression moves to the next spec",
        "MustReport is the literal reading: no identifier at all resolves to the object (self references and method receivers count as references); "
        "aliases and const-group members are not in MustReport",
        "corpora MustReport excludes init, main (package main), blank, generated files, go:linkname / cgo-exported names and files with a lint:ignore U1000 directive",
        "vocabulary of Unused.tla (13 kinds, 11 relations); other shapes (function-local types, imports, generics beyond one parameter, "
        "statements, ...) only through the corpora, in particular the hand-written shapes module",
    ]
    if disagreements and not ctx.violations:
        d = os.path.join(vlib.VERIF, "replays", "C07")
        os.makedirs(d, exist_ok=True)
        with open(os.path.join(d, "model-disagreement.json"), "w") as f:
            json.dump(disagreements[:20], f, indent=1)
        raise Inconclusive("the spec's DeletionSafe and go/types disagree on %d deletions (model bug, not a verdict); see replays/C07/model-disagreement.json" % len(disagreements))
