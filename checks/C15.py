"""C15 — Nilness facts are sound with respect to real executions.

Spec: specs/IRSem.tla (the IR as a transition system) + specs/IRSemNil.tla (invariant NilnessSound: at every
normal Return, NeverNil => the result is non-nil, AlwaysNil => nil, for the interface value and for the value
it holds; SA4023 corollary: a comparison a diagnostic calls impossible never takes the other value).

Per program (seeded random generator `h-irsem gennil` over the property's vocabulary + the DIRECTED family
`gennil -directed` (one function per transfer rule of the analysis x merging shape: the value produced by the rule is
merged, via a phi or via two return statements, with a definitely non-nil value in result 0 and with nil in result 1,
which is where a rule that leaves its value unset or is too optimistic becomes visible) + the REFINEMENT-BY-USE family
`gennil -use` (instruction that makes its operand non-nil x source of the value x shape in which the use happens on one
path only and the value is returned after the join) + hand-written corpus, root
package + ./lib so that facts cross a package boundary):
  * claims: the REAL analysis results — nilness.Result read by a probe analyzer that runs, together with
    SA4023, through the real staticcheck runner (lintcmd.Command in h-irsem claims);
  * IR: built by the real builder in staticcheck's mode (GlobalDebug) and exported (h-irsem nilexport),
    together with ALL parameter vectors of the small domain (pointer-likes {nil, fresh}, interfaces {nil,
    typed nil pointer inside, non-nil inside}, ints {0,1}, bools, pointer-like package variables likewise);
  * native: the same calls compiled with go build and run; the driver prints the nil-ness of every result.
TLC executes every (function, vector) and evaluates NilnessSound.  A claim contradicted by an IR execution
whose nil-ness pattern the native run confirms is a VIOLATION.
"""
import json
import os
import shutil

import irsemlib
import vlib
from vlib import Inconclusive

NILCORPUS = os.path.join(vlib.HARNESS, "cmd", "h-irsem", "testdata", "nilcorpus")
NILNAME = {0: "-", 1: "NeverNil", 2: "AlwaysNil", 3: "MaybeNilGlobal", 4: "MaybeNil"}


class NilProgram:
    def __init__(self, name, d):
        self.name, self.dir = name, d
        self.prog = None      # exported Prog
        self.runs = None      # runs from nilexport, extended with claims + nat
        self.claims = {}      # (pkg, fn) -> [[o, i], ...] as seen by the package itself
        self.imp = {}         # (pkg, fn) -> claims as imported by the dependent package
        self.sa4023 = []      # (line, col, message) in prog.go
        self.error = None
        self.files = {}
        self.meta = {}        # directed programs: function name -> {Kind, Src, Shape, Res}


def read_files(d):
    out = {}
    for root, _, files in os.walk(d):
        for f in files:
            if f.endswith(".go") or f == "go.mod":
                p = os.path.join(root, f)
                out[os.path.relpath(p, d)] = open(p).read()
    return out


def prepare(ctx, helper, np, maxvec):
    d = np.dir
    np.files = {k: v for k, v in read_files(d).items() if k != "main_native.go"}
    if os.path.exists(os.path.join(d, "dirmeta.json")):
        np.meta = {m["Name"]: m for m in json.load(open(os.path.join(d, "dirmeta.json")))}
    env = vlib.go_env({"STATICCHECK_CACHE": ctx.tmp("sc-cache-" + np.name)})
    rc, so, se = vlib.sh([helper, "claims", "-dir", d], env=env, timeout=900)
    if rc != 0:
        np.error = "claims (real runner) failed rc=%d: %s" % (rc, (se or so)[-1500:])
        return np
    for line in so.splitlines():
        if not line.startswith("{"):
            continue
        dg = json.loads(line)
        if dg["code"] == "XN1000":
            kind, pkg, fn, ret, outer, inner = dg["message"].split("|")
            tgt = np.claims if kind == "own" else np.imp
            lst = tgt.setdefault((pkg, fn), [])
            while len(lst) <= int(ret):
                lst.append([4, 4])
            lst[int(ret)] = [int(outer), int(inner)]
        elif dg["code"] == "SA4023":
            if os.path.basename(dg["location"]["file"]) == "prog.go":
                np.sa4023.append((dg["location"]["line"], dg["location"]["column"], dg["message"]))
        elif dg["code"] in ("compile", "config"):
            np.error = "program does not lint cleanly: %s" % dg["message"]
            return np
    rc, so, se = vlib.sh([helper, "nilexport", "-dir", d, "-out", os.path.join(d, "doc.json"), "-max", str(maxvec)],
                         env=vlib.go_env(), timeout=300)
    if rc != 0:
        np.error = "nilexport failed: " + (se or so)[-1500:]
        return np
    doc = json.load(open(os.path.join(d, "doc.json")))
    np.prog, np.runs = doc["progs"][0], doc["runs"]
    rc, so, se = vlib.sh(["go", "build", "-tags", "drv", "-o", "prog.bin", "."], cwd=d, env=vlib.go_env(), timeout=600)
    if rc != 0:
        np.error = "native build failed: " + (se or so)[-2000:]
        return np
    rc, so, se = vlib.sh(["timeout", "60", os.path.join(d, "prog.bin")], cwd=d, timeout=90)
    if rc != 0:
        np.error = "native run failed rc=%d: %s" % (rc, se[-1500:])
        return np
    nat, cur = {}, None
    for line in se.splitlines():
        parts = line.split(" ")
        if parts[0] == "CALL":
            cur = (parts[1], int(parts[2]))
            nat[cur] = None
        elif parts[0] == "NIL" and cur:
            nat[cur] = {"panic": 0, "pat": [{"o": int(t.split(":")[0]), "i": int(t.split(":")[1])} for t in parts[1:]]}
        elif parts[0] == "PANIC" and cur:
            nat[cur] = {"panic": 1, "pat": []}
    mainpkg = "ex.test/nilm"
    for r in np.runs:
        key = (r["fn"], r["vec"])
        if nat.get(key) is None:
            np.error = "native run produced no outcome for %s vector %d" % key
            return np
        r["nat"] = nat[key]
        cl = np.claims.get((mainpkg, r["fn"]))
        nres = len(r["resif"])
        r["claims"] = [{"o": c[0], "i": c[1]} for c in (cl or [[4, 4]] * nres)]
        if len(r["claims"]) != nres:
            np.error = "claims for %s have %d entries, function has %d results" % (r["fn"], len(r["claims"]), nres)
            return np
    # SA4023 marks on the comparisons of the package under test
    marked = 0
    for ln, col, msg in np.sa4023:
        chk = 1 if "never true" in msg else 2 if "always true" in msg else 0
        for f in np.prog["fns"]:
            if not f["name"].startswith("main."):
                continue
            for b in f["blocks"]:
                for ins in b["instrs"]:
                    if ins["op"] == "binop" and ins["pos"] == "%d:%d" % (ln, col) and chk:
                        ins["chk"] = chk
                        marked += 1
    np.marked = marked
    return np


def sound(claim, pat):
    if claim["o"] == 1 and pat["o"] != 0:
        return False
    if claim["o"] == 2 and pat["o"] != 1:
        return False
    if pat["i"] != 2:
        if claim["i"] == 1 and pat["i"] != 0:
            return False
        if claim["i"] == 2 and pat["i"] != 1:
            return False
    return True


def run_batch(ctx, nps, workers, strip_chk=False, only=None):
    progs, runs, meta = [], [], []
    for np in nps:
        p = np.prog
        if strip_chk:
            p = json.loads(json.dumps(p))
            for f in p["fns"]:
                for b in f["blocks"]:
                    for ins in b["instrs"]:
                        ins["chk"] = 0
        progs.append(p)
        for r in np.runs:
            if only is not None and (np.name, r["fn"], r["vec"]) not in only:
                continue
            runs.append({"p": len(progs), "f": r["f"], "args": r["args"], "cells": r["cells"], "gvals": r["gvals"],
                         "claims": r["claims"], "nat": r["nat"], "out": [], "res": [], "panic": 0, "pv": irsemlib.mk("iface")})
            meta.append((np, r))
    if not runs:
        return None, []
    doc = {"progs": progs, "runs": runs, "validate": 0}
    r, per = irsemlib.run_tlc_doc(ctx, doc, workers=workers, timeout=3000, module="IRSemNil", cfg="IRSemNil.cfg")
    out = []
    for i, (np, run) in enumerate(meta):
        out.append((np, run, per.get(i + 1, [])))
    return r, out


def label(np, fn):
    """directed programs: which transfer rule / source expression / shape the function exercises"""
    m = np.meta.get(fn)
    return " {%s: `%s` [%s]}" % (m["Kind"], m["Src"], m["Shape"]) if m else ""


def claim_str(cl):
    return "[" + " ".join("{%s %s}" % (NILNAME.get(c["i"], "?"), NILNAME.get(c["o"], "?")) for c in cl) + "]"


def run(ctx):
    ctx.level = "model_checking"
    helper = vlib.go_build_harness(ctx, "cmd/h-irsem")
    workers = 4
    if ctx.quick:
        # 2 random programs + the directed family, every source once in a seeded merging shape
        # + the refinement-by-use family, every use once (source and shape rotate with the seed), one program
        ngen, nfns, maxvec, ndir, dirfull, nuse = 2, 12, 32, 2, False, 1
    else:
        # 12 random programs + the directed family, every source in every shape
        # + the refinement-by-use family: every use x every source, all shapes for the default-valued sources
        ngen, nfns, maxvec, ndir, dirfull, nuse = 12, 14, 64, 6, True, 6
    if os.environ.get("VERIF_CAP"):      # smoke-run of a tier with fewer generated programs
        ngen = min(ngen, int(os.environ["VERIF_CAP"]))

    nps = []
    if ctx.replay:
        doc = json.load(open(ctx.replay))
        d = ctx.tmp("replay-prog")
        for rel, text in doc["case"]["files"].items():
            os.makedirs(os.path.dirname(os.path.join(d, rel)) or d, exist_ok=True)
            open(os.path.join(d, rel), "w").write(text)
        nps.append(NilProgram(doc["case"]["program"], d))
    else:
        gd = ctx.tmp("gennil")
        rc, so, se = vlib.sh([helper, "gennil", "-seed", str(ctx.seed), "-n", str(ngen), "-fns", str(nfns), "-dir", gd,
                              "-directed", str(ndir), "-use", str(nuse)] + (["-full"] if dirfull else []), timeout=120)
        if rc != 0:
            raise Inconclusive("generator failed: " + se[-1000:])
        if os.path.isdir(NILCORPUS):
            for name in sorted(os.listdir(NILCORPUS)):
                dst = os.path.join(ctx.tmp("nilcorpus"), name)
                shutil.copytree(os.path.join(NILCORPUS, name), dst)
                nps.append(NilProgram("corpus_" + name, dst))
        for name in sorted(os.listdir(gd)):
            nps.append(NilProgram(name, os.path.join(gd, name)))
    vlib.pmap(lambda np: prepare(ctx, helper, np, maxvec), nps, workers=4)
    for np in nps:
        if np.error:
            raise Inconclusive("%s: %s" % (np.name, np.error))

    # facts exported by ./lib must be the facts its dependents import
    fact_pairs = 0
    for np in nps:
        for key, imp in np.imp.items():
            own = np.claims.get(key)
            fact_pairs += 1
            if own is not None and own != imp:
                ctx.violation(vlib.canon_key({"files": np.files, "fn": key[1], "kind": "import"}),
                              "%s: nilness of %s.%s is %s in its own package but %s when imported" % (np.name, key[0], key[1], own, imp),
                              {"kind": "c15", "program": np.name, "files": np.files, "fn": key[1]})

    stats = {"states": 0, "transitions": 0}
    results = []
    groups = [nps[i:i + 6] for i in range(0, len(nps), 6)]
    for grp in groups:
        r, out = run_batch(ctx, grp, workers)
        if r is None:
            continue
        stats["states"] += r.distinct
        stats["transitions"] += r.generated
        results += out

    cnt = {"ok": 0, "unsound": 0, "natdiff": 0, "sa4023": 0, "unsup": 0, "other": 0, "definite_claims_checked": 0, "panic_runs": 0}
    natdiffs, recheck = [], set()
    unsup_why = {}
    reported = set()
    for np, run, cases in results:
        if not cases:
            raise Inconclusive("TLC produced no terminal state for %s %s" % (np.name, run["desc"]))
        c = cases[0]
        v = c["v"]
        if any(x["v"] == "unsound" for x in cases):
            v, c = "unsound", next(x for x in cases if x["v"] == "unsound")
        cnt[v if v in cnt else "other"] += 1
        if c["s"] == "panic":
            cnt["panic_runs"] += 1
        if v == "unsup":
            why = "%s (%s)" % (c["why"], "directed " + np.meta[run["fn"]]["Kind"] if run["fn"] in np.meta else np.name.split("_")[0])
            unsup_why[why] = unsup_why.get(why, 0) + 1
        if v in ("ok", "unsound"):
            cnt["definite_claims_checked"] += sum(1 for cl in run["claims"] if cl["o"] in (1, 2) or cl["i"] in (1, 2)) if c["s"] == "done" else 0
        if v == "unsound":
            confirmed = run["nat"]["panic"] == 0 and run["nat"]["pat"] == c["pat"]
            what = "%s %s%s: nilness claims %s but the IR execution returns nil-ness %s (o=1: nil; i=1: nil inside a non-nil interface)" % (
                np.name, run["desc"], label(np, run["fn"]), claim_str(run["claims"]), c["pat"])
            if confirmed:
                if (np.name, run["fn"]) not in reported and len(ctx.violations) < 24:
                    reported.add((np.name, run["fn"]))
                    ctx.violation(vlib.canon_key({"files": np.files, "fn": run["fn"], "kind": "unsound"}), what + "; the native run confirms it",
                                  {"kind": "c15", "program": np.name, "files": np.files, "fn": run["fn"], "vector": run["desc"],
                                   "claims": run["claims"], "ir_pattern": c["pat"], "native": run["nat"]})
            else:
                natdiffs.append(what + " but the native run differs: %s" % run["nat"])
        elif v == "natdiff":
            natdiffs.append("%s %s: IR execution %s %s, native %s" % (np.name, run["desc"], c["s"], c["pat"], run["nat"]))
        elif v == "sa4023":
            recheck.add((np.name, run["fn"], run["vec"]))
        elif v in ("stuck",):
            natdiffs.append("%s %s: IR execution stuck: %s in %s" % (np.name, run["desc"], c["why"], c["at"]))
        # the native run alone contradicting a claim is real-code evidence as well
        if run["nat"]["panic"] == 0 and v not in ("unsound",):
            for cl, pat in zip(run["claims"], run["nat"]["pat"]):
                if not sound(cl, pat) and (np.name, run["fn"]) not in reported:
                    reported.add((np.name, run["fn"]))
                    ctx.violation(vlib.canon_key({"files": np.files, "fn": run["fn"], "kind": "unsound"}),
                                  "%s %s%s: nilness claims %s but the native run returns nil-ness %s (IR execution: %s)" % (
                                      np.name, run["desc"], label(np, run["fn"]), claim_str(run["claims"]), run["nat"]["pat"], v),
                                  {"kind": "c15", "program": np.name, "files": np.files, "fn": run["fn"], "vector": run["desc"],
                                   "claims": run["claims"], "native": run["nat"]})

    # SA4023 corollary: re-execute without the marks to obtain the pattern and compare it with the native run
    if recheck:
        r, out = run_batch(ctx, [np for np in nps if any(k[0] == np.name for k in recheck)], workers, strip_chk=True, only=recheck)
        for np, run, cases in out:
            c = cases[0] if cases else None
            confirmed = c is not None and ((c["s"] == "done" and run["nat"]["panic"] == 0 and run["nat"]["pat"] == c["pat"]) or
                                           (c["s"] == "panic" and run["nat"]["panic"] == 1))
            what = "%s %s: a comparison flagged by SA4023 as constant takes the other value (diagnostics: %s)" % (np.name, run["desc"], np.sa4023)
            if confirmed and (np.name, run["fn"], "sa") not in reported:
                reported.add((np.name, run["fn"], "sa"))
                ctx.violation(vlib.canon_key({"files": np.files, "fn": run["fn"], "kind": "sa4023"}), what + "; the native run follows the same path",
                              {"kind": "c15", "program": np.name, "files": np.files, "fn": run["fn"], "vector": run["desc"], "sa4023": np.sa4023})
            elif not confirmed:
                natdiffs.append(what + " but the native run differs")

    # negative self-test: a flipped definite claim must be reported unsound
    neg = None
    for np, run, cases in results:
        if cases and cases[0]["v"] == "ok" and cases[0]["s"] == "done" and any(cl["o"] in (1, 2) for cl in run["claims"]):
            neg = (np, run)
            break
    if neg is None:
        raise Inconclusive("negative self-test: no run with a definite claim")
    np, run = neg
    nrun = json.loads(json.dumps(run))
    for cl in nrun["claims"]:
        if cl["o"] in (1, 2):
            cl["o"] = 3 - cl["o"]
    fake = NilProgram(np.name + "_neg", np.dir)
    fake.prog, fake.runs = np.prog, [nrun]
    r, out = run_batch(ctx, [fake], 2)
    if not out or not out[0][2] or out[0][2][0]["v"] != "unsound":
        raise Inconclusive("negative self-test: a flipped claim was not reported unsound: %s" % (out[0][2] if out else None))

    if natdiffs and not ctx.violations:
        for s in natdiffs[:8]:
            ctx.note(s)
        if len(natdiffs) > max(3, len(results) // 50):
            raise Inconclusive("%d IR executions disagree with the native run (IRSem or builder problem, see C01):\n  %s"
                               % (len(natdiffs), "\n  ".join(natdiffs[:10])))
    total = len(results)
    if total == 0 or cnt["definite_claims_checked"] == 0:
        raise Inconclusive("no definite claim was exercised")
    samples = []
    for np, run, cases in results[:: max(1, total // 4)][:4]:
        samples.append({"program": np.name, "call": run["desc"], "claims": claim_str(run["claims"]),
                        "ir": {"status": cases[0]["s"], "pattern": cases[0]["pat"]}, "native": run["nat"], "verdict": cases[0]["v"]})
    # directed family: per transfer rule, the functions generated and the executions that returned normally
    # refinement-by-use family (Kind "use/<instruction>"): likewise, plus the executions that return nil (the path that
    # skipped the use) and those that panic in the use
    kinds, ukinds = {}, {}
    for np, run, cases in results:
        m = np.meta.get(run["fn"])
        if m and m["Kind"].startswith("use/"):
            k = ukinds.setdefault(m["Kind"][4:], {"functions": set(), "runs": 0, "runs_returning": 0, "runs_returning_nil": 0, "runs_panicking": 0})
            k["runs_returning_nil"] += 1 if run["nat"]["panic"] == 0 and run["nat"]["pat"][0]["o"] == 1 else 0
            k["runs_panicking"] += run["nat"]["panic"]
        elif m:
            k = kinds.setdefault(m["Kind"], {"functions": set(), "runs": 0, "runs_returning": 0})
        else:
            continue
        k["functions"].add((np.name, run["fn"]))
        k["runs"] += 1
        k["runs_returning"] += 1 if cases[0]["s"] == "done" else 0
    for k in list(kinds.values()) + list(ukinds.values()):
        k["functions"] = len(k["functions"])
    ctx.coverage = {
        "directed_family": kinds,
        "directed_functions": sum(k["functions"] for k in kinds.values()),
        "use_family": ukinds,
        "use_functions": sum(k["functions"] for k in ukinds.values()),
        "states": stats["states"],
        "transitions": stats["transitions"],
        "traces_validated_against_impl": total,
        "programs": len(nps),
        "functions": len({(np.name, run["fn"]) for np, run, _ in results}),
        "runs": total,
        "runs_sound": cnt["ok"],
        "runs_unsound": cnt["unsound"],
        "runs_ir_native_disagree": cnt["natdiff"],
        "runs_outside_fragment": cnt["unsup"],
        "runs_outside_fragment_reasons": unsup_why,
        "runs_panicking": cnt["panic_runs"],
        "definite_claims_checked": cnt["definite_claims_checked"],
        "sa4023_diagnostics": sum(len(np.sa4023) for np in nps),
        "sa4023_comparisons_marked": sum(getattr(np, "marked", 0) for np in nps),
        "sa4023_contradicted_runs": cnt["sa4023"],
        "imported_fact_pairs_compared": fact_pairs,
        "exhaustive": True,
        "samples": samples,
        "trusted_base": ["TLC", "go toolchain (native confirmation)", "h-irsem exporter / domain enumeration"],
    }
    ctx.assumptions = [
        "exhaustive over the stated small domain per function (up to the per-function vector cap), not over all inputs",
        "IRSem fragment (see checks/C01.notes.md); unknown callees and recover() are outside it",
        "claims are read through the real runner (lintcmd.Command) from nilness.Result; IR is rebuilt by the same builder in the same mode (GlobalDebug)",
    ]
